/-
C10 — chain sync stores only verified beacons, in chain order, and converges when an honest peer exists.
Model: Drand/Beacon/Sync.lean over the C02 store stack. Peer behaviours are arbitrary functions from the requested
round to a response (dial error or an arbitrary list of stream items); `Sync` is analysed for an arbitrary list of
peers in the order they are tried, i.e. for every permutation `rand.Perm` can produce.
-/
import Drand.Beacon.Sync
import DrandProofs.C02
import Gen.Sync
import Gen.CheckPast
import Gen.Consts

namespace Drand.Beacon.Sync
open Drand Drand.Store Drand.Chain

/-! ### what one `Put` of tryNode does to the node -/

theorem schemePut_base (s : Stack) (b : Beacon) :
    ((s.schemePut b).2 = .ok → (s.schemePut b).1.base = Bolt.put s.base (storedForm s.chained b) ∧
        (s.schemePut b).1.chained = s.chained) ∧
    ((s.schemePut b).2 ≠ .ok → (s.schemePut b).1 = s) := by
  unfold Stack.schemePut storedForm
  cases hc : s.chained with
  | true =>
    simp only [if_true]
    by_cases h3 : s.schemeLast.sig ≠ b.prev
    · simp [h3]
    · simp [h3]
  | false => simp

theorem put_base (s : Stack) (b : Beacon) :
    ((s.put b).2 = .ok → (s.put b).1.base = Bolt.put s.base (storedForm s.chained b) ∧ (s.put b).1.chained = s.chained) ∧
    ((s.put b).2 ≠ .ok → (s.put b).1 = s) := by
  unfold Stack.put
  split
  · split
    · split <;> simp
    · simp
  · split
    · simp
    · exact schemePut_base s b

/-- every state change of `store1` is one base-store write of the logged beacon -/
theorem store1_spec (cfg : Cfg) (resync : Bool) (n : Node) (b : Beacon) :
    ((store1 cfg resync n b).2 = .ok →
        ∃ st, (store1 cfg resync n b).1 = { n with st := st, writes := ⟨b, if resync then b else storedForm n.st.chained b⟩ :: n.writes } ∧
          st.base = Bolt.put n.st.base (if resync then b else storedForm n.st.chained b) ∧ st.chained = n.st.chained) ∧
    ((store1 cfg resync n b).2 ≠ .ok → (store1 cfg resync n b).1 = n) := by
  unfold store1
  cases resync with
  | true => simp [Stack.rawPut]
  | false =>
    simp only [Bool.false_eq_true, if_false]
    cases hm : cfg.mode with
    | participant =>
      simp only
      by_cases hok : (n.st.put b).2 = .ok
      · simp only [hok, if_true]
        exact ⟨fun _ => ⟨_, rfl, (put_base n.st b).1 hok⟩, fun h => absurd rfl h⟩
      · simp [hok]
    | follow =>
      simp only
      by_cases hok : (n.st.schemePut b).2 = .ok
      · simp only [hok, if_true]
        exact ⟨fun _ => ⟨_, rfl, (schemePut_base n.st b).1 hok⟩, fun h => absurd rfl h⟩
      · simp [hok]

/-! ### induction principles: an invariant of one accepted packet is an invariant of every sync entry point -/

/-- `P last n`: `last` is tryNode's local variable, `n` the node -/
structure Inv (cfg : Cfg) (resync : Bool) (from_ upTo : Nat) (P : Nat → Node → Prop) : Prop where
  step : ∀ last n b, P last n → cfg.verify b = true → roundOk cfg resync from_ upTo last b = true →
    (store1 cfg resync n b).2 = .ok → P b.round (store1 cfg resync n b).1
  calls : ∀ l n c, P l n → P l { n with calls := c }
  head : ∀ l n, P l n → P n.head n

theorem loop_ind {cfg : Cfg} {resync : Bool} {from_ upTo : Nat} {P : Nat → Node → Prop}
    (hI : Inv cfg resync from_ upTo P) :
    ∀ (items : List Item) (last : Nat) (n : Node), P last n → ∃ l, P l (loop cfg resync from_ upTo last n items).1 := by
  intro items
  induction items with
  | nil => intro last n h; exact ⟨last, h⟩
  | cons it rest ih =>
    intro last n h
    cases it with
    | close => exact ⟨last, h⟩
    | stall => exact ⟨last, h⟩
    | pkt b idOk =>
      unfold loop
      split
      · exact ⟨last, h⟩
      · split
        · exact ⟨last, h⟩
        · split
          · exact ⟨last, h⟩
          · next h1 h2 h3 =>
            simp only
            split
            · next hok =>
              have hP := hI.step last n b h (by simpa using h2) (by simpa using h3) hok
              split
              · exact ⟨_, hP⟩
              · exact ih _ _ hP
            · split <;> exact ⟨last, h⟩

theorem tryNode_ind {cfg : Cfg} {from_ upTo : Nat} {P : Nat → Node → Prop}
    (hI : ∀ f, (from_ ≠ 0 → f = from_) → Inv cfg (decide (from_ > 0)) f upTo P) (n : Node) (p : Peer) (h : P n.head n) :
    P (tryNode cfg from_ upTo n p).1.head (tryNode cfg from_ upTo n p).1 := by
  unfold tryNode
  simp only
  split
  · exact h
  · split
    · exact h
    · have hI2 := hI (if from_ = 0 then n.head + 1 else from_) (fun hne => by simp [hne])
      have h1 := hI2.calls _ _ ((p.addr, if from_ = 0 then n.head + 1 else from_) :: n.calls) h
      split
      · exact hI2.head _ _ h1
      · next items _ =>
        obtain ⟨l, hl⟩ := loop_ind hI2 items n.head _ h1
        exact hI2.head _ _ hl

theorem sync_ind {cfg : Cfg} {self : String} {from_ upTo : Nat} {P : Nat → Node → Prop}
    (hI : ∀ f, (from_ ≠ 0 → f = from_) → Inv cfg (decide (from_ > 0)) f upTo P) :
    ∀ (ps : List Peer) (dead : Bool) (n : Node), P n.head n →
      P (sync cfg self from_ upTo dead n ps).1.head (sync cfg self from_ upTo dead n ps).1 := by
  intro ps
  induction ps with
  | nil => intro dead n h; exact h
  | cons p ps ih =>
    intro dead n h
    unfold sync
    split
    · exact ih _ _ h
    · split
      · exact h
      · have ht := tryNode_ind hI n p h
        simp only
        split
        · exact ht
        · exact ih _ _ ht
        · exact ih _ _ ht

theorem reSync_ind {cfg : Cfg} {self : String} {from_ to : Nat} {P : Nat → Node → Prop}
    (hI : from_ ≠ 0 → Inv cfg true from_ to P) (dead : Bool) (n : Node) (ps1 ps2 : List Peer) (h : P n.head n) :
    P (reSync cfg self from_ to dead n ps1 ps2).1.head (reSync cfg self from_ to dead n ps1 ps2).1 := by
  unfold reSync
  split
  · exact h
  · next hne =>
    have hI' : ∀ f, (from_ ≠ 0 → f = from_) → Inv cfg (decide (from_ > 0)) f to P := by
      intro f hf
      have : decide (from_ > 0) = true := by simp; omega
      rw [this, hf hne]; exact hI hne
    have h1 := sync_ind (self := self) hI' ps1 dead n h
    simp only
    split
    · exact sync_ind (self := self) hI' ps2 _ _ h1
    · exact h1

theorem correctLoop_ind {cfg : Cfg} {self : String} {env : Nat → List Peer × List Peer} {P : Nat → Node → Prop} :
    ∀ (fb : List Nat), (∀ x ∈ fb, x ≠ 0 → Inv cfg true x x P) → ∀ (i : Nat) (dead : Bool) (n : Node) (errs : Nat),
      P n.head n → P (correctLoop cfg self env i dead n errs fb).1.head (correctLoop cfg self env i dead n errs fb).1 := by
  intro fb
  induction fb with
  | nil => intro _ i dead n errs h; exact h
  | cons b rest ih =>
    intro hI i dead n errs h
    unfold correctLoop
    split
    · exact h
    · exact ih (fun x hx => hI x (List.mem_cons_of_mem _ hx)) _ _ _ _
        (reSync_ind (hI b List.mem_cons_self) false n _ _ h)

theorem followLoop_ind {cfg : Cfg} {self : String} {upTo : Nat} {P : Nat → Node → Prop}
    (hI : ∀ f, Inv cfg false f upTo P) :
    ∀ (atts : List (List Peer)) (n : Node), P n.head n →
      P (followLoop cfg self upTo n atts).1.head (followLoop cfg self upTo n atts).1 := by
  intro atts
  induction atts with
  | nil => intro n h; exact h
  | cons ps rest ih =>
    intro n h
    have hI' : ∀ f, ((0 : Nat) ≠ 0 → f = 0) → Inv cfg (decide ((0 : Nat) > 0)) f upTo P := fun f _ => by simpa using hI f
    have h1 := sync_ind (self := self) hI' ps false n h
    unfold followLoop
    simp only
    split
    · exact h1
    · split
      · exact h1
      · split
        · exact ih _ h1
        · exact h1

/-! ### only verified beacons are written -/

theorem storedForm_fields (c : Bool) (b : Beacon) :
    (storedForm c b).round = b.round ∧ (storedForm c b).sig = b.sig ∧
      ((storedForm c b).prev = b.prev ∨ (storedForm c b).prev = []) := by
  unfold storedForm; cases c <;> simp

/-- between `n0` and `n` the base store changed by exactly the logged writes `ws` (newest first), and each of them is a
packet the verification oracle accepted -/
def NewWrites (cfg : Cfg) (n0 n : Node) : Prop :=
  ∃ ws : List Write, n.writes = ws ++ n0.writes ∧
    n.st.base = ws.foldr (fun w acc => Bolt.put acc w.stored) n0.st.base ∧
    ∀ w ∈ ws, cfg.verify w.pkt = true ∧ w.stored.round = w.pkt.round ∧ w.stored.sig = w.pkt.sig ∧
      (w.stored.prev = w.pkt.prev ∨ w.stored.prev = [])

theorem newWrites_inv (cfg : Cfg) (resync : Bool) (f upTo : Nat) (n0 : Node) :
    Inv cfg resync f upTo (fun _ n => NewWrites cfg n0 n) := by
  refine ⟨?_, fun _ _ _ h => h, fun _ _ h => h⟩
  intro last n b ⟨ws, hw, hb, hv⟩ hver _ hok
  obtain ⟨st, hst, hbase, _⟩ := (store1_spec cfg resync n b).1 hok
  rw [hst]
  refine ⟨⟨b, if resync then b else storedForm n.st.chained b⟩ :: ws, by simp [hw], by simp [hbase, hb], ?_⟩
  intro w hwm
  rcases List.mem_cons.1 hwm with rfl | hwm
  · refine ⟨hver, ?_⟩
    cases resync with
    | true => simp
    | false => simpa using storedForm_fields n.st.chained b
  · exact hv w hwm

theorem newWrites_refl (cfg : Cfg) (n : Node) : NewWrites cfg n n := ⟨[], rfl, rfl, fun _ h => by cases h⟩

/-- **c10_only_verified.** Whatever the peers stream and in whatever order they are tried, every change any sync entry
point (Sync in participant or follow mode, ReSync, CorrectPastBeacons, the follow loop) makes to the base store is the
write of a packet for which `VerifyBeacon` answered true; the stored beacon carries that packet's round and signature. -/
theorem c10_only_verified (cfg : Cfg) (self : String) (n : Node) :
    (∀ from_ upTo dead ps, NewWrites cfg n (sync cfg self from_ upTo dead n ps).1) ∧
    (∀ from_ to dead ps1 ps2, NewWrites cfg n (reSync cfg self from_ to dead n ps1 ps2).1) ∧
    (∀ env fb, NewWrites cfg n (correctPast cfg self env n fb).1) ∧
    (∀ upTo atts, NewWrites cfg n (followLoop cfg self upTo n atts).1) := by
  refine ⟨?_, ?_, ?_, ?_⟩
  · intro from_ upTo dead ps
    exact sync_ind (P := fun _ m => NewWrites cfg n m) (fun f _ => newWrites_inv cfg _ f upTo n) ps dead n (newWrites_refl cfg n)
  · intro from_ to dead ps1 ps2
    exact reSync_ind (P := fun _ m => NewWrites cfg n m) (fun _ => newWrites_inv cfg _ from_ to n) dead n ps1 ps2 (newWrites_refl cfg n)
  · intro env fb
    exact correctLoop_ind (P := fun _ m => NewWrites cfg n m) fb (fun x _ _ => newWrites_inv cfg _ x x n) 0 false n 0 (newWrites_refl cfg n)
  · intro upTo atts
    exact followLoop_ind (P := fun _ m => NewWrites cfg n m) (fun f => newWrites_inv cfg _ f upTo n) atts n (newWrites_refl cfg n)

/-! ### a successful `Put` through the participant stack, seen from the node -/

theorem put_eq_schemePut (s : Stack) (b : Beacon) (h : ChainInv s) (hr : b.round = (Stack.last s.base).round + 1) :
    s.put b = s.schemePut b := by
  unfold Stack.put
  rw [h.head.1, if_neg (by omega), if_neg (by simp; omega)]

/-- `n'` is `n` after beacon `b` went through a successful `appendStore.Put` -/
structure Appended (n n' : Node) (b : Beacon) : Prop where
  ok : (n.st.put b).2 = .ok
  st : n'.st = (n.st.put b).1
  wr : n'.writes = ⟨b, storedForm n.st.chained b⟩ :: n.writes
  calls : n'.calls = n.calls

structure AppendFacts (n n' : Node) (b : Beacon) : Prop where
  round : b.round = n.head + 1
  inv : ChainInv n'.st
  head : n'.head = b.round
  chained : n'.st.chained = n.st.chained
  look : ∀ r, lookup r n'.st.base = if r = b.round then some (storedForm n.st.chained b) else lookup r n.st.base

theorem appended_facts {n n' : Node} {b : Beacon} (hc : ChainInv n.st) (ha : Appended n n' b) : AppendFacts n n' b := by
  have h1 := (c02_append_only n.st b hc).1 ha.ok
  have h2 := (put_base n.st b).1 ha.ok
  refine ⟨h1.1, ?_, ?_, ?_, ?_⟩
  · rw [ha.st]; exact c02_put_inv n.st b hc
  · unfold Node.head; rw [ha.st]; exact h1.2.1
  · rw [ha.st]; exact h2.2
  · intro r
    rw [ha.st, h2.1]
    have := c18_lookup_insert (storedForm n.st.chained b).round r (storedForm n.st.chained b) n.st.base
    rw [(storedForm_fields n.st.chained b).1] at this
    unfold Bolt.put
    rw [(storedForm_fields n.st.chained b).1]
    exact this

theorem store1_participant {cfg : Cfg} (hm : cfg.mode = .participant) (n : Node) (b : Beacon)
    (hok : (store1 cfg false n b).2 = .ok) : Appended n (store1 cfg false n b).1 b := by
  unfold store1 at hok ⊢
  simp only [Bool.false_eq_true, if_false, hm] at hok ⊢
  by_cases h : (n.st.put b).2 = .ok
  · simp only [h, if_true]
    exact ⟨h, rfl, rfl, rfl⟩
  · simp [h] at hok

theorem store1_follow {cfg : Cfg} (hm : cfg.mode = .follow) (n : Node) (b : Beacon) (hc : ChainInv n.st)
    (hr : b.round = n.head + 1) (hok : (store1 cfg false n b).2 = .ok) : Appended n (store1 cfg false n b).1 b := by
  have he := put_eq_schemePut n.st b hc hr
  unfold store1 at hok ⊢
  simp only [Bool.false_eq_true, if_false, hm] at hok ⊢
  by_cases h : (n.st.schemePut b).2 = .ok
  · simp only [h, if_true]
    exact ⟨by rw [he]; exact h, by rw [he], rfl, rfl⟩
  · simp [h] at hok

/-! ### chain order -/

/-- since `n0` the node only appended: the writes are rounds head+1, head+2, …, in that order, nothing below moved -/
def InOrder (n0 n : Node) : Prop :=
  ChainInv n.st ∧ n.st.chained = n0.st.chained ∧
  ∃ ws : List Write, n.writes = ws ++ n0.writes ∧
    ws.reverse.map (·.stored.round) = List.range' (n0.head + 1) ws.length ∧
    n.head = n0.head + ws.length ∧
    ∀ k, k ≤ n0.head → lookup k n.st.base = lookup k n0.st.base

theorem inOrder_refl (n : Node) (h : ChainInv n.st) : InOrder n n :=
  ⟨h, rfl, [], rfl, rfl, rfl, fun _ _ => rfl⟩

theorem inOrder_step {n0 n n' : Node} {b : Beacon} (h : InOrder n0 n) (ha : Appended n n' b) : InOrder n0 n' := by
  obtain ⟨hc, hch, ws, hw, hr, hh, hl⟩ := h
  have f := appended_facts hc ha
  refine ⟨f.inv, by rw [f.chained, hch], ⟨b, storedForm n.st.chained b⟩ :: ws, by rw [ha.wr, hw]; rfl, ?_, ?_, ?_⟩
  · simp only [List.reverse_cons, List.map_append, List.map_cons, List.map_nil, List.length_cons, hr]
    rw [(storedForm_fields _ _).1, f.round, hh, List.range'_concat]
    simp; omega
  · rw [f.head, f.round, hh]; simp; omega
  · intro k hk
    rw [f.look k, if_neg (by rw [f.round, hh]; omega)]
    exact hl k hk

theorem inOrder_calls {n0 n : Node} (c : List (String × Nat)) (h : InOrder n0 n) : InOrder n0 { n with calls := c } := h

/-- the beacons written since `n0` have rounds up to the new head -/
theorem inOrder_rounds_le {n0 n : Node} (h : InOrder n0 n) :
    ∀ w ∈ n.writes.take (n.writes.length - n0.writes.length), w.stored.round ≤ n.head := by
  obtain ⟨_, _, ws, hw, hr, hh, _⟩ := h
  intro w hwm
  rw [hw] at hwm
  have : (ws ++ n0.writes).length - n0.writes.length = ws.length := by simp
  rw [this, List.take_left'] at hwm
  · have hm : w.stored.round ∈ ws.reverse.map (·.stored.round) := List.mem_map.2 ⟨w, List.mem_reverse.2 hwm, rfl⟩
    rw [hr] at hm
    have := List.mem_range'_1.1 hm
    omega
  · rfl

theorem roundOk_follow {cfg : Cfg} (hrc : cfg.roundCheck = true) {f upTo last : Nat} {b : Beacon}
    (h : roundOk cfg false f upTo last b = true) : b.round = last + 1 := by
  unfold roundOk at h
  simpa [hrc] using h

/-- the participant stack, or tryNode with the round check: every accepted packet is an append -/
theorem order_inv (cfg : Cfg) (hgood : cfg.mode = .participant ∨ cfg.roundCheck = true) (f upTo : Nat) (n0 : Node) :
    Inv cfg false f upTo (fun last n => InOrder n0 n ∧ last = n.head) := by
  refine ⟨?_, fun _ _ _ h => h, fun _ _ h => ⟨h.1, rfl⟩⟩
  intro last n b ⟨hio, hl⟩ _ hro hok
  have ha : Appended n (store1 cfg false n b).1 b := by
    cases hm : cfg.mode with
    | participant => exact store1_participant hm n b hok
    | follow =>
      rcases hgood with hp | hrc
      · rw [hm] at hp; cases hp
      · exact store1_follow hm n b hio.1 (by rw [← hl]; exact roundOk_follow hrc hro) hok
  exact ⟨inOrder_step hio ha, (appended_facts hio.1 ha).head.symm⟩

/-- **c10_in_order.** Participant mode (callbackStore → appendStore → schemeStore → base): for every list of peers in
every order and every behaviour, the beacons `Sync` writes are exactly rounds head+1, head+2, … in that order, nothing
stored before is touched, and the store stays the gap-free linked chain of C02. -/
theorem c10_in_order (cfg : Cfg) (hm : cfg.mode = .participant) (self : String) (upTo : Nat) (dead : Bool) (n : Node)
    (ps : List Peer) (h : ChainInv n.st) : InOrder n (sync cfg self 0 upTo dead n ps).1 :=
  (sync_ind (P := fun last m => InOrder n m ∧ last = m.head)
    (fun f _ => by simpa using order_inv cfg (Or.inl hm) f upTo n) ps dead n ⟨inOrder_refl n h, rfl⟩).1

/-- **c10_follow_order** (corrected variant `roundCheck`): with the round check in tryNode the same holds for the follow
stack, which has no appendStore, for chained and unchained schemes alike; also through the follow loop. -/
theorem c10_follow_order (cfg : Cfg) (hrc : cfg.roundCheck = true) (self : String) (upTo : Nat) (n : Node)
    (h : ChainInv n.st) :
    (∀ dead ps, InOrder n (sync cfg self 0 upTo dead n ps).1) ∧
    (∀ atts, InOrder n (followLoop cfg self upTo n atts).1) := by
  constructor
  · intro dead ps
    exact (sync_ind (P := fun last m => InOrder n m ∧ last = m.head)
      (fun f _ => by simpa using order_inv cfg (Or.inr hrc) f upTo n) ps dead n ⟨inOrder_refl n h, rfl⟩).1
  · intro atts
    exact (followLoop_ind (P := fun last m => InOrder n m ∧ last = m.head)
      (fun f => order_inv cfg (Or.inr hrc) f upTo n) atts n ⟨inOrder_refl n h, rfl⟩).1

/-! ### validity of what is stored -/

/-- verification of an unchained beacon does not look at the previous signature (schemeStore strips it before storing) -/
def StripOk (verify : Beacon → Bool) (chained : Bool) : Prop :=
  chained = false → ∀ b, verify b = true → verify { b with prev := [] } = true

theorem valid_step {verify : Beacon → Bool} {n n' : Node} {b : Beacon} (hs : StripOk verify n.st.chained)
    (hc : ChainInv n.st) (hv : Valid verify n.st) (hb : verify b = true) (ha : Appended n n' b) : Valid verify n'.st := by
  have f := appended_facts hc ha
  intro r b' hr hl
  rw [f.look r] at hl
  split at hl
  · cases hl
    unfold storedForm
    cases hch : n.st.chained with
    | true => simpa using hb
    | false => simpa using hs hch b hb
  · exact hv r b' hr hl

/-- **c10_bad_peer_harmless.** Participant mode: whatever the peers do, `Sync` leaves the store a gap-free linked chain
(`ChainInv`) that holds verifying beacons only (`Valid`), the head never moves back and no stored round changes. -/
theorem c10_bad_peer_harmless (cfg : Cfg) (hm : cfg.mode = .participant) (self : String) (upTo : Nat) (dead : Bool)
    (n : Node) (ps : List Peer) (hc : ChainInv n.st) (hv : Valid cfg.verify n.st) (hs : StripOk cfg.verify n.st.chained) :
    let r := (sync cfg self 0 upTo dead n ps).1
    ChainInv r.st ∧ Valid cfg.verify r.st ∧ n.head ≤ r.head ∧ ∀ k, k ≤ n.head → lookup k r.st.base = lookup k n.st.base := by
  have hI : ∀ f, Inv cfg false f upTo (fun last m => (InOrder n m ∧ last = m.head) ∧ Valid cfg.verify m.st) := by
    intro f
    have h1 := order_inv cfg (Or.inl hm) f upTo n
    refine ⟨?_, fun l m c h => ⟨h1.calls l m c h.1, h.2⟩, fun l m h => ⟨h1.head l m h.1, h.2⟩⟩
    intro last m b ⟨hP, hval⟩ hver hro hok
    refine ⟨h1.step last m b hP hver hro hok, ?_⟩
    exact valid_step (by rw [hP.1.2.1]; exact hs) hP.1.1 hval hver (store1_participant hm m b hok)
  have := sync_ind (cfg := cfg) (self := self) (from_ := 0) (upTo := upTo)
    (P := fun last m => (InOrder n m ∧ last = m.head) ∧ Valid cfg.verify m.st)
    (fun f _ => by simpa using hI f) ps dead n ⟨⟨inOrder_refl n hc, rfl⟩, hv⟩
  obtain ⟨⟨⟨hci, _, ws, _, _, hh, hl⟩, _⟩, hval⟩ := this
  exact ⟨hci, hval, by omega, hl⟩

/-! ### the idealised signature scheme and the true chain -/

/-- `IdealSig` + `SigUnique` + collision freedom of DESIGN §2.6 as one explicit hypothesis: `chain` is the chain the
group really signed; a beacon verifies only if it carries the signature of its round (and, chained, the previous
signature that was signed with it); distinct rounds have distinct signatures. `chain 0` is the genesis beacon. -/
structure Ideal (verify : Beacon → Bool) (chained : Bool) (chain : Nat → Beacon) : Prop where
  round : ∀ r, (chain r).round = r
  link : chained = true → ∀ r, (chain (r + 1)).prev = (chain r).sig
  sound : ∀ b, verify b = true →
    1 ≤ b.round ∧ b.sig = (chain b.round).sig ∧ (chained = true → b.prev = (chain b.round).prev)
  complete : ∀ r, 1 ≤ r → verify (chain r) = true
  inj : ∀ r r', (chain r).sig = (chain r').sig → r = r'

/-- the node holds a prefix of the true chain -/
def OnChain (chain : Nat → Beacon) (n : Node) : Prop :=
  ∀ r, r ≤ n.head → lookup r n.st.base = some (storedForm n.st.chained (chain r))

private theorem beacon_ext' {b b' : Beacon} (h1 : b.round = b'.round) (h2 : b.sig = b'.sig) (h3 : b.prev = b'.prev) :
    b = b' := by
  cases b; cases b'; simp_all

theorem storedForm_ideal {verify : Beacon → Bool} {chained : Bool} {chain : Nat → Beacon}
    (hI : Ideal verify chained chain) {b : Beacon} (hb : verify b = true) :
    storedForm chained b = storedForm chained (chain b.round) := by
  obtain ⟨_, hs, hp⟩ := hI.sound b hb
  unfold storedForm
  cases chained with
  | true => simpa using beacon_ext' (hI.round _).symm hs (hp rfl)
  | false => simp [hs, hI.round]

theorem onChain_step {verify : Beacon → Bool} {chain : Nat → Beacon} {n n' : Node} {b : Beacon}
    (hI : Ideal verify n.st.chained chain) (hc : ChainInv n.st) (ho : OnChain chain n) (hb : verify b = true)
    (ha : Appended n n' b) : OnChain chain n' := by
  have f := appended_facts hc ha
  intro r hr
  rw [f.look r, f.chained]
  split
  · next h => rw [h]; exact congrArg some (storedForm_ideal hI hb)
  · next h => exact ho r (by have := f.head; have := f.round; omega)

section helpers
variable {α : Type}
private theorem sorted_tail' {a : Nat × α} {t : List (Nat × α)} (h : Sorted (a :: t)) : Sorted t := by
  obtain ⟨k, v⟩ := a
  cases t with
  | nil => trivial
  | cons b t => obtain ⟨k', v'⟩ := b; exact h.2

private theorem sorted_head_lt' {k : Nat} {v : α} {t : List (Nat × α)} (h : Sorted ((k, v) :: t)) :
    ∀ p ∈ t, k < p.1 := by
  induction t generalizing k v with
  | nil => intro p hp; cases hp
  | cons b t ih =>
    obtain ⟨k', v'⟩ := b
    intro p hp
    have h1 : k < k' := h.1
    have h2 := ih h.2
    rcases List.mem_cons.1 hp with rfl | hp
    · exact h1
    · exact Nat.lt_trans h1 (h2 p hp)

private theorem mem_lookup' {k : Nat} {v : α} {l : List (Nat × α)} (hs : Sorted l) (h : (k, v) ∈ l) :
    lookup k l = some v := by
  induction l with
  | nil => cases h
  | cons a t ih =>
    obtain ⟨k', v'⟩ := a
    unfold lookup
    rcases List.mem_cons.1 h with h | h
    · cases h; simp
    · have := sorted_head_lt' hs _ h
      simp at this
      rw [if_neg (by omega)]
      exact ih (sorted_tail' hs) h
end helpers

/-- the head of a well-formed store is stored under its own round -/
theorem lookup_head {s : Stack} (h : ChainInv s) : lookup (Stack.last s.base).round s.base = some (Stack.last s.base) := by
  cases hl : s.base.getLast? with
  | none => exact absurd (List.getLast?_eq_none_iff.1 hl) h.nonempty
  | some kv =>
    obtain ⟨k, v⟩ := kv
    have hm : (k, v) ∈ s.base := List.mem_of_getLast? hl
    have hk : v.round = k := h.sorted.2 _ hm
    have hlast : Stack.last s.base = v := by unfold Stack.last; rw [hl]
    rw [hlast, hk]
    exact mem_lookup' h.sorted.1 hm

/-- chained follow stack, as is: `schemeStore.Put` accepts a verifying beacon only if it is the next round -/
theorem follow_chained_next {verify : Beacon → Bool} {chain : Nat → Beacon} {n : Node} {b : Beacon}
    (hch : n.st.chained = true) (hI : Ideal verify true chain) (hc : ChainInv n.st) (ho : OnChain chain n)
    (hb : verify b = true) (hok : (n.st.schemePut b).2 = .ok) : b.round = n.head + 1 := by
  have hprev : n.st.schemeLast.sig = b.prev := by
    unfold Stack.schemePut at hok
    rw [hch] at hok
    simp only [if_true] at hok
    by_cases h : n.st.schemeLast.sig ≠ b.prev
    · simp [h] at hok
    · exact Decidable.not_not.1 h
  have hlast : Stack.last n.st.base = storedForm true (chain n.head) := by
    have h1 := lookup_head hc
    have h2 := ho n.head (Nat.le_refl _)
    rw [hch] at h2
    unfold Node.head at h2 ⊢
    rw [h1] at h2
    exact Option.some.inj h2
  rw [hc.head.2, hlast] at hprev
  obtain ⟨h1, _, hp⟩ := hI.sound b hb
  obtain ⟨k, hk⟩ : ∃ k, b.round = k + 1 := ⟨b.round - 1, by omega⟩
  have := hp rfl
  rw [hk, hI.link rfl k] at this
  have hkk := hI.inj n.head k (by simpa [storedForm] using hprev.trans this)
  omega

/-- every configuration in which an accepted packet is necessarily the next round: the participant stack, tryNode with
the round check, or the follow stack on a chained scheme under `Ideal` -/
theorem chain_inv (cfg : Cfg) (chain : Nat → Beacon) (n0 : Node) (hI : Ideal cfg.verify n0.st.chained chain)
    (hgood : cfg.mode = .participant ∨ cfg.roundCheck = true ∨ n0.st.chained = true) (f upTo : Nat) :
    Inv cfg false f upTo (fun last n => (InOrder n0 n ∧ last = n.head) ∧ OnChain chain n) := by
  refine ⟨?_, fun _ _ _ h => h, fun _ _ h => ⟨⟨h.1.1, rfl⟩, h.2⟩⟩
  intro last n b ⟨⟨hio, hl⟩, ho⟩ hver hro hok
  have hI' : Ideal cfg.verify n.st.chained chain := by rw [hio.2.1]; exact hI
  have ha : Appended n (store1 cfg false n b).1 b := by
    cases hm : cfg.mode with
    | participant => exact store1_participant hm n b hok
    | follow =>
      rcases hgood with hp | hrc | hch
      · rw [hm] at hp; cases hp
      · exact store1_follow hm n b hio.1 (by rw [← hl]; exact roundOk_follow hrc hro) hok
      · have hch' : n.st.chained = true := by rw [hio.2.1]; exact hch
        refine store1_follow hm n b hio.1 ?_ hok
        refine follow_chained_next hch' (by rw [← hch']; exact hI') hio.1 ho hver ?_
        unfold store1 at hok
        simp only [Bool.false_eq_true, if_false, hm] at hok
        by_cases h : (n.st.schemePut b).2 = .ok
        · exact h
        · simp [h] at hok
  exact ⟨⟨inOrder_step hio ha, (appended_facts hio.1 ha).head.symm⟩, onChain_step hI' hio.1 ho hver ha⟩

/-
Full statement wanted for follow mode (as-is code, `roundCheck = false`):
  ∀ cfg, cfg.mode = .follow → ChainInv n.st → InOrder n (sync cfg self 0 upTo dead n ps).1
It does not hold: nothing in the follow stack or in tryNode compares the round of a streamed beacon with the head, and
on an unchained scheme a verifying beacon of any round passes `schemeStore.Put` (`c10_follow_order_counterexample`).
What the proof forces is the chained scheme (whose previous-signature check pins the round) under `Ideal`.
-/
/-- **c10_follow_order_partial** (as-is code): follow stack on a *chained* scheme, under `Ideal`, starting from a prefix
of the true chain: sync writes are head+1 each and the store stays a prefix of the true chain. -/
theorem c10_follow_order_partial (cfg : Cfg) (chain : Nat → Beacon) (self : String) (upTo : Nat) (n : Node)
    (hch : n.st.chained = true) (hI : Ideal cfg.verify n.st.chained chain) (h : ChainInv n.st) (ho : OnChain chain n) :
    (∀ dead ps, InOrder n (sync cfg self 0 upTo dead n ps).1 ∧ OnChain chain (sync cfg self 0 upTo dead n ps).1) ∧
    (∀ atts, InOrder n (followLoop cfg self upTo n atts).1 ∧ OnChain chain (followLoop cfg self upTo n atts).1) := by
  have hinv := fun f => chain_inv cfg chain n hI (Or.inr (Or.inr hch)) f upTo
  constructor
  · intro dead ps
    have := sync_ind (cfg := cfg) (self := self) (from_ := 0) (upTo := upTo)
      (P := fun last m => (InOrder n m ∧ last = m.head) ∧ OnChain chain m)
      (fun f _ => by simpa using hinv f) ps dead n ⟨⟨inOrder_refl n h, rfl⟩, ho⟩
    exact ⟨this.1.1, this.2⟩
  · intro atts
    have := followLoop_ind (cfg := cfg) (self := self) (upTo := upTo)
      (P := fun last m => (InOrder n m ∧ last = m.head) ∧ OnChain chain m) hinv atts n ⟨⟨inOrder_refl n h, rfl⟩, ho⟩
    exact ⟨this.1.1, this.2⟩

/-
Witness for the as-is follow stack on an unchained scheme (DESIGN §5 row 6), replayed on the real code by the check
(corpus/C10/follow_unchained_gap.json): the oracle accepts exactly the true signatures `[1, round]`; the node holds the
genesis beacon only; one peer answers the request for round 1 with the true beacon of round 6.
-/
def cxVerify (b : Beacon) : Bool := b.sig == [1, UInt8.ofNat b.round]
def cxCfg (mode : Mode) : Cfg :=
  { verify := cxVerify, lastErr := fun _ => false, mode := mode, roundCheck := false, rangeCheck := false, followRetry := false }
def cxNode (chained : Bool) : Node := ⟨Stack.init chained [0, 0], [], []⟩
def cxSkip : Peer := ⟨"liar", fun from_ => .stream [.pkt ⟨from_ + 5, [1, UInt8.ofNat (from_ + 5)], []⟩ true]⟩

/-- **c10_follow_order_counterexample** (as-is code, follow stack, unchained scheme): the follower stores round 6 right
after round 0 — a gap — although every stored beacon verifies. -/
theorem c10_follow_order_counterexample :
    ChainInv (cxNode false).st ∧
    (sync (cxCfg .follow) "self" 0 9 false (cxNode false) [cxSkip]).1.st.base.map (·.1) = [0, 6] ∧
    (∀ w ∈ (sync (cxCfg .follow) "self" 0 9 false (cxNode false) [cxSkip]).1.writes, cxVerify w.pkt = true) ∧
    ¬ InOrder (cxNode false) (sync (cxCfg .follow) "self" 0 9 false (cxNode false) [cxSkip]).1 := by
  refine ⟨c02_init_inv false [0, 0], by decide, by decide, ?_⟩
  intro ⟨_, _, ws, hw, hr, _, _⟩
  have h1 : (sync (cxCfg .follow) "self" 0 9 false (cxNode false) [cxSkip]).1.writes.map (·.stored.round) = [6] := by decide
  have h2 : (cxNode false).writes = [] := rfl
  rw [hw, h2, List.append_nil] at h1
  have hlen : ws.length = 1 := by simpa using congrArg List.length h1
  have h3 : (ws.reverse.map (·.stored.round)).reverse = [6] := by rw [← List.map_reverse, List.reverse_reverse]; exact h1
  rw [hr, hlen] at h3
  revert h3; decide

/-! ### convergence -/

def honestItems (chain : Nat → Beacon) (from_ H : Nat) : List Item :=
  (List.range' from_ (H + 1 - from_)).map fun r => Item.pkt (chain r) true

/-- an honest peer whose head is `H`: asked from any round it has, it streams the true chain from there up to its head
(whatever follows — later beacons, a stall, a close — is arbitrary) -/
def Honest (chain : Nat → Beacon) (H : Nat) (p : Peer) : Prop :=
  ∀ from_, from_ ≤ H → ∃ rest, p.serve from_ = .stream (honestItems chain from_ H ++ rest)

/-- a peer that never leaves the stream open without sending: it may lie, fail and close at will -/
def NoStall (p : Peer) : Prop := ∀ f items, p.serve f = .stream items → Item.stall ∉ items

/-- the invariant of `chain_inv`, forgetting tryNode's local variable -/
def Good (chain : Nat → Beacon) (n0 n : Node) : Prop := InOrder n0 n ∧ OnChain chain n

theorem store1_already {cfg : Cfg} {n : Node} {b : Beacon} (hc : ChainInv n.st)
    (h : (store1 cfg false n b).2 = .already) : b.round = n.head := by
  unfold store1 at h
  simp only [Bool.false_eq_true, if_false] at h
  cases hm : cfg.mode with
  | participant =>
    simp only [hm] at h
    by_cases hok : (n.st.put b).2 = .ok
    · simp [hok] at h
    · simp only [hok, if_false] at h
      unfold Stack.put at h
      by_cases hr : b.round = n.st.appendLast.round
      · unfold Node.head; rw [← hc.head.1]; exact hr
      · rw [if_neg hr] at h
        split at h
        · cases h
        · unfold Stack.schemePut at h
          split at h
          · split at h <;> cases h
          · cases h
  | follow =>
    simp only [hm] at h
    by_cases hok : (n.st.schemePut b).2 = .ok
    · simp [hok] at h
    · simp only [hok, if_false] at h
      unfold Stack.schemePut at h
      split at h
      · split at h <;> cases h
      · cases h

/-- the next beacon of the true chain is accepted by the stack of a node that holds a prefix of that chain -/
theorem store1_next_ok {cfg : Cfg} {chain : Nat → Beacon} {n : Node} (hI : Ideal cfg.verify n.st.chained chain)
    (hc : ChainInv n.st) (ho : OnChain chain n) : (store1 cfg false n (chain (n.head + 1))).2 = .ok := by
  have hlast : Stack.last n.st.base = storedForm n.st.chained (chain n.head) := by
    have h1 := lookup_head hc
    have h2 := ho n.head (Nat.le_refl _)
    unfold Node.head at h2 ⊢
    rw [h1] at h2
    exact Option.some.inj h2
  have hsp : (n.st.schemePut (chain (n.head + 1))).2 = .ok := by
    unfold Stack.schemePut
    cases hch : n.st.chained with
    | true =>
      have : n.st.schemeLast.sig = (chain (n.head + 1)).prev := by
        rw [hc.head.2, hlast, hI.link hch]; simp [storedForm, hch]
      simp [this]
    | false => simp
  have hr : (chain (n.head + 1)).round = (Stack.last n.st.base).round + 1 := by rw [hI.round]; rfl
  unfold store1
  simp only [Bool.false_eq_true, if_false]
  cases hm : cfg.mode with
  | participant => simp only; rw [put_eq_schemePut n.st _ hc hr]; simp [hsp]
  | follow => simp [hsp]

theorem honestItems_cons (chain : Nat → Beacon) {from_ H : Nat} (h : from_ ≤ H) :
    honestItems chain from_ H = .pkt (chain from_) true :: honestItems chain (from_ + 1) H := by
  unfold honestItems
  have : H + 1 - from_ = (H + 1 - (from_ + 1)) + 1 := by omega
  rw [this, List.range'_succ]
  rfl

section conv
variable {cfg : Cfg} {chain : Nat → Beacon} {n0 : Node} {upTo : Nat}

/-- one attempt with one peer, any behaviour: either the target is reached exactly, or the node is still below it;
the node stays a prefix of the true chain; only a stall can end the attempt by cancellation -/
theorem loop_any (hI : Ideal cfg.verify n0.st.chained chain)
    (hgood : cfg.mode = .participant ∨ cfg.roundCheck = true ∨ n0.st.chained = true) (f : Nat) :
    ∀ (items : List Item) (n : Node), Good chain n0 n → n.head < upTo →
      let r := loop cfg false f upTo n.head n items
      Good chain n0 r.1 ∧ (r.2 = .reached → r.1.head = upTo) ∧ (r.2 ≠ .reached → r.1.head < upTo) ∧
        (Item.stall ∉ items → r.2 ≠ .cancelled) := by
  intro items
  induction items with
  | nil => intro n hg hlt; exact ⟨hg, by simp [loop], fun _ => hlt, by simp [loop]⟩
  | cons it rest ih =>
    intro n hg hlt
    cases it with
    | close => exact ⟨hg, by simp [loop], fun _ => hlt, by simp [loop]⟩
    | stall => exact ⟨hg, by simp [loop], fun _ => hlt, by simp [loop]⟩
    | pkt b idOk =>
      have stay : ∀ res : TryRes, res ≠ .reached → res ≠ .cancelled →
          Good chain n0 (n, res).1 ∧ ((n, res).2 = .reached → (n, res).1.head = upTo) ∧
            ((n, res).2 ≠ .reached → (n, res).1.head < upTo) ∧ (Item.stall ∉ Item.pkt b idOk :: rest → (n, res).2 ≠ .cancelled) :=
        fun res h1 h2 => ⟨hg, fun h => absurd h h1, fun _ => hlt, fun _ => h2⟩
      unfold loop
      simp only
      split
      · exact stay _ (by simp) (by simp)
      · split
        · exact stay _ (by simp) (by simp)
        · split
          · exact stay _ (by simp) (by simp)
          · next h1 h2 h3 =>
            split
            · next hok =>
              have hstep := (chain_inv cfg chain n0 hI hgood f upTo).step n.head n b ⟨⟨hg.1, rfl⟩, hg.2⟩
                (by simpa using h2) (by simpa using h3) hok
              obtain ⟨⟨hio, hl⟩, hoc⟩ := hstep
              split
              · next heq => exact ⟨⟨hio, hoc⟩, fun _ => by rw [← hl]; exact heq, fun h => absurd rfl h, by simp⟩
              · next hne =>
                have hb : b.round = n.head + 1 := by
                  have ha : Appended n (store1 cfg false n b).1 b ∨ True := Or.inr trivial
                  obtain ⟨_, _, ws, hw, _, hh, _⟩ := hio
                  obtain ⟨_, _, ws0, hw0, _, hh0, _⟩ := hg.1
                  obtain ⟨st, hst, _, _⟩ := (store1_spec cfg false n b).1 hok
                  have : (store1 cfg false n b).1.writes = ⟨b, storedForm n.st.chained b⟩ :: n.writes := by rw [hst]; simp
                  rw [hw, hw0] at this
                  have hlen := congrArg List.length this
                  simp at hlen
                  omega
                have hlt' : (store1 cfg false n b).1.head < upTo := by omega
                have := ih (store1 cfg false n b).1 ⟨hio, hoc⟩ hlt'
                rw [← hl] at this
                obtain ⟨g, r1, r2, r3⟩ := this
                exact ⟨g, r1, r2, fun hs => r3 (fun hm => hs (List.mem_cons_of_mem _ hm))⟩
            · next hnok =>
              split
              · next halr =>
                have := store1_already hg.1.1 halr
                have hne : b.round ≠ upTo := by omega
                simp only [hne, if_false]
                exact stay _ (by simp) (by simp)
              · exact stay _ (by simp) (by simp)

theorem tryNode_any (hI : Ideal cfg.verify n0.st.chained chain)
    (hgood : cfg.mode = .participant ∨ cfg.roundCheck = true ∨ n0.st.chained = true)
    (n : Node) (p : Peer) (hg : Good chain n0 n) (hlt : n.head < upTo) :
    let r := tryNode cfg 0 upTo n p
    Good chain n0 r.1 ∧ (r.2 = .reached → r.1.head = upTo) ∧ (r.2 ≠ .reached → r.1.head < upTo) ∧
      (NoStall p → r.2 ≠ .cancelled) := by
  have stay : ∀ (m : Node), m.st = n.st → m.writes = n.writes →
      Good chain n0 m ∧ ((TryRes.failed) = .reached → m.head = upTo) ∧ (TryRes.failed ≠ .reached → m.head < upTo) ∧
        (NoStall p → TryRes.failed ≠ .cancelled) := by
    intro m h1 h2
    have hh : m.head = n.head := by unfold Node.head; rw [h1]
    refine ⟨?_, by simp, fun _ => by rw [hh]; exact hlt, by simp⟩
    obtain ⟨⟨a, b, ws, c, d, e, g⟩, ho⟩ := hg
    refine ⟨⟨by rw [h1]; exact a, by rw [h1]; exact b, ws, by rw [h2]; exact c, d, by rw [hh]; exact e, by rw [h1]; exact g⟩, ?_⟩
    intro r hr; rw [h1]; exact ho r (by rw [← hh]; exact hr)
  unfold tryNode
  simp only
  split
  · exact stay n rfl rfl
  · split
    · exact stay n rfl rfl
    · split
      · exact stay _ rfl rfl
      · next items hs =>
        have hg1 : Good chain n0 { n with calls := (p.addr, if (0 : Nat) = 0 then n.head + 1 else 0) :: n.calls } := hg
        have := loop_any (upTo := upTo) hI hgood (if (0 : Nat) = 0 then n.head + 1 else 0) items _ hg1 hlt
        obtain ⟨g, r1, r2, r3⟩ := this
        exact ⟨g, r1, r2, fun hns => r3 (hns _ _ hs)⟩

/-- any `Sync` attempt, any peers, any order, cancelled or not: the node stays a prefix of the true chain, it reports
success exactly when the head is the target, otherwise the head is still below the target -/
theorem sync_any (hI : Ideal cfg.verify n0.st.chained chain)
    (hgood : cfg.mode = .participant ∨ cfg.roundCheck = true ∨ n0.st.chained = true) (self : String) :
    ∀ (ps : List Peer) (dead : Bool) (n : Node), Good chain n0 n → n.head < upTo →
      let r := sync cfg self 0 upTo dead n ps
      Good chain n0 r.1 ∧ (r.2.1 = .ok → r.1.head = upTo) ∧ (r.2.1 ≠ .ok → r.1.head < upTo) := by
  intro ps
  induction ps with
  | nil => intro dead n hg hlt; exact ⟨hg, by simp [sync], fun _ => hlt⟩
  | cons p ps ih =>
    intro dead n hg hlt
    unfold sync
    split
    · exact ih _ _ hg hlt
    · split
      · exact ⟨hg, by simp, fun _ => hlt⟩
      · obtain ⟨g, r1, r2, _⟩ := tryNode_any (upTo := upTo) hI hgood n p hg hlt
        simp only
        split
        · next h => exact ⟨g, fun _ => r1 h, fun h' => absurd rfl h'⟩
        · next h => exact ih _ _ g (r2 (by rw [h]; simp))
        · next h => exact ih _ _ g (r2 (by rw [h]; simp))

/-- the honest peer's stream takes the node to the target -/
theorem loop_honest (hI : Ideal cfg.verify n0.st.chained chain)
    (hgood : cfg.mode = .participant ∨ cfg.roundCheck = true ∨ n0.st.chained = true) (f H : Nat) (hH : upTo ≤ H)
    (rest : List Item) :
    ∀ (d : Nat) (n : Node), Good chain n0 n → n.head + d + 1 = upTo →
      let r := loop cfg false f upTo n.head n (honestItems chain (n.head + 1) H ++ rest)
      Good chain n0 r.1 ∧ r.2 = .reached ∧ r.1.head = upTo := by
  intro d
  induction d with
  | zero =>
    intro n hg hd
    have hI' : Ideal cfg.verify n.st.chained chain := by rw [hg.1.2.1]; exact hI
    rw [honestItems_cons chain (by omega), List.cons_append]
    have hv := hI'.complete (n.head + 1) (by omega)
    have hro : roundOk cfg false f upTo n.head (chain (n.head + 1)) = true := by
      unfold roundOk; simp [hI'.round]
    have hok := store1_next_ok (cfg := cfg) hI' hg.1.1 hg.2
    have hstep := (chain_inv cfg chain n0 hI hgood f upTo).step n.head n _ ⟨⟨hg.1, rfl⟩, hg.2⟩ hv hro hok
    have hr : (chain (n.head + 1)).round = upTo := by rw [hI'.round]; omega
    have key : loop cfg false f upTo n.head n (Item.pkt (chain (n.head + 1)) true :: (honestItems chain (n.head + 1 + 1) H ++ rest))
        = ((store1 cfg false n (chain (n.head + 1))).1, .reached) := by
      rw [loop]; simp [hv, hro, hok, hr]
    rw [key]
    exact ⟨⟨hstep.1.1, hstep.2⟩, rfl, by rw [← hstep.1.2]; exact hr⟩
  | succ d ih =>
    intro n hg hd
    have hI' : Ideal cfg.verify n.st.chained chain := by rw [hg.1.2.1]; exact hI
    rw [honestItems_cons chain (by omega), List.cons_append]
    have hv := hI'.complete (n.head + 1) (by omega)
    have hro : roundOk cfg false f upTo n.head (chain (n.head + 1)) = true := by
      unfold roundOk; simp [hI'.round]
    have hok := store1_next_ok (cfg := cfg) hI' hg.1.1 hg.2
    have hstep := (chain_inv cfg chain n0 hI hgood f upTo).step n.head n _ ⟨⟨hg.1, rfl⟩, hg.2⟩ hv hro hok
    have hr : (chain (n.head + 1)).round = n.head + 1 := hI'.round _
    have hne : ¬ (chain (n.head + 1)).round = upTo := by rw [hr]; omega
    have hh : (store1 cfg false n (chain (n.head + 1))).1.head = n.head + 1 := by rw [← hstep.1.2]; exact hr
    have key : loop cfg false f upTo n.head n (Item.pkt (chain (n.head + 1)) true :: (honestItems chain (n.head + 1 + 1) H ++ rest))
        = loop cfg false f upTo (n.head + 1) (store1 cfg false n (chain (n.head + 1))).1 (honestItems chain (n.head + 1 + 1) H ++ rest) := by
      rw [loop]; simp [hv, hro, hok, hr]; intro h; omega
    rw [key]
    have := ih (store1 cfg false n (chain (n.head + 1))).1 ⟨hstep.1.1, hstep.2⟩ (by omega)
    rw [hh] at this
    exact this

end conv

theorem good_refl {chain : Nat → Beacon} {n : Node} (hc : ChainInv n.st) (ho : OnChain chain n) : Good chain n n :=
  ⟨inOrder_refl n hc, ho⟩

/-- **c10_converges.** Configurations: the participant stack, or tryNode with the round check, or the follow stack on a
chained scheme. The node holds a prefix of the true chain below the target `upTo`. The peers are tried in the order
`pre ++ hp :: post` — any list, hence every permutation `rand.Perm` can yield — where `hp` is an honest peer, not the
node itself, whose head is at or beyond the target; the peers tried before it behave arbitrarily (bad signatures, wrong
/ skipped / repeated rounds, foreign ids, dial errors, early closes …) except that they do not stall; the peers after
it are arbitrary. Then `Sync` reports success, the head is exactly the target, every write was an append and the store
is still a prefix of the true chain. -/
theorem c10_converges (cfg : Cfg) (chain : Nat → Beacon) (self : String) (upTo H : Nat) (n : Node)
    (pre post : List Peer) (hp : Peer)
    (hI : Ideal cfg.verify n.st.chained chain)
    (hgood : cfg.mode = .participant ∨ cfg.roundCheck = true ∨ n.st.chained = true)
    (hle : ∀ s, ChainInv s → cfg.lastErr s.base = false)
    (hc : ChainInv n.st) (ho : OnChain chain n) (hlt : n.head < upTo) (hH : upTo ≤ H)
    (hhon : Honest chain H hp) (hself : hp.addr ≠ self) (hpre : ∀ p ∈ pre, NoStall p) :
    let r := sync cfg self 0 upTo false n (pre ++ hp :: post)
    r.2.1 = .ok ∧ r.1.head = upTo ∧ InOrder n r.1 ∧ OnChain chain r.1 := by
  suffices hsuff : ∀ (pre : List Peer) (m : Node), (∀ p ∈ pre, NoStall p) → Good chain n m → m.head < upTo →
      (sync cfg self 0 upTo false m (pre ++ hp :: post)).2.1 = .ok ∧
      (sync cfg self 0 upTo false m (pre ++ hp :: post)).1.head = upTo ∧
      Good chain n (sync cfg self 0 upTo false m (pre ++ hp :: post)).1 by
    obtain ⟨a, b, c⟩ := hsuff pre n hpre (good_refl hc ho) hlt
    exact ⟨a, b, c.1, c.2⟩
  intro pre
  induction pre with
  | nil =>
    intro m _ hg hm
    simp only [List.nil_append]
    unfold sync
    rw [if_neg hself]
    simp only [Bool.false_eq_true, if_false]
    -- the honest peer is tried on a node that holds a prefix of the chain below the target
    obtain ⟨rest, hserve⟩ := hhon (m.head + 1) (by omega)
    have hm1 : Good chain n { m with calls := (hp.addr, m.head + 1) :: m.calls } := hg
    obtain ⟨g, hreach, hhead⟩ := loop_honest (upTo := upTo) hI hgood (m.head + 1) H hH rest (upTo - m.head - 1)
      { m with calls := (hp.addr, m.head + 1) :: m.calls } hm1 (by show m.head + _ + 1 = upTo; omega)
    have ht : tryNode cfg 0 upTo m hp =
        loop cfg false (m.head + 1) upTo m.head { m with calls := (hp.addr, m.head + 1) :: m.calls }
          (honestItems chain (m.head + 1) H ++ rest) := by
      unfold tryNode
      simp [hle m.st hg.1.1, hserve]
    rw [ht]
    have hh : ({ m with calls := (hp.addr, m.head + 1) :: m.calls } : Node).head = m.head := rfl
    rw [hh] at hreach hhead g
    rw [hreach]
    exact ⟨rfl, hhead, g⟩
  | cons p pre ih =>
    intro m hns hg hm
    simp only [List.cons_append]
    unfold sync
    split
    · exact ih m (fun q hq => hns q (List.mem_cons_of_mem _ hq)) hg hm
    · simp only [Bool.false_eq_true, if_false]
      obtain ⟨g, r1, r2, r3⟩ := tryNode_any (upTo := upTo) hI hgood m p hg hm
      have hnc := r3 (hns p List.mem_cons_self)
      split
      · next h => exact ⟨rfl, r1 h, g⟩
      · next h => exact ih _ (fun q hq => hns q (List.mem_cons_of_mem _ hq)) g (r2 (by rw [h]; simp))
      · next h => exact absurd h hnc

/-- `Run` starts a sync for a request only while the head is below the target; each element of `attempts` is one such
sync (its peers in the order tried, behaving as they do at that time) -/
def restarts (cfg : Cfg) (self : String) (upTo : Nat) : Node → List (List Peer) → Node
  | n, [] => n
  | n, ps :: rest => if upTo ≤ n.head then n else restarts cfg self upTo (sync cfg self 0 upTo false n ps).1 rest

/-- **c10_converges_restarts.** Stalling peers are overcome only by `Run` cancelling the stuck sync and starting a new
one with a fresh random order. For *any* sequence of earlier attempts (any peers, any behaviour including stalls, hence
cancelled attempts) followed by one attempt in which an honest peer ahead of the target is reached before any stalling
peer, the node ends with its head at the target, still a prefix of the true chain. (That such an attempt eventually
occurs is a fairness assumption about `rand.Perm`, not a theorem.) -/
theorem c10_converges_restarts (cfg : Cfg) (chain : Nat → Beacon) (self : String) (upTo H : Nat) (n : Node)
    (earlier : List (List Peer)) (pre post : List Peer) (hp : Peer)
    (hI : Ideal cfg.verify n.st.chained chain)
    (hgood : cfg.mode = .participant ∨ cfg.roundCheck = true ∨ n.st.chained = true)
    (hle : ∀ s, ChainInv s → cfg.lastErr s.base = false)
    (hc : ChainInv n.st) (ho : OnChain chain n) (hlt : n.head < upTo) (hH : upTo ≤ H)
    (hhon : Honest chain H hp) (hself : hp.addr ≠ self) (hpre : ∀ p ∈ pre, NoStall p) :
    let r := restarts cfg self upTo n (earlier ++ [pre ++ hp :: post])
    r.head = upTo ∧ InOrder n r ∧ OnChain chain r := by
  suffices hsuff : ∀ (earlier : List (List Peer)) (m : Node), Good chain n m → m.head ≤ upTo →
      (restarts cfg self upTo m (earlier ++ [pre ++ hp :: post])).head = upTo ∧
      Good chain n (restarts cfg self upTo m (earlier ++ [pre ++ hp :: post])) by
    obtain ⟨a, b⟩ := hsuff earlier n (good_refl hc ho) (by omega)
    exact ⟨a, b.1, b.2⟩
  intro earlier
  induction earlier with
  | nil =>
    intro m hg hm
    simp only [List.nil_append, restarts]
    split
    · exact ⟨by omega, hg⟩
    · next hlt' =>
      have hIm : Ideal cfg.verify m.st.chained chain := by rw [hg.1.2.1]; exact hI
      have hgm : cfg.mode = .participant ∨ cfg.roundCheck = true ∨ m.st.chained = true := by rw [hg.1.2.1]; exact hgood
      -- re-run c10_converges' induction from m, relative to n
      have := c10_converges cfg chain self upTo H m pre post hp hIm hgm hle hg.1.1 hg.2 (by omega) hH hhon hself hpre
      obtain ⟨_, hh, hio, hoc⟩ := this
      refine ⟨hh, ?_, hoc⟩
      -- compose InOrder n m with InOrder m r
      obtain ⟨_, hch0, ws0, hw0, hr0, hh0, hl0⟩ := hg.1
      obtain ⟨hci, hch1, ws1, hw1, hr1, hh1, hl1⟩ := hio
      refine ⟨hci, by rw [hch1, hch0], ws1 ++ ws0, by rw [hw1, hw0, List.append_assoc], ?_, by rw [hh1, hh0, List.length_append]; omega, ?_⟩
      · rw [List.reverse_append, List.map_append, hr0, hr1, hh0, List.length_append]
        rw [show ws1.length + ws0.length = ws0.length + ws1.length by omega, ← List.range'_append_1,
          show n.head + ws0.length + 1 = n.head + 1 + ws0.length by omega]
      · intro k hk
        rw [hl1 k (by omega), hl0 k hk]
  | cons ps earlier ih =>
    intro m hg hm
    simp only [List.cons_append, restarts]
    split
    · next hge =>
      exact ⟨by omega, hg⟩
    · next hlt' =>
      obtain ⟨g, r1, r2⟩ := sync_any (upTo := upTo) hI hgood self ps false m hg (by omega)
      refine ih _ g ?_
      by_cases hok : (sync cfg self 0 upTo false m ps).2.1 = .ok
      · exact Nat.le_of_eq (r1 hok)
      · exact Nat.le_of_lt (r2 hok)

/-- a well-formed store of verifying beacons that starts at the genesis beacon is a prefix of the true chain: the
precondition `OnChain` of the convergence theorems is what C02 (`ChainInv`) and `c10_bad_peer_harmless` (`Valid`)
maintain -/
theorem onChain_of_valid {verify : Beacon → Bool} {chain : Nat → Beacon} {n : Node}
    (hI : Ideal verify n.st.chained chain) (hc : ChainInv n.st) (hv : Valid verify n.st)
    (hg : lookup 0 n.st.base = some (chain 0)) (hg' : n.st.chained = false → (chain 0).prev = []) : OnChain chain n := by
  intro r hr
  cases r with
  | zero =>
    rw [hg]
    unfold storedForm
    cases hch : n.st.chained with
    | true => rfl
    | false =>
      simp only [Bool.false_eq_true, if_false]
      have := hg' hch
      cases hcb : chain 0
      rw [hcb] at this
      simp_all
  | succ r =>
    obtain ⟨b, hb⟩ := Option.isSome_iff_exists.1 ((hc.dense (r + 1)).2 hr)
    have hver := hv (r + 1) b (by omega) hb
    have hround : b.round = r + 1 := by
      have hm : (r + 1, b) ∈ n.st.base := by
        clear hver
        generalize n.st.base = l at hb
        induction l with
        | nil => simp [lookup] at hb
        | cons a t ih =>
          obtain ⟨k', v'⟩ := a
          unfold lookup at hb
          split at hb
          · cases hb; subst_vars; exact List.mem_cons_self
          · exact List.mem_cons_of_mem _ (ih hb)
      exact hc.sorted.2 _ hm
    have hsf := storedForm_ideal hI hver
    rw [hround] at hsf
    rw [hb, ← hsf]
    congr 1
    unfold storedForm
    cases hch : n.st.chained with
    | true => rfl
    | false =>
      have := hc.linked r b hb
      rw [hch] at this
      simp only [Bool.false_eq_true, if_false] at this ⊢
      cases b
      simp_all

/-! ### the repair path: ReSync, CheckPastBeacons, CorrectPastBeacons -/

theorem loop_not_cancelled (cfg : Cfg) (resync : Bool) (f upTo : Nat) :
    ∀ (items : List Item) (last : Nat) (n : Node), Item.stall ∉ items →
      (loop cfg resync f upTo last n items).2 ≠ .cancelled := by
  intro items
  induction items with
  | nil => intro last n _; simp [loop]
  | cons it rest ih =>
    intro last n hs
    cases it with
    | close => simp [loop]
    | stall => simp at hs
    | pkt b idOk =>
      have hs' : Item.stall ∉ rest := fun h => hs (List.mem_cons_of_mem _ h)
      unfold loop
      split
      · simp
      · split
        · simp
        · split
          · simp
          · simp only
            split
            · split
              · simp
              · exact ih _ _ hs'
            · split
              · split <;> simp
              · simp

theorem tryNode_not_cancelled (cfg : Cfg) (from_ upTo : Nat) (n : Node) (p : Peer) (h : NoStall p) :
    (tryNode cfg from_ upTo n p).2 ≠ .cancelled := by
  unfold tryNode
  simp only
  split
  · simp
  · split
    · simp
    · split
      · simp
      · next items hs => exact loop_not_cancelled _ _ _ _ items _ _ (h _ _ hs)

/-- peers that never stall never get a sync cancelled -/
theorem sync_nostall (cfg : Cfg) (self : String) (from_ upTo : Nat) :
    ∀ (ps : List Peer) (n : Node), (∀ p ∈ ps, NoStall p) →
      (sync cfg self from_ upTo false n ps).2.2 = false ∧ (sync cfg self from_ upTo false n ps).2.1 ≠ .cancelled := by
  intro ps
  induction ps with
  | nil => intro n _; simp [sync]
  | cons p ps ih =>
    intro n h
    have hps : ∀ q ∈ ps, NoStall q := fun q hq => h q (List.mem_cons_of_mem _ hq)
    unfold sync
    split
    · exact ih n hps
    · simp only [Bool.false_eq_true, if_false]
      split
      · simp
      · exact ih _ hps
      · next hc => exact absurd hc (tryNode_not_cancelled cfg from_ upTo n p (h p List.mem_cons_self))

theorem loop_pkt (cfg : Cfg) (resync : Bool) (f upTo last : Nat) (n : Node) (b : Beacon) (idOk : Bool) (rest : List Item) :
    loop cfg resync f upTo last n (.pkt b idOk :: rest) =
      if idOk = false then (n, .failed)
      else if cfg.verify b = false then (n, .failed)
      else if roundOk cfg resync f upTo last b = false then (n, .failed)
      else if (store1 cfg resync n b).2 = .ok then
        (if b.round = upTo then ((store1 cfg resync n b).1, .reached) else loop cfg resync f upTo b.round (store1 cfg resync n b).1 rest)
      else if (store1 cfg resync n b).2 = .already then (n, if b.round = upTo then .reached else .failed)
      else (n, .failed) := by
  rw [loop]

/-- on the repair path tryNode reports success only right after writing a beacon of the target round -/
theorem loop_resync_reached (cfg : Cfg) (f upTo : Nat) :
    ∀ (items : List Item) (last : Nat) (n : Node), (loop cfg true f upTo last n items).2 = .reached →
      ∃ b ws, (loop cfg true f upTo last n items).1.writes = (⟨b, b⟩ :: ws) ++ n.writes ∧ b.round = upTo ∧ cfg.verify b = true := by
  intro items
  induction items with
  | nil => intro last n h; simp [loop] at h
  | cons it rest ih =>
    intro last n h
    cases it with
    | close => simp [loop] at h
    | stall => simp [loop] at h
    | pkt b idOk =>
      rw [loop_pkt] at h ⊢
      have hok : (store1 cfg true n b).2 = .ok := by simp [store1]
      by_cases h1 : idOk = false
      · simp [h1] at h
      · by_cases h2 : cfg.verify b = false
        · simp [h1, h2] at h
        · by_cases h3 : roundOk cfg true f upTo last b = false
          · simp [h1, h2, h3] at h
          · by_cases heq : b.round = upTo
            · have e : (if idOk = false then (n, TryRes.failed)
                  else if cfg.verify b = false then (n, .failed)
                  else if roundOk cfg true f upTo last b = false then (n, .failed)
                  else if (store1 cfg true n b).2 = .ok then
                    (if b.round = upTo then ((store1 cfg true n b).1, .reached) else loop cfg true f upTo b.round (store1 cfg true n b).1 rest)
                  else if (store1 cfg true n b).2 = .already then (n, if b.round = upTo then .reached else .failed)
                  else (n, .failed)) = ((store1 cfg true n b).1, .reached) := by
                rw [if_neg h1, if_neg h2, if_neg h3, if_pos hok, if_pos heq]
              rw [e]
              exact ⟨b, [], by simp [store1], heq, by simpa using h2⟩
            · have e : (if idOk = false then (n, TryRes.failed)
                  else if cfg.verify b = false then (n, .failed)
                  else if roundOk cfg true f upTo last b = false then (n, .failed)
                  else if (store1 cfg true n b).2 = .ok then
                    (if b.round = upTo then ((store1 cfg true n b).1, .reached) else loop cfg true f upTo b.round (store1 cfg true n b).1 rest)
                  else if (store1 cfg true n b).2 = .already then (n, if b.round = upTo then .reached else .failed)
                  else (n, .failed)) = loop cfg true f upTo b.round (store1 cfg true n b).1 rest := by
                rw [if_neg h1, if_neg h2, if_neg h3, if_pos hok, if_neg heq]
              rw [e] at h ⊢
              obtain ⟨b2, ws, hw, hr, hv⟩ := ih _ _ h
              exact ⟨b2, ws ++ [⟨b, b⟩], by rw [hw]; simp [store1], hr, hv⟩

theorem tryNode_resync_reached (cfg : Cfg) (from_ upTo : Nat) (hf : from_ ≠ 0) (n : Node) (p : Peer)
    (h : (tryNode cfg from_ upTo n p).2 = .reached) :
    ∃ b ws, (tryNode cfg from_ upTo n p).1.writes = (⟨b, b⟩ :: ws) ++ n.writes ∧ b.round = upTo ∧ cfg.verify b = true := by
  have hd : decide (from_ > 0) = true := by simp; omega
  unfold tryNode at h ⊢
  simp only [hd, if_neg hf] at h ⊢
  by_cases h1 : cfg.lastErr n.st.base = true
  · simp [h1] at h
  · by_cases h2 : from_ ≠ 0 ∧ from_ > upTo
    · simp [h1, h2] at h
    · simp only [h1, h2, if_false] at h ⊢
      cases hs : p.serve from_ with
      | err => simp [hs] at h
      | stream items =>
        simp only [hs] at h ⊢
        exact loop_resync_reached cfg _ upTo items _ _ h

theorem tryNode_writes (cfg : Cfg) (from_ upTo : Nat) (n : Node) (p : Peer) :
    ∃ ws, (tryNode cfg from_ upTo n p).1.writes = ws ++ n.writes := by
  have := tryNode_ind (cfg := cfg) (from_ := from_) (upTo := upTo) (P := fun _ m => NewWrites cfg n m)
    (fun f _ => newWrites_inv cfg _ f upTo n) n p (newWrites_refl cfg n)
  obtain ⟨ws, hw, _⟩ := this
  exact ⟨ws, hw⟩

theorem sync_resync_ok (cfg : Cfg) (self : String) (from_ upTo : Nat) (hf : from_ ≠ 0) :
    ∀ (ps : List Peer) (dead : Bool) (n : Node), (sync cfg self from_ upTo dead n ps).2.1 = .ok →
      ∃ b ws, (sync cfg self from_ upTo dead n ps).1.writes = (⟨b, b⟩ :: ws) ++ n.writes ∧ b.round = upTo ∧ cfg.verify b = true := by
  intro ps
  induction ps with
  | nil => intro dead n h; simp [sync] at h
  | cons p ps ih =>
    intro dead n h
    unfold sync at h ⊢
    split
    · next hs => rw [if_pos hs] at h; exact ih _ _ h
    · next hs =>
      rw [if_neg hs] at h
      split
      · next hd => rw [if_pos hd] at h; simp at h
      · next hd =>
        rw [if_neg hd] at h
        simp only at h ⊢
        obtain ⟨ws1, hw1⟩ := tryNode_writes cfg from_ upTo n p
        split
        · next hr => exact tryNode_resync_reached cfg from_ upTo hf n p hr
        · next hr =>
          rw [hr] at h
          obtain ⟨b, ws, hw, hb, hv⟩ := ih _ _ h
          exact ⟨b, ws ++ ws1, by rw [hw, hw1]; simp, hb, hv⟩
        · next hr =>
          rw [hr] at h
          obtain ⟨b, ws, hw, hb, hv⟩ := ih _ _ h
          exact ⟨b, ws ++ ws1, by rw [hw, hw1]; simp, hb, hv⟩

/-- an honest peer ahead of `to`, reached before any stalling peer, completes a repair request `from_..to` -/
def Reach (chain : Nat → Beacon) (self : String) (H : Nat) (ps : List Peer) : Prop :=
  ∃ pre hp post, ps = pre ++ hp :: post ∧ Honest chain H hp ∧ hp.addr ≠ self ∧ ∀ p ∈ pre, NoStall p

theorem loop_resync_honest (cfg : Cfg) (chain : Nat → Beacon) (hround : ∀ r, (chain r).round = r)
    (hcomp : ∀ r, 1 ≤ r → cfg.verify (chain r) = true) (f to H : Nat) (hf : 1 ≤ f) (hH : to ≤ H) (rest : List Item) :
    ∀ (d x : Nat) (last : Nat) (n : Node), f ≤ x → x + d = to →
      (loop cfg true f to last n (honestItems chain x H ++ rest)).2 = .reached := by
  intro d
  induction d with
  | zero =>
    intro x last n hfx hd
    rw [honestItems_cons chain (by omega), List.cons_append, loop_pkt]
    have hv := hcomp x (by omega)
    have hro : roundOk cfg true f to last (chain x) = true := by
      unfold roundOk; simp only [if_true, hround]; split <;> simp; omega
    have hok : (store1 cfg true n (chain x)).2 = .ok := by simp [store1]
    have hr : (chain x).round = to := by rw [hround]; omega
    simp [hv, hro, hok, hr]
  | succ d ih =>
    intro x last n hfx hd
    rw [honestItems_cons chain (by omega), List.cons_append, loop_pkt]
    have hv := hcomp x (by omega)
    have hro : roundOk cfg true f to last (chain x) = true := by
      unfold roundOk; simp only [if_true, hround]; split <;> simp; omega
    have hok : (store1 cfg true n (chain x)).2 = .ok := by simp [store1]
    have hne : ¬ (chain x).round = to := by rw [hround]; omega
    simp only [hv, hro, hok, hne, if_false, if_true, Bool.true_eq_false]
    exact ih (x + 1) _ _ (by omega) (by omega)

theorem sync_resync_reach (cfg : Cfg) (chain : Nat → Beacon) (self : String) (hround : ∀ r, (chain r).round = r)
    (hcomp : ∀ r, 1 ≤ r → cfg.verify (chain r) = true) (hle : ∀ b, cfg.lastErr b = false)
    (from_ to H : Nat) (hf : 1 ≤ from_) (hft : from_ ≤ to) (hH : to ≤ H) (ps : List Peer) (hr : Reach chain self H ps) (n : Node) :
    (sync cfg self from_ to false n ps).2.1 = .ok ∧ (sync cfg self from_ to false n ps).2.2 = false := by
  obtain ⟨pre, hp, post, rfl, hhon, hself, hpre⟩ := hr
  revert n
  induction pre with
  | nil =>
    intro n
    simp only [List.nil_append]
    unfold sync
    rw [if_neg hself]
    simp only [Bool.false_eq_true, if_false]
    obtain ⟨rest, hserve⟩ := hhon from_ (by omega)
    have ht : (tryNode cfg from_ to n hp).2 = .reached := by
      have h0 : from_ ≠ 0 := by omega
      have hd : decide (from_ > 0) = true := by simp; omega
      unfold tryNode
      simp only [hd, if_neg h0, hle, Bool.false_eq_true, if_false, hserve]
      rw [if_neg (by omega)]
      exact loop_resync_honest cfg chain hround hcomp from_ to H hf hH rest (to - from_) from_ _ _ (Nat.le_refl _) (by omega)
    simp [ht]
  | cons p pre ih =>
    intro n
    have ih' := ih (fun q hq => hpre q (List.mem_cons_of_mem _ hq))
    simp only [List.cons_append]
    unfold sync
    split
    · exact ih' n
    · simp only [Bool.false_eq_true, if_false]
      have hnc := tryNode_not_cancelled cfg from_ to n p (hpre p List.mem_cons_self)
      split
      · simp
      · exact ih' _
      · next h => exact absurd h hnc

/-- a repair is served at the first attempt, or — all peers failing without stalling — at the retry -/
def RepairOK (chain : Nat → Beacon) (self : String) (H : Nat) (e : List Peer × List Peer) : Prop :=
  Reach chain self H e.1 ∨ ((∀ p ∈ e.1, NoStall p) ∧ Reach chain self H e.2)

/-- **c10_resync_retry.** `ReSync from..to` with an honest peer holding `to`: if it is reached before any stalling peer
at the first attempt, or if at the first attempt every peer fails transiently (dial error, early close, bad packet —
anything but a stall) and it is reached at the one retry `ReSync` makes on `ErrFailedAll`, the repair reports success,
the context is not cancelled, and the last beacon written is a verifying beacon of round `to`. -/
theorem c10_resync_retry (cfg : Cfg) (chain : Nat → Beacon) (self : String) (hround : ∀ r, (chain r).round = r)
    (hcomp : ∀ r, 1 ≤ r → cfg.verify (chain r) = true) (hle : ∀ b, cfg.lastErr b = false)
    (from_ to H : Nat) (hf : 1 ≤ from_) (hft : from_ ≤ to) (hH : to ≤ H) (n : Node) (ps1 ps2 : List Peer)
    (hr : RepairOK chain self H (ps1, ps2)) :
    let r := reSync cfg self from_ to false n ps1 ps2
    r.2.1 = .ok ∧ r.2.2 = false ∧ ∃ b ws, r.1.writes = (⟨b, b⟩ :: ws) ++ n.writes ∧ b.round = to ∧ cfg.verify b = true := by
  have h0 : from_ ≠ 0 := by omega
  have key : ∀ (m : Node) (ps : List Peer), (sync cfg self from_ to false m ps).2.1 = .ok →
      (sync cfg self from_ to false m ps).2.1.toRe = .ok ∧
      ∃ b ws, (sync cfg self from_ to false m ps).1.writes = (⟨b, b⟩ :: ws) ++ m.writes ∧ b.round = to ∧ cfg.verify b = true :=
    fun m ps h => ⟨by rw [h]; rfl, sync_resync_ok cfg self from_ to h0 ps false m h⟩
  unfold reSync
  simp only [h0, if_false]
  rcases hr with h1 | ⟨hns, h2⟩
  · obtain ⟨hok, hd⟩ := sync_resync_reach cfg chain self hround hcomp hle from_ to H hf hft hH ps1 h1 n
    have hnf : ¬ (sync cfg self from_ to false n ps1).2.1 = .failedAll := by rw [hok]; simp
    simp only [hnf, if_false]
    exact ⟨(key n ps1 hok).1, hd, (key n ps1 hok).2⟩
  · obtain ⟨hd1, hnc⟩ := sync_nostall cfg self from_ to ps1 n hns
    split
    · rw [hd1]
      obtain ⟨hok, hd⟩ := sync_resync_reach cfg chain self hround hcomp hle from_ to H hf hft hH ps2 h2 _
      obtain ⟨b, ws, hw, hb, hv⟩ := (key _ ps2 hok).2
      obtain ⟨ws1, hw1, _⟩ := (c10_only_verified cfg self n).1 from_ to false ps1
      exact ⟨(key _ ps2 hok).1, hd, b, ws ++ ws1, by simp only; rw [hw, hw1]; simp, hb, hv⟩
    · next hnf =>
      have hok : (sync cfg self from_ to false n ps1).2.1 = .ok := by
        cases hres : (sync cfg self from_ to false n ps1).2.1 with
        | ok => rfl
        | failedAll => exact absurd hres hnf
        | cancelled => exact absurd hres hnc
      exact ⟨(key n ps1 hok).1, hd1, (key n ps1 hok).2⟩

/-- reading a store that received the logged writes: the newest write of that round, else what was there before -/
theorem lookup_foldr_put (ws : List Write) (base : BoltState) (r : Nat) :
    lookup r (ws.foldr (fun w acc => Bolt.put acc w.stored) base) =
      match ws.find? (fun w => decide (w.stored.round = r)) with
      | some w => some w.stored
      | none => lookup r base := by
  induction ws with
  | nil => rfl
  | cons w ws ih =>
    simp only [List.foldr_cons, List.find?_cons]
    unfold Bolt.put
    rw [c18_lookup_insert]
    by_cases h : w.stored.round = r
    · simp [h]
    · have h' : ¬ r = w.stored.round := fun e => h e.symm
      simp only [h, h', decide_false, if_false]
      exact ih

/-- the predicate "the stored beacon of round `r` cannot be read back, or is not a beacon of round `r`, or does not
verify" -/
def faultyAt (verify : Beacon → Bool) (get : Nat → GetRes) (r : Nat) : Bool :=
  match get r with
  | .ok b => decide (b.round ≠ r) || !verify b
  | .notStored => true
  | .otherErr => true

private theorem checkLoop_filter (lc : Bool) (verify : Beacon → Bool) (get : Nat → GetRes)
    (hround : ∀ r b, get r = .ok b → lc = true ∨ b.round = r) :
    ∀ k i, checkLoop lc verify get i k = (List.range' i k).filter (faultyAt verify get) := by
  intro k
  induction k with
  | zero => intro i; rfl
  | succ k ih =>
    intro i
    rw [checkLoop, ih, List.range'_succ, List.filter_cons]
    unfold faultyAt
    cases hg : get i with
    | notStored => simp
    | otherErr => simp
    | ok b =>
      by_cases hb : b.round = i
      · cases hv : verify b <;> simp [hb, hv]
      · rcases hround i b hg with hl | he
        · subst hl; simp [hb]
        · exact absurd he hb

/-- **c10_check_exact** (corrected variant `labelCheck`: the loop compares the round of the beacon it read with the round it
asked for). For *every* behaviour of the store's `Get` — a beacon, `ErrNoBeaconStored`, or any other error —
`CheckPastBeacons upTo` reports, in ascending order, exactly the rounds `1 ≤ r ≤ min upTo head` whose stored beacon cannot
be read back (missing *or* undecodable), is not a beacon of round `r`, or does not verify. No hypothesis on the store. -/
theorem c10_check_exact (verify : Beacon → Bool) (get : Nat → GetRes) (lastRound upTo : Nat) :
    checkPast true verify get lastRound upTo = (List.range' 1 (min upTo lastRound)).filter (faultyAt verify get) := by
  unfold checkPast
  rw [checkLoop_filter true verify get (fun _ _ _ => Or.inl rfl)]
  congr 2
  split <;> omega

/-
Full statement wanted for the as-is code: the same. It does not hold: the as-is loop never compares `b.Round` with `i`; a
record stored under round `i` that decodes to a beacon of another round `j` (one damaged digit of `"round":…` in the JSON
value of the untrimmed bolt format) is reported under `j` when it does not verify — the repair then re-fetches round `j` and
leaves round `i` as it is, for ever — and is not reported at all when it is a verifying beacon of round `j`
(`c10_check_label_counterexample`). What remains true needs the store to label what it returns with the round asked for,
which C18 proves for every store that was only written through `Put` (`c18_bolt_get_label`, `c18_trimmed_read_sound`):
-/
/-- **c10_check_exact_partial** (as-is code), all three outcomes of `Get`, under label soundness of the store. -/
theorem c10_check_exact_partial (verify : Beacon → Bool) (get : Nat → GetRes) (lastRound upTo : Nat)
    (hround : ∀ r b, get r = .ok b → b.round = r) :
    checkPast false verify get lastRound upTo = (List.range' 1 (min upTo lastRound)).filter (faultyAt verify get) := by
  unfold checkPast
  rw [checkLoop_filter false verify get (fun r b h => Or.inr (hround r b h))]
  congr 2
  split <;> omega

/-- under label soundness the two variants report the same rounds -/
theorem c10_check_variants_agree (verify : Beacon → Bool) (get : Nat → GetRes) (lastRound upTo : Nat)
    (hround : ∀ r b, get r = .ok b → b.round = r) :
    checkPast false verify get lastRound upTo = checkPast true verify get lastRound upTo := by
  rw [c10_check_exact, c10_check_exact_partial _ _ _ _ hround]

/-- **c10_check_label_counterexample** (as-is code; replayed on the real code, corpus/C10/check_mislabelled_record.json).
Head 9, every round holds its true beacon, except that the record of round 3 carries round 7: (a) with round 3's signature
it does not verify as round 7 and the as-is check reports `[7]` — not 3; (b) as a copy of round 7's true beacon it verifies
and the as-is check reports nothing. The corrected check reports `[3]` in both cases. -/
theorem c10_check_label_counterexample :
    let getA : Nat → GetRes := fun r => if r = 3 then .ok ⟨7, [1, 3], []⟩ else .ok ⟨r, [1, UInt8.ofNat r], []⟩
    let getB : Nat → GetRes := fun r => if r = 3 then .ok ⟨7, [1, 7], []⟩ else .ok ⟨r, [1, UInt8.ofNat r], []⟩
    checkPast false cxVerify getA 9 9 = [7] ∧ checkPast false cxVerify getB 9 9 = [] ∧
    checkPast true cxVerify getA 9 9 = [3] ∧ checkPast true cxVerify getB 9 9 = [3] := by
  decide

/-- **tie_check_every_get_error_faulty**: regenerated from `CheckPastBeacons` — the first statement after
`b, err := s.store.Get(ctx, i)` is `if err != nil { faultyBeacons = append(faultyBeacons, i); …; continue }`, nothing in the
loop returns on a read error or looks at the kind of error (the model's `notStored` and `otherErr` arms are the same), a
beacon whose round differs from the round asked for is reported under the round asked for (repair 10aa81d7; before it the
loop had no label comparison: `checkPast false`, `c10_check_label_counterexample`), after which `b.Round = i`. -/
theorem tie_check_every_get_error_faulty :
    Gen.checkPastEveryGetErrorFaulty = true ∧ Gen.checkPastLabelChecked = true ∧
    Gen.checkPastSteps = ["err!=nil => faulty:i,[i>=upTo]break,continue",
      "b.Round!=i => faulty:i,[i>=upTo]break,continue",
      "err=s.scheme.VerifyBeacon(b,s.info.PublicKey);err!=nil => faulty:b.Round",
      "i%commonutils.LogsToSkip==0 => ", "i>=upTo => break"] := by decide

/-! #### CorrectPastBeacons -/

/-- on the repair path the packet is stored as it came -/
def RawWrites (cfg : Cfg) (n0 n : Node) : Prop :=
  ∃ ws : List Write, n.writes = ws ++ n0.writes ∧
    n.st.base = ws.foldr (fun w acc => Bolt.put acc w.stored) n0.st.base ∧
    ∀ w ∈ ws, cfg.verify w.pkt = true ∧ w.stored = w.pkt

theorem rawWrites_inv (cfg : Cfg) (f upTo : Nat) (n0 : Node) : Inv cfg true f upTo (fun _ n => RawWrites cfg n0 n) := by
  refine ⟨?_, fun _ _ _ h => h, fun _ _ h => h⟩
  intro last n b ⟨ws, hw, hb, hv⟩ hver _ _
  refine ⟨⟨b, b⟩ :: ws, by simp [store1, hw], by simp [store1, Stack.rawPut, hb], ?_⟩
  intro w hwm
  rcases List.mem_cons.1 hwm with rfl | hwm
  · exact ⟨hver, rfl⟩
  · exact hv w hwm

/-- corrected variant `rangeCheck`: a repair of the rounds `fb` writes rounds of `fb` only -/
theorem rangeWrites_inv (cfg : Cfg) (hrg : cfg.rangeCheck = true) (fb : List Nat) (x : Nat) (hx : x ∈ fb) (n0 : Node) :
    Inv cfg true x x (fun _ n => ∃ ws : List Write, n.writes = ws ++ n0.writes ∧ ∀ w ∈ ws, w.stored.round ∈ fb) := by
  refine ⟨?_, fun _ _ _ h => h, fun _ _ h => h⟩
  intro last n b ⟨ws, hw, hv⟩ _ hro _
  refine ⟨⟨b, b⟩ :: ws, by simp [store1, hw], ?_⟩
  intro w hwm
  rcases List.mem_cons.1 hwm with rfl | hwm
  · have : x ≤ b.round ∧ b.round ≤ x := by unfold roundOk at hro; simpa [hrg] using hro
    have : b.round = x := by omega
    simp only; rw [this]; exact hx
  · exact hv w hwm

/-- every faulty round gets written when each repair is served -/
theorem correctLoop_served (cfg : Cfg) (chain : Nat → Beacon) (self : String) (hround : ∀ r, (chain r).round = r)
    (hcomp : ∀ r, 1 ≤ r → cfg.verify (chain r) = true) (hle : ∀ b, cfg.lastErr b = false) (H : Nat)
    (env : Nat → List Peer × List Peer) (henv : ∀ i, RepairOK chain self H (env i)) :
    ∀ (fb : List Nat), (∀ x ∈ fb, 1 ≤ x ∧ x ≤ H) → ∀ (i : Nat) (n : Node) (errs : Nat),
      let r := correctLoop cfg self env i false n errs fb
      r.2.1 = (if errs = 0 then .ok else .errors errs) ∧ r.2.2 = false ∧
        ∃ ws, r.1.writes = ws ++ n.writes ∧ ∀ x ∈ fb, ∃ w ∈ ws, w.stored.round = x := by
  intro fb
  induction fb with
  | nil => intro _ i n errs; exact ⟨by simp [correctLoop], by simp [correctLoop], [], rfl, fun _ h => by cases h⟩
  | cons b rest ih =>
    intro hfb i n errs
    obtain ⟨hb1, hbH⟩ := hfb b List.mem_cons_self
    obtain ⟨hok, hd, b', ws1, hw1, hr1, _⟩ :=
      c10_resync_retry cfg chain self hround hcomp hle b b H hb1 (Nat.le_refl _) hbH n (env i).1 (env i).2 (henv i)
    rw [correctLoop]
    simp only [Bool.false_eq_true, if_false]
    rw [hd]
    simp only [hok, if_true]
    obtain ⟨h1, h2, ws, hw, hall⟩ := ih (fun x hx => hfb x (List.mem_cons_of_mem _ hx)) (i + 1) _ errs
    refine ⟨h1, h2, ws ++ (⟨b', b'⟩ :: ws1), by rw [hw, hw1]; simp, ?_⟩
    intro x hx
    rcases List.mem_cons.1 hx with rfl | hx
    · exact ⟨⟨b', b'⟩, by simp, hr1⟩
    · obtain ⟨w, hwm, hwr⟩ := hall x hx
      exact ⟨w, List.mem_append_left _ hwm, hwr⟩

/-- what a served repair leaves in the store, for either variant -/
theorem correct_core (cfg : Cfg) (chain : Nat → Beacon) (self : String) (hround : ∀ r, (chain r).round = r)
    (hcomp : ∀ r, 1 ≤ r → cfg.verify (chain r) = true) (hle : ∀ b, cfg.lastErr b = false) (H : Nat)
    (env : Nat → List Peer × List Peer) (henv : ∀ i, RepairOK chain self H (env i))
    (n : Node) (fb : List Nat) (hfb : ∀ x ∈ fb, 1 ≤ x ∧ x ≤ H) :
    let r := correctPast cfg self env n fb
    r.2.1 = .ok ∧
    (∀ x, x ∈ fb → ∃ b, lookup x r.1.st.base = some b ∧ cfg.verify b = true ∧ b.round = x) ∧
    (∀ x, lookup x r.1.st.base = lookup x n.st.base ∨
        ∃ b, lookup x r.1.st.base = some b ∧ cfg.verify b = true ∧ b.round = x) ∧
    (cfg.rangeCheck = true → ∀ x, x ∉ fb → lookup x r.1.st.base = lookup x n.st.base) := by
  have hraw := correctLoop_ind (cfg := cfg) (self := self) (env := env) (P := fun _ m => RawWrites cfg n m) fb
    (fun x _ _ => rawWrites_inv cfg x x n) 0 false n 0 ⟨[], rfl, rfl, fun _ h => by cases h⟩
  obtain ⟨hres, _, ws', hw', hall⟩ := correctLoop_served cfg chain self hround hcomp hle H env henv fb hfb 0 n 0
  obtain ⟨ws, hw, hbase, hv⟩ := hraw
  have hws : ws' = ws := by
    have : ws' ++ n.writes = ws ++ n.writes := by rw [← hw', ← hw]
    exact List.append_cancel_right this
  subst hws
  have hlook := fun x => lookup_foldr_put ws' n.st.base x
  have found : ∀ x w, ws'.find? (fun w => decide (w.stored.round = x)) = some w →
      ∃ b, lookup x (correctPast cfg self env n fb).1.st.base = some b ∧ cfg.verify b = true ∧ b.round = x := by
    intro x w hf
    have hm := List.mem_of_find?_eq_some hf
    have hp := List.find?_some hf
    obtain ⟨hver, hst⟩ := hv w hm
    refine ⟨w.stored, ?_, by rw [hst]; exact hver, by simpa using hp⟩
    unfold correctPast
    rw [hbase, hlook x, hf]
  refine ⟨by simpa [correctPast] using hres, ?_, ?_, ?_⟩
  · intro x hx
    obtain ⟨w, hwm, hwr⟩ := hall x hx
    cases hf : ws'.find? (fun w => decide (w.stored.round = x)) with
    | none => exact absurd hwr (by simpa using List.find?_eq_none.1 hf w hwm)
    | some w' => exact found x w' hf
  · intro x
    cases hf : ws'.find? (fun w => decide (w.stored.round = x)) with
    | none => left; unfold correctPast; rw [hbase, hlook x, hf]
    | some w' => right; exact found x w' hf
  · intro hrg x hx
    have hrange := correctLoop_ind (cfg := cfg) (self := self) (env := env)
      (P := fun _ m => ∃ ws : List Write, m.writes = ws ++ n.writes ∧ ∀ w ∈ ws, w.stored.round ∈ fb) fb
      (fun y hy _ => rangeWrites_inv cfg hrg fb y hy n) 0 false n 0 ⟨[], rfl, fun _ h => by cases h⟩
    obtain ⟨ws2, hw2, hin⟩ := hrange
    have : ws2 = ws' := by
      have : ws2 ++ n.writes = ws' ++ n.writes := by rw [← hw2, ← hw]
      exact List.append_cancel_right this
    subst this
    have hf : ws2.find? (fun w => decide (w.stored.round = x)) = none := by
      apply List.find?_eq_none.2
      intro w hwm
      have := hin w hwm
      simp only [decide_eq_true_eq]
      intro e; rw [e] at this; exact hx this
    unfold correctPast
    rw [hbase, hlook x, hf]

/-- **c10_correct_exact** (corrected variant `rangeCheck`: on the repair path tryNode refuses rounds outside
`[from, upTo]`). `CorrectPastBeacons fb`, every faulty round held by an honest peer that is reached (before any stalling
peer) at the first attempt or at the retry, the other peers behaving arbitrarily: the repair reports success, the store
differs from before exactly on `fb`, and every round of `fb` now holds a verifying beacon of that round. -/
theorem c10_correct_exact (cfg : Cfg) (hrg : cfg.rangeCheck = true) (chain : Nat → Beacon) (self : String)
    (hround : ∀ r, (chain r).round = r) (hcomp : ∀ r, 1 ≤ r → cfg.verify (chain r) = true)
    (hle : ∀ b, cfg.lastErr b = false) (H : Nat) (env : Nat → List Peer × List Peer)
    (henv : ∀ i, RepairOK chain self H (env i)) (n : Node) (fb : List Nat) (hfb : ∀ x ∈ fb, 1 ≤ x ∧ x ≤ H) :
    let r := correctPast cfg self env n fb
    r.2.1 = .ok ∧
    (∀ x, x ∈ fb → ∃ b, lookup x r.1.st.base = some b ∧ cfg.verify b = true ∧ b.round = x) ∧
    (∀ x, x ∉ fb → lookup x r.1.st.base = lookup x n.st.base) := by
  obtain ⟨a, b, _, d⟩ := correct_core cfg chain self hround hcomp hle H env henv n fb hfb
  exact ⟨a, b, d hrg⟩

/-
Full statement wanted for the as-is code: as c10_correct_exact without `rangeCheck`. It does not hold: on the repair
path tryNode writes *any* verifying beacon the peer streams straight into the base store (`insecureStore`), whatever
its round, so a lying peer tried before the honest one changes rounds outside `fb` — including rounds beyond the head,
which leaves a gap (`c10_correct_counterexample`). What remains true:
-/
/-- **c10_correct_partial** (as-is code): same hypotheses; the repair reports success and every round of `fb` now holds a
verifying beacon of that round; a round outside `fb` is either untouched or now holds a verifying beacon of that round. -/
theorem c10_correct_partial (cfg : Cfg) (chain : Nat → Beacon) (self : String)
    (hround : ∀ r, (chain r).round = r) (hcomp : ∀ r, 1 ≤ r → cfg.verify (chain r) = true)
    (hle : ∀ b, cfg.lastErr b = false) (H : Nat) (env : Nat → List Peer × List Peer)
    (henv : ∀ i, RepairOK chain self H (env i)) (n : Node) (fb : List Nat) (hfb : ∀ x ∈ fb, 1 ≤ x ∧ x ≤ H) :
    let r := correctPast cfg self env n fb
    r.2.1 = .ok ∧
    (∀ x, x ∈ fb → ∃ b, lookup x r.1.st.base = some b ∧ cfg.verify b = true ∧ b.round = x) ∧
    (∀ x, lookup x r.1.st.base = lookup x n.st.base ∨
        ∃ b, lookup x r.1.st.base = some b ∧ cfg.verify b = true ∧ b.round = x) := by
  obtain ⟨a, b, c, _⟩ := correct_core cfg chain self hround hcomp hle H env henv n fb hfb
  exact ⟨a, b, c⟩

/-- the participant node of the counterexamples: unchained chain 0..3 with the true signatures -/
def cxNode3 : Node :=
  ⟨Stack.run false [0, 0] [.put ⟨1, [1, 1], []⟩, .put ⟨2, [1, 2], []⟩, .put ⟨3, [1, 3], []⟩], [], []⟩
/-- asked to repair round `f`, first streams the true beacon of round 9, then that of round `f` -/
def cxBeyond : Peer := ⟨"liar", fun f => .stream [.pkt ⟨9, [1, 9], []⟩ true, .pkt ⟨f, [1, UInt8.ofNat f], []⟩ true]⟩
def cxHonest (H : Nat) : Peer :=
  ⟨"honest", fun f => .stream ((List.range' f (H + 1 - f)).map fun r => .pkt ⟨r, [1, UInt8.ofNat r], []⟩ true)⟩

/-- **c10_correct_counterexample** (as-is code; replayed on the real code, corpus/C10/resync_out_of_range.json): the node
holds rounds 0..3, round 2 is to be repaired, the peers are a liar and then an honest peer (so every hypothesis of
`c10_correct_exact` but `rangeCheck` holds). The repair reports success and leaves round 9 in the base store: rounds
4..8 are missing below the new head. -/
theorem c10_correct_counterexample :
    let r := correctPast (cxCfg .participant) "self" (fun _ => ([cxBeyond, cxHonest 9], [cxBeyond, cxHonest 9])) cxNode3 [2]
    r.2.1 = .ok ∧ cxNode3.st.base.map (·.1) = [0, 1, 2, 3] ∧ r.1.st.base.map (·.1) = [0, 1, 2, 3, 9] ∧
      lookup 9 cxNode3.st.base = none ∧ (lookup 9 r.1.st.base).isSome = true := by
  decide

/-! #### check, then repair -/

/-- `Get` of a store holding `base`, for a decoder that reads `readable` records back -/
def storeGet (readable : Beacon → Bool) (base : BoltState) (r : Nat) : GetRes :=
  match lookup r base with
  | none => .notStored
  | some b => if readable b then .ok b else .otherErr

private theorem lookup_mem' {α : Type} {k : Nat} {v : α} {l : List (Nat × α)} (h : lookup k l = some v) : (k, v) ∈ l := by
  induction l with
  | nil => simp [lookup] at h
  | cons a t ih =>
    obtain ⟨k', v'⟩ := a
    unfold lookup at h
    split at h
    · cases h; subst_vars; exact List.mem_cons_self
    · exact List.mem_cons_of_mem _ (ih h)

private theorem storeGet_label (readable : Beacon → Bool) (base : BoltState) (h : BoltInv base) :
    ∀ r b, storeGet readable base r = .ok b → b.round = r := by
  intro r b hg
  unfold storeGet at hg
  split at hg
  · cases hg
  · next b' hb' =>
    split at hg
    · cases hg; exact h.2 _ (lookup_mem' hb')
    · cases hg

private theorem mem_insert' {α : Type} {k : Nat} {v : α} {l : List (Nat × α)} {p : Nat × α} (h : p ∈ Store.insert k v l) : p = (k, v) ∨ p ∈ l := by
  induction l with
  | nil => simp [Store.insert] at h; exact Or.inl h
  | cons a t ih =>
    obtain ⟨k', v'⟩ := a
    unfold Store.insert at h
    split at h
    · rcases List.mem_cons.1 h with rfl | h
      · exact Or.inl rfl
      · exact Or.inr h
    · split at h
      · rcases List.mem_cons.1 h with rfl | h
        · exact Or.inl rfl
        · exact Or.inr (List.mem_cons_of_mem _ h)
      · rcases List.mem_cons.1 h with rfl | h
        · exact Or.inr List.mem_cons_self
        · rcases ih h with e | m
          · exact Or.inl e
          · exact Or.inr (List.mem_cons_of_mem _ m)

private theorem boltInv_put {s : BoltState} (h : BoltInv s) (b : Beacon) : BoltInv (Bolt.put s b) := by
  refine ⟨c18_insert_sorted _ _ _ h.1, ?_⟩
  intro p hp
  rcases mem_insert' hp with rfl | hp
  · rfl
  · exact h.2 p hp

private theorem boltInv_foldr (ws : List Write) {s : BoltState} (h : BoltInv s) :
    BoltInv (ws.foldr (fun w acc => Bolt.put acc w.stored) s) := by
  induction ws with
  | nil => exact h
  | cons w ws ih => exact boltInv_put ih _

/-- in a sorted map the key of the last entry is the largest key, and every stored key reads back -/
private theorem head_max {base : BoltState} (hi : BoltInv base) {k : Nat} {v : Beacon} (hl : lookup k base = some v) :
    k ≤ (Stack.last base).round := by
  have hm := lookup_mem' hl
  cases hg : base.getLast? with
  | none => rw [List.getLast?_eq_none_iff.1 hg] at hm; cases hm
  | some kv =>
    obtain ⟨k', v'⟩ := kv
    have := c18_last_is_max base hi.1 k' v' hg (k, v) hm
    have hr : v'.round = k' := hi.2 _ (List.mem_of_getLast? hg)
    unfold Stack.last
    rw [hg]
    simp only
    omega

private theorem head_stored {base : BoltState} (hi : BoltInv base) (hn : base ≠ []) :
    ∃ v, lookup (Stack.last base).round base = some v := by
  cases hg : base.getLast? with
  | none => exact absurd (List.getLast?_eq_none_iff.1 hg) hn
  | some kv =>
    obtain ⟨k', v'⟩ := kv
    have hm : (k', v') ∈ base := List.mem_of_getLast? hg
    have hr : v'.round = k' := hi.2 _ hm
    unfold Stack.last
    rw [hg]
    simp only
    rw [hr]
    -- a member of a sorted list is found by lookup
    have key : ∀ (l : List (Nat × Beacon)), Sorted l → (k', v') ∈ l → ∃ v, lookup k' l = some v := by
      intro l
      induction l with
      | nil => intro _ h; cases h
      | cons a t ih =>
        obtain ⟨ka, va⟩ := a
        intro hs hmem
        unfold lookup
        split
        · exact ⟨_, rfl⟩
        · next hne =>
          rcases List.mem_cons.1 hmem with e | hmem
          · cases e; exact absurd rfl hne
          · have hst : Sorted t := by
              cases t with
              | nil => trivial
              | cons b t => obtain ⟨kb, vb⟩ := b; exact hs.2
            exact ih hst hmem
    exact key base hi.1 hm

/-- writes of rounds that are at most the head, into a store that keeps every other round, keep the head -/
private theorem head_kept {base base' : BoltState} (hi : BoltInv base) (hi' : BoltInv base') (hn : base ≠ [])
    (fb : List Nat) (hfb : ∀ x ∈ fb, x ≤ (Stack.last base).round)
    (hin : ∀ x ∈ fb, ∃ b, lookup x base' = some b)
    (hout : ∀ x, x ∉ fb → lookup x base' = lookup x base) :
    (Stack.last base').round = (Stack.last base).round := by
  obtain ⟨v, hv⟩ := head_stored hi hn
  have hsome : ∃ v', lookup (Stack.last base).round base' = some v' := by
    by_cases hx : (Stack.last base).round ∈ fb
    · exact hin _ hx
    · exact ⟨v, by rw [hout _ hx, hv]⟩
  obtain ⟨v', hv'⟩ := hsome
  have h1 : (Stack.last base).round ≤ (Stack.last base').round := head_max hi' hv'
  have hn' : base' ≠ [] := by
    intro e; rw [e] at hv'; simp [lookup] at hv'
  obtain ⟨w, hw⟩ := head_stored hi' hn'
  have h2 : (Stack.last base').round ≤ (Stack.last base).round := by
    by_cases hx : (Stack.last base').round ∈ fb
    · exact hfb _ hx
    · rw [hout _ hx] at hw
      exact head_max hi hw
  omega

/-- **c10_check_then_correct** (corrected variant `rangeCheck`; either variant of the label check — a store that was only
written through `Put` labels soundly, so they agree). The two halves compose: take a store `base` (well-formed: `BoltInv`,
C18) some of whose records are missing, undecodable (`readable b = false`: `Get` answers an error that is not
ErrNoBeaconStored) or do not verify; `fb := CheckPastBeacons upTo`; `CorrectPastBeacons fb` with every faulty round held by
an honest peer that is reached. Then the repair reports success, changes no round outside `fb`, every round of `fb` now holds
a verifying beacon of that round, the head is unchanged, and a second `CheckPastBeacons upTo` reports nothing. -/
theorem c10_check_then_correct (cfg : Cfg) (hrg : cfg.rangeCheck = true) (chain : Nat → Beacon) (self : String)
    (hround : ∀ r, (chain r).round = r) (hcomp : ∀ r, 1 ≤ r → cfg.verify (chain r) = true)
    (hle : ∀ b, cfg.lastErr b = false) (H : Nat) (env : Nat → List Peer × List Peer)
    (henv : ∀ i, RepairOK chain self H (env i)) (readable : Beacon → Bool)
    (hrd : ∀ b, cfg.verify b = true → readable b = true)
    (lc : Bool) (n : Node) (hinv : BoltInv n.st.base) (hne : n.st.base ≠ []) (hH : n.head ≤ H) (upTo : Nat) :
    let fb := checkPast lc cfg.verify (storeGet readable n.st.base) n.head upTo
    let r := correctPast cfg self env n fb
    r.2.1 = .ok ∧
    (∀ x, x ∉ fb → lookup x r.1.st.base = lookup x n.st.base) ∧
    (∀ x, x ∈ fb → ∃ b, lookup x r.1.st.base = some b ∧ cfg.verify b = true ∧ b.round = x) ∧
    r.1.head = n.head ∧
    checkPast lc cfg.verify (storeGet readable r.1.st.base) r.1.head upTo = [] := by
  intro fb r
  have hlab := storeGet_label readable n.st.base hinv
  have hfbeq : fb = (List.range' 1 (min upTo n.head)).filter (faultyAt cfg.verify (storeGet readable n.st.base)) := by
    cases lc
    · exact c10_check_exact_partial _ _ _ _ hlab
    · exact c10_check_exact _ _ _ _
  have hfbr : ∀ x ∈ fb, 1 ≤ x ∧ x ≤ n.head := by
    intro x hx
    rw [hfbeq] at hx
    have := (List.mem_filter.1 hx).1
    rw [List.mem_range'_1] at this
    omega
  have hfb : ∀ x ∈ fb, 1 ≤ x ∧ x ≤ H := fun x hx => ⟨(hfbr x hx).1, by have := (hfbr x hx).2; omega⟩
  obtain ⟨hok, hrep, hother⟩ := c10_correct_exact cfg hrg chain self hround hcomp hle H env henv n fb hfb
  -- the repaired store is still a well-formed map, with the same head
  have hraw := correctLoop_ind (cfg := cfg) (self := self) (env := env) (P := fun _ m => RawWrites cfg n m) fb
    (fun x _ _ => rawWrites_inv cfg x x n) 0 false n 0 ⟨[], rfl, rfl, fun _ h => by cases h⟩
  obtain ⟨ws, _, hbase, _⟩ := hraw
  have hinv' : BoltInv r.1.st.base := by
    show BoltInv (correctPast cfg self env n fb).1.st.base
    unfold correctPast
    rw [hbase]
    exact boltInv_foldr ws hinv
  have hhead : r.1.head = n.head :=
    head_kept hinv hinv' hne fb (fun x hx => (hfbr x hx).2)
      (fun x hx => let ⟨b, hb, _⟩ := hrep x hx; ⟨b, hb⟩) hother
  refine ⟨hok, hother, hrep, hhead, ?_⟩
  rw [hhead]
  -- the second check: label soundness of the repaired store
  have hlab' : ∀ x b, storeGet readable r.1.st.base x = .ok b → b.round = x := by
    intro x b hg
    by_cases hx : x ∈ fb
    · obtain ⟨b', hb', _, hbr⟩ := hrep x hx
      unfold storeGet at hg
      rw [hb'] at hg
      simp only at hg
      split at hg
      · cases hg; exact hbr
      · cases hg
    · have : storeGet readable r.1.st.base x = storeGet readable n.st.base x := by
        unfold storeGet; rw [hother x hx]
      rw [this] at hg
      exact hlab x b hg
  have hsecond : checkPast lc cfg.verify (storeGet readable r.1.st.base) n.head upTo =
      (List.range' 1 (min upTo n.head)).filter (faultyAt cfg.verify (storeGet readable r.1.st.base)) := by
    cases lc
    · exact c10_check_exact_partial _ _ _ _ hlab'
    · exact c10_check_exact _ _ _ _
  rw [hsecond, List.filter_eq_nil_iff]
  intro x hx
  by_cases hxf : x ∈ fb
  · obtain ⟨b', hb', hv, hbr⟩ := hrep x hxf
    unfold faultyAt storeGet
    rw [hb']
    simp [hrd b' hv, hv, hbr]
  · have hnf : ¬ faultyAt cfg.verify (storeGet readable n.st.base) x = true := by
      intro hf
      apply hxf
      rw [hfbeq]
      exact List.mem_filter.2 ⟨hx, hf⟩
    have : storeGet readable r.1.st.base x = storeGet readable n.st.base x := by
      unfold storeGet; rw [hother x hxf]
    unfold faultyAt at hnf ⊢
    rw [this]
    exact hnf


/-- non-vacuity of `c10_check_then_correct`: rounds 0..5, round 2 deleted, round 3 torn (`[4,3]`, unreadable), round 4 holding
a corrupted signature; the check reports [2, 3, 4]; an honest peer repairs them; the second check is clean -/
example :
    let base : BoltState := [(0, ⟨0, [0, 0], []⟩), (1, ⟨1, [1, 1], []⟩), (3, ⟨3, [4, 3], []⟩), (4, ⟨4, [2, 4], []⟩), (5, ⟨5, [1, 5], []⟩)]
    let rd : Beacon → Bool := fun b => !(b.sig == [4, UInt8.ofNat b.round])
    let n : Node := ⟨Stack.build false base, [], []⟩
    let cfg := { cxCfg .participant with rangeCheck := true }
    let fb := checkPast false cfg.verify (storeGet rd n.st.base) n.head 9
    let r := correctPast cfg "self" (fun _ => ([cxHonest 9], [])) n fb
    fb = [2, 3, 4] ∧ r.2.1 = .ok ∧ checkPast false cfg.verify (storeGet rd r.1.st.base) r.1.head 9 = [] := by
  decide

/-! ### the follow loop -/

/-- **c10_follow_retry** (corrected variant `followRetry`: `errChan` is a made channel, so a failed `Sync` is retried
after a period). Follow stack with the round check or on a chained scheme; `earlier` are attempts in which every peer
fails without stalling (transient failures: dial errors, early closes, bad packets …); then comes an attempt in which an
honest peer ahead of the target is reached before any stalling peer. The loop ends `done` with the head at the target
and the store a prefix of the true chain. -/
theorem c10_follow_retry (cfg : Cfg) (hfr : cfg.followRetry = true) (chain : Nat → Beacon) (self : String) (upTo H : Nat)
    (n : Node) (earlier : List (List Peer)) (pre post : List Peer) (hp : Peer)
    (hI : Ideal cfg.verify n.st.chained chain)
    (hgood : cfg.mode = .participant ∨ cfg.roundCheck = true ∨ n.st.chained = true)
    (hle : ∀ s, ChainInv s → cfg.lastErr s.base = false)
    (hc : ChainInv n.st) (ho : OnChain chain n) (hlt : n.head < upTo) (hH : upTo ≤ H)
    (hhon : Honest chain H hp) (hself : hp.addr ≠ self) (hpre : ∀ p ∈ pre, NoStall p)
    (hearlier : ∀ ps ∈ earlier, ∀ p ∈ ps, NoStall p) :
    let r := followLoop cfg self upTo n (earlier ++ [pre ++ hp :: post])
    r.2 = .done ∧ r.1.head = upTo ∧ InOrder n r.1 ∧ OnChain chain r.1 := by
  suffices hsuff : ∀ (earlier : List (List Peer)) (m : Node), (∀ ps ∈ earlier, ∀ p ∈ ps, NoStall p) → Good chain n m →
      m.head < upTo →
      (followLoop cfg self upTo m (earlier ++ [pre ++ hp :: post])).2 = .done ∧
      (followLoop cfg self upTo m (earlier ++ [pre ++ hp :: post])).1.head = upTo ∧
      Good chain n (followLoop cfg self upTo m (earlier ++ [pre ++ hp :: post])).1 by
    obtain ⟨a, b, c⟩ := hsuff earlier n hearlier (good_refl hc ho) hlt
    exact ⟨a, b, c.1, c.2⟩
  intro earlier
  induction earlier with
  | nil =>
    intro m _ hg hm
    have hIm : Ideal cfg.verify m.st.chained chain := by rw [hg.1.2.1]; exact hI
    have hgm : cfg.mode = .participant ∨ cfg.roundCheck = true ∨ m.st.chained = true := by rw [hg.1.2.1]; exact hgood
    obtain ⟨hok, hh, _, hoc⟩ :=
      c10_converges cfg chain self upTo H m pre post hp hIm hgm hle hg.1.1 hg.2 hm hH hhon hself hpre
    obtain ⟨g, _, _⟩ := sync_any (upTo := upTo) hI hgood self (pre ++ hp :: post) false m hg hm
    simp only [List.nil_append, followLoop, hok, true_or, if_true]
    exact ⟨trivial, hh, g⟩
  | cons ps earlier ih =>
    intro m hns hg hm
    obtain ⟨g, r1, r2⟩ := sync_any (upTo := upTo) hI hgood self ps false m hg hm
    obtain ⟨_, hnc⟩ := sync_nostall cfg self 0 upTo ps m (hns ps List.mem_cons_self)
    have hIm : Ideal cfg.verify m.st.chained chain := by rw [hg.1.2.1]; exact hI
    have hgm : cfg.mode = .participant ∨ cfg.roundCheck = true ∨ m.st.chained = true := by rw [hg.1.2.1]; exact hgood
    obtain ⟨gl, _, _⟩ := sync_any (upTo := upTo) hIm hgm self ps false m (good_refl hg.1.1 hg.2) hm
    simp only [List.cons_append, followLoop]
    cases hres : (sync cfg self 0 upTo false m ps).2.1 with
    | ok => exact ⟨by simp, r1 hres, g⟩
    | cancelled => exact absurd hres hnc
    | failedAll =>
      have hlt' := r2 (by rw [hres]; simp)
      have hpd : progressDone upTo m (sync cfg self 0 upTo false m ps).1 = false := by
        unfold progressDone
        have := inOrder_rounds_le gl.1
        simp only [Bool.and_eq_false_iff, decide_eq_false_iff_not, List.any_eq_false, decide_eq_true_eq]
        right
        intro w hw
        have := this w hw
        omega
      simp only [hpd, hfr, if_true, Bool.false_eq_true, or_self, if_false, reduceCtorEq]
      exact ih _ (fun qs hq => hns qs (List.mem_cons_of_mem _ hq)) g hlt'

/-
Full statement wanted for the as-is code: c10_follow_retry without `followRetry`. It does not hold: StartFollowChain
declares `var errChan chan error` (a nil channel); the goroutine's `errChan <- syncer.Sync(…)` blocks for ever and the
`case <-errChan` arm can never fire, so after one failed `Sync` nothing ever retries.
-/
def cxCloser : Peer := ⟨"closer", fun _ => .stream []⟩

/-- **c10_follow_retry_counterexample** (as-is code, DESIGN §5 row 5): first attempt, the only peer closes the stream at
once; second attempt, the same address serves the chain honestly. As is, the loop is stuck after the first attempt with
the head where it was; with `followRetry` the same schedule reaches the target. -/
theorem c10_follow_retry_counterexample :
    followLoop (cxCfg .follow) "self" 3 (cxNode false) [[cxCloser], [cxHonest 3]] = (followLoop (cxCfg .follow) "self" 3 (cxNode false) [[cxCloser]]) ∧
    (followLoop (cxCfg .follow) "self" 3 (cxNode false) [[cxCloser], [cxHonest 3]]).2 = .stuck ∧
    (followLoop (cxCfg .follow) "self" 3 (cxNode false) [[cxCloser], [cxHonest 3]]).1.head = 0 ∧
    (followLoop { cxCfg .follow with followRetry := true } "self" 3 (cxNode false) [[cxCloser], [cxHonest 3]]).2 = .done ∧
    (followLoop { cxCfg .follow with followRetry := true } "self" 3 (cxNode false) [[cxCloser], [cxHonest 3]]).1.head = 3 := by
  refine ⟨rfl, ?_, ?_, ?_, ?_⟩ <;> decide

/-! ### `Run`: when is a sync request acted upon -/

/-- **c10_run_admission.** A request for a round the store already has is dropped; otherwise a new sync is started — the
old one cancelled — exactly when the previous sync's context is dead or no beacon arrived for more than
`factor · period`; otherwise the request is ignored. In particular a stuck (stalling) sync is replaced by the first
request that arrives after that delay, and a finished one by the next request. -/
theorem c10_run_admission (factor period : Nat) (now : Int) (rs : RunState) (last upTo : Nat) :
    (upTo > 0 ∧ last ≥ upTo → admitReq factor period now rs last upTo = (rs, .filled)) ∧
    (¬ (upTo > 0 ∧ last ≥ upTo) → (rs.alive = false ∨ now > rs.lastRoundTime + (period * factor : Nat)) →
        admitReq factor period now rs last upTo = ({ lastRoundTime := now, alive := true }, .start)) ∧
    (¬ (upTo > 0 ∧ last ≥ upTo) → rs.alive = true → now ≤ rs.lastRoundTime + (period * factor : Nat) →
        admitReq factor period now rs last upTo = (rs, .ignore)) ∧
    (¬ (upTo > 0 ∧ last ≥ upTo) → (admitReq factor period now rs.finished last upTo).2 = .start) := by
  unfold admitReq RunState.finished
  refine ⟨fun h => by rw [if_pos h], fun h1 h2 => by rw [if_neg h1, if_pos h2], fun h1 h2 h3 => ?_,
    fun h1 => by rw [if_neg h1, if_pos (Or.inl rfl)]⟩
  have : ¬ (rs.alive = false ∨ now > rs.lastRoundTime + (period * factor : Nat)) := by
    intro h; rcases h with h | h
    · rw [h2] at h; cases h
    · omega
  rw [if_neg h1, if_neg this]

/-! ### ties to the source (regenerated by tools/go2lean/sync.go on every run) -/

/-- the order of checks of the model's `loop` is the order of the source: channel closed, beacon id, VerifyBeacon — each
ending the attempt with `false` — before either `Put`; the already-stored race answers `beacon.Round == upTo`; then the
target test. (Round checks, if the source has any, are listed in `Gen.tryNodeRoundChecks` and precede the Puts.) -/
theorem tie_tryNode_guards :
    Gen.tryNodeGuards =
      ["closed", "beaconID", "VerifyBeacon", "insecureStore.Put", "store.Put", "already:beacon.Round==upTo", "target"] := by
  decide

/-- the participant stack is callbackStore(appendStore(schemeStore(discrepancyStore(base)))), the sync manager gets the
top of it as `Store` and the base store as `BoltdbStore`; `Sync` skips the node's own address; `ReSync` retries once -/
theorem tie_participant_stack :
    Gen.chainStoreStack = ["newDiscrepancyStore", "NewSchemeStore", "newAppendStore", "NewCallbackStore"] ∧
    Gen.chainStoreSyncStores = ("cbs", "store") ∧ Gen.followSyncStores = ("cbStore", "store") ∧
    Gen.syncSkipsSelf = true ∧ Gen.reSyncRetries = true := by
  decide

/-- the variants of the model that describe the source as it is now (used by the driver as defaults; the check decides
the variant by replaying the witnesses on the implementation) -/
def sourceVariant : Bool × Bool :=
  (!Gen.tryNodeRoundChecks.isEmpty, Gen.followErrChanMade)

/-! ### non-vacuity -/
section examples

def exChain (r : Nat) : Beacon := if r = 0 then ⟨0, [0, 0], []⟩ else ⟨r, [1, UInt8.ofNat r], []⟩
def exBad : Peer := ⟨"bad", fun f => .stream [.pkt ⟨f, [2, UInt8.ofNat f], []⟩ true]⟩
def exForeign : Peer := ⟨"foreign", fun f => .stream [.pkt ⟨f, [1, UInt8.ofNat f], []⟩ false]⟩
def exStall : Peer := ⟨"stall", fun f => .stream [.pkt ⟨f, [1, UInt8.ofNat f], []⟩ true, .stall]⟩
def exSelf : Peer := ⟨"self", fun _ => .err⟩

-- c10_only_verified / c10_in_order / c10_converges: liars first, the own address skipped, then the honest peer
example : (sync (cxCfg .participant) "self" 0 3 false (cxNode false) [exBad, exSelf, exForeign, cxSkip, cxHonest 5]).2.1 = .ok ∧
    (sync (cxCfg .participant) "self" 0 3 false (cxNode false) [exBad, exSelf, exForeign, cxSkip, cxHonest 5]).1.writes.map (·.stored.round) = [3, 2, 1] ∧
    (sync (cxCfg .participant) "self" 0 3 false (cxNode false) [exBad, exSelf, exForeign, cxSkip, cxHonest 5]).1.calls.map (·.1) = ["honest", "liar", "foreign", "bad"] := by
  decide
-- a stalling peer before the honest one: the attempt is cancelled with partial progress (hypothesis NoStall of c10_converges is needed)
example : (sync (cxCfg .participant) "self" 0 3 false (cxNode false) [exStall, cxHonest 5]).2.1 = .cancelled ∧
    (sync (cxCfg .participant) "self" 0 3 false (cxNode false) [exStall, cxHonest 5]).1.head = 1 := by decide
-- c10_converges_restarts: the cancelled attempt, then one with the honest peer first
example : (restarts (cxCfg .participant) "self" 3 (cxNode false) [[exStall, cxHonest 5], [cxHonest 5, exStall]]).head = 3 := by decide
-- the hypotheses of c10_converges are jointly satisfiable: an ideal unchained scheme with unary signatures
def idChain (r : Nat) : Beacon := ⟨r, if r = 0 then [0] else List.replicate r 1, []⟩
def idVerify (b : Beacon) : Bool := decide (1 ≤ b.round) && (b.sig == List.replicate b.round 1)
def idCfg : Cfg := { verify := idVerify, lastErr := fun _ => false, mode := .participant, roundCheck := false, rangeCheck := false, followRetry := false }
def idNode : Node := ⟨Stack.init false [0], [], []⟩
def idHonest : Peer := ⟨"honest", fun f => .stream (honestItems idChain f 5)⟩

theorem idIdeal : Ideal idVerify false idChain := by
  refine ⟨fun r => rfl, fun h => (by cases h), ?_, ?_, ?_⟩
  · intro b hb
    simp only [idVerify, Bool.and_eq_true, decide_eq_true_eq, beq_iff_eq] at hb
    refine ⟨hb.1, ?_, fun h => (by cases h)⟩
    simp only [idChain]
    rw [if_neg (by omega)]; exact hb.2
  · intro r hr
    simp only [idVerify, idChain, Bool.and_eq_true, decide_eq_true_eq, beq_iff_eq]
    exact ⟨decide_eq_true hr, by rw [if_neg (by omega)]⟩
  · intro r r' h
    simp only [idChain] at h
    by_cases h0 : r = 0 <;> by_cases h0' : r' = 0
    · omega
    · rw [if_pos h0, if_neg h0'] at h
      have := congrArg List.length h
      simp at this
      have h1 : r' = 1 := by omega
      subst h1; simp at h
    · rw [if_neg h0, if_pos h0'] at h
      have := congrArg List.length h
      simp at this
      have h1 : r = 1 := by omega
      subst h1; simp at h
    · rw [if_neg h0, if_neg h0'] at h
      simpa using congrArg List.length h

example : (sync idCfg "self" 0 3 false idNode ([exBad, exForeign] ++ idHonest :: [exStall])).2.1 = .ok ∧
    (sync idCfg "self" 0 3 false idNode ([exBad, exForeign] ++ idHonest :: [exStall])).1.head = 3 := by
  have h := c10_converges idCfg idChain "self" 3 5 idNode [exBad, exForeign] [exStall] idHonest idIdeal (Or.inl rfl)
    (fun _ _ => rfl) (c02_init_inv false [0])
    (by intro r hr
        have : r = 0 := by have : idNode.head = 0 := rfl
                           omega
        subst this; rfl)
    (by decide) (by decide)
    (fun f _ => ⟨[], by simp [idHonest]⟩) (by decide)
    (by intro p hp f items hs
        simp only [List.mem_cons, List.mem_nil_iff, or_false] at hp
        rcases hp with rfl | rfl
        · simp only [exBad, Resp.stream.injEq] at hs; subst hs; simp
        · simp only [exForeign, Resp.stream.injEq] at hs; subst hs; simp)
  exact ⟨h.1, h.2.1⟩
-- c10_check_exact(_partial): rounds 2 (missing), 3 (undecodable) and 4 (does not verify) of a store with head 5
example : checkPast true cxVerify (fun r => if r = 2 then .notStored else if r = 3 then .otherErr else if r = 4 then .ok ⟨4, [2, 4], []⟩ else .ok ⟨r, [1, UInt8.ofNat r], []⟩) 5 9 = [2, 3, 4] ∧
    checkPast false cxVerify (fun r => if r = 2 then .notStored else if r = 3 then .otherErr else if r = 4 then .ok ⟨4, [2, 4], []⟩ else .ok ⟨r, [1, UInt8.ofNat r], []⟩) 5 9 = [2, 3, 4] := by
  decide
-- c10_resync_retry / c10_correct_exact: first attempt fails transiently, the retry is served
example : (correctPast { cxCfg .participant with rangeCheck := true } "self" (fun _ => ([cxCloser], [cxHonest 9])) cxNode3 [2, 3]).2.1 = .ok := by
  decide
-- with the range check the liar of c10_correct_counterexample is refused and the honest peer repairs round 2 only
example : (correctPast { cxCfg .participant with rangeCheck := true } "self" (fun _ => ([cxBeyond, cxHonest 9], [])) cxNode3 [2]).1.st.base.map (·.1) = [0, 1, 2, 3] := by
  decide
-- c10_follow_order: with the round check the skipping peer of the counterexample is refused
example : (sync { cxCfg .follow with roundCheck := true } "self" 0 9 false (cxNode false) [cxSkip]).1.st.base.map (·.1) = [0] := by
  decide
-- c10_run_admission: first request starts (the initial context is alive but lastRoundTime is 0), a second one 1 s later is ignored, one after 2·period starts again
example : (admitReq 2 3 1000 ⟨0, true⟩ 5 9).2 = .start ∧ (admitReq 2 3 1001 ⟨1000, true⟩ 5 9).2 = .ignore ∧
    (admitReq 2 3 1007 ⟨1000, true⟩ 5 9).2 = .start ∧ (admitReq 2 3 1001 ⟨1000, true⟩ 9 9).2 = .filled := by decide

end examples

end Drand.Beacon.Sync
