/-
C07 / C05 across a resharing, continued (model: Drand/Net/Reshare.lean; first part: DrandProofs/C07Net.lean).

  1. `Quiet` — the hypothesis of `c07_reshare_step_progress` / `c07_transition_round_produced` — from reachability:
     `c07_quiet_of_reachable`, for every finite event list from a well-formed state (`Sane`, DrandProofs/C07QuietInv.lean) that
     keeps the signing discipline `Ev.sched` (no node signs a round of the NEXT epoch with a share of its current one);
     `c07_told_is_punctual`: nodes that were told keep it by themselves; `c07_quiet_counterexample`: without it — one tick of a
     leaver that was never stopped — `Quiet` is false and the new group, complete, up and connected, halts for good (the
     cache is keyed by index: the leaver's old-share partial sits on an index of the new group).
  2./3. levelling, the bound across the transition and `c07_chain_continues`: DrandProofs/C07Chain.lean.
-/
import DrandProofs.C07QuietInv

namespace Drand.Net.Reshare

/-! ### 1. `Quiet` from reachability -/

/-- in a well-formed state in which no node is ahead of `h`, `Quiet` holds for every set of nodes that hold epoch `e` -/
theorem quiet_of_sane {nxt : Nat → Option Nat} {s : State} (hs : Sane nxt s) (U : List Nat) (h e : Nat)
    (hh : ∀ k, (s.node k).head ≤ h) (he : ∀ j ∈ U, (s.node j).vault.epoch = e) : Quiet s U h e := by
  refine ⟨fun m hm _ _ _ => ?_, fun j hj hrep k x hx => ?_⟩
  · exact (hs.msgs m hm).2.1 h hh
  · rw [← he j hj]; exact (hs.node j).heldE hrep _ k x hx

/-- **`Quiet` from reachability.** `nxt` is the resharing schedule (`nxt x = some t`: epoch `x` ends at round `t`). From a
well-formed state `s0` (`Sane nxt s0`; the driver's initial states are: `sane_init`), after ANY finite list of events —
ticks, catch-up wake-ups, deliveries in any order, drops, syncs, stops, restarts from the files, partitions, replayed
packets, hand-overs to remainers before or after they stored `transition − 1`, joins — that keeps the discipline `Ev.sched`
(a node whose timer fires does not sign a round of the next epoch with a share of its current one; replayed packets are
partials such a node could have made; a hand-over names the round at which the node's current epoch ends): if no node is
ahead of `h`, then for every set `U` of nodes holding epoch `e` nothing above `h + 1` is in flight or cached, and what `U`
caches is of epoch `e` — the hypothesis `Quiet` of `c07_reshare_step_progress`. -/
theorem c07_quiet_of_reachable (nxt : Nat → Option Nat) (s0 : State) (h0 : Sane nxt s0) (evs : List Ev)
    (hsc : Sched nxt s0 evs) (U : List Nat) (h e : Nat)
    (hh : ∀ k, ((s0.run evs).node k).head ≤ h) (he : ∀ j ∈ U, ((s0.run evs).node j).vault.epoch = e) :
    Quiet (s0.run evs) U h e :=
  quiet_of_sane (sane_run evs s0 h0 hsc) U h e hh he

/-- the driver's initial states are well-formed -/
example (nxt : Nat → Option Nat) (cfg : Cfg) (n nIdx : Nat) (g : Grp) : Sane nxt (State.init cfg n nIdx g) :=
  sane_init nxt cfg n nIdx g

/-! #### the repaired variant: no discipline on who signs what -/

/-- every node runs the "newest wins" cache (`State.init` with `cfg.replaceSameIndex = true`; joins and restarts keep it) -/
def AllRep (s : State) : Prop := ∀ k, (s.node k).replace = true

theorem tickStep_replace (B i : Nat) (d : Node) : (d.tickStep B i).1.replace = d.replace := by
  by_cases hu : d.up = true
  · rcases tickStep_node B i d hu with he | ⟨v, he⟩ <;> rw [he]
    · exact aggregate_replace B (d.setTick d.clock) _ _ _
    · exact aggregate_replace B (d.setTick d.clock) _ _ _
  · rw [tickStep_down B i d hu]

theorem fireStep_replace (B i : Nat) (d : Node) : (d.fireStep B i).1.replace = d.replace := by
  rcases fireStep_cases B i d with he | ⟨_, r, rest, _, he⟩ <;> rw [he]
  exact aggregate_replace B (d.setPending rest) _ _ _

theorem recvStep_replace (B self : Nat) (reach : Bool) (d : Node) (m : Msg) : (d.recvStep B self reach m).replace = d.replace := by
  rcases recvStep_cases B self reach d m with ⟨he, _⟩ | ⟨_, _, _, he⟩ <;> rw [he]
  exact aggregate_replace B d _ _ _

theorem foldl_put_replace : ∀ (l : List Nat) (d : Node), (l.foldl Node.put d).replace = d.replace := by
  intro l
  induction l with
  | nil => intro d; rfl
  | cons a t ih => intro d; exact (ih (d.put a)).trans (put_replace d a)

theorem appendTo_replace (d : Node) (t : Nat) : (d.appendTo t).replace = d.replace := by
  unfold Node.appendTo
  exact foldl_put_replace _ d

theorem act_replace (s : State) (i : Nat) (F : Node → Node × List Msg) (h : (F (s.node i)).1.replace = (s.node i).replace) (k : Nat) :
    ((s.act i F).node k).replace = (s.node k).replace := by
  rw [act_node]
  by_cases hk : k = i
  · rw [hk]; simp only [if_true]; exact h
  · simp only [hk, if_false]

theorem foldl_recv_replace (k : Nat) : ∀ (l : List Msg) (s : State), ((l.foldl State.recv s).node k).replace = (s.node k).replace := by
  intro l
  induction l with
  | nil => intro s; rfl
  | cons m t ih => intro s; exact (ih (s.recv m)).trans (act_replace s m.dst _ (recvStep_replace _ _ _ _ _) k)

/-- no event changes which cache variant a node runs -/
theorem replace_apply (s : State) (ev : Ev) (k : Nat) : ((s.apply ev).node k).replace = (s.node k).replace := by
  cases ev with
  | advance => rfl
  | tick i => exact act_replace s i _ (tickStep_replace _ _ _) k
  | fire i => exact act_replace s i _ (fireStep_replace _ _ _) k
  | deliver j =>
    simp only [State.apply]
    cases hm : s.msgs[j]? with
    | none => rfl
    | some m => exact act_replace { s with msgs := s.msgs.eraseIdx j } m.dst _ (recvStep_replace _ _ _ _ _) k
  | drop j => rfl
  | deliverAll => exact foldl_recv_replace k s.msgs _
  | pull i =>
    rcases pull_cases s i with he | he | ⟨_, _, v, he⟩
    · show ((s.pull i).node k).replace = _; rw [he]
    · show ((s.pull i).node k).replace = _
      rw [he, setNode_node]; by_cases hk : k = i <;> simp [hk]
    · show ((s.pull i).node k).replace = _
      rw [he, setNode_node]
      by_cases hk : k = i
      · simp only [hk, if_true, setSync_replace]; exact appendTo_replace _ _
      · simp [hk]
  | stop i => simp only [State.apply, State.stop, setNode_node]; by_cases hk : k = i <;> simp [hk]
  | restart i =>
    simp only [State.apply, State.restart]
    split
    · rfl
    · rw [setNode_node]; by_cases hk : k = i <;> simp [hk]
  | setConn c => rfl
  | send m => rfl
  | announce i v t =>
    simp only [State.apply, setNode_node]
    by_cases hk : k = i
    · simp only [hk, if_true]
      unfold Node.announce
      by_cases hu : (s.node i).up = true
      · by_cases hc : (s.cfg.lateSwitch && decide (Gen.transitionTarget t ≤ (s.node i).head)) = true <;> simp [hu, hc]
      · simp [hu]
    · simp [hk]
  | join i v =>
    simp only [State.apply, State.join]
    split
    · rfl
    · rw [setNode_node]; by_cases hk : k = i <;> simp [hk]

/-- the only thing asked of an event list in the repaired variant: a packet put on the wire by anybody (`send`) is a partial
SOME share holder of SOME epoch could have made — not beyond the clock, at most one round above every bound on the heads.
Who signs what with which share, who was told when, who stopped: free. -/
def Ev.replay (s : State) : Ev → Prop
  | .send m => m.round ≤ clk s ∧ BR (heads s) m.round
  | _ => True

def Replays : State → List Ev → Prop
  | _, [] => True
  | s, e :: t => e.replay s ∧ Replays (s.apply e) t

theorem sched_of_replays : ∀ (evs : List Ev) (s : State), AllRep s → Replays s evs → Sched (fun _ => none) s evs := by
  intro evs
  induction evs with
  | nil => intro s _ _; trivial
  | cons e t ih =>
    intro s hrep hr
    refine ⟨?_, ih (s.apply e) (fun k => (replace_apply s e k).trans (hrep k)) hr.2⟩
    cases e with
    | tick i => exact fun _ t ht => by cases ht
    | fire i => exact fun _ _ _ _ t ht => by cases ht
    | send m => exact ⟨hr.1.1, hr.1.2, fun t ht => by cases ht⟩
    | announce i v t => exact fun _ hf => by rw [hrep i] at hf; cases hf
    | _ => trivial

/-- **`Quiet` from reachability, repaired variant ("newest wins").** No restricting clause: from a well-formed state in which
every node runs the repaired cache, after ANY finite list of events — leavers that keep signing with their old shares,
nodes never told, hand-overs at any time, stops, restarts, partitions, deliveries in any order, replayed packets — if no
node is ahead of `h` then `Quiet` holds for every `U`: no partial is in flight above `h + 1`, and nothing is asked of the
caches (a stale partial on a member's index is overwritten by that member's partial). -/
theorem c07_quiet_of_reachable_repaired (s0 : State) (h0 : Sane (fun _ => none) s0) (hrep : AllRep s0) (evs : List Ev)
    (hr : Replays s0 evs) (U : List Nat) (h e : Nat) (hh : ∀ k, ((s0.run evs).node k).head ≤ h) :
    Quiet (s0.run evs) U h e := by
  have hs := sane_run evs s0 h0 (sched_of_replays evs s0 hrep hr)
  have hrep' : AllRep (s0.run evs) := by
    have : ∀ (l : List Ev) (s : State), AllRep s → AllRep (s.run l) := by
      intro l
      induction l with
      | nil => intro s h; exact h
      | cons a t ih => intro s h; exact ih _ (fun k => (replace_apply s a k).trans (h k))
    exact this evs s0 hrep
  exact ⟨fun m hm _ _ _ => (hs.msgs m hm).2.1 h hh, fun j _ hf => by rw [hrep' j] at hf; cases hf⟩

/-- the driver's initial states with the repaired cache -/
example (cfg : Cfg) (hc : cfg.replaceSameIndex = true) (n nIdx : Nat) (g : Grp) :
    Sane (fun _ => none) (State.init cfg n nIdx g) ∧ AllRep (State.init cfg n nIdx g) :=
  ⟨sane_init _ cfg n nIdx g, fun k => by simp only [State.init]; split <;> exact hc⟩

/-- a node that was told (`Told v t`) and still runs on its previous vault has not stored `t − 1` yet: whatever it signs
next is below the transition round -/
theorem told_signs_before {v : Vault} {t : Nat} {d : Node} (h : Told v t d) (hu : d.up = true) (hne : d.vault ≠ v) :
    d.head + 1 < t := by
  rcases h.2 hu with ⟨h1, _⟩ | ⟨_, h2⟩
  · exact absurd h1 hne
  · simp only [Gen.transitionTarget] at h2; omega

/-- **Told nodes keep the discipline by themselves.** If node `i` was told of the resharing that ends its epoch at round
`t` (whenever: `c07_registration_any_time`), and the new epoch is not itself scheduled to end, then its tick and its
catch-up wake-ups satisfy `Ev.sched` in every well-formed state. The clause is a restriction only for nodes that hold a
share and were never told or stopped: leavers that keep running, nodes the hand-over never reached. -/
theorem c07_told_is_punctual (nxt : Nat → Option Nat) (s : State) (hs : Sane nxt s) (i : Nat) (v : Vault) (t : Nat)
    (htold : Told v t (s.node i)) (hold : (s.node i).vault ≠ v → nxt (s.node i).vault.epoch = some t)
    (hnew : nxt v.epoch = none) : (Ev.tick i).sched nxt s ∧ (Ev.fire i).sched nxt s := by
  have key : (s.node i).up = true → ∀ r, r ≤ (s.node i).head + 1 → InLife nxt (s.node i).vault.epoch r := by
    intro hu r hr t' ht'
    by_cases hv : (s.node i).vault = v
    · rw [hv, hnew] at ht'; cases ht'
    · have h1 := told_signs_before htold hu hv
      rw [hold hv] at ht'
      injection ht' with ht'
      omega
  refine ⟨fun hu => key hu _ (bnpRound_le _ _), fun hu r rest hp => key hu _ ?_⟩
  have := (hs.node i).pendR r (by rw [hp]; simp)
  omega

/-! #### without the discipline: the stale old-share partial -/

/-- three members, threshold 2 -/
def cxOld : Grp := ⟨[⟨0, 0⟩, ⟨1, 1⟩, ⟨2, 2⟩], 2⟩

/-- node 0 leaves; the indices of the new group are the positions in the sorted list of its members, as the DKG assigns
them (`asGroup`): node 1 gets index 0 — the leaver's old index — and node 2 index 1 -/
def cxNew : Grp := ⟨[⟨1, 0⟩, ⟨2, 1⟩], 2⟩

/-- epoch 0 ends at round 2 -/
def cxNxt : Nat → Option Nat := fun x => if x = 0 then some 2 else none

/-- both remainers are told at once. Round 1 = transition − 1: the partials of nodes 1 and 2 reach the leaver, everything
else is still on its way when the period ends. The leaver (never stopped) stores round 1 and, at the next tick, signs
round 2 with its OLD share; that packet overtakes the round-1 packets on their way to nodes 1 and 2. -/
def cxEvs : List Ev :=
  [.announce 1 ⟨cxNew, 1, 0⟩ 2, .announce 2 ⟨cxNew, 1, 1⟩ 2,
   .advance, .tick 0, .tick 1, .tick 2, .deliver 2,
   .advance, .tick 0,
   .deliver 5, .deliver 5, .deliverAll]

/-- `rep`: the variant of `roundCache.append` the nodes run -/
def cxInit (rep : Bool := false) : State := State.init ⟨Gen.transitionLateSwitch, rep⟩ 3 3 cxOld

def cxFinal (rep : Bool := false) : State := (cxInit rep).run cxEvs

theorem cx_inlife (x r : Nat) : InLife cxNxt x r ↔ (x = 0 → r < 2) := by
  unfold InLife cxNxt
  constructor
  · intro h hx; exact h 2 (by simp [hx])
  · intro h t ht
    by_cases hx : x = 0
    · simp only [hx, if_true] at ht; injection ht with ht; rw [← ht]; exact h hx
    · simp only [hx, if_false] at ht; cases ht

/-- **Counterexample to the unrestricted statement (kernel-checked).** Every event of `cxEvs` but one keeps the discipline;
the one that does not is the second tick of the leaver (node 0: never told, never stopped), which signs round 2 = the
transition round with its share of epoch 0. In the state reached, BOTH members of the new group (threshold 2) are up,
connected to each other, hold the new vault and store round 1 = transition − 1; no node is ahead of them — and `Quiet` is
false: each caches, for round 2 under index 0, the leaver's old-share partial (`held 2 0 = some 0`). Index 0 now belongs to
node 1, so node 1's own partial and the copy it sends to node 2 are both dropped as "already there" (`cache.Append` is
keyed by index), `Recover` sees one valid partial out of two, and nothing is ever stored again: three fair rounds later
every head is still 1. With the variant "newest wins" (`cxFinal true`) the same events leave the same stale entries, node 1's
own partial overwrites the one on index 0 at its next broadcast, and the chain goes on (heads 2, 3, 4). -/
theorem c07_quiet_counterexample :
    Sched cxNxt cxInit (cxEvs.take 8) ∧ ¬ (Ev.tick 0).sched cxNxt (cxInit.run (cxEvs.take 8)) ∧
    (∀ k, k < 3 → (cxFinal.node k).up = true ∧ (cxFinal.node k).head = 1 ∧ (cxFinal.node k).clock = 2) ∧
    (cxFinal.node 1).vault = ⟨cxNew, 1, 0⟩ ∧ (cxFinal.node 2).vault = ⟨cxNew, 1, 1⟩ ∧ (cxFinal.node 0).vault.epoch = 0 ∧
    (cxFinal.node 1).held 2 0 = some 0 ∧ (cxFinal.node 2).held 2 0 = some 0 ∧
    ¬ Quiet cxFinal [1, 2] 1 1 ∧
    (∀ k, k < 3 → (cxFinal.fairTick.fairTick.fairTick.node k).head = 1) ∧
    -- "newest wins" (reports/quiet_fix_2.diff): the same events reach the same stale entries, and the chain goes on
    ((cxFinal true).node 1).held 2 0 = some 0 ∧ ((cxFinal true).node 2).held 2 0 = some 0 ∧
    (∀ k ∈ [1, 2], ((cxFinal true).fairTick.node k).head = 2 ∧ ((cxFinal true).fairTick.fairTick.fairTick.node k).head = 4) := by
  have hheld : (cxFinal.node 1).held 2 0 = some 0 := by decide
  refine ⟨?_, ?_, by decide, by decide, by decide, by decide, hheld, by decide, ?_, by decide, by decide, by decide, by decide⟩
  · refine ⟨fun _ _ => by decide, fun _ _ => by decide, trivial, fun _ => (cx_inlife _ _).mpr (by decide),
      fun _ => (cx_inlife _ _).mpr (by decide), fun _ => (cx_inlife _ _).mpr (by decide), trivial, trivial, trivial⟩
  · intro h
    have h1 := (cx_inlife _ _).mp (h (by decide)) (by decide)
    revert h1
    decide
  · intro hq
    have := hq.2 1 (by simp) (by decide) 0 0 hheld
    cases this

/-- the event list of `c07_quiet_counterexample` — the leaver's tick included — meets the hypotheses in the repaired variant -/
example : Replays (cxInit true) cxEvs := by
  refine ⟨trivial, trivial, trivial, trivial, trivial, trivial, trivial, trivial, trivial, trivial, trivial, trivial, trivial⟩

end Drand.Net.Reshare
