/-
C07 / C05 across a resharing, continued (model: Drand/Net/Reshare.lean; first part: DrandProofs/C07Net.lean).

  1. `Quiet` — the hypothesis of `c07_reshare_step_progress` / `c07_transition_round_produced` — from reachability:
     `c07_quiet_of_reachable`, for every finite event list from a well-formed state (`Sane`, DrandProofs/C07QuietInv.lean) that
     keeps the signing discipline `Ev.sched` (no node signs a round of the NEXT epoch with a share of its current one);
     `c07_told_is_punctual`: nodes that were told keep it by themselves; `c07_quiet_counterexample`: without it — one tick of a
     leaver that was never stopped — `Quiet` is false and the new group, complete, up and connected, halts for good (the
     cache is keyed by index: the leaver's old-share partial sits on an index of the new group).
  2./3. levelling, the bound across the transition and `c07_chain_continues`: DrandProofs/C07Chain.lean.
-/
import DrandProofs.C07QuietInv

namespace Drand.Net.Reshare

/-! ### 1. `Quiet` from reachability -/

/-- in a well-formed state in which no node is ahead of `h`, `Quiet` holds for every set of nodes that hold epoch `e` -/
theorem quiet_of_sane {nxt : Nat → Option Nat} {s : State} (hs : Sane nxt s) (U : List Nat) (h e : Nat)
    (hh : ∀ k, (s.node k).head ≤ h) (he : ∀ j ∈ U, (s.node j).vault.epoch = e) : Quiet s U h e := by
  refine ⟨fun m hm _ _ _ => ?_, fun j hj _ k x hx => ?_⟩
  · exact (hs.msgs m hm).2.1 h hh
  · rw [← he j hj]; exact (hs.node j).heldE _ k x hx

/-- **`Quiet` from reachability.** `nxt` is the resharing schedule (`nxt x = some t`: epoch `x` ends at round `t`). From a
well-formed state `s0` (`Sane nxt s0`; the driver's initial states are: `sane_init`), after ANY finite list of events —
ticks, catch-up wake-ups, deliveries in any order, drops, syncs, stops, restarts from the files, partitions, replayed
packets, hand-overs to remainers before or after they stored `transition − 1`, joins — that keeps the discipline `Ev.sched`
(a node whose timer fires does not sign a round of the next epoch with a share of its current one; replayed packets are
partials such a node could have made; a hand-over names the round at which the node's current epoch ends): if no node is
ahead of `h`, then for every set `U` of nodes holding epoch `e` nothing above `h + 1` is in flight or cached, and what `U`
caches is of epoch `e` — the hypothesis `Quiet` of `c07_reshare_step_progress`. -/
theorem c07_quiet_of_reachable (nxt : Nat → Option Nat) (s0 : State) (h0 : Sane nxt s0) (evs : List Ev)
    (hsc : Sched nxt s0 evs) (U : List Nat) (h e : Nat)
    (hh : ∀ k, ((s0.run evs).node k).head ≤ h) (he : ∀ j ∈ U, ((s0.run evs).node j).vault.epoch = e) :
    Quiet (s0.run evs) U h e :=
  quiet_of_sane (sane_run evs s0 h0 hsc) U h e hh he

/-- the driver's initial states are well-formed -/
example (nxt : Nat → Option Nat) (cfg : Cfg) (n nIdx : Nat) (g : Grp) : Sane nxt (State.init cfg n nIdx g) :=
  sane_init nxt cfg n nIdx g

/-- a node that was told (`Told v t`) and still runs on its previous vault has not stored `t − 1` yet: whatever it signs
next is below the transition round -/
theorem told_signs_before {v : Vault} {t : Nat} {d : Node} (h : Told v t d) (hu : d.up = true) (hne : d.vault ≠ v) :
    d.head + 1 < t := by
  rcases h.2 hu with ⟨h1, _⟩ | ⟨_, h2⟩
  · exact absurd h1 hne
  · simp only [Gen.transitionTarget] at h2; omega

/-- **Told nodes keep the discipline by themselves.** If node `i` was told of the resharing that ends its epoch at round
`t` (whenever: `c07_registration_any_time`), and the new epoch is not itself scheduled to end, then its tick and its
catch-up wake-ups satisfy `Ev.sched` in every well-formed state. The clause is a restriction only for nodes that hold a
share and were never told or stopped: leavers that keep running, nodes the hand-over never reached. -/
theorem c07_told_is_punctual (nxt : Nat → Option Nat) (s : State) (hs : Sane nxt s) (i : Nat) (v : Vault) (t : Nat)
    (htold : Told v t (s.node i)) (hold : (s.node i).vault ≠ v → nxt (s.node i).vault.epoch = some t)
    (hnew : nxt v.epoch = none) : (Ev.tick i).sched nxt s ∧ (Ev.fire i).sched nxt s := by
  have key : (s.node i).up = true → ∀ r, r ≤ (s.node i).head + 1 → InLife nxt (s.node i).vault.epoch r := by
    intro hu r hr t' ht'
    by_cases hv : (s.node i).vault = v
    · rw [hv, hnew] at ht'; cases ht'
    · have h1 := told_signs_before htold hu hv
      rw [hold hv] at ht'
      injection ht' with ht'
      omega
  refine ⟨fun hu => key hu _ (bnpRound_le _ _), fun hu r rest hp => key hu _ ?_⟩
  have := (hs.node i).pendR r (by rw [hp]; simp)
  omega

/-! #### without the discipline: the stale old-share partial -/

/-- three members, threshold 2 -/
def cxOld : Grp := ⟨[⟨0, 0⟩, ⟨1, 1⟩, ⟨2, 2⟩], 2⟩

/-- node 0 leaves; the indices of the new group are the positions in the sorted list of its members, as the DKG assigns
them (`asGroup`): node 1 gets index 0 — the leaver's old index — and node 2 index 1 -/
def cxNew : Grp := ⟨[⟨1, 0⟩, ⟨2, 1⟩], 2⟩

/-- epoch 0 ends at round 2 -/
def cxNxt : Nat → Option Nat := fun x => if x = 0 then some 2 else none

/-- both remainers are told at once. Round 1 = transition − 1: the partials of nodes 1 and 2 reach the leaver, everything
else is still on its way when the period ends. The leaver (never stopped) stores round 1 and, at the next tick, signs
round 2 with its OLD share; that packet overtakes the round-1 packets on their way to nodes 1 and 2. -/
def cxEvs : List Ev :=
  [.announce 1 ⟨cxNew, 1, 0⟩ 2, .announce 2 ⟨cxNew, 1, 1⟩ 2,
   .advance, .tick 0, .tick 1, .tick 2, .deliver 2,
   .advance, .tick 0,
   .deliver 5, .deliver 5, .deliverAll]

/-- `rep`: the variant of `roundCache.append` the nodes run -/
def cxInit (rep : Bool := false) : State := State.init ⟨Gen.transitionLateSwitch, rep⟩ 3 3 cxOld

def cxFinal (rep : Bool := false) : State := (cxInit rep).run cxEvs

theorem cx_inlife (x r : Nat) : InLife cxNxt x r ↔ (x = 0 → r < 2) := by
  unfold InLife cxNxt
  constructor
  · intro h hx; exact h 2 (by simp [hx])
  · intro h t ht
    by_cases hx : x = 0
    · simp only [hx, if_true] at ht; injection ht with ht; rw [← ht]; exact h hx
    · simp only [hx, if_false] at ht; cases ht

/-- **Counterexample to the unrestricted statement (kernel-checked).** Every event of `cxEvs` but one keeps the discipline;
the one that does not is the second tick of the leaver (node 0: never told, never stopped), which signs round 2 = the
transition round with its share of epoch 0. In the state reached, BOTH members of the new group (threshold 2) are up,
connected to each other, hold the new vault and store round 1 = transition − 1; no node is ahead of them — and `Quiet` is
false: each caches, for round 2 under index 0, the leaver's old-share partial (`held 2 0 = some 0`). Index 0 now belongs to
node 1, so node 1's own partial and the copy it sends to node 2 are both dropped as "already there" (`cache.Append` is
keyed by index), `Recover` sees one valid partial out of two, and nothing is ever stored again: three fair rounds later
every head is still 1. With the variant "newest wins" (`cxFinal true`) the same events leave the same stale entries, node 1's
own partial overwrites the one on index 0 at its next broadcast, and the chain goes on (heads 2, 3, 4). -/
theorem c07_quiet_counterexample :
    Sched cxNxt cxInit (cxEvs.take 8) ∧ ¬ (Ev.tick 0).sched cxNxt (cxInit.run (cxEvs.take 8)) ∧
    (∀ k, k < 3 → (cxFinal.node k).up = true ∧ (cxFinal.node k).head = 1 ∧ (cxFinal.node k).clock = 2) ∧
    (cxFinal.node 1).vault = ⟨cxNew, 1, 0⟩ ∧ (cxFinal.node 2).vault = ⟨cxNew, 1, 1⟩ ∧ (cxFinal.node 0).vault.epoch = 0 ∧
    (cxFinal.node 1).held 2 0 = some 0 ∧ (cxFinal.node 2).held 2 0 = some 0 ∧
    ¬ Quiet cxFinal [1, 2] 1 1 ∧
    (∀ k, k < 3 → (cxFinal.fairTick.fairTick.fairTick.node k).head = 1) ∧
    -- "newest wins" (reports/quiet_fix_2.diff): the same events reach the same stale entries, and the chain goes on
    ((cxFinal true).node 1).held 2 0 = some 0 ∧ ((cxFinal true).node 2).held 2 0 = some 0 ∧
    (∀ k ∈ [1, 2], ((cxFinal true).fairTick.node k).head = 2 ∧ ((cxFinal true).fairTick.fairTick.fairTick.node k).head = 4) := by
  have hheld : (cxFinal.node 1).held 2 0 = some 0 := by decide
  refine ⟨?_, ?_, by decide, by decide, by decide, by decide, hheld, by decide, ?_, by decide, by decide, by decide, by decide⟩
  · refine ⟨fun _ => by decide, fun _ => by decide, trivial, fun _ => (cx_inlife _ _).mpr (by decide),
      fun _ => (cx_inlife _ _).mpr (by decide), fun _ => (cx_inlife _ _).mpr (by decide), trivial, trivial, trivial⟩
  · intro h
    have h1 := (cx_inlife _ _).mp (h (by decide)) (by decide)
    revert h1
    decide
  · intro hq
    have := hq.2 1 (by simp) (by decide) 0 0 hheld
    cases this

end Drand.Net.Reshare
