/-
C15 — private keys and shares never leave the node.                                         (level: PARTIAL)

What is proved here, about the model `Drand/Secrecy.lean` and the facts go2lean regenerates from /repo:
  (a) noninterference: every non-signing output is a function of the public half of the node state; signing / DKG
      outputs contain the secret only as an argument of the crypto oracle;
  (b) every function of the code base that selects a secret-bearing field is on a short hand-written allow-list,
      no logging / formatting call takes secret material, every `key.Save` of a secret-serialising value passes
      `secure = true`, `fs.CreateSecureFile` + write never has secret content in a file readable by group/other;
  (c) file modes: every secret-holding file is created owner-only —
        FULL STATEMENT  ∀ umask, ∀ f ∈ files, f.holdsSecret → ownerOnly (modeAfter f.creator umask)
      The code as it is does NOT satisfy it: `internal/dkg.BoltStoreOpenPerm = 0660` and dkg.db stores `DBState.KeyShare`.
      Proved instead: `c15_modes_fixed` (the statement for the variant with 0600), `c15_modes_partial` (as-is variant,
      every file but dkg.db, and dkg.db when the process umask already removes the group bits),
      `c15_modes_counterexample` (dkg.db is group-readable under umask 022 and group-read/writable under umask 0),
      and `c15_modes_code` which holds for whichever of the two variants the source currently is (`tie_dkgPerm_variant`);
  (d) the scanner the check runs over the bytes real nodes emitted is sound and complete for the listed encodings.
What is NOT proved: that the Go code is the model (tie = syntactic reader list + byte scan of sampled executions).
-/
import Drand.Secrecy

namespace Drand.Secrecy
open Drand

/-! ### ties to the regenerated facts -/

theorem tie_rwFilePermission : Gen.rwFilePermission = 0o600 := by decide

/-- the dkg.db open permission is one of the two variants the model knows (as-is 0660, repaired 0600) -/
theorem tie_dkgPerm_variant : Gen.dkgBoltStoreOpenPerm = asIsDkgPerm ∨ Gen.dkgBoltStoreOpenPerm = fixedDkgPerm := by decide

theorem tie_createSecureFile :
    Gen.createSecureFileSteps = ["create", "close", "chmod:rwFilePermission", "open:os.O_RDWR:rwFilePermission"] ∧
    secureCreateSteps = [.create, .close, .chmod 0o600, .openRW] := by decide

theorem tie_saveShape : Gen.saveSecureCreator = "fs.CreateSecureFile" ∧ Gen.savePlainCreator = "os.Create" := by decide

/-- `key.Save` applies its creator either to the target itself, or to `<target>.tmp` which it then renames over the
target (the extractor refuses any other shape); the model's `codeSaveProtocol` follows `Gen.saveRenamesOverTarget` -/
theorem tie_saveTarget :
    Gen.saveWritesTo = (if Gen.saveRenamesOverTarget then "filePath+tmpExtension" else "filePath") := by decide

theorem tie_saveCallSites : Gen.saveCallSites = [
    ("common/key:fileStore.SaveKeyPair", "f.privateKeyFile", "common/key:Pair.TOML", true),
    ("common/key:fileStore.SaveKeyPair", "f.publicKeyFile", "common/key:Identity.TOML", false),
    ("common/key:fileStore.SaveGroup", "f.groupFile", "common/key:Group.TOML", false),
    ("common/key:fileStore.SaveShare", "f.shareFile", "common/key:Share.TOML", true)] := by decide

theorem tie_secretTomlers :
    Gen.secretTomlers = ["common/key:Pair.TOML", "common/key:Share.TOML", "internal/dkg:DBState.TOML"] := by decide

theorem tie_dkgStore : Gen.dkgStoreFile = "dkg.db" ∧ Gen.dkgStoreOpenPerm = "BoltStoreOpenPerm" ∧
    Gen.dkgStoreWriters = ["SaveFinished", "save"] := by decide

/-- every call in scope that creates / chmods / copies a file. A new one re-opens the file model. -/
theorem tie_fileCreators : Gen.fileCreators = [
    "common/key:Save fs.CreateSecureFile -",
    "common/key:Save os.Create -",
    "internal/chain/boltdb:NewBoltStore bolt.Open BoltStoreOpenPerm",
    "internal/chain/boltdb:newTrimmedStore bolt.Open BoltStoreOpenPerm",
    "internal/chain/boltdb:shouldUseTrimmedBolt bolt.Open BoltStoreOpenPerm",
    "internal/core:BeaconProcess.BackupDatabase fs.CreateSecureFile -",
    "internal/dkg:NewDKGStore bolt.Open BoltStoreOpenPerm",
    "internal/fs:CopyFile os.Chmod rwFilePermission",
    "internal/fs:CopyFile os.Create -",
    "internal/fs:CopyFolder CopyFile -",
    "internal/fs:CreateSecureFile chmodFunc rwFilePermission",
    "internal/fs:CreateSecureFile os.Create -",
    "internal/fs:CreateSecureFile os.OpenFile rwFilePermission",
    "internal/fs:TestWrite os.CreateTemp -"] := by decide

/-- the model's file table, computed from the extracted facts, is this table -/
theorem tie_fileTable (p : Nat) : fileTable p =
    [⟨"private-key", "multibeacon/<id>/key/drand_id.private", .secureFile, true⟩,
     ⟨"public-key", "multibeacon/<id>/key/drand_id.public", .plainCreate, false⟩,
     ⟨"group", "multibeacon/<id>/groups/drand_group.toml", .plainCreate, false⟩,
     ⟨"share", "multibeacon/<id>/groups/dist_key.private", .secureFile, true⟩,
     ⟨"dkg-db", "dkg.db", .boltOpen p, true⟩,
     ⟨"chain-db", "multibeacon/<id>/db/drand.db", .boltOpen Gen.chainBoltStoreOpenPerm, false⟩,
     ⟨"backup", "<BackupDBRequest.OutputFile>", .secureFile, false⟩] := by rfl

/-! ### (a) noninterference -/

/-- Two nodes with the same public state answer identically on every channel whose kind is `pub` (or `mixed`
with a public body), whatever their secrets and whatever the crypto oracle. -/
theorem c15_noninterference (cr : Crypto) (c : ChanSpec) (arg : Nat) (n₁ n₂ : Node)
    (hk : c.kind = .pub ∨ c.kind = .mixed) (h : n₁.pub = n₂.pub) : emit cr n₁ c arg = emit cr n₂ c arg := by
  rcases hk with hk | hk <;> simp [emit, hk, h]

/-- A signing channel emits exactly: a body built from `pub`, and `cr.sign key msg` with `msg` built from `pub`.
The secret occurs only as the key argument of `sign` — it is never a field of the output. -/
theorem c15_signing_only_via_sign (cr : Crypto) (c : ChanSpec) (arg : Nat) (n : Node) (hk : c.kind = .sign) :
    emit cr n c arg = withCrypto cr.sign (c.build n.pub arg) (keyOf n.sec c.which) (c.msg n.pub arg) ∧
    (∀ k, keyOf n.sec c.which = some k →
      emit cr n c arg = .record [("body", c.build n.pub arg), ("crypto", .bytes (cr.sign k (c.msg n.pub arg)))]) := by
  refine ⟨by simp [emit, hk], fun k hk' => by simp [emit, hk, withCrypto, hk']⟩

/-- same for the DKG channels: the secret is only an argument of the kyber protocol function -/
theorem c15_dkg_only_via_deal (cr : Crypto) (c : ChanSpec) (arg : Nat) (n : Node) (hk : c.kind = .dkg) :
    emit cr n c arg = withCrypto cr.deal (c.build n.pub arg) (keyOf n.sec c.which) (c.msg n.pub arg) ∧
    (∀ k, keyOf n.sec c.which = some k →
      emit cr n c arg = .record [("body", c.build n.pub arg), ("crypto", .bytes (cr.deal k (c.msg n.pub arg)))]) := by
  refine ⟨by simp [emit, hk], fun k hk' => by simp [emit, hk, withCrypto, hk']⟩

/-- "the output depends on the secret only through the crypto oracle": if the oracle's answers do not depend on
the key (an ideal signature / encryption functionality simulated without the key), then NO channel of any kind
distinguishes two nodes with equal public state, provided both hold a share or neither does. -/
theorem c15_secret_only_through_crypto (cr : Crypto) (c : ChanSpec) (arg : Nat) (n₁ n₂ : Node)
    (hs : ∀ k k' m, cr.sign k m = cr.sign k' m) (hd : ∀ k k' m, cr.deal k m = cr.deal k' m)
    (h : n₁.pub = n₂.pub) (hshare : n₁.sec.share.isSome = n₂.sec.share.isSome) :
    emit cr n₁ c arg = emit cr n₂ c arg := by
  unfold emit
  cases hk : c.kind <;> simp only [h]
  all_goals
    cases hw : c.which <;> simp only [keyOf, withCrypto]
    · first | rw [hs n₁.sec.longterm n₂.sec.longterm] | rw [hd n₁.sec.longterm n₂.sec.longterm]
    · cases h1 : n₁.sec.share with
      | none => cases h2 : n₂.sec.share with
        | none => rfl
        | some v => simp [h1, h2] at hshare
      | some v1 => cases h2 : n₂.sec.share with
        | none => simp [h1, h2] at hshare
        | some v2 => first | (dsimp only; rw [hs v1 v2]) | (dsimp only; rw [hd v1 v2])

/-- every modelled channel is of one of the four kinds and the signing ones name which key they use -/
theorem c15_channel_inventory :
    (channels.filter (·.kind = .sign)).map (fun c => (c.label, c.which)) =
      [("grpc:/drand.Protocol/PartialBeacon:req", .share), ("grpc:/dkg.DKGPublic/Packet:req", .longterm),
       ("identity:self-signature", .longterm)] ∧
    (channels.filter (·.kind = .dkg)).map (·.label) = ["grpc:/dkg.DKGPublic/BroadcastDKG:req"] ∧
    (channels.map (·.label)).Nodup := by
  refine ⟨by decide, by decide, by decide⟩

/-! ### (b) readers, sinks, secure saves -/

/-- every function that selects a secret-bearing field is on the allow-list -/
theorem c15_readers_allowed : ∀ r ∈ Gen.secretReaders, r ∈ allowedReaders := by decide

/-- and the allow-list has no dead entries: it is exactly the extracted list — of a tree whose start-up path reconciles the
key files with the completed DKG record, or, without the two readers that only such a tree has, of a tree that does not -/
theorem c15_readers_exact :
    Gen.secretReaders = allowedReaders ∨ Gen.secretReaders = allowedReaders.filter (fun r => !reconcileReaders.contains r) := by
  decide

/-- no logging / formatting / error-wrapping call has an argument that evaluates to secret material -/
theorem c15_no_secret_sinks : Gen.secretSinks = [] := by decide

/-- every `key.Save` whose value serialises secret material asks for the secure creator -/
theorem c15_secret_saves_secure :
    ∀ s ∈ Gen.saveCallSites, Gen.secretTomlers.contains s.2.2.1 = true → s.2.2.2 = true := by decide

/-- the classes of files that hold secret material, as derived from the extracted facts -/
theorem c15_secret_file_classes (p : Nat) :
    ((fileTable p).filter (·.holdsSecret)).map (·.name) = ["private-key", "share", "dkg-db"] := by
  rw [tie_fileTable]; rfl

private theorem and_mask_zero (p m k : Nat) (h : p &&& k = 0) : (p &&& m) &&& k = 0 := by
  rw [Nat.and_assoc, Nat.and_comm m k, ← Nat.and_assoc, h, Nat.zero_and]

/-- `key.Save(path, t, secure = true)`: at no point of `fs.CreateSecureFile` + write does the file have content
while being accessible to group or other — whatever the umask, whether or not the file existed before, whatever
mode and content it had. -/
theorem c15_secure_save_never_exposes (umask : Nat) (st₀ : FileSt) (data : Bytes) :
    ∀ st ∈ trace umask st₀ (saveSteps true data), st.content ≠ [] → ownerOnly st.mode := by
  intro st hst hne
  have hsteps : saveSteps true data = [.create, .close, .chmod 0o600, .openRW, .write data] := by
    simp [saveSteps, tie_createSecureFile.2]
  rw [hsteps] at hst
  obtain ⟨present, mode, content⟩ := st₀
  cases present <;>
    simp only [trace, execStep, List.mem_cons, List.not_mem_nil, or_false, Bool.false_eq_true, if_false, if_true] at hst <;>
    rcases hst with h | h | h | h | h <;> subst h <;> first | (exact absurd rfl hne) | (show ownerOnly 384; decide)

/-- and the final mode is `rwFilePermission`, which is what `modeAfter .secureFile` says -/
theorem c15_secure_save_final_mode (umask : Nat) (st₀ : FileSt) (data : Bytes) :
    ((trace umask st₀ (saveSteps true data)).getLast?.map (·.mode)) = some (modeAfter .secureFile umask) ∧
    ((trace umask st₀ (saveSteps true data)).getLast?.map (·.content)) = some data := by
  have hsteps : saveSteps true data = [.create, .close, .chmod 0o600, .openRW, .write data] := by
    simp [saveSteps, tie_createSecureFile.2]
  rw [hsteps]
  cases hp : st₀.present <;> simp [trace, execStep, hp, modeAfter, tie_rwFilePermission]

/-! #### the variant that writes a temporary file and renames it (`Gen.saveRenamesOverTarget = true`) -/

/-- `key.Save(path, t, secure = true)`, rename variant: the TEMPORARY file holds the secret too. At no point of
create(tmp), close, chmod 0600, reopen, write, rename does EITHER file have content while being accessible to group or
other — whatever the umask, and whatever a stale temporary file of an earlier interrupted Save looked like (any mode,
any content) — provided the previous version of the target, if it holds anything, was owner-only. -/
theorem c15_secure_save_atomic_never_exposes (umask : Nat) (st₀ : SaveSt) (data : Bytes) (h0 : st₀.target.tight) :
    ∀ st ∈ traceS umask st₀ (saveProtocol true true data), st.target.tight ∧ st.tmp.tight := by
  intro st hst
  have hsteps : saveProtocol true true data =
      [.onTmp .create, .onTmp .close, .onTmp (.chmod 0o600), .onTmp .openRW, .onTmp (.write data), .renameTmp] := by
    simp [saveProtocol, saveSteps, tie_createSecureFile.2]
  rw [hsteps] at hst
  obtain ⟨tg, ⟨present, mode, content⟩⟩ := st₀
  cases present <;>
    simp only [traceS, execS, execStep, List.mem_cons, List.not_mem_nil, or_false, Bool.false_eq_true, if_false, if_true] at hst <;>
    rcases hst with h | h | h | h | h | h <;> subst h <;>
    first
    | exact ⟨h0, fun hne => absurd rfl hne⟩
    | exact ⟨h0, fun _ => (by decide : ownerOnly 384)⟩
    | exact ⟨fun _ => (by decide : ownerOnly 384), fun hne => absurd rfl hne⟩

/-- … and afterwards the target is the new content with mode `rwFilePermission`, the temporary file is gone -/
theorem c15_secure_save_atomic_final (umask : Nat) (st₀ : SaveSt) (data : Bytes) :
    (traceS umask st₀ (saveProtocol true true data)).getLast? = some ⟨⟨true, modeAfter .secureFile umask, data⟩, noFile⟩ := by
  have hsteps : saveProtocol true true data =
      [.onTmp .create, .onTmp .close, .onTmp (.chmod 0o600), .onTmp .openRW, .onTmp (.write data), .renameTmp] := by
    simp [saveProtocol, saveSteps, tie_createSecureFile.2]
  rw [hsteps]
  obtain ⟨tg, ⟨present, mode, content⟩⟩ := st₀
  cases present <;> simp [traceS, execS, execStep, modeAfter, tie_rwFilePermission]

/-- rename variant, plain path: the target gets the mode of the temporary file — `0666 &^ umask` (or the mode of a stale
temporary file that was still lying around), no longer the mode the previous version of the target had -/
theorem c15_plain_save_atomic_mode (umask : Nat) (st₀ : SaveSt) (data : Bytes) :
    (traceS umask st₀ (saveProtocol true false data)).getLast? =
      some ⟨⟨true, if st₀.tmp.present then st₀.tmp.mode else 0o666 &&& notMask umask, data⟩, noFile⟩ := by
  obtain ⟨tg, ⟨present, mode, content⟩⟩ := st₀
  cases present <;> simp [saveProtocol, saveSteps, traceS, execS, execStep]

/-- in-place variant on the same two-file state: the secure save never exposes the file it writes, the sibling is not
touched -/
theorem c15_secure_save_inplace_never_exposes (umask : Nat) (st₀ : SaveSt) (data : Bytes) (h1 : st₀.tmp.tight) :
    ∀ st ∈ traceS umask st₀ (saveProtocol false true data), st.target.tight ∧ st.tmp.tight := by
  intro st hst
  have hsteps : saveProtocol false true data =
      [.onTarget .create, .onTarget .close, .onTarget (.chmod 0o600), .onTarget .openRW, .onTarget (.write data)] := by
    simp [saveProtocol, saveSteps, tie_createSecureFile.2]
  rw [hsteps] at hst
  obtain ⟨⟨present, mode, content⟩, tm⟩ := st₀
  cases present <;>
    simp only [traceS, execS, execStep, List.mem_cons, List.not_mem_nil, or_false, Bool.false_eq_true, if_false, if_true] at hst <;>
    rcases hst with h | h | h | h | h <;> subst h <;>
    first
    | exact ⟨fun hne => absurd rfl hne, h1⟩
    | exact ⟨fun _ => (by decide : ownerOnly 384), h1⟩

/-- what holds for `key.Save(…, secure = true)` of the tree under test, whichever of the two variants it is: starting
from files that are tight (hold nothing, or are owner-only), every file that ever holds the share or the private key
during the Save — the temporary file included — is owner-only at that moment -/
theorem c15_secure_save_code_never_exposes (umask : Nat) (st₀ : SaveSt) (data : Bytes)
    (h0 : st₀.target.tight) (h1 : st₀.tmp.tight) :
    ∀ st ∈ traceS umask st₀ (codeSaveProtocol true data), st.target.tight ∧ st.tmp.tight := by
  unfold codeSaveProtocol
  cases Gen.saveRenamesOverTarget
  · exact c15_secure_save_inplace_never_exposes umask st₀ data h1
  · exact c15_secure_save_atomic_never_exposes umask st₀ data h0

/-- why `secure` matters: the plain path leaves a fresh file world-readable under umask 0 … -/
theorem c15_plain_save_exposes :
    ∃ st ∈ trace 0 ⟨false, 0, []⟩ (saveSteps false [1]), st.content = [1] ∧ ¬ ownerOnly st.mode := by
  refine ⟨⟨true, 0o666, [1]⟩, by decide, rfl, by decide⟩

/-- … and keeps whatever mode an existing file had -/
theorem c15_plain_save_keeps_mode (umask m : Nat) (old data : Bytes) :
    (trace umask ⟨true, m, old⟩ (saveSteps false data)).getLast? = some ⟨true, m, data⟩ := by
  simp [saveSteps, trace, execStep]

/-! ### (c) modes -/

/-- FULL statement for any dkg.db permission that has no group/other bits -/
theorem c15_modes_general (dkgPerm : Nat) (hp : ownerOnly dkgPerm) (umask : Nat) :
    ∀ f ∈ fileTable dkgPerm, f.holdsSecret = true → ownerOnly (modeAfter f.creator umask) := by
  rw [tie_fileTable]
  intro f hf hs
  simp only [List.mem_cons, List.not_mem_nil, or_false] at hf
  rcases hf with h | h | h | h | h | h | h <;> subst h <;> simp at hs <;>
    first | (simp only [modeAfter]; decide) | exact and_mask_zero _ _ _ hp

/-- FULL statement for the repaired variant (`BoltStoreOpenPerm = 0600`) -/
theorem c15_modes_fixed (umask : Nat) :
    ∀ f ∈ fileTable fixedDkgPerm, f.holdsSecret = true → ownerOnly (modeAfter f.creator umask) :=
  c15_modes_general fixedDkgPerm (by decide) umask

set_option maxRecDepth 20000 in
private theorem dkg_umask (u : Nat) (hu : u < 512) (h : u &&& 0o060 = 0o060) : (0o660 &&& (0o777 ^^^ u)) &&& 0o077 = 0 := by
  revert u; decide

/-- the as-is variant (`0660`): every secret-holding file except dkg.db is owner-only under every umask, and
dkg.db is owner-only exactly when the process umask already masks the group bits -/
theorem c15_modes_partial (umask : Nat) :
    ∀ f ∈ fileTable asIsDkgPerm, f.holdsSecret = true → (f.name ≠ "dkg-db" ∨ (umask % 512) &&& 0o060 = 0o060) →
      ownerOnly (modeAfter f.creator umask) := by
  rw [tie_fileTable]
  intro f hf hs hh
  simp only [List.mem_cons, List.not_mem_nil, or_false] at hf
  rcases hf with h | h | h | h | h | h | h <;> subst h <;> simp at hs <;> try (simp only [modeAfter]; decide)
  have hh' : umask % 512 &&& 0o060 = 0o060 := by simpa using hh
  exact dkg_umask (umask % 512) (Nat.mod_lt _ (by decide)) hh'

/-- the as-is variant violates the full statement: under the customary umask 022 dkg.db (which holds the share)
is created 0640 = group-readable, under umask 0 it is 0660 -/
theorem c15_modes_counterexample :
    ∃ f ∈ fileTable asIsDkgPerm, f.name = "dkg-db" ∧ f.holdsSecret = true ∧
      modeAfter f.creator 0o022 = 0o640 ∧ ¬ ownerOnly (modeAfter f.creator 0o022) ∧
      modeAfter f.creator 0 = 0o660 ∧ ¬ ownerOnly (modeAfter f.creator 0) := by
  refine ⟨⟨"dkg-db", "dkg.db", .boltOpen asIsDkgPerm, true⟩, ?_, rfl, rfl, by decide, by decide, by decide, by decide⟩
  rw [tie_fileTable]; simp

/-- what holds for the source as it currently is, in either variant: all secret-holding files other than dkg.db are
owner-only under every umask; dkg.db too once the constant is the repaired one -/
theorem c15_modes_code (umask : Nat) :
    (∀ f ∈ files, f.holdsSecret = true → f.name ≠ "dkg-db" → ownerOnly (modeAfter f.creator umask)) ∧
    (Gen.dkgBoltStoreOpenPerm = fixedDkgPerm →
      ∀ f ∈ files, f.holdsSecret = true → ownerOnly (modeAfter f.creator umask)) := by
  constructor
  · unfold files
    rw [tie_fileTable]
    intro f hf hs hn
    simp only [List.mem_cons, List.not_mem_nil, or_false] at hf
    rcases hf with h | h | h | h | h | h | h <;> subst h <;> simp at hs hn <;> (simp only [modeAfter]; decide)
  · intro h
    unfold files
    rw [h]
    exact c15_modes_fixed umask

/-! ### (d) the scanner -/

theorem c15_isInfix_iff (p l : Bytes) : isInfixB p l = true ↔ p <:+: l := by
  induction l with
  | nil => simp [isInfixB, List.isEmpty_iff]
  | cons x t ih =>
    simp only [isInfixB, Bool.or_eq_true, List.infix_cons_iff, List.isPrefixOf_iff_prefix, ih]

/-- the scanner reports "clean" exactly when no listed encoding of the secret occurs anywhere in the blob -/
theorem c15_scan_complete (s blob : Bytes) :
    leak s blob = none ↔ ∀ e ∈ encodings s, ¬ e.2 <:+: blob := by
  unfold leak
  simp only [Option.map_eq_none_iff, List.find?_eq_none, c15_isInfix_iff]

/-- and a reported encoding really occurs -/
theorem c15_scan_sound (s blob : Bytes) (name : String) (h : leak s blob = some name) :
    ∃ e ∈ encodings s, e.1 = name ∧ e.2 <:+: blob := by
  unfold leak at h
  rw [Option.map_eq_some_iff] at h
  obtain ⟨e, he, hn⟩ := h
  exact ⟨e, List.mem_of_find?_eq_some he, hn, (c15_isInfix_iff _ _).1 (by simpa using List.find?_some he)⟩

/-! ### non-vacuity -/

example : ownerOnly 0o600 ∧ ¬ ownerOnly 0o640 ∧ ¬ ownerOnly 0o604 := by decide
example : modeAfter .plainCreate 0o022 = 0o644 ∧ modeAfter (.boltOpen 0o660) 0o077 = 0o600 := by decide
-- base64 / hex against the RFC 4648 vectors ("f", "fo", "foo", "foob"), and the url alphabet
example : b64Enc false true [102] = [90, 103, 61, 61] ∧ b64Enc false true [102, 111] = [90, 109, 56, 61] ∧
    b64Enc false true [102, 111, 111] = [90, 109, 57, 118] ∧ b64Enc false false [102, 111, 111, 98] = [90, 109, 57, 118, 89, 103] ∧
    b64Enc false true [0xfb, 0xff] = [43, 47, 56, 61] ∧ b64Enc true false [0xfb, 0xff] = [45, 95, 56] := by decide
example : hexEnc false [0xde, 0xad] = [100, 101, 97, 100] ∧ hexEnc true [0xbe, 0xef] = [66, 69, 69, 70] := by decide
example : leak [0xde, 0xad] [120, 120, 100, 101, 97, 100, 120, 120] = some "hex" ∧ leak [0xde, 0xad] [1, 0xde, 0xad] = some "raw" ∧
    leak [0xde, 0xad] [51, 113, 48, 61] = some "b64" ∧ leak [0xde, 0xad] [120, 120, 100, 101, 120, 97, 100, 120, 120] = none := by decide
-- a node whose secret differs but whose public state is equal: identical PublicKey response, different partial
example : emit ⟨fun k m => k ++ m, fun k m => k ++ m⟩ ⟨default, ⟨[1], some [2]⟩⟩ (pubChan "x" bIdentity) 0 =
    emit ⟨fun k m => k ++ m, fun k m => k ++ m⟩ ⟨default, ⟨[7], some [9]⟩⟩ (pubChan "x" bIdentity) 0 := rfl
example : (findChan "grpc:/drand.Control/PublicKey:resp").map (·.kind) = some .pub ∧
    (findChan "grpc:/drand.Protocol/PartialBeacon:req").map (·.kind) = some .sign ∧ (findChan "nope").isNone := by decide
example : (Gen.secretReaders.length = 21 ∨ Gen.secretReaders.length = 23) ∧ "crypto/vault:Vault.SignPartial" ∈ Gen.secretReaders := by
  decide
example : (trace 0o022 ⟨false, 0, []⟩ (saveSteps true [9])).map (·.mode) = [0o644, 0o644, 0o600, 0o600, 0o600] := by decide
-- rename variant over an owner-only old share, with a stale WORLD-READABLE temporary file full of old bytes lying around:
-- the stale file is emptied before it is chmod'ed and written, the target is replaced in one step
example : (traceS 0o022 ⟨⟨true, 0o600, [1]⟩, ⟨true, 0o666, [7, 7]⟩⟩ (saveProtocol true true [9])).map
      (fun st => (st.target.mode, st.target.content, st.tmp.present, st.tmp.mode, st.tmp.content)) =
    [(0o600, [1], true, 0o666, []), (0o600, [1], true, 0o666, []), (0o600, [1], true, 0o600, []), (0o600, [1], true, 0o600, []),
     (0o600, [1], true, 0o600, [9]), (0o600, [9], false, 0, [])] := by decide
example : FileSt.tight ⟨true, 0o600, [1]⟩ ∧ ¬ FileSt.tight ⟨true, 0o644, [1]⟩ ∧ FileSt.tight ⟨true, 0o666, []⟩ := by decide

end Drand.Secrecy
