/-
Golden copies of the source skeletons property C17 depends on (tools/go2lean/scripts.cfg). Each theorem says: the
statements of this function in /repo's working tree are still the ones the model and the theorems of C17 were
written against (logging, metrics and tracing statements and comments are not part of the text). Written by
`go2lean -golden`; a reviewed change of the source is followed by regenerating this file.
-/
import Gen.ScriptsC17

namespace Golden.C17

theorem tie_src_chain_Info_Hash : Gen.ScriptsC17.chain_Info_Hash = [
  "func (i *Info) Hash() []byte {",
  " h := sha256.New()",
  " _ = binary.Write(h, binary.BigEndian, uint32(i.Period.Seconds()))",
  " _ = binary.Write(h, binary.BigEndian, i.GenesisTime)",
  " buff, err := i.PublicKey.MarshalBinary()",
  " if err != nil {",
  "  log.DefaultLogger().Errorw(\"chain info: failed to hash pubkey\", \"err\", err)",
  " }",
  " _, _ = h.Write(buff)",
  " _, _ = h.Write(i.GenesisSeed)",
  " if !common.IsDefaultBeaconID(i.ID) {",
  "  _, _ = h.Write([]byte(i.ID))",
  " }",
  " return h.Sum(nil)",
  "}"
] := rfl

theorem tie_src_chain_Info_HashString : Gen.ScriptsC17.chain_Info_HashString = [
  "func (i *Info) HashString() string {",
  " return hex.EncodeToString(i.Hash())",
  "}"
] := rfl

theorem tie_src_chain_NewChainInfo : Gen.ScriptsC17.chain_NewChainInfo = [
  "func NewChainInfo(g *key.Group) *Info {",
  " return &Info{",
  "  ID: g.ID,",
  "  Period: g.Period,",
  "  Scheme: g.Scheme.Name,",
  "  PublicKey: g.PublicKey.Key(),",
  "  GenesisTime: g.GenesisTime,",
  "  GenesisSeed: g.GetGenesisSeed(),",
  " }",
  "}"
] := rfl

theorem tie_src_chain_Info_UnmarshalJSON : Gen.ScriptsC17.chain_Info_UnmarshalJSON = [
  "func (i *Info) UnmarshalJSON(data []byte) error {",
  " var v2Str struct {",
  "  PublicKey common.HexBytes `json:\"public_key\"`",
  "  ID string `json:\"beacon_id\"`",
  "  Period uint64 `json:\"period\"`",
  "  Scheme string `json:\"scheme\"`",
  "  GenesisTime int64 `json:\"genesis_time\"`",
  "  GenesisSeed common.HexBytes `json:\"genesis_seed\"`",
  "  ChainHash string `json:\"chain_hash\"`",
  "  OldSchemeID string `json:\"schemeID\"`",
  "  OldGroupHash common.HexBytes `json:\"groupHash\"`",
  "  OldMetadata *struct {",
  "   OldBeaconID string `json:\"beaconID\"`",
  "  } `json:\"metadata\"`",
  " }",
  " err := json.Unmarshal(data, &v2Str)",
  " if err != nil {",
  "  return fmt.Errorf(\"not a v2 info string: %w\", err)",
  " }",
  " i.GenesisSeed = v2Str.GenesisSeed",
  " i.GenesisTime = v2Str.GenesisTime",
  " i.Scheme = v2Str.Scheme",
  " i.Period = time.Duration(v2Str.Period) * time.Second",
  " i.ID = v2Str.ID",
  " if v2Str.OldSchemeID != \"\" && i.Scheme == \"\" {",
  "  i.Scheme = v2Str.OldSchemeID",
  "  i.GenesisSeed = v2Str.OldGroupHash",
  "  if v2Str.OldMetadata != nil && v2Str.OldMetadata.OldBeaconID != \"\" {",
  "   i.ID = v2Str.OldMetadata.OldBeaconID",
  "  }",
  " }",
  " sch, err := crypto.GetSchemeByID(i.Scheme)",
  " if err != nil {",
  "  return fmt.Errorf(\"invalid scheme advertised: %w\", err)",
  " }",
  " pk := sch.KeyGroup.Point()",
  " err = pk.UnmarshalBinary(v2Str.PublicKey)",
  " if err != nil {",
  "  return fmt.Errorf(\"invalid public key %q: %w\", sch.Name, err)",
  " }",
  " i.PublicKey = pk",
  " if v2Str.ChainHash != \"\" {",
  "  if i.HashString() != v2Str.ChainHash {",
  "   return fmt.Errorf(\"chain hash mismatch: %s != %s\", i.HashString(), v2Str.ChainHash)",
  "  }",
  " }",
  " return nil",
  "}"
] := rfl

theorem tie_src_chain_Info_MarshalJSON : Gen.ScriptsC17.chain_Info_MarshalJSON = [
  "func (i Info) MarshalJSON() ([]byte, error) {",
  " var v2Str struct {",
  "  PublicKey string `json:\"public_key\"`",
  "  ID string `json:\"beacon_id\"`",
  "  Period uint64 `json:\"period\"`",
  "  Scheme string `json:\"scheme\"`",
  "  GenesisTime int64 `json:\"genesis_time\"`",
  "  GenesisSeed common.HexBytes `json:\"genesis_seed\"`",
  "  ChainHash string `json:\"chain_hash\"`",
  " }",
  " v2Str.ID = i.ID",
  " v2Str.Scheme = i.Scheme",
  " v2Str.Period = uint64(i.Period.Seconds())",
  " v2Str.GenesisSeed = i.GenesisSeed",
  " v2Str.GenesisTime = i.GenesisTime",
  " v2Str.ChainHash = i.HashString()",
  " rawPk, err := i.PublicKey.MarshalBinary()",
  " if err != nil {",
  "  return nil, fmt.Errorf(\"unable to marshal public key: %w\", err)",
  " }",
  " v2Str.PublicKey = hex.EncodeToString(rawPk)",
  " return json.Marshal(v2Str)",
  "}"
] := rfl

theorem tie_src_chain_InfoFromProto : Gen.ScriptsC17.chain_InfoFromProto = [
  "func InfoFromProto(p *drand.ChainInfoPacket) (*Info, error) {",
  " sch, err := crypto.GetSchemeByID(p.SchemeID)",
  " if err != nil {",
  "  return nil, fmt.Errorf(\"scheme id received is not valid. Err: %w\", err)",
  " }",
  " public := sch.KeyGroup.Point()",
  " if err := public.UnmarshalBinary(p.PublicKey); err != nil {",
  "  return nil, err",
  " }",
  " return &Info{",
  "  PublicKey: public,",
  "  GenesisTime: p.GenesisTime,",
  "  Period: time.Duration(p.Period) * time.Second,",
  "  GenesisSeed: p.GroupHash,",
  "  Scheme: sch.Name,",
  "  ID: p.GetMetadata().GetBeaconID(),",
  " }, nil",
  "}"
] := rfl

theorem tie_src_chain_Info_ToProto : Gen.ScriptsC17.chain_Info_ToProto = [
  "func (i *Info) ToProto(metadata *drand.Metadata) *drand.ChainInfoPacket {",
  " buff, _ := i.PublicKey.MarshalBinary()",
  " if metadata != nil {",
  "  metadata.BeaconID = i.ID",
  " } else {",
  "  metadata = &drand.Metadata{BeaconID: i.ID}",
  " }",
  " return &drand.ChainInfoPacket{",
  "  PublicKey: buff,",
  "  GenesisTime: i.GenesisTime,",
  "  Period: uint32(i.Period.Seconds()),",
  "  Hash: i.Hash(),",
  "  GroupHash: i.GenesisSeed,",
  "  SchemeID: i.Scheme,",
  "  Metadata: metadata,",
  " }",
  "}"
] := rfl

theorem tie_src_key_Group_Hash : Gen.ScriptsC17.key_Group_Hash = [
  "func (g *Group) Hash() []byte {",
  " h := hashFunc()",
  " sort.Slice(g.Nodes, func(i, j int) bool {",
  "  return g.Nodes[i].Index < g.Nodes[j].Index",
  " })",
  " for _, n := range g.Nodes {",
  "  _, _ = h.Write(n.Hash())",
  " }",
  " _ = binary.Write(h, binary.LittleEndian, uint32(g.Threshold))",
  " _ = binary.Write(h, binary.LittleEndian, uint64(g.GenesisTime))",
  " if g.TransitionTime != 0 {",
  "  _ = binary.Write(h, binary.LittleEndian, g.TransitionTime)",
  " }",
  " if g.PublicKey != nil {",
  "  _, _ = h.Write(g.PublicKey.Hash())",
  " }",
  " if !common2.IsDefaultBeaconID(g.ID) {",
  "  _, _ = h.Write([]byte(g.ID))",
  " }",
  " return h.Sum(nil)",
  "}"
] := rfl

theorem tie_src_key_Node_Hash : Gen.ScriptsC17.key_Node_Hash = [
  "func (n *Node) Hash() []byte {",
  " h := hashFunc()",
  " _ = binary.Write(h, binary.LittleEndian, n.Index)",
  " _, _ = n.Key.MarshalTo(h)",
  " return h.Sum(nil)",
  "}"
] := rfl

theorem tie_src_key_DistPublic_Hash : Gen.ScriptsC17.key_DistPublic_Hash = [
  "func (d *DistPublic) Hash() []byte {",
  " h := hashFunc()",
  " for _, c := range d.Coefficients {",
  "  buff, _ := c.MarshalBinary()",
  "  _, _ = h.Write(buff)",
  " }",
  " return h.Sum(nil)",
  "}"
] := rfl

theorem tie_src_key_Identity_Hash : Gen.ScriptsC17.key_Identity_Hash = [
  "func (i *Identity) Hash() []byte {",
  " h := i.Scheme.IdentityHash()",
  " _, _ = i.Key.MarshalTo(h)",
  " return h.Sum(nil)",
  "}"
] := rfl

theorem tie_src_key_Group_GetGenesisSeed : Gen.ScriptsC17.key_Group_GetGenesisSeed = [
  "func (g *Group) GetGenesisSeed() []byte {",
  " if g.GenesisSeed != nil {",
  "  return g.GenesisSeed",
  " }",
  " g.GenesisSeed = g.Hash()",
  " return g.GenesisSeed",
  "}"
] := rfl

theorem tie_src_common_IsDefaultBeaconID : Gen.ScriptsC17.common_IsDefaultBeaconID = [
  "func IsDefaultBeaconID(beaconID string) bool {",
  " return beaconID == DefaultBeaconID || beaconID == \"\"",
  "}"
] := rfl

theorem tie_src_common_GetCanonicalBeaconID : Gen.ScriptsC17.common_GetCanonicalBeaconID = [
  "func GetCanonicalBeaconID(id string) string {",
  " if IsDefaultBeaconID(id) {",
  "  return DefaultBeaconID",
  " }",
  " return id",
  "}"
] := rfl

end Golden.C17
