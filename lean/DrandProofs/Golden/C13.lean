/-
Golden copies of the source skeletons property C13 depends on (tools/go2lean/scripts.cfg). Each theorem says: the
statements of this function in /repo's working tree are still the ones the model and the theorems of C13 were
written against (logging, metrics and tracing statements and comments are not part of the text). Written by
`go2lean -golden`; a reviewed change of the source is followed by regenerating this file.
-/
import Gen.ScriptsC13

namespace Golden.C13

theorem tie_src_beacon_newAppendStore : Gen.ScriptsC13.beacon_newAppendStore = [
  "func newAppendStore(ctx context.Context, s chain.Store) (chain.Store, error) {",
  " last, err := s.Last(ctx)",
  " if err != nil {",
  "  return nil, err",
  " }",
  " return &appendStore{",
  "  Store: s,",
  "  last: last,",
  " }, nil",
  "}"
] := rfl

theorem tie_src_boltdb_BoltStore_Put : Gen.ScriptsC13.boltdb_BoltStore_Put = [
  "func (b *BoltStore) Put(ctx context.Context, beacon *common.Beacon) error {",
  " select {",
  " case <-ctx.Done():",
  "  return ctx.Err()",
  " default:",
  " }",
  " return b.db.Update(func(tx *bolt.Tx) error {",
  "  bucket := tx.Bucket(beaconBucket)",
  "  key := chain.RoundToBytes(beacon.Round)",
  "  buff, err := beacon.Marshal()",
  "  if err != nil {",
  "   return err",
  "  }",
  "  select {",
  "  case <-ctx.Done():",
  "   return ctx.Err()",
  "  default:",
  "  }",
  "  err = bucket.Put(key, buff)",
  "  if err != nil {",
  "  }",
  "  return err",
  " })",
  "}"
] := rfl

theorem tie_src_boltdb_NewBoltStore : Gen.ScriptsC13.boltdb_NewBoltStore = [
  "func NewBoltStore(ctx context.Context, l log.Logger, folder string) (chain.Store, error) {",
  " select {",
  " case <-ctx.Done():",
  "  return nil, ctx.Err()",
  " default:",
  " }",
  " beaconID := path.Base(path.Dir(folder))",
  " dbPath := path.Join(folder, BoltFileName)",
  " if shouldUseTrimmedBolt(ctx, l, dbPath) {",
  "  return newTrimmedStore(ctx, l, folder)",
  " }",
  " db, err := bolt.Open(dbPath, BoltStoreOpenPerm, nil)",
  " if err != nil {",
  "  return nil, err",
  " }",
  " err = db.Update(func(tx *bolt.Tx) error {",
  "  _, err := tx.CreateBucketIfNotExists(beaconBucket)",
  "  return err",
  " })",
  " return &BoltStore{",
  "  log: l,",
  "  db: db,",
  " }, err",
  "}"
] := rfl

theorem tie_src_boltdb_newTrimmedStore : Gen.ScriptsC13.boltdb_newTrimmedStore = [
  "func newTrimmedStore(ctx context.Context, l log.Logger, folder string) (*trimmedStore, error) {",
  " select {",
  " case <-ctx.Done():",
  "  return nil, ctx.Err()",
  " default:",
  " }",
  " dbPath := path.Join(folder, BoltFileName)",
  " db, err := bolt.Open(dbPath, BoltStoreOpenPerm, nil)",
  " if err != nil {",
  "  return nil, err",
  " }",
  " err = db.Update(func(tx *bolt.Tx) error {",
  "  _, err := tx.CreateBucketIfNotExists(beaconBucket)",
  "  return err",
  " })",
  " return &trimmedStore{",
  "  log: l,",
  "  db: db,",
  "  requiresPrevious: chain.PreviousRequiredFromContext(ctx),",
  " }, err",
  "}"
] := rfl

theorem tie_src_boltdb_trimmedStore_Put : Gen.ScriptsC13.boltdb_trimmedStore_Put = [
  "func (b *trimmedStore) Put(ctx context.Context, beacon *common.Beacon) error {",
  " select {",
  " case <-ctx.Done():",
  "  return ctx.Err()",
  " default:",
  " }",
  " return b.db.Update(func(tx *bolt.Tx) error {",
  "  bucket := tx.Bucket(beaconBucket)",
  "  bucket.FillPercent = 1.0",
  "  key := chain.RoundToBytes(beacon.Round)",
  "  err := bucket.Put(key, beacon.Signature)",
  "  if err != nil {",
  "  }",
  "  return err",
  " })",
  "}"
] := rfl

theorem tie_src_dkg_Process_executeAndFinishDKG : Gen.ScriptsC13.dkg_Process_executeAndFinishDKG = [
  "func (d *Process) executeAndFinishDKG(ctx context.Context, beaconID string, config *dkg.Config) error {",
  " current, err := d.store.GetCurrent(beaconID)",
  " if err != nil {",
  "  return err",
  " }",
  " lastCompleted, err := d.store.GetFinished(beaconID)",
  " if err != nil {",
  "  return err",
  " }",
  " output, err := d.startDKGExecution(ctx, beaconID, current, config)",
  " if err != nil {",
  "  dkgErr := err",
  "  current, err := d.store.GetCurrent(beaconID)",
  "  if err != nil {",
  "   return errors.Join(dkgErr, err)",
  "  }",
  "  next, err := current.Failed()",
  "  if err != nil {",
  "   return errors.Join(err, dkgErr)",
  "  }",
  "  err = d.store.SaveCurrent(beaconID, next)",
  "  return errors.Join(dkgErr, err)",
  " }",
  " finalState, err := current.Complete(output.FinalGroup, output.KeyShare)",
  " if err != nil {",
  "  return err",
  " }",
  " err = d.store.SaveFinished(beaconID, finalState)",
  " if err != nil {",
  "  return err",
  " }",
  " defer func() {",
  "  if r := recover(); r != nil {",
  "   err = fmt.Errorf(\"recovered from panic writing to closed channel: %v\", r)",
  "  }",
  " }()",
  " select {",
  " case <-d.close:",
  "  return errors.New(\"daemon was closed before DKG execution\")",
  " case d.completedDKGs.Chan() <- SharingOutput{",
  "  BeaconID: beaconID,",
  "  Old: lastCompleted,",
  "  New: *finalState,",
  " }:",
  " }",
  " return nil",
  "}"
] := rfl

theorem tie_src_dkg_BoltStore_SaveCurrent : Gen.ScriptsC13.dkg_BoltStore_SaveCurrent = [
  "func (s *BoltStore) SaveCurrent(beaconID string, state *DBState) error {",
  " return s.save(stagedStateBucket, beaconID, state)",
  "}"
] := rfl

theorem tie_src_dkg_BoltStore_SaveFinished : Gen.ScriptsC13.dkg_BoltStore_SaveFinished = [
  "func (s *BoltStore) SaveFinished(beaconID string, state *DBState) error {",
  " return s.db.Update(func(tx *bolt.Tx) error {",
  "  finishedBucket := tx.Bucket(finishedStateBucket)",
  "  currentBucket := tx.Bucket(stagedStateBucket)",
  "  if finishedBucket == nil {",
  "   return errors.Errorf(\"%s bucket was nil - this should never happen\", finishedStateBucket)",
  "  }",
  "  if currentBucket == nil {",
  "   return errors.Errorf(\"%s bucket was nil - this should never happen\", stagedStateBucket)",
  "  }",
  "  bytesID := []byte(beaconID)",
  "  b, err := encodeState(state)",
  "  if err != nil {",
  "   return err",
  "  }",
  "  err = finishedBucket.Put(bytesID, b)",
  "  if err != nil {",
  "   return err",
  "  }",
  "  return currentBucket.Put(bytesID, b)",
  " })",
  "}"
] := rfl

theorem tie_src_dkg_BoltStore_save : Gen.ScriptsC13.dkg_BoltStore_save = [
  "func (s *BoltStore) save(bucketName []byte, beaconID string, state *DBState) error {",
  " return s.db.Update(func(tx *bolt.Tx) error {",
  "  bucket := tx.Bucket(bucketName)",
  "  if bucket == nil {",
  "   return errors.Errorf(\"%s bucket was nil - this should never happen\", bucketName)",
  "  }",
  "  bytesID := []byte(beaconID)",
  "  b, err := encodeState(state)",
  "  if err != nil {",
  "   return err",
  "  }",
  "  return bucket.Put(bytesID, b)",
  " })",
  "}"
] := rfl

theorem tie_src_dkg_NewDKGStore : Gen.ScriptsC13.dkg_NewDKGStore = [
  "func NewDKGStore(baseFolder string) (*BoltStore, error) {",
  " err := os.MkdirAll(baseFolder, DirPerm)",
  " if err != nil {",
  "  return nil, err",
  " }",
  " dbPath := path.Join(baseFolder, BoltFileName)",
  " db, err := bolt.Open(dbPath, BoltStoreOpenPerm, nil)",
  " if err != nil {",
  "  return nil, err",
  " }",
  " err = db.Update(func(tx *bolt.Tx) error {",
  "  _, err := tx.CreateBucketIfNotExists(stagedStateBucket)",
  "  if err != nil {",
  "   return err",
  "  }",
  "  _, err = tx.CreateBucketIfNotExists(finishedStateBucket)",
  "  return err",
  " })",
  " if err != nil {",
  "  return nil, err",
  " }",
  " store := BoltStore{",
  "  db: db,",
  "  log: log.New(nil, log.DebugLevel, true),",
  " }",
  " return &store, nil",
  "}"
] := rfl

theorem tie_src_core_BeaconProcess_onDKGCompleted : Gen.ScriptsC13.core_BeaconProcess_onDKGCompleted = [
  "func (bp *BeaconProcess) onDKGCompleted(ctx context.Context, dkgOutput *dkg.SharingOutput) error {",
  " if dkgOutput.BeaconID != bp.beaconID {",
  "  return nil",
  " }",
  " p, err := util.PublicKeyAsParticipant(bp.priv.Public)",
  " if err != nil {",
  "  return err",
  " }",
  " weWereInLastEpoch := false",
  " if dkgOutput.Old != nil {",
  "  for _, v := range dkgOutput.Old.FinalGroup.Nodes {",
  "   if v.Addr == p.Address {",
  "    weWereInLastEpoch = true",
  "   }",
  "  }",
  " }",
  " weAreInNextEpoch := false",
  " for _, v := range dkgOutput.New.FinalGroup.Nodes {",
  "  if v.Addr == p.Address {",
  "   weAreInNextEpoch = true",
  "  }",
  " }",
  " if weWereInLastEpoch {",
  "  if weAreInNextEpoch {",
  "   return bp.transitionToNext(ctx, dkgOutput)",
  "  }",
  "  return bp.leaveNetwork(ctx)",
  " }",
  " if weAreInNextEpoch {",
  "  return bp.joinNetwork(ctx, dkgOutput)",
  " }",
  " return errors.New(\"failed to join the network during the DKG but somehow got to transition\")",
  "}"
] := rfl

theorem tie_src_core_BeaconProcess_transitionToNext : Gen.ScriptsC13.core_BeaconProcess_transitionToNext = [
  "func (bp *BeaconProcess) transitionToNext(ctx context.Context, dkgOutput *dkg.SharingOutput) error {",
  " newGroup := dkgOutput.New.FinalGroup",
  " newShare := dkgOutput.New.KeyShare",
  " err := bp.validateGroupTransition(bp.group, newGroup)",
  " if err != nil {",
  "  return err",
  " }",
  " err = bp.storeDKGOutput(ctx, newGroup, newShare)",
  " if err != nil {",
  "  return err",
  " }",
  " if bp.beacon == nil {",
  "  return fmt.Errorf(\"cannot transitionToNext on a nil beacon handler\")",
  " }",
  " bp.beacon.TransitionNewGroup(ctx, newShare, newGroup)",
  " return err",
  "}"
] := rfl

theorem tie_src_core_BeaconProcess_leaveNetwork : Gen.ScriptsC13.core_BeaconProcess_leaveNetwork = [
  "func (bp *BeaconProcess) leaveNetwork(ctx context.Context) error {",
  " timeToStop := bp.group.TransitionTime - 1",
  " err := bp.beacon.StopAt(ctx, timeToStop)",
  " if err != nil {",
  " } else {",
  " }",
  " err = bp.store.Reset()",
  " return err",
  "}"
] := rfl

theorem tie_src_core_BeaconProcess_storeDKGOutput : Gen.ScriptsC13.core_BeaconProcess_storeDKGOutput = [
  "func (bp *BeaconProcess) storeDKGOutput(ctx context.Context, group *key.Group, share *key.Share) error {",
  " bp.state.Lock()",
  " defer bp.state.Unlock()",
  " bp.group = group",
  " bp.share = share",
  " bp.chainHash = public.NewChainInfo(bp.group).Hash()",
  " err := bp.store.SaveGroup(group)",
  " if err != nil {",
  "  return err",
  " }",
  " err = bp.store.SaveShare(share)",
  " if err != nil {",
  "  return err",
  " }",
  " bp.opts.dkgCallback(ctx, group)",
  " return nil",
  "}"
] := rfl

theorem tie_src_core_BeaconProcess_Load : Gen.ScriptsC13.core_BeaconProcess_Load = [
  "func (bp *BeaconProcess) Load(ctx context.Context) error {",
  " var err error",
  " bp.group, err = bp.store.LoadGroup()",
  " if err != nil || bp.group == nil {",
  "  return ErrDKGNotStarted",
  " }",
  " if groupFilePath := key.GroupFilePath(bp.store); groupFilePath != \"\" {",
  " }",
  " if bp.priv.Public.Scheme.Name != bp.group.Scheme.Name {",
  "  return fmt.Errorf(\"scheme mismatch for group or share\")",
  " }",
  " bp.state.Lock()",
  " info := public.NewChainInfo(bp.group)",
  " bp.chainHash = info.Hash()",
  " checkGroup(bp.log, bp.group)",
  " bp.state.Unlock()",
  " bp.share, err = bp.store.LoadShare()",
  " if err != nil {",
  "  return err",
  " }",
  " thisBeacon := bp.group.Find(bp.priv.Public)",
  " if thisBeacon == nil {",
  "  err := fmt.Errorf(\"could not restore beacon info for the given identity - this can happen if you updated the group file manually\")",
  "  return err",
  " }",
  " bp.state.Lock()",
  " bp.index = int(thisBeacon.Index)",
  " bp.log = bp.log.Named(fmt.Sprint(bp.index))",
  " bp.state.Unlock()",
  " return nil",
  "}"
] := rfl

theorem tie_src_core_BeaconProcess_StartBeacon : Gen.ScriptsC13.core_BeaconProcess_StartBeacon = [
  "func (bp *BeaconProcess) StartBeacon(ctx context.Context, catchup bool) error {",
  " b, err := bp.newBeacon(ctx)",
  " if err != nil {",
  "  return err",
  " }",
  " if catchup {",
  "  b.Catchup(ctx)",
  " } else if err := b.Start(ctx); err != nil {",
  "  return err",
  " }",
  " return nil",
  "}"
] := rfl

theorem tie_src_core_DrandDaemon_LoadBeaconFromStore : Gen.ScriptsC13.core_DrandDaemon_LoadBeaconFromStore = [
  "func (dd *DrandDaemon) LoadBeaconFromStore(ctx context.Context, beaconID string, store key.Store) (*BeaconProcess, error) {",
  " bp, err := dd.InstantiateBeaconProcess(ctx, beaconID, store)",
  " if err != nil {",
  "  return nil, err",
  " }",
  " status, err := dd.dkg.DKGStatus(ctx, &pdkg.DKGStatusRequest{BeaconID: beaconID})",
  " if err != nil {",
  "  return nil, err",
  " }",
  " freshRun := status.Complete == nil",
  " if freshRun {",
  "  g, err := store.LoadGroup()",
  "  if err != nil && !errors.Is(err, fs.ErrNotExist) {",
  "   return nil, err",
  "  }",
  "  if g == nil {",
  "   return bp, nil",
  "  }",
  "  if gFP := key.GroupFilePath(store); gFP != \"\" {",
  "  }",
  "  share, err := store.LoadShare()",
  "  if err != nil {",
  "   return nil, err",
  "  }",
  "  if err := dd.dkg.Migrate(beaconID, g, share); err != nil {",
  "   return nil, err",
  "  }",
  " } else if err := dd.reconcileKeyFiles(beaconID, bp, store); err != nil {",
  "  return nil, err",
  " }",
  " if err := bp.Load(ctx); err != nil {",
  "  return nil, err",
  " }",
  " dd.AddBeaconHandler(ctx, beaconID, bp)",
  " err = bp.StartBeacon(ctx, true)",
  " if err != nil {",
  " }",
  " return bp, err",
  "}"
] := rfl

theorem tie_src_core_DrandDaemon_reconcileKeyFiles : Gen.ScriptsC13.core_DrandDaemon_reconcileKeyFiles = [
  "func (dd *DrandDaemon) reconcileKeyFiles(beaconID string, bp *BeaconProcess, store key.Store) error {",
  " done, err := dd.dkg.LastCompleted(beaconID)",
  " if err != nil || done == nil {",
  "  return err",
  " }",
  " distKey := done.FinalGroup.PublicKey",
  " group, _ := store.LoadGroup()",
  " share, shareErr := store.LoadShare()",
  " groupInSync := group != nil && group.PublicKey != nil && group.PublicKey.Equal(distKey)",
  " shareInSync := shareErr == nil && share.Public().Equal(distKey)",
  " if groupInSync && shareInSync {",
  "  return nil",
  " }",
  " if group != nil && group.TransitionTime > done.FinalGroup.TransitionTime {",
  "  return nil",
  " }",
  " if done.FinalGroup.Find(bp.priv.Public) == nil {",
  "  if group == nil && shareErr != nil {",
  "   return nil",
  "  }",
  "  return store.Reset()",
  " }",
  " if err := store.SaveGroup(done.FinalGroup); err != nil {",
  "  return err",
  " }",
  " return store.SaveShare(done.KeyShare)",
  "}"
] := rfl

theorem tie_src_dkg_Process_LastCompleted : Gen.ScriptsC13.dkg_Process_LastCompleted = [
  "func (d *Process) LastCompleted(beaconID string) (*ExecutionOutput, error) {",
  " finished, err := d.store.GetFinished(beaconID)",
  " if err != nil || finished == nil || finished.FinalGroup == nil || finished.FinalGroup.PublicKey == nil || finished.KeyShare == nil {",
  "  return nil, err",
  " }",
  " return &ExecutionOutput{FinalGroup: finished.FinalGroup, KeyShare: finished.KeyShare}, nil",
  "}"
] := rfl

theorem tie_src_key_Save : Gen.ScriptsC13.key_Save = [
  "func Save(filePath string, t Tomler, secure bool) error {",
  " tmpPath := filePath + tmpExtension",
  " var fd *os.File",
  " var err error",
  " if secure {",
  "  fd, err = fs.CreateSecureFile(tmpPath)",
  " } else {",
  "  fd, err = os.Create(tmpPath)",
  " }",
  " if err != nil {",
  "  _ = os.Remove(tmpPath)",
  "  return fmt.Errorf(\"config: can't save %s to %s: %w\", reflect.TypeOf(t).String(), filePath, err)",
  " }",
  " err = toml.NewEncoder(fd).Encode(t.TOML())",
  " if err == nil {",
  "  err = fd.Sync()",
  " }",
  " if closeErr := fd.Close(); err == nil {",
  "  err = closeErr",
  " }",
  " if err == nil {",
  "  err = os.Rename(tmpPath, filePath)",
  " }",
  " if err != nil {",
  "  _ = os.Remove(tmpPath)",
  " }",
  " return err",
  "}"
] := rfl

theorem tie_src_key_Load : Gen.ScriptsC13.key_Load = [
  "func Load(filePath string, t Tomler) error {",
  " tomlValue := t.TOMLValue()",
  " var err error",
  " if _, err = toml.DecodeFile(filePath, tomlValue); err != nil {",
  "  return err",
  " }",
  " return t.FromTOML(tomlValue)",
  "}"
] := rfl

theorem tie_src_key_Delete : Gen.ScriptsC13.key_Delete = [
  "func Delete(filePath string) error {",
  " return os.RemoveAll(filePath)",
  "}"
] := rfl

theorem tie_src_key_fileStore_SaveGroup : Gen.ScriptsC13.key_fileStore_SaveGroup = [
  "func (f *fileStore) SaveGroup(g *Group) error {",
  " return Save(f.groupFile, g, false)",
  "}"
] := rfl

theorem tie_src_key_fileStore_SaveShare : Gen.ScriptsC13.key_fileStore_SaveShare = [
  "func (f *fileStore) SaveShare(share *Share) error {",
  " fmt.Printf(\"crypto store: saving private share in %s\\n\", f.shareFile)",
  " return Save(f.shareFile, share, true)",
  "}"
] := rfl

theorem tie_src_key_fileStore_LoadGroup : Gen.ScriptsC13.key_fileStore_LoadGroup = [
  "func (f *fileStore) LoadGroup() (*Group, error) {",
  " var g Group",
  " err := Load(f.groupFile, &g)",
  " if err != nil {",
  "  return nil, err",
  " }",
  " if reflect.DeepEqual(g, Group{}) {",
  "  return nil, nil",
  " }",
  " return &g, nil",
  "}"
] := rfl

theorem tie_src_key_fileStore_LoadShare : Gen.ScriptsC13.key_fileStore_LoadShare = [
  "func (f *fileStore) LoadShare() (*Share, error) {",
  " s := new(Share)",
  " return s, Load(f.shareFile, s)",
  "}"
] := rfl

theorem tie_src_key_fileStore_Reset : Gen.ScriptsC13.key_fileStore_Reset = [
  "func (f *fileStore) Reset() error {",
  " if err := Delete(f.shareFile); err != nil {",
  "  return fmt.Errorf(\"drand: err deleting share file: %w\", err)",
  " }",
  " if err := Delete(f.groupFile); err != nil {",
  "  return fmt.Errorf(\"drand: err deleting group file: %w\", err)",
  " }",
  " if err := Delete(f.shareFile + tmpExtension); err != nil {",
  "  return fmt.Errorf(\"drand: err deleting share file: %w\", err)",
  " }",
  " if err := Delete(f.groupFile + tmpExtension); err != nil {",
  "  return fmt.Errorf(\"drand: err deleting group file: %w\", err)",
  " }",
  " return nil",
  "}"
] := rfl

theorem tie_src_fs_CreateSecureFile : Gen.ScriptsC13.fs_CreateSecureFile = [
  "func CreateSecureFile(file string) (*os.File, error) {",
  " fd, err := os.Create(file)",
  " if err != nil {",
  "  return nil, err",
  " }",
  " fd.Close()",
  " if err := chmodFunc(file, rwFilePermission); err != nil {",
  "  return nil, fmt.Errorf(\"failed to set file permissions: %w\", err)",
  " }",
  " return os.OpenFile(file, os.O_RDWR, rwFilePermission)",
  "}"
] := rfl

end Golden.C13
