/-
Golden copies of the source skeletons property C15 depends on (tools/go2lean/scripts.cfg). Each theorem says: the
statements of this function in /repo's working tree are still the ones the model and the theorems of C15 were
written against (logging, metrics and tracing statements and comments are not part of the text). Written by
`go2lean -golden`; a reviewed change of the source is followed by regenerating this file.
-/
import Gen.ScriptsC15

namespace Golden.C15

theorem tie_src_dkg_Process_DKGStatus : Gen.ScriptsC15.dkg_Process_DKGStatus = [
  "func (d *Process) DKGStatus(ctx context.Context, request *drand.DKGStatusRequest) (*drand.DKGStatusResponse, error) {",
  " finished, err := d.store.GetFinished(request.BeaconID)",
  " if err != nil {",
  "  return nil, err",
  " }",
  " current, err := d.store.GetCurrent(request.BeaconID)",
  " if err != nil {",
  "  return nil, err",
  " }",
  " var finalGroup []string",
  " if current.FinalGroup != nil {",
  "  finalGroup := make([]string, len(current.FinalGroup.Nodes))",
  "  for i, v := range current.FinalGroup.Nodes {",
  "   finalGroup[i] = v.Addr",
  "  }",
  " }",
  " currentEntry := drand.DKGEntry{",
  "  BeaconID: current.BeaconID,",
  "  State: uint32(current.State),",
  "  Epoch: current.Epoch,",
  "  Threshold: current.Threshold,",
  "  Timeout: timestamppb.New(current.Timeout),",
  "  GenesisTime: timestamppb.New(current.GenesisTime),",
  "  GenesisSeed: current.GenesisSeed,",
  "  Leader: current.Leader,",
  "  Remaining: current.Remaining,",
  "  Joining: current.Joining,",
  "  Leaving: current.Leaving,",
  "  Acceptors: current.Acceptors,",
  "  Rejectors: current.Rejectors,",
  "  FinalGroup: finalGroup,",
  " }",
  " if finished == nil {",
  "  return &drand.DKGStatusResponse{",
  "   Current: &currentEntry,",
  "  }, nil",
  " }",
  " finishedFinalGroup := make([]string, len(finished.FinalGroup.Nodes))",
  " for i, v := range finished.FinalGroup.Nodes {",
  "  finishedFinalGroup[i] = v.Addr",
  " }",
  " return &drand.DKGStatusResponse{",
  "  Complete: &drand.DKGEntry{",
  "   BeaconID: finished.BeaconID,",
  "   State: uint32(finished.State),",
  "   Epoch: finished.Epoch,",
  "   Threshold: finished.Threshold,",
  "   Timeout: timestamppb.New(finished.Timeout),",
  "   GenesisTime: timestamppb.New(finished.GenesisTime),",
  "   GenesisSeed: finished.GenesisSeed,",
  "   Leader: finished.Leader,",
  "   Remaining: finished.Remaining,",
  "   Joining: finished.Joining,",
  "   Leaving: finished.Leaving,",
  "   Acceptors: finished.Acceptors,",
  "   Rejectors: finished.Rejectors,",
  "   FinalGroup: finishedFinalGroup,",
  "  },",
  "  Current: &currentEntry,",
  " }, nil",
  "}"
] := rfl

theorem tie_src_dkg_NewDKGStore : Gen.ScriptsC15.dkg_NewDKGStore = [
  "func NewDKGStore(baseFolder string) (*BoltStore, error) {",
  " err := os.MkdirAll(baseFolder, DirPerm)",
  " if err != nil {",
  "  return nil, err",
  " }",
  " dbPath := path.Join(baseFolder, BoltFileName)",
  " db, err := bolt.Open(dbPath, BoltStoreOpenPerm, nil)",
  " if err != nil {",
  "  return nil, err",
  " }",
  " err = db.Update(func(tx *bolt.Tx) error {",
  "  _, err := tx.CreateBucketIfNotExists(stagedStateBucket)",
  "  if err != nil {",
  "   return err",
  "  }",
  "  _, err = tx.CreateBucketIfNotExists(finishedStateBucket)",
  "  return err",
  " })",
  " if err != nil {",
  "  return nil, err",
  " }",
  " store := BoltStore{",
  "  db: db,",
  "  log: log.New(nil, log.DebugLevel, true),",
  " }",
  " return &store, nil",
  "}"
] := rfl

theorem tie_src_core_BeaconProcess_storeDKGOutput : Gen.ScriptsC15.core_BeaconProcess_storeDKGOutput = [
  "func (bp *BeaconProcess) storeDKGOutput(ctx context.Context, group *key.Group, share *key.Share) error {",
  " bp.state.Lock()",
  " defer bp.state.Unlock()",
  " bp.group = group",
  " bp.share = share",
  " bp.chainHash = public.NewChainInfo(bp.group).Hash()",
  " err := bp.store.SaveGroup(group)",
  " if err != nil {",
  "  return err",
  " }",
  " err = bp.store.SaveShare(share)",
  " if err != nil {",
  "  return err",
  " }",
  " bp.opts.dkgCallback(ctx, group)",
  " return nil",
  "}"
] := rfl

theorem tie_src_key_Save : Gen.ScriptsC15.key_Save = [
  "func Save(filePath string, t Tomler, secure bool) error {",
  " tmpPath := filePath + tmpExtension",
  " var fd *os.File",
  " var err error",
  " if secure {",
  "  fd, err = fs.CreateSecureFile(tmpPath)",
  " } else {",
  "  fd, err = os.Create(tmpPath)",
  " }",
  " if err != nil {",
  "  _ = os.Remove(tmpPath)",
  "  return fmt.Errorf(\"config: can't save %s to %s: %w\", reflect.TypeOf(t).String(), filePath, err)",
  " }",
  " err = toml.NewEncoder(fd).Encode(t.TOML())",
  " if err == nil {",
  "  err = fd.Sync()",
  " }",
  " if closeErr := fd.Close(); err == nil {",
  "  err = closeErr",
  " }",
  " if err == nil {",
  "  err = os.Rename(tmpPath, filePath)",
  " }",
  " if err != nil {",
  "  _ = os.Remove(tmpPath)",
  " }",
  " return err",
  "}"
] := rfl

theorem tie_src_key_fileStore_SaveGroup : Gen.ScriptsC15.key_fileStore_SaveGroup = [
  "func (f *fileStore) SaveGroup(g *Group) error {",
  " return Save(f.groupFile, g, false)",
  "}"
] := rfl

theorem tie_src_key_fileStore_SaveShare : Gen.ScriptsC15.key_fileStore_SaveShare = [
  "func (f *fileStore) SaveShare(share *Share) error {",
  " fmt.Printf(\"crypto store: saving private share in %s\\n\", f.shareFile)",
  " return Save(f.shareFile, share, true)",
  "}"
] := rfl

theorem tie_src_key_fileStore_SaveKeyPair : Gen.ScriptsC15.key_fileStore_SaveKeyPair = [
  "func (f *fileStore) SaveKeyPair(p *Pair) error {",
  " if err := Save(f.privateKeyFile, p, true); err != nil {",
  "  return err",
  " }",
  " fmt.Printf(\"Saved the key : %s at %s\\n\", p.Public.Addr, f.publicKeyFile)",
  " return Save(f.publicKeyFile, p.Public, false)",
  "}"
] := rfl

theorem tie_src_key_NewFileStore : Gen.ScriptsC15.key_NewFileStore = [
  "func NewFileStore(baseFolder, beaconID string) Store {",
  " beaconID = common.GetCanonicalBeaconID(beaconID)",
  " store := &fileStore{baseFolder: baseFolder, beaconID: beaconID}",
  " keyFolder := fs.CreateSecureFolder(path.Join(baseFolder, beaconID, FolderName))",
  " groupFolder := fs.CreateSecureFolder(path.Join(baseFolder, beaconID, GroupFolderName))",
  " store.privateKeyFile = path.Join(keyFolder, keyFileName) + privateExtension",
  " store.publicKeyFile = path.Join(keyFolder, keyFileName) + publicExtension",
  " store.groupFile = path.Join(groupFolder, groupFileName)",
  " store.shareFile = path.Join(groupFolder, shareFileName)",
  " return store",
  "}"
] := rfl

theorem tie_src_fs_CreateSecureFile : Gen.ScriptsC15.fs_CreateSecureFile = [
  "func CreateSecureFile(file string) (*os.File, error) {",
  " fd, err := os.Create(file)",
  " if err != nil {",
  "  return nil, err",
  " }",
  " fd.Close()",
  " if err := chmodFunc(file, rwFilePermission); err != nil {",
  "  return nil, fmt.Errorf(\"failed to set file permissions: %w\", err)",
  " }",
  " return os.OpenFile(file, os.O_RDWR, rwFilePermission)",
  "}"
] := rfl

theorem tie_src_fs_CreateSecureFolder : Gen.ScriptsC15.fs_CreateSecureFolder = [
  "func CreateSecureFolder(folder string) string {",
  " if exists, _ := Exists(folder); exists {",
  "  info, err := os.Lstat(folder)",
  "  if err != nil {",
  "   fmt.Fprintln(os.Stderr, \"Error checking stat folder: \", err)",
  "   return \"\"",
  "  }",
  "  if perm := int(info.Mode().Perm()); perm != defaultDirectoryPermission {",
  "   fmt.Fprintf(os.Stderr, \"Folder different permission: %#o vs %#o \\n\", perm, defaultDirectoryPermission)",
  "  }",
  "  return folder",
  " }",
  " if err := os.MkdirAll(folder, defaultDirectoryPermission); err != nil {",
  "  panic(err)",
  " }",
  " return folder",
  "}"
] := rfl

theorem tie_src_fs_Exists : Gen.ScriptsC15.fs_Exists = [
  "func Exists(filePath string) (bool, error) {",
  " _, err := os.Stat(filePath)",
  " if err == nil {",
  "  return true, nil",
  " }",
  " if os.IsNotExist(err) {",
  "  return false, nil",
  " }",
  " return true, err",
  "}"
] := rfl

theorem tie_src_core_BeaconProcess_GetIdentity : Gen.ScriptsC15.core_BeaconProcess_GetIdentity = [
  "func (bp *BeaconProcess) GetIdentity(ctx context.Context, _ *drand.IdentityRequest) (*drand.IdentityResponse, error) {",
  " i := bp.priv.Public.ToProto()",
  " response := &drand.IdentityResponse{",
  "  Address: i.Address,",
  "  Key: i.Key,",
  "  Signature: i.Signature,",
  "  Metadata: bp.newMetadata(),",
  "  SchemeName: bp.priv.Scheme().String(),",
  " }",
  " return response, nil",
  "}"
] := rfl

theorem tie_src_core_BeaconProcess_Status : Gen.ScriptsC15.core_BeaconProcess_Status = [
  "func (bp *BeaconProcess) Status(ctx context.Context, in *drand.StatusRequest) (*drand.StatusResponse, error) {",
  " dkgStatus := drand.DkgStatus{}",
  " beaconStatus := drand.BeaconStatus{}",
  " chainStore := drand.ChainStoreStatus{}",
  " beaconStatus.Status = uint32(BeaconNotInited)",
  " chainStore.IsEmpty = true",
  " nodeList := in.GetCheckConn()",
  " func() {",
  "  bp.state.RLock()",
  "  defer bp.state.RUnlock()",
  "  if bp.beacon != nil {",
  "   beaconStatus.Status = uint32(BeaconInited)",
  "   beaconStatus.IsStopped = bp.beacon.IsStopped()",
  "   beaconStatus.IsRunning = bp.beacon.IsRunning()",
  "   beaconStatus.IsServing = bp.beacon.IsServing()",
  "   lastBeacon, err := bp.beacon.Store().Last(ctx)",
  "   if err == nil && lastBeacon != nil {",
  "    chainStore.IsEmpty = false",
  "    chainStore.LastStored = lastBeacon.GetRound()",
  "    chainStore.ExpectedLast = common.CurrentRound(bp.opts.clock.Now().Unix(), bp.group.Period, bp.group.GenesisTime)",
  "   }",
  "  }",
  "  if len(nodeList) == 1 && nodeList[0].Address == bp.priv.Public.Addr && bp.beacon != nil && bp.group != nil {",
  "   for _, node := range bp.group.Nodes {",
  "    nodeList = append(nodeList, &drand.Address{Address: node.Address()})",
  "   }",
  "  }",
  " }()",
  " resp := make(map[string]bool)",
  " for _, addr := range nodeList {",
  "  remoteAddress := addr.GetAddress()",
  "  if remoteAddress == \"\" {",
  "   continue",
  "  }",
  "  if remoteAddress == bp.priv.Public.Addr {",
  "   continue",
  "  }",
  "  p := net.CreatePeer(remoteAddress)",
  "  func() {",
  "   tc, cancel := context.WithTimeout(ctx, callMaxTimeout)",
  "   defer cancel()",
  "   err := bp.privGateway.Check(tc, p)",
  "   if err != nil {",
  "    resp[remoteAddress] = false",
  "   } else {",
  "    resp[remoteAddress] = true",
  "   }",
  "  }()",
  " }",
  " packet := &drand.StatusResponse{",
  "  Dkg: &dkgStatus,",
  "  ChainStore: &chainStore,",
  "  Beacon: &beaconStatus,",
  " }",
  " if len(resp) > 0 {",
  "  packet.Connections = resp",
  " }",
  " return packet, nil",
  "}"
] := rfl

theorem tie_src_core_BeaconProcess_PublicKey : Gen.ScriptsC15.core_BeaconProcess_PublicKey = [
  "func (bp *BeaconProcess) PublicKey(ctx context.Context, _ *drand.PublicKeyRequest) (*drand.PublicKeyResponse, error) {",
  " bp.state.RLock()",
  " defer bp.state.RUnlock()",
  " keyPair, err := bp.store.LoadKeyPair()",
  " if err != nil {",
  "  return nil, err",
  " }",
  " protoKey, err := keyPair.Public.Key.MarshalBinary()",
  " if err != nil {",
  "  return nil, err",
  " }",
  " return &drand.PublicKeyResponse{",
  "  PubKey: protoKey,",
  "  Addr: keyPair.Public.Addr,",
  "  Signature: keyPair.Public.Signature,",
  "  Metadata: bp.newMetadata(),",
  "  SchemeName: keyPair.Public.Scheme.Name,",
  " }, nil",
  "}"
] := rfl

theorem tie_src_core_BeaconProcess_GroupFile : Gen.ScriptsC15.core_BeaconProcess_GroupFile = [
  "func (bp *BeaconProcess) GroupFile(ctx context.Context, _ *drand.GroupRequest) (*drand.GroupPacket, error) {",
  " bp.state.RLock()",
  " defer bp.state.RUnlock()",
  " if bp.group == nil {",
  "  return nil, ErrNoGroupSetup",
  " }",
  " protoGroup := bp.group.ToProto(bp.version)",
  " return protoGroup, nil",
  "}"
] := rfl

theorem tie_src_core_BeaconProcess_BackupDatabase : Gen.ScriptsC15.core_BeaconProcess_BackupDatabase = [
  "func (bp *BeaconProcess) BackupDatabase(ctx context.Context, req *drand.BackupDBRequest) (*drand.BackupDBResponse, error) {",
  " bp.state.RLock()",
  " if bp.beacon == nil {",
  "  bp.state.RUnlock()",
  "  return nil, errors.New(\"drand: beacon not setup yet\")",
  " }",
  " inst := bp.beacon",
  " bp.state.RUnlock()",
  " w, err := fs.CreateSecureFile(req.OutputFile)",
  " if err != nil {",
  "  return nil, fmt.Errorf(\"could not open file for backup: %w\", err)",
  " }",
  " defer w.Close()",
  " return &drand.BackupDBResponse{Metadata: bp.newMetadata()}, inst.Store().SaveTo(ctx, w)",
  "}"
] := rfl

theorem tie_src_key_Identity_TOML : Gen.ScriptsC15.key_Identity_TOML = [
  "func (i *Identity) TOML() interface{} {",
  " hexKey := PointToString(i.Key)",
  " var schemeName string",
  " if i.Scheme == nil {",
  "  schemeName = \"nil scheme\"",
  " } else {",
  "  schemeName = i.Scheme.Name",
  " }",
  " return &PublicTOML{",
  "  Address: i.Addr,",
  "  Key: hexKey,",
  "  Signature: hex.EncodeToString(i.Signature),",
  "  SchemeName: schemeName,",
  " }",
  "}"
] := rfl

theorem tie_src_key_Identity_ToProto : Gen.ScriptsC15.key_Identity_ToProto = [
  "func (i *Identity) ToProto() *proto.Identity {",
  " buff, _ := i.Key.MarshalBinary()",
  " return &proto.Identity{",
  "  Address: i.Addr,",
  "  Key: buff,",
  "  Signature: i.Signature,",
  " }",
  "}"
] := rfl

theorem tie_src_key_Pair_TOML : Gen.ScriptsC15.key_Pair_TOML = [
  "func (p *Pair) TOML() interface{} {",
  " hexKey := ScalarToString(p.Key)",
  " return &PairTOML{hexKey, p.Public.Scheme.Name}",
  "}"
] := rfl

theorem tie_src_key_Share_TOML : Gen.ScriptsC15.key_Share_TOML = [
  "func (s *Share) TOML() interface{} {",
  " dtoml := &ShareTOML{}",
  " dtoml.Commits = make([]string, len(s.Commits))",
  " for i, c := range s.Commits {",
  "  dtoml.Commits[i] = PointToString(c)",
  " }",
  " dtoml.Share = ScalarToString(s.Share.V)",
  " dtoml.Index = s.Share.I",
  " dtoml.SchemeName = s.Scheme.Name",
  " return dtoml",
  "}"
] := rfl

end Golden.C15
