/-
Golden copies of the source skeletons property C18 depends on (tools/go2lean/scripts.cfg). Each theorem says: the
statements of this function in /repo's working tree are still the ones the model and the theorems of C18 were
written against (logging, metrics and tracing statements and comments are not part of the text). Written by
`go2lean -golden`; a reviewed change of the source is followed by regenerating this file.
-/
import Gen.ScriptsC18

namespace Golden.C18

theorem tie_src_chain_RoundToBytes : Gen.ScriptsC18.chain_RoundToBytes = [
  "func RoundToBytes(r uint64) []byte {",
  " key := make([]byte, 8)",
  " binary.BigEndian.PutUint64(key, r)",
  " return key",
  "}"
] := rfl

theorem tie_src_chain_BytesToRound : Gen.ScriptsC18.chain_BytesToRound = [
  "func BytesToRound(r []byte) uint64 {",
  " return binary.BigEndian.Uint64(r)",
  "}"
] := rfl

theorem tie_src_boltdb_BoltStore_Put : Gen.ScriptsC18.boltdb_BoltStore_Put = [
  "func (b *BoltStore) Put(ctx context.Context, beacon *common.Beacon) error {",
  " select {",
  " case <-ctx.Done():",
  "  return ctx.Err()",
  " default:",
  " }",
  " return b.db.Update(func(tx *bolt.Tx) error {",
  "  bucket := tx.Bucket(beaconBucket)",
  "  key := chain.RoundToBytes(beacon.Round)",
  "  buff, err := beacon.Marshal()",
  "  if err != nil {",
  "   return err",
  "  }",
  "  select {",
  "  case <-ctx.Done():",
  "   return ctx.Err()",
  "  default:",
  "  }",
  "  err = bucket.Put(key, buff)",
  "  if err != nil {",
  "  }",
  "  return err",
  " })",
  "}"
] := rfl

theorem tie_src_boltdb_BoltStore_Get : Gen.ScriptsC18.boltdb_BoltStore_Get = [
  "func (b *BoltStore) Get(ctx context.Context, round uint64) (*common.Beacon, error) {",
  " select {",
  " case <-ctx.Done():",
  "  return nil, ctx.Err()",
  " default:",
  " }",
  " beacon := &common.Beacon{}",
  " err := b.db.View(func(tx *bolt.Tx) error {",
  "  bucket := tx.Bucket(beaconBucket)",
  "  v := bucket.Get(chain.RoundToBytes(round))",
  "  if v == nil {",
  "   return chainerrors.ErrNoBeaconStored",
  "  }",
  "  return beacon.Unmarshal(v)",
  " })",
  " return beacon, err",
  "}"
] := rfl

theorem tie_src_boltdb_BoltStore_Last : Gen.ScriptsC18.boltdb_BoltStore_Last = [
  "func (b *BoltStore) Last(ctx context.Context) (*common.Beacon, error) {",
  " select {",
  " case <-ctx.Done():",
  "  return nil, ctx.Err()",
  " default:",
  " }",
  " beacon := &common.Beacon{}",
  " err := b.db.View(func(tx *bolt.Tx) error {",
  "  bucket := tx.Bucket(beaconBucket)",
  "  cursor := bucket.Cursor()",
  "  _, v := cursor.Last()",
  "  if v == nil {",
  "   return chainerrors.ErrNoBeaconStored",
  "  }",
  "  return beacon.Unmarshal(v)",
  " })",
  " return beacon, err",
  "}"
] := rfl

theorem tie_src_boltdb_BoltStore_Len : Gen.ScriptsC18.boltdb_BoltStore_Len = [
  "func (b *BoltStore) Len(ctx context.Context) (int, error) {",
  " select {",
  " case <-ctx.Done():",
  "  return 0, ctx.Err()",
  " default:",
  " }",
  " var length = 0",
  " err := b.db.View(func(tx *bolt.Tx) error {",
  "  bucket := tx.Bucket(beaconBucket)",
  "  length = bucket.Stats().KeyN",
  "  return nil",
  " })",
  " if err != nil {",
  " }",
  " return length, err",
  "}"
] := rfl

theorem tie_src_boltdb_BoltStore_Del : Gen.ScriptsC18.boltdb_BoltStore_Del = [
  "func (b *BoltStore) Del(ctx context.Context, round uint64) error {",
  " select {",
  " case <-ctx.Done():",
  "  return ctx.Err()",
  " default:",
  " }",
  " return b.db.Update(func(tx *bolt.Tx) error {",
  "  bucket := tx.Bucket(beaconBucket)",
  "  return bucket.Delete(chain.RoundToBytes(round))",
  " })",
  "}"
] := rfl

theorem tie_src_boltdb_BoltStore_Cursor : Gen.ScriptsC18.boltdb_BoltStore_Cursor = [
  "func (b *BoltStore) Cursor(ctx context.Context, fn func(context.Context, chain.Cursor) error) error {",
  " select {",
  " case <-ctx.Done():",
  "  return ctx.Err()",
  " default:",
  " }",
  " err := b.db.View(func(tx *bolt.Tx) error {",
  "  bucket := tx.Bucket(beaconBucket)",
  "  c := bucket.Cursor()",
  "  return fn(ctx, &boltCursor{Cursor: c})",
  " })",
  " if err != nil {",
  "  if !errors.Is(err, chainerrors.ErrNoBeaconStored) {",
  "  }",
  " }",
  " return err",
  "}"
] := rfl

theorem tie_src_boltdb_boltCursor_First : Gen.ScriptsC18.boltdb_boltCursor_First = [
  "func (c *boltCursor) First(ctx context.Context) (*common.Beacon, error) {",
  " select {",
  " case <-ctx.Done():",
  "  return nil, ctx.Err()",
  " default:",
  " }",
  " k, v := c.Cursor.First()",
  " if k == nil {",
  "  return nil, chainerrors.ErrNoBeaconStored",
  " }",
  " b := &common.Beacon{}",
  " err := b.Unmarshal(v)",
  " return b, err",
  "}"
] := rfl

theorem tie_src_boltdb_boltCursor_Next : Gen.ScriptsC18.boltdb_boltCursor_Next = [
  "func (c *boltCursor) Next(ctx context.Context) (*common.Beacon, error) {",
  " select {",
  " case <-ctx.Done():",
  "  return nil, ctx.Err()",
  " default:",
  " }",
  " k, v := c.Cursor.Next()",
  " if k == nil {",
  "  return nil, chainerrors.ErrNoBeaconStored",
  " }",
  " b := &common.Beacon{}",
  " err := b.Unmarshal(v)",
  " return b, err",
  "}"
] := rfl

theorem tie_src_boltdb_boltCursor_Seek : Gen.ScriptsC18.boltdb_boltCursor_Seek = [
  "func (c *boltCursor) Seek(ctx context.Context, round uint64) (*common.Beacon, error) {",
  " select {",
  " case <-ctx.Done():",
  "  return nil, ctx.Err()",
  " default:",
  " }",
  " k, v := c.Cursor.Seek(chain.RoundToBytes(round))",
  " if k == nil {",
  "  return nil, chainerrors.ErrNoBeaconStored",
  " }",
  " b := &common.Beacon{}",
  " err := b.Unmarshal(v)",
  " return b, err",
  "}"
] := rfl

theorem tie_src_boltdb_boltCursor_Last : Gen.ScriptsC18.boltdb_boltCursor_Last = [
  "func (c *boltCursor) Last(ctx context.Context) (*common.Beacon, error) {",
  " select {",
  " case <-ctx.Done():",
  "  return nil, ctx.Err()",
  " default:",
  " }",
  " k, v := c.Cursor.Last()",
  " if k == nil {",
  "  return nil, chainerrors.ErrNoBeaconStored",
  " }",
  " b := &common.Beacon{}",
  " err := b.Unmarshal(v)",
  " return b, err",
  "}"
] := rfl

theorem tie_src_boltdb_NewBoltStore : Gen.ScriptsC18.boltdb_NewBoltStore = [
  "func NewBoltStore(ctx context.Context, l log.Logger, folder string) (chain.Store, error) {",
  " select {",
  " case <-ctx.Done():",
  "  return nil, ctx.Err()",
  " default:",
  " }",
  " beaconID := path.Base(path.Dir(folder))",
  " dbPath := path.Join(folder, BoltFileName)",
  " if shouldUseTrimmedBolt(ctx, l, dbPath) {",
  "  return newTrimmedStore(ctx, l, folder)",
  " }",
  " db, err := bolt.Open(dbPath, BoltStoreOpenPerm, nil)",
  " if err != nil {",
  "  return nil, err",
  " }",
  " err = db.Update(func(tx *bolt.Tx) error {",
  "  _, err := tx.CreateBucketIfNotExists(beaconBucket)",
  "  return err",
  " })",
  " return &BoltStore{",
  "  log: l,",
  "  db: db,",
  " }, err",
  "}"
] := rfl

theorem tie_src_boltdb_newTrimmedStore : Gen.ScriptsC18.boltdb_newTrimmedStore = [
  "func newTrimmedStore(ctx context.Context, l log.Logger, folder string) (*trimmedStore, error) {",
  " select {",
  " case <-ctx.Done():",
  "  return nil, ctx.Err()",
  " default:",
  " }",
  " dbPath := path.Join(folder, BoltFileName)",
  " db, err := bolt.Open(dbPath, BoltStoreOpenPerm, nil)",
  " if err != nil {",
  "  return nil, err",
  " }",
  " err = db.Update(func(tx *bolt.Tx) error {",
  "  _, err := tx.CreateBucketIfNotExists(beaconBucket)",
  "  return err",
  " })",
  " return &trimmedStore{",
  "  log: l,",
  "  db: db,",
  "  requiresPrevious: chain.PreviousRequiredFromContext(ctx),",
  " }, err",
  "}"
] := rfl

theorem tie_src_boltdb_trimmedStore_Put : Gen.ScriptsC18.boltdb_trimmedStore_Put = [
  "func (b *trimmedStore) Put(ctx context.Context, beacon *common.Beacon) error {",
  " select {",
  " case <-ctx.Done():",
  "  return ctx.Err()",
  " default:",
  " }",
  " return b.db.Update(func(tx *bolt.Tx) error {",
  "  bucket := tx.Bucket(beaconBucket)",
  "  bucket.FillPercent = 1.0",
  "  key := chain.RoundToBytes(beacon.Round)",
  "  err := bucket.Put(key, beacon.Signature)",
  "  if err != nil {",
  "  }",
  "  return err",
  " })",
  "}"
] := rfl

theorem tie_src_boltdb_trimmedStore_Get : Gen.ScriptsC18.boltdb_trimmedStore_Get = [
  "func (b *trimmedStore) Get(ctx context.Context, round uint64) (*common.Beacon, error) {",
  " select {",
  " case <-ctx.Done():",
  "  return nil, ctx.Err()",
  " default:",
  " }",
  " var beacon *common.Beacon",
  " err := b.db.View(func(tx *bolt.Tx) error {",
  "  bucket := tx.Bucket(beaconBucket)",
  "  b, err := b.getBeacon(ctx, bucket, round, true)",
  "  if err != nil {",
  "   return err",
  "  }",
  "  beacon = b",
  "  return nil",
  " })",
  " return beacon, err",
  "}"
] := rfl

theorem tie_src_boltdb_trimmedStore_Last : Gen.ScriptsC18.boltdb_trimmedStore_Last = [
  "func (b *trimmedStore) Last(ctx context.Context) (*common.Beacon, error) {",
  " select {",
  " case <-ctx.Done():",
  "  return nil, ctx.Err()",
  " default:",
  " }",
  " beacon := common.Beacon{}",
  " err := b.db.View(func(tx *bolt.Tx) error {",
  "  bucket := tx.Bucket(beaconBucket)",
  "  cursor := bucket.Cursor()",
  "  b, err := b.getCursorBeacon(ctx, bucket, cursor.Last)",
  "  if err != nil {",
  "   return err",
  "  }",
  "  beacon.Round = b.Round",
  "  beacon.Signature = b.Signature",
  "  beacon.PreviousSig = b.PreviousSig",
  "  return nil",
  " })",
  " return &beacon, err",
  "}"
] := rfl

theorem tie_src_boltdb_trimmedStore_Len : Gen.ScriptsC18.boltdb_trimmedStore_Len = [
  "func (b *trimmedStore) Len(ctx context.Context) (int, error) {",
  " select {",
  " case <-ctx.Done():",
  "  return 0, ctx.Err()",
  " default:",
  " }",
  " var length = 0",
  " err := b.db.View(func(tx *bolt.Tx) error {",
  "  bucket := tx.Bucket(beaconBucket)",
  "  length = bucket.Stats().KeyN",
  "  return nil",
  " })",
  " if err != nil {",
  " }",
  " return length, err",
  "}"
] := rfl

theorem tie_src_boltdb_trimmedStore_Del : Gen.ScriptsC18.boltdb_trimmedStore_Del = [
  "func (b *trimmedStore) Del(ctx context.Context, round uint64) error {",
  " select {",
  " case <-ctx.Done():",
  "  return ctx.Err()",
  " default:",
  " }",
  " return b.db.Update(func(tx *bolt.Tx) error {",
  "  bucket := tx.Bucket(beaconBucket)",
  "  return bucket.Delete(chain.RoundToBytes(round))",
  " })",
  "}"
] := rfl

theorem tie_src_boltdb_trimmedStore_Cursor : Gen.ScriptsC18.boltdb_trimmedStore_Cursor = [
  "func (b *trimmedStore) Cursor(ctx context.Context, fn func(context.Context, chain.Cursor) error) error {",
  " select {",
  " case <-ctx.Done():",
  "  return ctx.Err()",
  " default:",
  " }",
  " err := b.db.View(func(tx *bolt.Tx) error {",
  "  bucket := tx.Bucket(beaconBucket)",
  "  c := bucket.Cursor()",
  "  return fn(ctx, &trimmedBoltCursor{Cursor: c, store: b})",
  " })",
  " if err != nil {",
  "  if !errors.Is(err, chainerrors.ErrNoBeaconStored) {",
  "  }",
  " }",
  " return err",
  "}"
] := rfl

theorem tie_src_boltdb_trimmedStore_getBeacon : Gen.ScriptsC18.boltdb_trimmedStore_getBeacon = [
  "func (b *trimmedStore) getBeacon(ctx context.Context, bucket *bolt.Bucket, round uint64, canFetchPrevious bool) (*common.Beacon, error) {",
  " select {",
  " case <-ctx.Done():",
  "  return nil, ctx.Err()",
  " default:",
  " }",
  " sig := bucket.Get(chain.RoundToBytes(round))",
  " if sig == nil {",
  "  return nil, chainerrors.ErrNoBeaconStored",
  " }",
  " beacon := common.Beacon{",
  "  Round: round,",
  "  Signature: make([]byte, len(sig)),",
  " }",
  " copy(beacon.Signature, sig)",
  " if canFetchPrevious &&",
  "  b.requiresPrevious &&",
  "  beacon.Round > 0 {",
  "  select {",
  "  case <-ctx.Done():",
  "   return nil, ctx.Err()",
  "  default:",
  "  }",
  "  prevSig := bucket.Get(chain.RoundToBytes(round - 1))",
  "  if prevSig == nil {",
  "   return nil, chainerrors.ErrNoBeaconStored",
  "  }",
  "  beacon.PreviousSig = make([]byte, len(prevSig))",
  "  copy(beacon.PreviousSig, prevSig)",
  " }",
  " return &beacon, nil",
  "}"
] := rfl

theorem tie_src_boltdb_trimmedStore_getCursorBeacon : Gen.ScriptsC18.boltdb_trimmedStore_getCursorBeacon = [
  "func (b *trimmedStore) getCursorBeacon(ctx context.Context, bucket *bolt.Bucket, get beaconCursorGetter) (*common.Beacon, error) {",
  " select {",
  " case <-ctx.Done():",
  "  return nil, ctx.Err()",
  " default:",
  " }",
  " key, sig := get()",
  " if key == nil {",
  "  return nil, chainerrors.ErrNoBeaconStored",
  " }",
  " beacon := common.Beacon{",
  "  Round: chain.BytesToRound(key),",
  "  Signature: make([]byte, len(sig)),",
  " }",
  " copy(beacon.Signature, sig)",
  " if b.requiresPrevious &&",
  "  beacon.Round > 0 {",
  "  prevBeacon, err := b.getBeacon(ctx, bucket, beacon.Round-1, false)",
  "  if err != nil {",
  "   return nil, err",
  "  }",
  "  if prevBeacon == nil {",
  "   return nil, chainerrors.ErrNoBeaconStored",
  "  }",
  "  beacon.PreviousSig = make([]byte, len(prevBeacon.Signature))",
  "  copy(beacon.PreviousSig, prevBeacon.Signature)",
  " }",
  " return &beacon, nil",
  "}"
] := rfl

theorem tie_src_boltdb_trimmedBoltCursor_First : Gen.ScriptsC18.boltdb_trimmedBoltCursor_First = [
  "func (c *trimmedBoltCursor) First(ctx context.Context) (*common.Beacon, error) {",
  " return c.store.getCursorBeacon(ctx, c.Bucket(), c.Cursor.First)",
  "}"
] := rfl

theorem tie_src_boltdb_trimmedBoltCursor_Next : Gen.ScriptsC18.boltdb_trimmedBoltCursor_Next = [
  "func (c *trimmedBoltCursor) Next(ctx context.Context) (*common.Beacon, error) {",
  " return c.store.getCursorBeacon(ctx, c.Bucket(), c.Cursor.Next)",
  "}"
] := rfl

theorem tie_src_boltdb_trimmedBoltCursor_Seek : Gen.ScriptsC18.boltdb_trimmedBoltCursor_Seek = [
  "func (c *trimmedBoltCursor) Seek(ctx context.Context, round uint64) (*common.Beacon, error) {",
  " select {",
  " case <-ctx.Done():",
  "  return nil, ctx.Err()",
  " default:",
  " }",
  " k, v := c.Cursor.Seek(chain.RoundToBytes(round))",
  " if k == nil {",
  "  return nil, chainerrors.ErrNoBeaconStored",
  " }",
  " b := common.Beacon{",
  "  Round: chain.BytesToRound(k),",
  "  Signature: make([]byte, len(v)),",
  " }",
  " copy(b.Signature, v)",
  " if c.store.requiresPrevious &&",
  "  b.Round > 0 {",
  "  prevBeacon, err := c.store.getBeacon(ctx, c.Bucket(), b.Round-1, false)",
  "  if err != nil {",
  "   return nil, chainerrors.ErrNoBeaconStored",
  "  }",
  "  b.PreviousSig = prevBeacon.Signature",
  " }",
  " return &b, nil",
  "}"
] := rfl

theorem tie_src_boltdb_trimmedBoltCursor_Last : Gen.ScriptsC18.boltdb_trimmedBoltCursor_Last = [
  "func (c *trimmedBoltCursor) Last(ctx context.Context) (*common.Beacon, error) {",
  " return c.store.getCursorBeacon(ctx, c.Bucket(), c.Cursor.Last)",
  "}"
] := rfl

theorem tie_src_boltdb_shouldUseTrimmedBolt : Gen.ScriptsC18.boltdb_shouldUseTrimmedBolt = [
  "func shouldUseTrimmedBolt(ctx context.Context, l log.Logger, sourceBeaconPath string) bool {",
  " if isThisATest(ctx) {",
  "  return false",
  " }",
  " if _, err := os.Stat(sourceBeaconPath); errors.Is(err, os.ErrNotExist) {",
  "  return true",
  " }",
  " existingDB, err := bolt.Open(sourceBeaconPath, BoltStoreOpenPerm, nil)",
  " if err != nil {",
  "  return true",
  " }",
  " defer func() {",
  "  if err := existingDB.Close(); err != nil {",
  "  }",
  " }()",
  " err = existingDB.View(func(tx *bolt.Tx) error {",
  "  bucket := tx.Bucket(beaconBucket)",
  "  _, value := bucket.Cursor().First()",
  "  b := common.Beacon{}",
  "  return json.Unmarshal(value, &b)",
  " })",
  " return err != nil",
  "}"
] := rfl

theorem tie_src_boltdb_BoltStore_SaveTo : Gen.ScriptsC18.boltdb_BoltStore_SaveTo = [
  "func (b *BoltStore) SaveTo(ctx context.Context, w io.Writer) error {",
  " select {",
  " case <-ctx.Done():",
  "  return ctx.Err()",
  " default:",
  " }",
  " return b.db.View(func(tx *bolt.Tx) error {",
  "  _, err := tx.WriteTo(w)",
  "  return err",
  " })",
  "}"
] := rfl

theorem tie_src_boltdb_BoltStore_Close : Gen.ScriptsC18.boltdb_BoltStore_Close = [
  "func (b *BoltStore) Close() error {",
  " err := b.db.Close()",
  " if err != nil {",
  " }",
  " return err",
  "}"
] := rfl

theorem tie_src_boltdb_trimmedStore_SaveTo : Gen.ScriptsC18.boltdb_trimmedStore_SaveTo = [
  "func (b *trimmedStore) SaveTo(ctx context.Context, w io.Writer) error {",
  " return b.db.View(func(tx *bolt.Tx) error {",
  "  _, err := tx.WriteTo(w)",
  "  return err",
  " })",
  "}"
] := rfl

theorem tie_src_boltdb_trimmedStore_Close : Gen.ScriptsC18.boltdb_trimmedStore_Close = [
  "func (b *trimmedStore) Close() error {",
  " err := b.db.Close()",
  " if err != nil {",
  " }",
  " return err",
  "}"
] := rfl

theorem tie_src_memdb_Store_SaveTo : Gen.ScriptsC18.memdb_Store_SaveTo = [
  "func (s *Store) SaveTo(ctx context.Context, _ io.Writer) error {",
  " return fmt.Errorf(\"saveTo not implemented for MemDB Store\")",
  "}"
] := rfl

theorem tie_src_memdb_Store_Close : Gen.ScriptsC18.memdb_Store_Close = [
  "func (s *Store) Close() error {",
  " return nil",
  "}"
] := rfl

theorem tie_src_memdb_NewStore : Gen.ScriptsC18.memdb_NewStore = [
  "func NewStore(bufferSize int) *Store {",
  " if bufferSize < 10 {",
  "  err := fmt.Errorf(\"in-memory buffer size cannot be smaller than 10, currently %d, recommended at least 2000\", bufferSize)",
  "  panic(err)",
  " }",
  " return &Store{",
  "  storeMtx: &sync.RWMutex{},",
  "  store: make([]*common.Beacon, 0, bufferSize),",
  "  bufferSize: bufferSize,",
  " }",
  "}"
] := rfl

theorem tie_src_memdb_Store_Put : Gen.ScriptsC18.memdb_Store_Put = [
  "func (s *Store) Put(ctx context.Context, beacon *common.Beacon) error {",
  " s.storeMtx.Lock()",
  " defer s.storeMtx.Unlock()",
  " defer func() {",
  "  if len(s.store) > s.bufferSize {",
  "   s.store = s.store[len(s.store)-s.bufferSize:]",
  "  }",
  " }()",
  " for _, sb := range s.store {",
  "  if sb.Round == beacon.Round {",
  "   return nil",
  "  }",
  " }",
  " shouldSort := len(s.store) > 0 &&",
  "  beacon.Round < s.store[len(s.store)-1].Round",
  " s.store = append(s.store, beacon)",
  " if shouldSort {",
  "  sort.Slice(s.store, func(i, j int) bool {",
  "   return s.store[i].Round < s.store[j].Round",
  "  })",
  " }",
  " return nil",
  "}"
] := rfl

theorem tie_src_memdb_Store_Get : Gen.ScriptsC18.memdb_Store_Get = [
  "func (s *Store) Get(ctx context.Context, round uint64) (*common.Beacon, error) {",
  " s.storeMtx.RLock()",
  " defer s.storeMtx.RUnlock()",
  " for _, beacon := range s.store {",
  "  if beacon.Round == round {",
  "   return beacon, nil",
  "  }",
  " }",
  " return nil, errors.ErrNoBeaconStored",
  "}"
] := rfl

theorem tie_src_memdb_Store_Last : Gen.ScriptsC18.memdb_Store_Last = [
  "func (s *Store) Last(ctx context.Context) (*common.Beacon, error) {",
  " s.storeMtx.RLock()",
  " defer s.storeMtx.RUnlock()",
  " if len(s.store) == 0 {",
  "  return nil, errors.ErrNoBeaconStored",
  " }",
  " result := s.store[len(s.store)-1]",
  " return result, nil",
  "}"
] := rfl

theorem tie_src_memdb_Store_Len : Gen.ScriptsC18.memdb_Store_Len = [
  "func (s *Store) Len(ctx context.Context) (int, error) {",
  " s.storeMtx.RLock()",
  " defer s.storeMtx.RUnlock()",
  " return len(s.store), nil",
  "}"
] := rfl

theorem tie_src_memdb_Store_Del : Gen.ScriptsC18.memdb_Store_Del = [
  "func (s *Store) Del(ctx context.Context, round uint64) error {",
  " s.storeMtx.Lock()",
  " defer s.storeMtx.Unlock()",
  " foundIdx := -1",
  " for idx, beacon := range s.store {",
  "  if beacon.Round == round {",
  "   foundIdx = idx",
  "   break",
  "  }",
  " }",
  " if foundIdx == -1 {",
  "  return nil",
  " }",
  " s.store = append(s.store[:foundIdx], s.store[foundIdx+1:]...)",
  " return nil",
  "}"
] := rfl

theorem tie_src_memdb_Store_Cursor : Gen.ScriptsC18.memdb_Store_Cursor = [
  "func (s *Store) Cursor(ctx context.Context, f func(context.Context, chain.Cursor) error) error {",
  " cursor := &memDBCursor{",
  "  s: s,",
  " }",
  " return f(ctx, cursor)",
  "}"
] := rfl

theorem tie_src_memdb_memDBCursor_First : Gen.ScriptsC18.memdb_memDBCursor_First = [
  "func (m *memDBCursor) First(ctx context.Context) (*common.Beacon, error) {",
  " m.s.storeMtx.RLock()",
  " defer m.s.storeMtx.RUnlock()",
  " if len(m.s.store) == 0 {",
  "  return nil, errors.ErrNoBeaconStored",
  " }",
  " m.pos = 0",
  " result := m.s.store[m.pos]",
  " return result, nil",
  "}"
] := rfl

theorem tie_src_memdb_memDBCursor_Next : Gen.ScriptsC18.memdb_memDBCursor_Next = [
  "func (m *memDBCursor) Next(ctx context.Context) (*common.Beacon, error) {",
  " m.s.storeMtx.RLock()",
  " defer m.s.storeMtx.RUnlock()",
  " if len(m.s.store) == 0 {",
  "  return nil, errors.ErrNoBeaconStored",
  " }",
  " m.pos++",
  " if m.pos >= len(m.s.store) {",
  "  return nil, errors.ErrNoBeaconStored",
  " }",
  " result := m.s.store[m.pos]",
  " return result, nil",
  "}"
] := rfl

theorem tie_src_memdb_memDBCursor_Seek : Gen.ScriptsC18.memdb_memDBCursor_Seek = [
  "func (m *memDBCursor) Seek(ctx context.Context, round uint64) (*common.Beacon, error) {",
  " m.s.storeMtx.RLock()",
  " defer m.s.storeMtx.RUnlock()",
  " for idx, beacon := range m.s.store {",
  "  if beacon.Round != round {",
  "   continue",
  "  }",
  "  m.pos = idx",
  "  return beacon, nil",
  " }",
  " return nil, errors.ErrNoBeaconStored",
  "}"
] := rfl

theorem tie_src_memdb_memDBCursor_Last : Gen.ScriptsC18.memdb_memDBCursor_Last = [
  "func (m *memDBCursor) Last(ctx context.Context) (*common.Beacon, error) {",
  " m.s.storeMtx.RLock()",
  " defer m.s.storeMtx.RUnlock()",
  " if len(m.s.store) == 0 {",
  "  return nil, errors.ErrNoBeaconStored",
  " }",
  " m.pos = len(m.s.store) - 1",
  " result := m.s.store[m.pos]",
  " return result, nil",
  "}"
] := rfl

end Golden.C18
