/-
Golden copies of the source skeletons property C11 depends on (tools/go2lean/scripts.cfg). Each theorem says: the
statements of this function in /repo's working tree are still the ones the model and the theorems of C11 were
written against (logging, metrics and tracing statements and comments are not part of the text). Written by
`go2lean -golden`; a reviewed change of the source is followed by regenerating this file.
-/
import Gen.ScriptsC11

namespace Golden.C11

theorem tie_src_beacon_callbackStore_Put : Gen.ScriptsC11.beacon_callbackStore_Put = [
  "func (c *callbackStore) Put(ctx context.Context, b *common.Beacon) error {",
  " if err := c.Store.Put(ctx, b); err != nil {",
  "  return err",
  " }",
  " if b.Round != 0 {",
  "  c.Lock()",
  "  defer c.Unlock()",
  "  for id, cb := range c.callbacks {",
  "   j, ok := c.newJob[id]",
  "   if !ok {",
  "    continue",
  "   }",
  "   job := cbPair{cb: cb, b: b}",
  "   if !c.workers[id].stream {",
  "    j <- job",
  "    continue",
  "   }",
  "   select {",
  "   case j <- job:",
  "   default:",
  "    c.stopWorker(id, true)",
  "    delete(c.callbacks, id)",
  "   }",
  "  }",
  " }",
  " return nil",
  "}"
] := rfl

theorem tie_src_beacon_callbackStore_AddCallback : Gen.ScriptsC11.beacon_callbackStore_AddCallback = [
  "func (c *callbackStore) AddCallback(id string, fn CallbackFunc) {",
  " c.addCallback(id, fn, false)",
  "}"
] := rfl

theorem tie_src_beacon_callbackStore_RemoveCallback : Gen.ScriptsC11.beacon_callbackStore_RemoveCallback = [
  "func (c *callbackStore) RemoveCallback(id string) {",
  " c.Lock()",
  " defer c.Unlock()",
  " delete(c.callbacks, id)",
  " if _, exists := c.newJob[id]; exists {",
  "  c.stopWorker(id, false)",
  " }",
  " loggerName := c.l.Name()",
  "}"
] := rfl

theorem tie_src_beacon_callbackStore_runWorker : Gen.ScriptsC11.beacon_callbackStore_runWorker = [
  "func (c *callbackStore) runWorker(jobChan chan cbPair, w *cbWorker) {",
  " for {",
  "  select {",
  "  case <-c.stopping:",
  "   return",
  "  case newJob, ok := <-jobChan:",
  "   if !ok {",
  "    if w.closed != nil {",
  "     w.closed(nil, true)",
  "    }",
  "    return",
  "   }",
  "   newJob.cb(newJob.b, newJob.close)",
  "  }",
  " }",
  "}"
] := rfl

theorem tie_src_beacon_callbackStore_AddStreamCallback : Gen.ScriptsC11.beacon_callbackStore_AddStreamCallback = [
  "func (c *callbackStore) AddStreamCallback(id string, fn CallbackFunc) func() {",
  " jobChan := c.addCallback(id, fn, true)",
  " return func() {",
  "  c.Lock()",
  "  defer c.Unlock()",
  "  if c.newJob[id] == jobChan {",
  "   delete(c.callbacks, id)",
  "   c.stopWorker(id, false)",
  "  }",
  " }",
  "}"
] := rfl

theorem tie_src_beacon_callbackStore_addCallback : Gen.ScriptsC11.beacon_callbackStore_addCallback = [
  "func (c *callbackStore) addCallback(id string, fn CallbackFunc, stream bool) chan cbPair {",
  " c.Lock()",
  " defer c.Unlock()",
  " if _, exists := c.newJob[id]; exists {",
  "  c.stopWorker(id, true)",
  " }",
  " c.callbacks[id] = fn",
  " c.newJob[id] = make(chan cbPair, CallbackWorkerQueue)",
  " c.workers[id] = &cbWorker{stream: stream}",
  " loggerName := c.l.Name()",
  " go c.runWorker(c.newJob[id], c.workers[id])",
  " return c.newJob[id]",
  "}"
] := rfl

theorem tie_src_beacon_callbackStore_stopWorker : Gen.ScriptsC11.beacon_callbackStore_stopWorker = [
  "func (c *callbackStore) stopWorker(id string, notify bool) {",
  " if notify {",
  "  c.workers[id].closed = c.callbacks[id]",
  " }",
  " close(c.newJob[id])",
  " delete(c.newJob, id)",
  " delete(c.workers, id)",
  "}"
] := rfl

theorem tie_src_beacon_SyncChain : Gen.ScriptsC11.beacon_SyncChain = [
  "func SyncChain(l log.Logger, store CallbackStore, req SyncRequest, stream SyncStream) error {",
  " fromRound := req.GetFromRound()",
  " addr := net.RemoteAddress(stream.Context())",
  " id := \"SyncChain-\" + addr",
  " logger := l.Named(\"SyncChain\")",
  " beaconID := beaconIDToSync(l, req, addr)",
  " last, err := store.Last(ctx)",
  " if err != nil {",
  "  return fmt.Errorf(\"unable to get last beacon: %w\", err)",
  " }",
  " if last.Round < fromRound {",
  "  return fmt.Errorf(\"%w %d < %d\", chainerrors.ErrNoBeaconStored, last.Round, fromRound)",
  " }",
  " send := func(b *commonutils.Beacon) error {",
  "  select {",
  "  case <-ctx.Done():",
  "   return ctx.Err()",
  "  default:",
  "  }",
  "  packet := beaconToProto(b, beaconID)",
  "  err := stream.Send(packet)",
  "  if err != nil {",
  "  }",
  "  return err",
  " }",
  " if fromRound != 0 {",
  "  err = store.Cursor(ctx, func(ctx context.Context, c chain.Cursor) error {",
  "   bb, err := c.Seek(ctx, fromRound)",
  "   for ; bb != nil; bb, err = c.Next(ctx) {",
  "    bb := bb",
  "    if err != nil {",
  "     return err",
  "    }",
  "    if err := send(bb); err != nil {",
  "     return err",
  "    }",
  "   }",
  "   return err",
  "  })",
  "  if err != nil {",
  "   if !errors.Is(err, chainerrors.ErrNoBeaconStored) {",
  "    return err",
  "   }",
  "  }",
  " }",
  " errChan := make(chan error, 1)",
  " remove := store.AddStreamCallback(id, func(b *commonutils.Beacon, closed bool) {",
  "  select {",
  "  case <-ctx.Done():",
  "   return",
  "  default:",
  "  }",
  "  var err error",
  "  if closed {",
  "   err = ErrCallbackReplaced",
  "  } else if err = send(b); err != nil {",
  "  }",
  "  if err != nil {",
  "   select {",
  "   case errChan <- err:",
  "   default:",
  "   }",
  "  }",
  " })",
  " defer remove()",
  " select {",
  " case <-ctx.Done():",
  "  return ctx.Err()",
  " case err := <-errChan:",
  "  return err",
  " }",
  "}"
] := rfl

theorem tie_src_beacon_beaconIDToSync : Gen.ScriptsC11.beacon_beaconIDToSync = [
  "func beaconIDToSync(logger log.Logger, req SyncRequest, addr string) string {",
  " if req.GetMetadata() == nil {",
  "  return commonutils.DefaultBeaconID",
  " }",
  " return req.GetMetadata().GetBeaconID()",
  "}"
] := rfl

theorem tie_src_beacon_beaconToProto : Gen.ScriptsC11.beacon_beaconToProto = [
  "func beaconToProto(b *common.Beacon, beaconID string) *proto.BeaconPacket {",
  " return &proto.BeaconPacket{",
  "  PreviousSignature: b.PreviousSig,",
  "  Round: b.Round,",
  "  Signature: b.Signature,",
  "  Metadata: &proto.Metadata{BeaconID: beaconID},",
  " }",
  "}"
] := rfl

theorem tie_src_core_BeaconProcess_PublicRandStream : Gen.ScriptsC11.core_BeaconProcess_PublicRandStream = [
  "func (bp *BeaconProcess) PublicRandStream(req *drand.PublicRandRequest, stream drand.Public_PublicRandStreamServer) error {",
  " bp.state.RLock()",
  " if bp.beacon == nil || len(bp.chainHash) == 0 {",
  "  bp.state.RUnlock()",
  "  return errors.New(\"beacon has not started on this node yet\")",
  " }",
  " bp.state.RUnlock()",
  " store := bp.beacon.Store()",
  " proxyReq := &proxyRequest{",
  "  req,",
  " }",
  " proxyReq.Metadata = bp.newMetadata()",
  " proxyStr := &proxyStream{stream}",
  " return beacon.SyncChain(bp.log.Named(\"PublicRandStream\"), store, proxyReq, proxyStr)",
  "}"
] := rfl

theorem tie_src_core_BeaconProcess_SyncChain : Gen.ScriptsC11.core_BeaconProcess_SyncChain = [
  "func (bp *BeaconProcess) SyncChain(req *drand.SyncRequest, stream drand.Protocol_SyncChainServer) error {",
  " bp.state.RLock()",
  " logger := bp.log.Named(\"SyncChain\")",
  " b := bp.beacon",
  " c := bp.chainHash",
  " if b == nil || len(c) == 0 {",
  "  bp.state.RUnlock()",
  "  return fmt.Errorf(\"no beacon handler available\")",
  " }",
  " store := b.Store()",
  " bp.state.RUnlock()",
  " return beacon.SyncChain(logger, store, req, stream)",
  "}"
] := rfl

theorem tie_src_core_proxyStream_Send : Gen.ScriptsC11.core_proxyStream_Send = [
  "func (p *proxyStream) Send(b *drand.BeaconPacket) error {",
  " return p.Public_PublicRandStreamServer.Send(&drand.PublicRandResponse{",
  "  Round: b.Round,",
  "  Signature: b.Signature,",
  "  PreviousSignature: b.PreviousSignature,",
  "  Randomness: crypto.RandomnessFromSignature(b.Signature),",
  "  Metadata: b.Metadata,",
  " })",
  "}"
] := rfl

theorem tie_src_core_proxyRequest_GetFromRound : Gen.ScriptsC11.core_proxyRequest_GetFromRound = [
  "func (p *proxyRequest) GetFromRound() uint64 {",
  " return p.GetRound()",
  "}"
] := rfl

theorem tie_src_boltdb_BoltStore_Cursor : Gen.ScriptsC11.boltdb_BoltStore_Cursor = [
  "func (b *BoltStore) Cursor(ctx context.Context, fn func(context.Context, chain.Cursor) error) error {",
  " select {",
  " case <-ctx.Done():",
  "  return ctx.Err()",
  " default:",
  " }",
  " err := b.db.View(func(tx *bolt.Tx) error {",
  "  bucket := tx.Bucket(beaconBucket)",
  "  c := bucket.Cursor()",
  "  return fn(ctx, &boltCursor{Cursor: c})",
  " })",
  " if err != nil {",
  "  if !errors.Is(err, chainerrors.ErrNoBeaconStored) {",
  "  }",
  " }",
  " return err",
  "}"
] := rfl

theorem tie_src_boltdb_boltCursor_Next : Gen.ScriptsC11.boltdb_boltCursor_Next = [
  "func (c *boltCursor) Next(ctx context.Context) (*common.Beacon, error) {",
  " select {",
  " case <-ctx.Done():",
  "  return nil, ctx.Err()",
  " default:",
  " }",
  " k, v := c.Cursor.Next()",
  " if k == nil {",
  "  return nil, chainerrors.ErrNoBeaconStored",
  " }",
  " b := &common.Beacon{}",
  " err := b.Unmarshal(v)",
  " return b, err",
  "}"
] := rfl

theorem tie_src_boltdb_boltCursor_Seek : Gen.ScriptsC11.boltdb_boltCursor_Seek = [
  "func (c *boltCursor) Seek(ctx context.Context, round uint64) (*common.Beacon, error) {",
  " select {",
  " case <-ctx.Done():",
  "  return nil, ctx.Err()",
  " default:",
  " }",
  " k, v := c.Cursor.Seek(chain.RoundToBytes(round))",
  " if k == nil {",
  "  return nil, chainerrors.ErrNoBeaconStored",
  " }",
  " b := &common.Beacon{}",
  " err := b.Unmarshal(v)",
  " return b, err",
  "}"
] := rfl

theorem tie_src_boltdb_trimmedStore_Cursor : Gen.ScriptsC11.boltdb_trimmedStore_Cursor = [
  "func (b *trimmedStore) Cursor(ctx context.Context, fn func(context.Context, chain.Cursor) error) error {",
  " select {",
  " case <-ctx.Done():",
  "  return ctx.Err()",
  " default:",
  " }",
  " err := b.db.View(func(tx *bolt.Tx) error {",
  "  bucket := tx.Bucket(beaconBucket)",
  "  c := bucket.Cursor()",
  "  return fn(ctx, &trimmedBoltCursor{Cursor: c, store: b})",
  " })",
  " if err != nil {",
  "  if !errors.Is(err, chainerrors.ErrNoBeaconStored) {",
  "  }",
  " }",
  " return err",
  "}"
] := rfl

theorem tie_src_boltdb_trimmedStore_getCursorBeacon : Gen.ScriptsC11.boltdb_trimmedStore_getCursorBeacon = [
  "func (b *trimmedStore) getCursorBeacon(ctx context.Context, bucket *bolt.Bucket, get beaconCursorGetter) (*common.Beacon, error) {",
  " select {",
  " case <-ctx.Done():",
  "  return nil, ctx.Err()",
  " default:",
  " }",
  " key, sig := get()",
  " if key == nil {",
  "  return nil, chainerrors.ErrNoBeaconStored",
  " }",
  " beacon := common.Beacon{",
  "  Round: chain.BytesToRound(key),",
  "  Signature: make([]byte, len(sig)),",
  " }",
  " copy(beacon.Signature, sig)",
  " if b.requiresPrevious &&",
  "  beacon.Round > 0 {",
  "  prevBeacon, err := b.getBeacon(ctx, bucket, beacon.Round-1, false)",
  "  if err != nil {",
  "   return nil, err",
  "  }",
  "  if prevBeacon == nil {",
  "   return nil, chainerrors.ErrNoBeaconStored",
  "  }",
  "  beacon.PreviousSig = make([]byte, len(prevBeacon.Signature))",
  "  copy(beacon.PreviousSig, prevBeacon.Signature)",
  " }",
  " return &beacon, nil",
  "}"
] := rfl

theorem tie_src_boltdb_trimmedBoltCursor_Next : Gen.ScriptsC11.boltdb_trimmedBoltCursor_Next = [
  "func (c *trimmedBoltCursor) Next(ctx context.Context) (*common.Beacon, error) {",
  " return c.store.getCursorBeacon(ctx, c.Bucket(), c.Cursor.Next)",
  "}"
] := rfl

theorem tie_src_boltdb_trimmedBoltCursor_Seek : Gen.ScriptsC11.boltdb_trimmedBoltCursor_Seek = [
  "func (c *trimmedBoltCursor) Seek(ctx context.Context, round uint64) (*common.Beacon, error) {",
  " select {",
  " case <-ctx.Done():",
  "  return nil, ctx.Err()",
  " default:",
  " }",
  " k, v := c.Cursor.Seek(chain.RoundToBytes(round))",
  " if k == nil {",
  "  return nil, chainerrors.ErrNoBeaconStored",
  " }",
  " b := common.Beacon{",
  "  Round: chain.BytesToRound(k),",
  "  Signature: make([]byte, len(v)),",
  " }",
  " copy(b.Signature, v)",
  " if c.store.requiresPrevious &&",
  "  b.Round > 0 {",
  "  prevBeacon, err := c.store.getBeacon(ctx, c.Bucket(), b.Round-1, false)",
  "  if err != nil {",
  "   return nil, chainerrors.ErrNoBeaconStored",
  "  }",
  "  b.PreviousSig = prevBeacon.Signature",
  " }",
  " return &b, nil",
  "}"
] := rfl

theorem tie_src_memdb_Store_Cursor : Gen.ScriptsC11.memdb_Store_Cursor = [
  "func (s *Store) Cursor(ctx context.Context, f func(context.Context, chain.Cursor) error) error {",
  " cursor := &memDBCursor{",
  "  s: s,",
  " }",
  " return f(ctx, cursor)",
  "}"
] := rfl

theorem tie_src_memdb_memDBCursor_Next : Gen.ScriptsC11.memdb_memDBCursor_Next = [
  "func (m *memDBCursor) Next(ctx context.Context) (*common.Beacon, error) {",
  " m.s.storeMtx.RLock()",
  " defer m.s.storeMtx.RUnlock()",
  " if len(m.s.store) == 0 {",
  "  return nil, errors.ErrNoBeaconStored",
  " }",
  " m.pos++",
  " if m.pos >= len(m.s.store) {",
  "  return nil, errors.ErrNoBeaconStored",
  " }",
  " result := m.s.store[m.pos]",
  " return result, nil",
  "}"
] := rfl

theorem tie_src_memdb_memDBCursor_Seek : Gen.ScriptsC11.memdb_memDBCursor_Seek = [
  "func (m *memDBCursor) Seek(ctx context.Context, round uint64) (*common.Beacon, error) {",
  " m.s.storeMtx.RLock()",
  " defer m.s.storeMtx.RUnlock()",
  " for idx, beacon := range m.s.store {",
  "  if beacon.Round != round {",
  "   continue",
  "  }",
  "  m.pos = idx",
  "  return beacon, nil",
  " }",
  " return nil, errors.ErrNoBeaconStored",
  "}"
] := rfl

end Golden.C11
