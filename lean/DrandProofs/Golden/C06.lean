/-
Golden copies of the source skeletons property C06 depends on (tools/go2lean/scripts.cfg). Each theorem says: the
statements of this function in /repo's working tree are still the ones the model and the theorems of C06 were
written against (logging, metrics and tracing statements and comments are not part of the text). Written by
`go2lean -golden`; a reviewed change of the source is followed by regenerating this file.
-/
import Gen.ScriptsC06

namespace Golden.C06

theorem tie_src_dkg_Process_executeAndFinishDKG : Gen.ScriptsC06.dkg_Process_executeAndFinishDKG = [
  "func (d *Process) executeAndFinishDKG(ctx context.Context, beaconID string, config *dkg.Config) error {",
  " current, err := d.store.GetCurrent(beaconID)",
  " if err != nil {",
  "  return err",
  " }",
  " lastCompleted, err := d.store.GetFinished(beaconID)",
  " if err != nil {",
  "  return err",
  " }",
  " output, err := d.startDKGExecution(ctx, beaconID, current, config)",
  " if err != nil {",
  "  dkgErr := err",
  "  current, err := d.store.GetCurrent(beaconID)",
  "  if err != nil {",
  "   return errors.Join(dkgErr, err)",
  "  }",
  "  next, err := current.Failed()",
  "  if err != nil {",
  "   return errors.Join(err, dkgErr)",
  "  }",
  "  err = d.store.SaveCurrent(beaconID, next)",
  "  return errors.Join(dkgErr, err)",
  " }",
  " finalState, err := current.Complete(output.FinalGroup, output.KeyShare)",
  " if err != nil {",
  "  return err",
  " }",
  " err = d.store.SaveFinished(beaconID, finalState)",
  " if err != nil {",
  "  return err",
  " }",
  " defer func() {",
  "  if r := recover(); r != nil {",
  "   err = fmt.Errorf(\"recovered from panic writing to closed channel: %v\", r)",
  "  }",
  " }()",
  " select {",
  " case <-d.close:",
  "  return errors.New(\"daemon was closed before DKG execution\")",
  " case d.completedDKGs.Chan() <- SharingOutput{",
  "  BeaconID: beaconID,",
  "  Old: lastCompleted,",
  "  New: *finalState,",
  " }:",
  " }",
  " return nil",
  "}"
] := rfl

theorem tie_src_dkg_Process_startDKGExecution : Gen.ScriptsC06.dkg_Process_startDKGExecution = [
  "func (d *Process) startDKGExecution(",
  " ctx context.Context,",
  " beaconID string,",
  " current *DBState,",
  " config *dkg.Config,",
  ") (*ExecutionOutput, error) {",
  " phaser := dkg.NewTimePhaser(d.config.TimeBetweenDKGPhases)",
  " go phaser.Start()",
  " d.lock.Lock()",
  " broadcaster := d.Executions[beaconID]",
  " d.lock.Unlock()",
  " protocol, err := dkg.NewProtocol(config, broadcaster, phaser, d.config.SkipKeyVerification)",
  " if err != nil {",
  "  return nil, err",
  " }",
  " select {",
  " case <-d.close:",
  "  return nil, errors.New(\"daemon was closed before DKG execution completed\")",
  " case result := <-protocol.WaitEnd():",
  "  if result.Error != nil {",
  "   return nil, result.Error",
  "  }",
  "  var transitionTime int64",
  "  if current.Epoch == 1 {",
  "   transitionTime = current.GenesisTime.Unix()",
  "  } else {",
  "   roundsUntilTransition := 10",
  "   currentRound := common.CurrentRound(time.Now().Unix(), current.BeaconPeriod, current.GenesisTime.Unix())",
  "   transitionTime = common.TimeOfRound(current.BeaconPeriod, current.GenesisTime.Unix(), currentRound+uint64(roundsUntilTransition))",
  "  }",
  "  keypair, err := d.beaconIdentifier.KeypairFor(beaconID)",
  "  if err != nil {",
  "   return nil, err",
  "  }",
  "  share := &key.Share{DistKeyShare: *result.Result.Key, Scheme: keypair.Scheme()}",
  "  var finalGroup []dkg.Node",
  "  for _, v := range result.Result.QUAL {",
  "   finalGroup = append(finalGroup, config.NewNodes[v.Index])",
  "  }",
  "  groupFile, err := asGroup(ctx, current, share, finalGroup, transitionTime)",
  "  if err != nil {",
  "   return nil, err",
  "  }",
  "  output := ExecutionOutput{",
  "   FinalGroup: &groupFile,",
  "   KeyShare: share,",
  "  }",
  "  return &output, nil",
  " case <-time.After(time.Until(current.Timeout)):",
  "  return nil, errors.New(\"DKG timed out\")",
  " }",
  "}"
] := rfl

theorem tie_src_dkg_Process_setupDKG : Gen.ScriptsC06.dkg_Process_setupDKG = [
  "func (d *Process) setupDKG(ctx context.Context, beaconID string) (*dkg.Config, error) {",
  " current, err := d.store.GetCurrent(beaconID)",
  " if err != nil {",
  "  return nil, err",
  " }",
  " lastCompleted, err := d.store.GetFinished(beaconID)",
  " if err != nil {",
  "  return nil, err",
  " }",
  " keypair, err := d.beaconIdentifier.KeypairFor(beaconID)",
  " if err != nil {",
  "  return nil, err",
  " }",
  " me, err := util.PublicKeyAsParticipant(keypair.Public)",
  " if err != nil {",
  "  return nil, err",
  " }",
  " sortedParticipants := util.SortedByPublicKey(append(current.Remaining, current.Joining...))",
  " var config *dkg.Config",
  " if lastCompleted == nil {",
  "  config, err = d.initialDKGConfig(current, keypair, sortedParticipants)",
  " } else {",
  "  config, err = d.reshareDKGConfig(current, lastCompleted, keypair, sortedParticipants)",
  " }",
  " if err != nil {",
  "  return nil, err",
  " }",
  " board, err := newEchoBroadcast(",
  "  ctx,",
  "  d.internalClient,",
  "  d.log,",
  "  beaconID,",
  "  me.Address,",
  "  sortedParticipants,",
  "  keypair.Scheme(),",
  "  config,",
  " )",
  " if err != nil {",
  "  return nil, err",
  " }",
  " d.Executions[beaconID] = board",
  " return config, nil",
  "}"
] := rfl

theorem tie_src_dkg_asGroup : Gen.ScriptsC06.dkg_asGroup = [
  "func asGroup(ctx context.Context, details *DBState, keyShare *key.Share, finalNodes []dkg.Node, transitionTime int64) (key.Group, error) {",
  " sch, err := crypto.GetSchemeByID(details.SchemeID)",
  " if err != nil {",
  "  return key.Group{}, fmt.Errorf(\"the schemeID for the given group did not exist, scheme: %s\", details.SchemeID)",
  " }",
  " allSortedParticipants := util.SortedByPublicKey(append(details.Remaining, details.Joining...))",
  " remainingNodes := make([]*key.Node, len(finalNodes))",
  " for i, v := range finalNodes {",
  "  mappedNode, err := util.ToKeyNode(int(v.Index), allSortedParticipants[v.Index], keyShare.Scheme)",
  "  if err != nil {",
  "   return key.Group{}, err",
  "  }",
  "  remainingNodes[i] = &mappedNode",
  " }",
  " group := key.Group{",
  "  ID: details.BeaconID,",
  "  Threshold: int(details.Threshold),",
  "  Period: details.BeaconPeriod,",
  "  Scheme: sch,",
  "  CatchupPeriod: details.CatchupPeriod,",
  "  GenesisTime: details.GenesisTime.Unix(),",
  "  GenesisSeed: details.GenesisSeed,",
  "  TransitionTime: transitionTime,",
  "  Nodes: remainingNodes,",
  "  PublicKey: keyShare.Public(),",
  " }",
  " if len(group.GenesisSeed) == 0 {",
  "  group.GenesisSeed = group.Hash()",
  " }",
  " return group, nil",
  "}"
] := rfl

theorem tie_src_dkg_Process_initialDKGConfig : Gen.ScriptsC06.dkg_Process_initialDKGConfig = [
  "func (d *Process) initialDKGConfig(current *DBState, keypair *key.Pair, sortedParticipants []*drand.Participant) (*dkg.Config, error) {",
  " sch := keypair.Scheme()",
  " newNodes, err := util.TryMapEach[dkg.Node](sortedParticipants, func(index int, participant *drand.Participant) (dkg.Node, error) {",
  "  return util.ToNode(index, participant, sch)",
  " })",
  " if err != nil {",
  "  return nil, err",
  " }",
  " var nodes []dkg.Node",
  " var publicCoeffs []kyber.Point",
  " var oldThreshold = 0",
  " if current.FinalGroup != nil {",
  "  nodes = current.FinalGroup.DKGNodes()",
  "  publicCoeffs = current.FinalGroup.PublicKey.Coefficients",
  "  oldThreshold = current.FinalGroup.Threshold",
  " }",
  " suite := sch.KeyGroup.(dkg.Suite)",
  " return &dkg.Config{",
  "  Suite: suite,",
  "  Longterm: keypair.Key,",
  "  OldNodes: nodes,",
  "  NewNodes: newNodes,",
  "  PublicCoeffs: publicCoeffs,",
  "  OldThreshold: oldThreshold,",
  "  Share: nil,",
  "  Threshold: int(current.Threshold),",
  "  Reader: nil,",
  "  UserReaderOnly: false,",
  "  FastSync: true,",
  "  Nonce: nonceFor(current),",
  "  Auth: schnorr.NewScheme(suite),",
  "  Log: d.log,",
  " }, nil",
  "}"
] := rfl

theorem tie_src_dkg_Process_reshareDKGConfig : Gen.ScriptsC06.dkg_Process_reshareDKGConfig = [
  "func (d *Process) reshareDKGConfig(",
  " current, previous *DBState,",
  " keypair *key.Pair,",
  " sortedParticipants []*drand.Participant,",
  ") (*dkg.Config, error) {",
  " if previous == nil {",
  "  return nil, errors.New(\"cannot reshare with a nil previous DKG state\")",
  " }",
  " newNodes, err := util.TryMapEach[dkg.Node](sortedParticipants, func(index int, participant *drand.Participant) (dkg.Node, error) {",
  "  return util.ToNode(index, participant, keypair.Scheme())",
  " })",
  " if err != nil {",
  "  return nil, err",
  " }",
  " suite := keypair.Scheme().KeyGroup.(dkg.Suite)",
  " return &dkg.Config{",
  "  Suite: suite,",
  "  Longterm: keypair.Key,",
  "  OldNodes: previous.FinalGroup.DKGNodes(),",
  "  NewNodes: newNodes,",
  "  PublicCoeffs: previous.FinalGroup.PublicKey.Coefficients,",
  "  Share: &previous.KeyShare.DistKeyShare,",
  "  Threshold: int(current.Threshold),",
  "  OldThreshold: int(previous.Threshold),",
  "  Reader: nil,",
  "  UserReaderOnly: false,",
  "  FastSync: true,",
  "  Nonce: nonceFor(current),",
  "  Auth: schnorr.NewScheme(suite),",
  "  Log: d.log,",
  " }, nil",
  "}"
] := rfl

theorem tie_src_dkg_nonceFor : Gen.ScriptsC06.dkg_nonceFor = [
  "func nonceFor(state *DBState) []byte {",
  " h := sha256.New()",
  " _ = binary.Write(h, binary.BigEndian, state.Epoch)",
  " return h.Sum(nil)",
  "}"
] := rfl

theorem tie_src_util_SortedByPublicKey : Gen.ScriptsC06.util_SortedByPublicKey = [
  "func SortedByPublicKey(arr []*drand.Participant) []*drand.Participant {",
  " out := arr",
  " sort.Slice(out, func(i, j int) bool {",
  "  return string(out[i].Key) < string(out[j].Key)",
  " })",
  " return out",
  "}"
] := rfl

theorem tie_src_util_ToNode : Gen.ScriptsC06.util_ToNode = [
  "func ToNode(index int, participant *drand.Participant, sch *crypto.Scheme) (dkg.Node, error) {",
  " public, err := pkToPoint(participant.Key, sch)",
  " if err != nil {",
  "  return dkg.Node{}, key.ErrInvalidKeyScheme",
  " }",
  " return dkg.Node{",
  "  Public: public,",
  "  Index: uint32(index),",
  " }, nil",
  "}"
] := rfl

theorem tie_src_util_ToKeyNode : Gen.ScriptsC06.util_ToKeyNode = [
  "func ToKeyNode(index int, participant *drand.Participant, sch *crypto.Scheme) (key.Node, error) {",
  " public, err := pkToPoint(participant.Key, sch)",
  " if err != nil {",
  "  return key.Node{}, key.ErrInvalidKeyScheme",
  " }",
  " return key.Node{",
  "  Identity: &key.Identity{",
  "   Key: public,",
  "   Addr: participant.Address,",
  "   Signature: participant.Signature,",
  "   Scheme: sch,",
  "  },",
  "  Index: uint32(index),",
  " }, nil",
  "}"
] := rfl

theorem tie_src_util_TryMapEach : Gen.ScriptsC06.util_TryMapEach = [
  "func TryMapEach[T any](arr []*drand.Participant, fn func(index int, participant *drand.Participant) (T, error)) ([]T, error) {",
  " out := make([]T, len(arr))",
  " for i, participant := range arr {",
  "  p := participant",
  "  result, err := fn(i, p)",
  "  if err != nil {",
  "   return nil, err",
  "  }",
  "  out[i] = result",
  " }",
  " return out, nil",
  "}"
] := rfl

theorem tie_src_dkg_echoBroadcast_BroadcastDKG : Gen.ScriptsC06.dkg_echoBroadcast_BroadcastDKG = [
  "func (b *echoBroadcast) BroadcastDKG(ctx context.Context, p *pdkg.DKGPacket) error {",
  " b.Lock()",
  " defer b.Unlock()",
  " addr := net.RemoteAddress(ctx)",
  " dkgPacket, err := protoToDKGPacket(p.GetDkg(), b.scheme)",
  " if err != nil {",
  "  err := errors.New(\"invalid DKGPacket\")",
  "  return err",
  " }",
  " hash := hash(dkgPacket.Hash())",
  " if b.hashes.exists(hash) {",
  "  return nil",
  " }",
  " dkgConfig := b.config",
  " if err := dkg.VerifyPacketSignature(&dkgConfig, dkgPacket); err != nil {",
  "  err := errors.New(\"invalid DKGPacket\")",
  "  return err",
  " }",
  " b.sendout(ctx, hash, dkgPacket, false, b.beaconID)",
  " b.passToApplication(dkgPacket)",
  " return nil",
  "}"
] := rfl

theorem tie_src_dkg_echoBroadcast_passToApplication : Gen.ScriptsC06.dkg_echoBroadcast_passToApplication = [
  "func (b *echoBroadcast) passToApplication(p packet) {",
  " switch pp := p.(type) {",
  " case *dkg.DealBundle:",
  "  select {",
  "  case b.dealCh <- *pp:",
  "  default:",
  "  }",
  " case *dkg.ResponseBundle:",
  "  select {",
  "  case b.respCh <- *pp:",
  "  default:",
  "  }",
  " case *dkg.JustificationBundle:",
  "  select {",
  "  case b.justCh <- *pp:",
  "  default:",
  "  }",
  " default:",
  " }",
  "}"
] := rfl

theorem tie_src_dkg_echoBroadcast_sendout : Gen.ScriptsC06.dkg_echoBroadcast_sendout = [
  "func (b *echoBroadcast) sendout(ctx context.Context, h []byte, p packet, bypass bool, beaconID string) {",
  " if b.isStopped {",
  "  return",
  " }",
  " dkgproto, err := dkgPacketToProto(p, beaconID)",
  " if err != nil {",
  "  return",
  " }",
  " b.hashes.put(h)",
  " proto := &pdkg.DKGPacket{Dkg: dkgproto}",
  " if bypass {",
  "  go b.dispatcher.broadcastDirect(ctx, proto)",
  " } else {",
  "  b.dispatcher.broadcast(ctx, proto)",
  " }",
  "}"
] := rfl

theorem tie_src_dkg_echoBroadcast_PushDeals : Gen.ScriptsC06.dkg_echoBroadcast_PushDeals = [
  "func (b *echoBroadcast) PushDeals(bundle *dkg.DealBundle) {",
  " b.dealCh <- *bundle",
  " b.Lock()",
  " defer b.Unlock()",
  " h := hash(bundle.Hash())",
  " b.sendout(ctx, h, bundle, true, b.beaconID)",
  "}"
] := rfl

theorem tie_src_dkg_echoBroadcast_PushResponses : Gen.ScriptsC06.dkg_echoBroadcast_PushResponses = [
  "func (b *echoBroadcast) PushResponses(bundle *dkg.ResponseBundle) {",
  " b.respCh <- *bundle",
  " b.Lock()",
  " defer b.Unlock()",
  " h := hash(bundle.Hash())",
  " b.sendout(ctx, h, bundle, true, b.beaconID)",
  "}"
] := rfl

theorem tie_src_dkg_echoBroadcast_PushJustifications : Gen.ScriptsC06.dkg_echoBroadcast_PushJustifications = [
  "func (b *echoBroadcast) PushJustifications(bundle *dkg.JustificationBundle) {",
  " b.justCh <- *bundle",
  " b.Lock()",
  " defer b.Unlock()",
  " h := hash(bundle.Hash())",
  " b.sendout(ctx, h, bundle, true, b.beaconID)",
  "}"
] := rfl

theorem tie_src_dkg_newEchoBroadcast : Gen.ScriptsC06.dkg_newEchoBroadcast = [
  "func newEchoBroadcast(",
  " ctx context.Context,",
  " client net.DKGClient,",
  " l log.Logger,",
  " beaconID string,",
  " own string,",
  " to []*pdkg.Participant,",
  " scheme *crypto.Scheme,",
  " config *dkg.Config,",
  ") (*echoBroadcast, error) {",
  " if len(to) == 0 {",
  "  return nil, errors.New(\"cannot create a broadcaster with no participants\")",
  " }",
  " c := *config",
  " return &echoBroadcast{",
  "  ctx: ctx,",
  "  l: l.Named(\"echoBroadcast\"),",
  "  beaconID: beaconID,",
  "  dispatcher: newDispatcher(ctx, client, l, to, own),",
  "  dealCh: make(chan dkg.DealBundle, len(to)),",
  "  respCh: make(chan dkg.ResponseBundle, len(to)),",
  "  justCh: make(chan dkg.JustificationBundle, len(to)),",
  "  hashes: new(arraySet),",
  "  scheme: scheme,",
  "  config: c,",
  "  isStopped: false,",
  " }, nil",
  "}"
] := rfl

theorem tie_src_dkg_arraySet_put : Gen.ScriptsC06.dkg_arraySet_put = [
  "func (a *arraySet) put(hash hash) {",
  " for _, h := range a.hashes {",
  "  if bytes.Equal(h, hash) {",
  "   return",
  "  }",
  " }",
  " a.hashes = append(a.hashes, hash)",
  "}"
] := rfl

theorem tie_src_dkg_arraySet_exists : Gen.ScriptsC06.dkg_arraySet_exists = [
  "func (a *arraySet) exists(hash hash) bool {",
  " for _, h := range a.hashes {",
  "  if bytes.Equal(h, hash) {",
  "   return true",
  "  }",
  " }",
  " return false",
  "}"
] := rfl

theorem tie_src_dkg_dispatcher_broadcast : Gen.ScriptsC06.dkg_dispatcher_broadcast = [
  "func (d *dispatcher) broadcast(ctx context.Context, p broadcastPacket) {",
  " for _, i := range rand.Perm(len(d.senders)) {",
  "  d.senders[i].sendPacket(ctx, p)",
  " }",
  "}"
] := rfl

theorem tie_src_dkg_dispatcher_broadcastDirect : Gen.ScriptsC06.dkg_dispatcher_broadcastDirect = [
  "func (d *dispatcher) broadcastDirect(ctx context.Context, p broadcastPacket) {",
  " for _, i := range rand.Perm(len(d.senders)) {",
  "  d.senders[i].sendDirect(ctx, p)",
  " }",
  "}"
] := rfl

theorem tie_src_dkg_sender_sendPacket : Gen.ScriptsC06.dkg_sender_sendPacket = [
  "func (s *sender) sendPacket(ctx context.Context, p broadcastPacket) {",
  " select {",
  " case s.newCh <- p:",
  " default:",
  " }",
  "}"
] := rfl

theorem tie_src_dkg_sender_run : Gen.ScriptsC06.dkg_sender_run = [
  "func (s *sender) run(ctx context.Context) {",
  " for newPacket := range s.newCh {",
  "  s.sendDirect(ctx, newPacket)",
  " }",
  "}"
] := rfl

theorem tie_src_dkg_sender_sendDirect : Gen.ScriptsC06.dkg_sender_sendDirect = [
  "func (s *sender) sendDirect(ctx context.Context, newPacket broadcastPacket) {",
  " node := util.ToPeer(s.to)",
  " _, err := s.client.BroadcastDKG(ctx, node, newPacket)",
  " if err != nil {",
  " } else {",
  " }",
  "}"
] := rfl

theorem tie_src_dkg_sender_stop : Gen.ScriptsC06.dkg_sender_stop = [
  "func (s *sender) stop() {",
  " close(s.newCh)",
  "}"
] := rfl

theorem tie_src_dkg_newSender : Gen.ScriptsC06.dkg_newSender = [
  "func newSender(client net.DKGClient, to *pdkg.Participant, l log.Logger, queueSize int) *sender {",
  " return &sender{",
  "  l: l.Named(\"Sender\"),",
  "  client: client,",
  "  to: to,",
  "  newCh: make(chan broadcastPacket, queueSize),",
  " }",
  "}"
] := rfl

theorem tie_src_dkg_newDispatcher : Gen.ScriptsC06.dkg_newDispatcher = [
  "func newDispatcher(ctx context.Context, dkgClient net.DKGClient, l log.Logger, to []*pdkg.Participant, us string) *dispatcher {",
  " var senders = make([]*sender, 0, len(to)-1)",
  " queue := senderQueueSize(len(to))",
  " for _, node := range to {",
  "  if node.Address == us {",
  "   continue",
  "  }",
  "  sender := newSender(dkgClient, node, l, queue)",
  "  go sender.run(ctx)",
  "  senders = append(senders, sender)",
  " }",
  " return &dispatcher{",
  "  senders: senders,",
  " }",
  "}"
] := rfl

theorem tie_src_dkg_dispatcher_stop : Gen.ScriptsC06.dkg_dispatcher_stop = [
  "func (d *dispatcher) stop() {",
  " for _, sender := range d.senders {",
  "  sender.stop()",
  " }",
  "}"
] := rfl

theorem tie_src_dkg_senderQueueSize : Gen.ScriptsC06.dkg_senderQueueSize = [
  "func senderQueueSize(nodes int) int {",
  " if nodes > maxQueueSize {",
  "  return maxQueueSize",
  " }",
  " return nodes * 3",
  "}"
] := rfl

theorem tie_src_dkg_echoBroadcast_Stop : Gen.ScriptsC06.dkg_echoBroadcast_Stop = [
  "func (b *echoBroadcast) Stop() {",
  " b.Lock()",
  " b.isStopped = true",
  " b.Unlock()",
  " b.dispatcher.stop()",
  "}"
] := rfl

theorem tie_src_dkg_protoToDKGPacket : Gen.ScriptsC06.dkg_protoToDKGPacket = [
  "func protoToDKGPacket(d *pdkg.Packet, sch *crypto.Scheme) (dkg.Packet, error) {",
  " switch packet := d.GetBundle().(type) {",
  " case *pdkg.Packet_Deal:",
  "  return protoToDeal(packet.Deal, sch)",
  " case *pdkg.Packet_Response:",
  "  return protoToResp(packet.Response), nil",
  " case *pdkg.Packet_Justification:",
  "  return protoToJustif(packet.Justification, sch)",
  " default:",
  "  return nil, errors.New(\"unknown packet\")",
  " }",
  "}"
] := rfl

theorem tie_src_dkg_dkgPacketToProto : Gen.ScriptsC06.dkg_dkgPacketToProto = [
  "func dkgPacketToProto(p dkg.Packet, beaconID string) (*pdkg.Packet, error) {",
  " switch inner := p.(type) {",
  " case *dkg.DealBundle:",
  "  return dealToProto(inner, beaconID), nil",
  " case *dkg.ResponseBundle:",
  "  return respToProto(inner, beaconID), nil",
  " case *dkg.JustificationBundle:",
  "  return justifToProto(inner, beaconID), nil",
  " default:",
  "  return nil, errors.New(\"invalid dkg packet\")",
  " }",
  "}"
] := rfl

theorem tie_src_dkg_protoToDeal : Gen.ScriptsC06.dkg_protoToDeal = [
  "func protoToDeal(d *pdkg.DealBundle, sch *crypto.Scheme) (*dkg.DealBundle, error) {",
  " bundle := new(dkg.DealBundle)",
  " bundle.DealerIndex = d.DealerIndex",
  " publics := make([]kyber.Point, 0, len(d.Commits))",
  " for _, c := range d.Commits {",
  "  coeff := sch.KeyGroup.Point()",
  "  if err := coeff.UnmarshalBinary(c); err != nil {",
  "   return nil, fmt.Errorf(\"invalid public coeff:%w\", err)",
  "  }",
  "  publics = append(publics, coeff)",
  " }",
  " bundle.Public = publics",
  " deals := make([]dkg.Deal, 0, len(d.Deals))",
  " for _, dd := range d.Deals {",
  "  deal := dkg.Deal{",
  "   EncryptedShare: dd.EncryptedShare,",
  "   ShareIndex: dd.ShareIndex,",
  "  }",
  "  deals = append(deals, deal)",
  " }",
  " bundle.Deals = deals",
  " bundle.SessionID = d.SessionId",
  " bundle.Signature = d.Signature",
  " return bundle, nil",
  "}"
] := rfl

theorem tie_src_dkg_protoToResp : Gen.ScriptsC06.dkg_protoToResp = [
  "func protoToResp(r *pdkg.ResponseBundle) *dkg.ResponseBundle {",
  " resp := new(dkg.ResponseBundle)",
  " resp.ShareIndex = r.ShareIndex",
  " resp.Responses = make([]dkg.Response, 0, len(r.Responses))",
  " for _, rr := range r.Responses {",
  "  response := dkg.Response{",
  "   DealerIndex: rr.DealerIndex,",
  "   Status: rr.Status,",
  "  }",
  "  resp.Responses = append(resp.Responses, response)",
  " }",
  " resp.SessionID = r.SessionId",
  " resp.Signature = r.Signature",
  " return resp",
  "}"
] := rfl

theorem tie_src_dkg_protoToJustif : Gen.ScriptsC06.dkg_protoToJustif = [
  "func protoToJustif(j *pdkg.JustificationBundle, sch *crypto.Scheme) (*dkg.JustificationBundle, error) {",
  " just := new(dkg.JustificationBundle)",
  " just.DealerIndex = j.DealerIndex",
  " just.Justifications = make([]dkg.Justification, len(j.Justifications))",
  " for i, j := range j.Justifications {",
  "  share := sch.KeyGroup.Scalar()",
  "  if err := share.UnmarshalBinary(j.Share); err != nil {",
  "   return nil, fmt.Errorf(\"invalid share: %w\", err)",
  "  }",
  "  justif := dkg.Justification{",
  "   ShareIndex: j.ShareIndex,",
  "   Share: share,",
  "  }",
  "  just.Justifications[i] = justif",
  " }",
  " just.SessionID = j.SessionId",
  " just.Signature = j.Signature",
  " return just, nil",
  "}"
] := rfl

theorem tie_src_dkg_dealToProto : Gen.ScriptsC06.dkg_dealToProto = [
  "func dealToProto(d *dkg.DealBundle, beaconID string) *pdkg.Packet {",
  " packet := new(pdkg.Packet)",
  " bundle := new(pdkg.DealBundle)",
  " bundle.DealerIndex = d.DealerIndex",
  " bundle.Deals = make([]*pdkg.Deal, len(d.Deals))",
  " for i, deal := range d.Deals {",
  "  pdeal := &pdkg.Deal{",
  "   ShareIndex: deal.ShareIndex,",
  "   EncryptedShare: deal.EncryptedShare,",
  "  }",
  "  bundle.Deals[i] = pdeal",
  " }",
  " bundle.Commits = make([][]byte, len(d.Public))",
  " for i, coeff := range d.Public {",
  "  cbuff, _ := coeff.MarshalBinary()",
  "  bundle.Commits[i] = cbuff",
  " }",
  " bundle.Signature = d.Signature",
  " bundle.SessionId = d.SessionID",
  " packet.Bundle = &pdkg.Packet_Deal{Deal: bundle}",
  " packet.Metadata = &drand.Metadata{",
  "  BeaconID: beaconID,",
  " }",
  " return packet",
  "}"
] := rfl

theorem tie_src_dkg_respToProto : Gen.ScriptsC06.dkg_respToProto = [
  "func respToProto(r *dkg.ResponseBundle, beaconID string) *pdkg.Packet {",
  " packet := new(pdkg.Packet)",
  " bundle := new(pdkg.ResponseBundle)",
  " bundle.ShareIndex = r.ShareIndex",
  " bundle.Responses = make([]*pdkg.Response, len(r.Responses))",
  " for i, resp := range r.Responses {",
  "  presp := &pdkg.Response{",
  "   DealerIndex: resp.DealerIndex,",
  "   Status: resp.Status,",
  "  }",
  "  bundle.Responses[i] = presp",
  " }",
  " bundle.SessionId = r.SessionID",
  " bundle.Signature = r.Signature",
  " packet.Bundle = &pdkg.Packet_Response{Response: bundle}",
  " packet.Metadata = &drand.Metadata{",
  "  BeaconID: beaconID,",
  " }",
  " return packet",
  "}"
] := rfl

theorem tie_src_dkg_justifToProto : Gen.ScriptsC06.dkg_justifToProto = [
  "func justifToProto(j *dkg.JustificationBundle, beaconID string) *pdkg.Packet {",
  " packet := new(pdkg.Packet)",
  " bundle := new(pdkg.JustificationBundle)",
  " bundle.DealerIndex = j.DealerIndex",
  " bundle.Justifications = make([]*pdkg.Justification, len(j.Justifications))",
  " for i, just := range j.Justifications {",
  "  shareBuff, _ := just.Share.MarshalBinary()",
  "  pjust := &pdkg.Justification{",
  "   ShareIndex: just.ShareIndex,",
  "   Share: shareBuff,",
  "  }",
  "  bundle.Justifications[i] = pjust",
  " }",
  " bundle.SessionId = j.SessionID",
  " bundle.Signature = j.Signature",
  " packet.Bundle = &pdkg.Packet_Justification{Justification: bundle}",
  " packet.Metadata = &drand.Metadata{",
  "  BeaconID: beaconID,",
  " }",
  " return packet",
  "}"
] := rfl

theorem tie_src_key_Group_Hash : Gen.ScriptsC06.key_Group_Hash = [
  "func (g *Group) Hash() []byte {",
  " h := hashFunc()",
  " sort.Slice(g.Nodes, func(i, j int) bool {",
  "  return g.Nodes[i].Index < g.Nodes[j].Index",
  " })",
  " for _, n := range g.Nodes {",
  "  _, _ = h.Write(n.Hash())",
  " }",
  " _ = binary.Write(h, binary.LittleEndian, uint32(g.Threshold))",
  " _ = binary.Write(h, binary.LittleEndian, uint64(g.GenesisTime))",
  " if g.TransitionTime != 0 {",
  "  _ = binary.Write(h, binary.LittleEndian, g.TransitionTime)",
  " }",
  " if g.PublicKey != nil {",
  "  _, _ = h.Write(g.PublicKey.Hash())",
  " }",
  " if !common2.IsDefaultBeaconID(g.ID) {",
  "  _, _ = h.Write([]byte(g.ID))",
  " }",
  " return h.Sum(nil)",
  "}"
] := rfl

end Golden.C06
