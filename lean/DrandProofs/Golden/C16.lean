/-
Golden copies of the source skeletons property C16 depends on (tools/go2lean/scripts.cfg). Each theorem says: the
statements of this function in /repo's working tree are still the ones the model and the theorems of C16 were
written against (logging, metrics and tracing statements and comments are not part of the text). Written by
`go2lean -golden`; a reviewed change of the source is followed by regenerating this file.
-/
import Gen.ScriptsC16

namespace Golden.C16

theorem tie_src_beacon_ticker_Start : Gen.ScriptsC16.beacon_ticker_Start = [
  "func (t *ticker) Start() {",
  " chanTime := make(chan time.Time, 1)",
  " go func() {",
  "  now := t.clock.Now().Unix()",
  "  _, ttime := common.NextRound(now, t.period, t.genesis)",
  "  if ttime > now {",
  "   t.clock.Sleep(t.clock.Until(time.Unix(ttime, 0)))",
  "  }",
  "  chanTime <- t.clock.Now()",
  "  ticker := t.clock.NewTicker(t.period)",
  "  defer ticker.Stop()",
  "  tickChan := ticker.Chan()",
  "  for {",
  "   select {",
  "   case nt := <-tickChan:",
  "    chanTime <- nt",
  "   case <-t.stop:",
  "    return",
  "   }",
  "  }",
  " }()",
  " var channels []channelInfo",
  " var sendTicks = false",
  " var ttime int64",
  " var tround uint64",
  " for {",
  "  if sendTicks {",
  "   sendTicks = false",
  "   info := roundInfo{",
  "    round: tround,",
  "    time: ttime,",
  "   }",
  "   for _, chinfo := range channels {",
  "    if chinfo.startAt > ttime {",
  "     continue",
  "    }",
  "    select {",
  "    case chinfo.ch <- info:",
  "    default:",
  "    }",
  "   }",
  "  }",
  "  select {",
  "  case nt := <-chanTime:",
  "   tround = common.CurrentRound(nt.Unix(), t.period, t.genesis)",
  "   ttime = nt.Unix()",
  "   sendTicks = true",
  "  case newChan := <-t.newCh:",
  "   channels = append(channels, newChan)",
  "  case <-t.stop:",
  "   for _, ch := range channels {",
  "    close(ch.ch)",
  "   }",
  "   return",
  "  }",
  " }",
  "}"
] := rfl

theorem tie_src_beacon_ticker_CurrentRound : Gen.ScriptsC16.beacon_ticker_CurrentRound = [
  "func (t *ticker) CurrentRound() uint64 {",
  " return common.CurrentRound(t.clock.Now().Unix(), t.period, t.genesis)",
  "}"
] := rfl

theorem tie_src_http_readRound : Gen.ScriptsC16.http_readRound = [
  "func readRound(r *http.Request) (uint64, error) {",
  " round := chi.URLParam(r, roundParamKey)",
  " return strconv.ParseUint(round, roundNumBase, roundNumSize)",
  "}"
] := rfl

theorem tie_src_http_dateOfRound : Gen.ScriptsC16.http_dateOfRound = [
  "func dateOfRound(round uint64, info *chain2.Info) time.Time {",
  " return time.Unix(common.TimeOfRound(info.Period, info.GenesisTime, round), 0)",
  "}"
] := rfl

theorem tie_src_common_TimeOfRound : Gen.ScriptsC16.common_TimeOfRound = [
  "func TimeOfRound(period time.Duration, genesis int64, round uint64) int64 {",
  " if round == 0 {",
  "  return genesis",
  " }",
  " if period < 0 {",
  "  return TimeOfRoundErrorValue",
  " }",
  " periodBits := math.Log2(period.Seconds() + 1)",
  " if round >= (math.MaxUint64 >> (int(periodBits) + 2)) {",
  "  return TimeOfRoundErrorValue",
  " }",
  " delta := (round - 1) * uint64(period.Seconds())",
  " val := genesis + int64(delta)",
  " if val > math.MaxInt64-maxTimeBuffer {",
  "  return TimeOfRoundErrorValue",
  " }",
  " return val",
  "}"
] := rfl

theorem tie_src_common_CurrentRound : Gen.ScriptsC16.common_CurrentRound = [
  "func CurrentRound(now int64, period time.Duration, genesis int64) uint64 {",
  " nextRound, _ := NextRound(now, period, genesis)",
  " if nextRound <= 1 {",
  "  return nextRound",
  " }",
  " return nextRound - 1",
  "}"
] := rfl

theorem tie_src_common_NextRound : Gen.ScriptsC16.common_NextRound = [
  "func NextRound(now int64, period time.Duration, genesis int64) (nextRound uint64, nextTime int64) {",
  " if now < genesis {",
  "  return 1, genesis",
  " }",
  " fromGenesis := now - genesis",
  " nextRound = uint64(math.Floor(float64(fromGenesis)/period.Seconds())) + 1",
  " nextTime = genesis + int64(nextRound*uint64(period.Seconds()))",
  " return nextRound + 1, nextTime",
  "}"
] := rfl

end Golden.C16
