/-
Golden copies of the source skeletons property C19 depends on (tools/go2lean/scripts.cfg). Each theorem says: the
statements of this function in /repo's working tree are still the ones the model and the theorems of C19 were
written against (logging, metrics and tracing statements and comments are not part of the text). Written by
`go2lean -golden`; a reviewed change of the source is followed by regenerating this file.
-/
import Gen.ScriptsC19

namespace Golden.C19

theorem tie_src_core_DrandDaemon_readBeaconID : Gen.ScriptsC19.core_DrandDaemon_readBeaconID = [
  "func (dd *DrandDaemon) readBeaconID(metadata *drand.Metadata) (string, error) {",
  " rcvBeaconID := metadata.GetBeaconID()",
  " if chainHashBytes := metadata.GetChainHash(); len(chainHashBytes) != 0 {",
  "  chainHash := fmt.Sprintf(\"%x\", chainHashBytes)",
  "  dd.state.RLock()",
  "  defer dd.state.RUnlock()",
  "  beaconIDByHash, isChainHashFound := dd.chainHashes[chainHash]",
  "  if isChainHashFound {",
  "   if rcvBeaconID != \"\" && !common.CompareBeaconIDs(rcvBeaconID, beaconIDByHash) {",
  "    return \"\", fmt.Errorf(\"invalid chain hash: %q != %q\", rcvBeaconID, beaconIDByHash)",
  "   }",
  "   rcvBeaconID = beaconIDByHash",
  "  } else {",
  "   rcvBeaconID = common.GetCanonicalBeaconID(rcvBeaconID)",
  "   for id, bp := range dd.beaconProcesses {",
  "    bp.state.RLock()",
  "    group := bp.group",
  "    bp.state.RUnlock()",
  "    if id == rcvBeaconID && group == nil {",
  "     metadata.BeaconID = rcvBeaconID",
  "     return id, nil",
  "    }",
  "   }",
  "   return \"\", fmt.Errorf(\"%w: %s out of %v\", common.ErrUnknownChainhash, chainHash, dd.chainHashes)",
  "  }",
  " }",
  " rcvBeaconID = common.GetCanonicalBeaconID(rcvBeaconID)",
  " if metadata == nil {",
  "  metadata = &drand.Metadata{}",
  " }",
  " metadata.BeaconID = rcvBeaconID",
  " return rcvBeaconID, nil",
  "}"
] := rfl

theorem tie_src_core_DrandDaemon_getBeaconProcessByID : Gen.ScriptsC19.core_DrandDaemon_getBeaconProcessByID = [
  "func (dd *DrandDaemon) getBeaconProcessByID(beaconID string) (*BeaconProcess, error) {",
  " dd.state.Lock()",
  " bp, isBeaconIDFound := dd.beaconProcesses[beaconID]",
  " dd.state.Unlock()",
  " if isBeaconIDFound {",
  "  return bp, nil",
  " }",
  " return nil, fmt.Errorf(\"beacon id [%s] is not running\", beaconID)",
  "}"
] := rfl

theorem tie_src_core_DrandDaemon_getBeaconProcessFromRequest : Gen.ScriptsC19.core_DrandDaemon_getBeaconProcessFromRequest = [
  "func (dd *DrandDaemon) getBeaconProcessFromRequest(metadata *drand.Metadata) (*BeaconProcess, error) {",
  " beaconID, err := dd.readBeaconID(metadata)",
  " if err != nil {",
  "  return nil, err",
  " }",
  " return dd.getBeaconProcessByID(beaconID)",
  "}"
] := rfl

theorem tie_src_core_DrandDaemon_PartialBeacon : Gen.ScriptsC19.core_DrandDaemon_PartialBeacon = [
  "func (dd *DrandDaemon) PartialBeacon(ctx context.Context, in *drand.PartialBeaconPacket) (*drand.Empty, error) {",
  " bp, err := dd.getBeaconProcessFromRequest(in.GetMetadata())",
  " if err != nil {",
  "  return nil, err",
  " }",
  " partialBeacon, err := bp.PartialBeacon(ctx, in)",
  " return partialBeacon, err",
  "}"
] := rfl

theorem tie_src_core_DrandDaemon_PublicRand : Gen.ScriptsC19.core_DrandDaemon_PublicRand = [
  "func (dd *DrandDaemon) PublicRand(ctx context.Context, in *drand.PublicRandRequest) (*drand.PublicRandResponse, error) {",
  " bp, err := dd.getBeaconProcessFromRequest(in.GetMetadata())",
  " if err != nil {",
  "  return nil, err",
  " }",
  " return bp.PublicRand(ctx, in)",
  "}"
] := rfl

theorem tie_src_core_DrandDaemon_PublicRandStream : Gen.ScriptsC19.core_DrandDaemon_PublicRandStream = [
  "func (dd *DrandDaemon) PublicRandStream(in *drand.PublicRandRequest, stream drand.Public_PublicRandStreamServer) error {",
  " bp, err := dd.getBeaconProcessFromRequest(in.GetMetadata())",
  " if err != nil {",
  "  return err",
  " }",
  " return bp.PublicRandStream(in, stream)",
  "}"
] := rfl

theorem tie_src_core_DrandDaemon_ChainInfo : Gen.ScriptsC19.core_DrandDaemon_ChainInfo = [
  "func (dd *DrandDaemon) ChainInfo(ctx context.Context, in *drand.ChainInfoRequest) (*drand.ChainInfoPacket, error) {",
  " bp, err := dd.getBeaconProcessFromRequest(in.GetMetadata())",
  " if err != nil {",
  "  return nil, err",
  " }",
  " return bp.ChainInfo(ctx, in)",
  "}"
] := rfl

theorem tie_src_core_DrandDaemon_SyncChain : Gen.ScriptsC19.core_DrandDaemon_SyncChain = [
  "func (dd *DrandDaemon) SyncChain(in *drand.SyncRequest, stream drand.Protocol_SyncChainServer) error {",
  " bp, err := dd.getBeaconProcessFromRequest(in.GetMetadata())",
  " if err != nil {",
  "  return err",
  " }",
  " return bp.SyncChain(in, stream)",
  "}"
] := rfl

theorem tie_src_core_DrandDaemon_GetIdentity : Gen.ScriptsC19.core_DrandDaemon_GetIdentity = [
  "func (dd *DrandDaemon) GetIdentity(ctx context.Context, in *drand.IdentityRequest) (*drand.IdentityResponse, error) {",
  " bp, err := dd.getBeaconProcessFromRequest(in.GetMetadata())",
  " if err != nil {",
  "  return nil, err",
  " }",
  " return bp.GetIdentity(ctx, in)",
  "}"
] := rfl

theorem tie_src_common_IsDefaultBeaconID : Gen.ScriptsC19.common_IsDefaultBeaconID = [
  "func IsDefaultBeaconID(beaconID string) bool {",
  " return beaconID == DefaultBeaconID || beaconID == \"\"",
  "}"
] := rfl

theorem tie_src_common_GetCanonicalBeaconID : Gen.ScriptsC19.common_GetCanonicalBeaconID = [
  "func GetCanonicalBeaconID(id string) string {",
  " if IsDefaultBeaconID(id) {",
  "  return DefaultBeaconID",
  " }",
  " return id",
  "}"
] := rfl

theorem tie_src_common_CompareBeaconIDs : Gen.ScriptsC19.common_CompareBeaconIDs = [
  "func CompareBeaconIDs(id1, id2 string) bool {",
  " if IsDefaultBeaconID(id1) && IsDefaultBeaconID(id2) {",
  "  return true",
  " }",
  " if id1 != id2 {",
  "  return false",
  " }",
  " return true",
  "}"
] := rfl

end Golden.C19
