/-
Golden copies of the source skeletons property C20 depends on (tools/go2lean/scripts.cfg). Each theorem says: the
statements of this function in /repo's working tree are still the ones the model and the theorems of C20 were
written against (logging, metrics and tracing statements and comments are not part of the text). Written by
`go2lean -golden`; a reviewed change of the source is followed by regenerating this file.
-/
import Gen.ScriptsC20

namespace Golden.C20

theorem tie_src_beacon_beaconToProto : Gen.ScriptsC20.beacon_beaconToProto = [
  "func beaconToProto(b *common.Beacon, beaconID string) *proto.BeaconPacket {",
  " return &proto.BeaconPacket{",
  "  PreviousSignature: b.PreviousSig,",
  "  Round: b.Round,",
  "  Signature: b.Signature,",
  "  Metadata: &proto.Metadata{BeaconID: beaconID},",
  " }",
  "}"
] := rfl

theorem tie_src_beacon_protoToBeacon : Gen.ScriptsC20.beacon_protoToBeacon = [
  "func protoToBeacon(p *proto.BeaconPacket) *common.Beacon {",
  " return &common.Beacon{",
  "  Round: p.GetRound(),",
  "  Signature: p.GetSignature(),",
  "  PreviousSig: p.GetPreviousSignature(),",
  " }",
  "}"
] := rfl

theorem tie_src_dkg_BoltStore_get : Gen.ScriptsC20.dkg_BoltStore_get = [
  "func (s *BoltStore) get(beaconID string, bucketName []byte) (*DBState, error) {",
  " var dkg *DBState",
  " err := s.db.View(func(tx *bolt.Tx) error {",
  "  bucket := tx.Bucket(bucketName)",
  "  if bucket == nil {",
  "   return errors.Errorf(\"%s bucket was nil - this should never happen\", bucketName)",
  "  }",
  "  value := bucket.Get([]byte(beaconID))",
  "  if value == nil {",
  "   return nil",
  "  }",
  "  t := DBStateTOML{}",
  "  _, err := toml.NewDecoder(bytes2.NewReader(value)).Decode(&t)",
  "  if err != nil {",
  "   return err",
  "  }",
  "  d, err := t.FromTOML()",
  "  if err != nil {",
  "   return err",
  "  }",
  "  dkg = d",
  "  return nil",
  " })",
  " return dkg, err",
  "}"
] := rfl

theorem tie_src_dkg_BoltStore_save : Gen.ScriptsC20.dkg_BoltStore_save = [
  "func (s *BoltStore) save(bucketName []byte, beaconID string, state *DBState) error {",
  " return s.db.Update(func(tx *bolt.Tx) error {",
  "  bucket := tx.Bucket(bucketName)",
  "  if bucket == nil {",
  "   return errors.Errorf(\"%s bucket was nil - this should never happen\", bucketName)",
  "  }",
  "  bytesID := []byte(beaconID)",
  "  b, err := encodeState(state)",
  "  if err != nil {",
  "   return err",
  "  }",
  "  return bucket.Put(bytesID, b)",
  " })",
  "}"
] := rfl

theorem tie_src_dkg_encodeState : Gen.ScriptsC20.dkg_encodeState = [
  "func encodeState(state *DBState) ([]byte, error) {",
  " var bytes []byte",
  " b := bytes2.NewBuffer(bytes)",
  " err := toml.NewEncoder(b).Encode(state.TOML())",
  " if err != nil {",
  "  return nil, err",
  " }",
  " return b.Bytes(), err",
  "}"
] := rfl

theorem tie_src_key_Load : Gen.ScriptsC20.key_Load = [
  "func Load(filePath string, t Tomler) error {",
  " tomlValue := t.TOMLValue()",
  " var err error",
  " if _, err = toml.DecodeFile(filePath, tomlValue); err != nil {",
  "  return err",
  " }",
  " return t.FromTOML(tomlValue)",
  "}"
] := rfl

theorem tie_src_key_fileStore_LoadGroup : Gen.ScriptsC20.key_fileStore_LoadGroup = [
  "func (f *fileStore) LoadGroup() (*Group, error) {",
  " var g Group",
  " err := Load(f.groupFile, &g)",
  " if err != nil {",
  "  return nil, err",
  " }",
  " if reflect.DeepEqual(g, Group{}) {",
  "  return nil, nil",
  " }",
  " return &g, nil",
  "}"
] := rfl

theorem tie_src_key_fileStore_LoadShare : Gen.ScriptsC20.key_fileStore_LoadShare = [
  "func (f *fileStore) LoadShare() (*Share, error) {",
  " s := new(Share)",
  " return s, Load(f.shareFile, s)",
  "}"
] := rfl

theorem tie_src_key_fileStore_LoadKeyPair : Gen.ScriptsC20.key_fileStore_LoadKeyPair = [
  "func (f *fileStore) LoadKeyPair() (*Pair, error) {",
  " p := new(Pair)",
  " if err := Load(f.privateKeyFile, p); err != nil {",
  "  return nil, err",
  " }",
  " return p, Load(f.publicKeyFile, p.Public)",
  "}"
] := rfl

theorem tie_src_fs_Exists : Gen.ScriptsC20.fs_Exists = [
  "func Exists(filePath string) (bool, error) {",
  " _, err := os.Stat(filePath)",
  " if err == nil {",
  "  return true, nil",
  " }",
  " if os.IsNotExist(err) {",
  "  return false, nil",
  " }",
  " return true, err",
  "}"
] := rfl

theorem tie_src_chain_Info_UnmarshalJSON : Gen.ScriptsC20.chain_Info_UnmarshalJSON = [
  "func (i *Info) UnmarshalJSON(data []byte) error {",
  " var v2Str struct {",
  "  PublicKey common.HexBytes `json:\"public_key\"`",
  "  ID string `json:\"beacon_id\"`",
  "  Period uint64 `json:\"period\"`",
  "  Scheme string `json:\"scheme\"`",
  "  GenesisTime int64 `json:\"genesis_time\"`",
  "  GenesisSeed common.HexBytes `json:\"genesis_seed\"`",
  "  ChainHash string `json:\"chain_hash\"`",
  "  OldSchemeID string `json:\"schemeID\"`",
  "  OldGroupHash common.HexBytes `json:\"groupHash\"`",
  "  OldMetadata *struct {",
  "   OldBeaconID string `json:\"beaconID\"`",
  "  } `json:\"metadata\"`",
  " }",
  " err := json.Unmarshal(data, &v2Str)",
  " if err != nil {",
  "  return fmt.Errorf(\"not a v2 info string: %w\", err)",
  " }",
  " i.GenesisSeed = v2Str.GenesisSeed",
  " i.GenesisTime = v2Str.GenesisTime",
  " i.Scheme = v2Str.Scheme",
  " i.Period = time.Duration(v2Str.Period) * time.Second",
  " i.ID = v2Str.ID",
  " if v2Str.OldSchemeID != \"\" && i.Scheme == \"\" {",
  "  i.Scheme = v2Str.OldSchemeID",
  "  i.GenesisSeed = v2Str.OldGroupHash",
  "  if v2Str.OldMetadata != nil && v2Str.OldMetadata.OldBeaconID != \"\" {",
  "   i.ID = v2Str.OldMetadata.OldBeaconID",
  "  }",
  " }",
  " sch, err := crypto.GetSchemeByID(i.Scheme)",
  " if err != nil {",
  "  return fmt.Errorf(\"invalid scheme advertised: %w\", err)",
  " }",
  " pk := sch.KeyGroup.Point()",
  " err = pk.UnmarshalBinary(v2Str.PublicKey)",
  " if err != nil {",
  "  return fmt.Errorf(\"invalid public key %q: %w\", sch.Name, err)",
  " }",
  " i.PublicKey = pk",
  " if v2Str.ChainHash != \"\" {",
  "  if i.HashString() != v2Str.ChainHash {",
  "   return fmt.Errorf(\"chain hash mismatch: %s != %s\", i.HashString(), v2Str.ChainHash)",
  "  }",
  " }",
  " return nil",
  "}"
] := rfl

theorem tie_src_chain_Info_MarshalJSON : Gen.ScriptsC20.chain_Info_MarshalJSON = [
  "func (i Info) MarshalJSON() ([]byte, error) {",
  " var v2Str struct {",
  "  PublicKey string `json:\"public_key\"`",
  "  ID string `json:\"beacon_id\"`",
  "  Period uint64 `json:\"period\"`",
  "  Scheme string `json:\"scheme\"`",
  "  GenesisTime int64 `json:\"genesis_time\"`",
  "  GenesisSeed common.HexBytes `json:\"genesis_seed\"`",
  "  ChainHash string `json:\"chain_hash\"`",
  " }",
  " v2Str.ID = i.ID",
  " v2Str.Scheme = i.Scheme",
  " v2Str.Period = uint64(i.Period.Seconds())",
  " v2Str.GenesisSeed = i.GenesisSeed",
  " v2Str.GenesisTime = i.GenesisTime",
  " v2Str.ChainHash = i.HashString()",
  " rawPk, err := i.PublicKey.MarshalBinary()",
  " if err != nil {",
  "  return nil, fmt.Errorf(\"unable to marshal public key: %w\", err)",
  " }",
  " v2Str.PublicKey = hex.EncodeToString(rawPk)",
  " return json.Marshal(v2Str)",
  "}"
] := rfl

theorem tie_src_chain_InfoFromProto : Gen.ScriptsC20.chain_InfoFromProto = [
  "func InfoFromProto(p *drand.ChainInfoPacket) (*Info, error) {",
  " sch, err := crypto.GetSchemeByID(p.SchemeID)",
  " if err != nil {",
  "  return nil, fmt.Errorf(\"scheme id received is not valid. Err: %w\", err)",
  " }",
  " public := sch.KeyGroup.Point()",
  " if err := public.UnmarshalBinary(p.PublicKey); err != nil {",
  "  return nil, err",
  " }",
  " return &Info{",
  "  PublicKey: public,",
  "  GenesisTime: p.GenesisTime,",
  "  Period: time.Duration(p.Period) * time.Second,",
  "  GenesisSeed: p.GroupHash,",
  "  Scheme: sch.Name,",
  "  ID: p.GetMetadata().GetBeaconID(),",
  " }, nil",
  "}"
] := rfl

theorem tie_src_chain_Info_ToProto : Gen.ScriptsC20.chain_Info_ToProto = [
  "func (i *Info) ToProto(metadata *drand.Metadata) *drand.ChainInfoPacket {",
  " buff, _ := i.PublicKey.MarshalBinary()",
  " if metadata != nil {",
  "  metadata.BeaconID = i.ID",
  " } else {",
  "  metadata = &drand.Metadata{BeaconID: i.ID}",
  " }",
  " return &drand.ChainInfoPacket{",
  "  PublicKey: buff,",
  "  GenesisTime: i.GenesisTime,",
  "  Period: uint32(i.Period.Seconds()),",
  "  Hash: i.Hash(),",
  "  GroupHash: i.GenesisSeed,",
  "  SchemeID: i.Scheme,",
  "  Metadata: metadata,",
  " }",
  "}"
] := rfl

theorem tie_src_chain_InfoFromJSON : Gen.ScriptsC20.chain_InfoFromJSON = [
  "func InfoFromJSON(buff io.Reader) (*Info, error) {",
  " chainProto := new(drand.ChainInfoPacket)",
  " if err := json.NewDecoder(buff).Decode(chainProto); err != nil {",
  "  return nil, fmt.Errorf(\"reading group file (%w)\", err)",
  " }",
  " chainInfo, err := InfoFromProto(chainProto)",
  " if err != nil {",
  "  return nil, fmt.Errorf(\"invalid chain info: %w\", err)",
  " }",
  " return chainInfo, nil",
  "}"
] := rfl

theorem tie_src_chain_Info_ToJSON : Gen.ScriptsC20.chain_Info_ToJSON = [
  "func (i *Info) ToJSON(w io.Writer, metadata *drand.Metadata) error {",
  " info := i.ToProto(metadata)",
  " return json.NewEncoder(w).Encode(info)",
  "}"
] := rfl

theorem tie_src_chain_Info_Equal : Gen.ScriptsC20.chain_Info_Equal = [
  "func (i *Info) Equal(i2 *Info) bool {",
  " return i.GenesisTime == i2.GenesisTime &&",
  "  i.Period == i2.Period &&",
  "  i.PublicKey.Equal(i2.PublicKey) &&",
  "  bytes.Equal(i.GenesisSeed, i2.GenesisSeed) &&",
  "  common.CompareBeaconIDs(i.ID, i2.ID) &&",
  "  i.Scheme == i2.Scheme",
  "}"
] := rfl

theorem tie_src_key_Group_GetGenesisSeed : Gen.ScriptsC20.key_Group_GetGenesisSeed = [
  "func (g *Group) GetGenesisSeed() []byte {",
  " if g.GenesisSeed != nil {",
  "  return g.GenesisSeed",
  " }",
  " g.GenesisSeed = g.Hash()",
  " return g.GenesisSeed",
  "}"
] := rfl

theorem tie_src_key_Group_FromTOML : Gen.ScriptsC20.key_Group_FromTOML = [
  "func (g *Group) FromTOML(i interface{}) error {",
  " if i == nil {",
  "  return nil",
  " }",
  " gt, ok := i.(*GroupTOML)",
  " if !ok {",
  "  return fmt.Errorf(\"grouptoml unknown\")",
  " }",
  " g.Threshold = gt.Threshold",
  " sch, err := crypto.GetSchemeByID(gt.SchemeID)",
  " if err != nil {",
  "  return fmt.Errorf(\"unable to instantiate group with crypto Scheme named %q\", gt.SchemeID)",
  " }",
  " g.Scheme = sch",
  " g.Nodes = make([]*Node, len(gt.Nodes))",
  " for i, ptoml := range gt.Nodes {",
  "  g.Nodes[i] = new(Node)",
  "  if err := g.Nodes[i].FromTOML(ptoml); err != nil {",
  "   return fmt.Errorf(\"group: unwrapping node[%d]: %w\", i, err)",
  "  }",
  " }",
  " if g.Threshold < dkg.MinimumT(len(gt.Nodes)) {",
  "  return errors.New(\"group file has threshold 0\")",
  " } else if g.Threshold > g.Len() {",
  "  return errors.New(\"group file threshold greater than number of participants\")",
  " }",
  " if gt.PublicKey != nil {",
  "  g.PublicKey = new(DistPublic)",
  "  if err = g.PublicKey.FromTOML(sch, gt.PublicKey); err != nil {",
  "   return fmt.Errorf(\"group: unwrapping distributed public key: %w\", err)",
  "  }",
  " }",
  " g.Period, err = time.ParseDuration(gt.Period)",
  " if err != nil {",
  "  return err",
  " }",
  " if gt.CatchupPeriod == \"\" {",
  "  g.CatchupPeriod = 0",
  " } else {",
  "  g.CatchupPeriod, err = time.ParseDuration(gt.CatchupPeriod)",
  "  if err != nil {",
  "   return err",
  "  }",
  " }",
  " g.GenesisTime = gt.GenesisTime",
  " if gt.TransitionTime != 0 {",
  "  g.TransitionTime = gt.TransitionTime",
  " }",
  " if gt.GenesisSeed != \"\" {",
  "  if g.GenesisSeed, err = hex.DecodeString(gt.GenesisSeed); err != nil {",
  "   return fmt.Errorf(\"group: decoding genesis seed %w\", err)",
  "  }",
  " }",
  " g.ID = common2.GetCanonicalBeaconID(gt.ID)",
  " return nil",
  "}"
] := rfl

theorem tie_src_key_Group_TOML : Gen.ScriptsC20.key_Group_TOML = [
  "func (g *Group) TOML() interface{} {",
  " gtoml := &GroupTOML{",
  "  Threshold: g.Threshold,",
  " }",
  " gtoml.Nodes = make([]*NodeTOML, g.Len())",
  " for i, n := range g.Nodes {",
  "  gtoml.Nodes[i] = n.TOML().(*NodeTOML)",
  " }",
  " if g.PublicKey != nil {",
  "  gtoml.PublicKey = g.PublicKey.TOML().(*DistPublicTOML)",
  " }",
  " gtoml.ID = g.ID",
  " gtoml.SchemeID = g.Scheme.Name",
  " gtoml.Period = g.Period.String()",
  " gtoml.CatchupPeriod = g.CatchupPeriod.String()",
  " gtoml.GenesisTime = g.GenesisTime",
  " if g.TransitionTime != 0 {",
  "  gtoml.TransitionTime = g.TransitionTime",
  " }",
  " gtoml.GenesisSeed = hex.EncodeToString(g.GetGenesisSeed())",
  " return gtoml",
  "}"
] := rfl

theorem tie_src_key_Group_Equal : Gen.ScriptsC20.key_Group_Equal = [
  "func (g *Group) Equal(g2 *Group) bool {",
  " if g == nil {",
  "  return g2 == nil",
  " }",
  " if g2 == nil {",
  "  return false",
  " }",
  " if !common2.CompareBeaconIDs(g.ID, g2.ID) {",
  "  return false",
  " }",
  " if g.Threshold != g2.Threshold {",
  "  return false",
  " }",
  " if g.Period.String() != g2.Period.String() {",
  "  return false",
  " }",
  " if g.Len() != g2.Len() {",
  "  return false",
  " }",
  " if !bytes.Equal(g.GetGenesisSeed(), g2.GetGenesisSeed()) {",
  "  return false",
  " }",
  " if g.TransitionTime != g2.TransitionTime {",
  "  return false",
  " }",
  " if g.Scheme == nil {",
  "  if g2.Scheme != nil {",
  "   return false",
  "  }",
  " } else {",
  "  if g2.Scheme == nil || g.Scheme.Name != g2.Scheme.Name {",
  "   return false",
  "  }",
  " }",
  " for i := 0; i < g.Len(); i++ {",
  "  if !g.Nodes[i].Equal(g2.Nodes[i]) {",
  "   return false",
  "  }",
  " }",
  " if g.PublicKey != nil {",
  "  if g2.PublicKey != nil {",
  "   return g.PublicKey.Equal(g2.PublicKey)",
  "  }",
  "  return false",
  " } else if g2.PublicKey != nil {",
  "  return false",
  " }",
  " return true",
  "}"
] := rfl

theorem tie_src_key_GroupFromProto : Gen.ScriptsC20.key_GroupFromProto = [
  "func GroupFromProto(g *proto.GroupPacket, targetScheme *crypto.Scheme) (*Group, error) {",
  " sch, err := crypto.SchemeFromName(g.GetSchemeID())",
  " if err != nil {",
  "  return nil, fmt.Errorf(\"invalid Scheme name in GroupPacket: %s\", g.GetSchemeID())",
  " }",
  " if targetScheme != nil && targetScheme.Name != sch.Name {",
  "  return nil, fmt.Errorf(\"mismatch in Scheme name in GroupPacket: %s != %s\", targetScheme.Name, sch.Name)",
  " }",
  " var nodes = make([]*Node, 0, len(g.GetNodes()))",
  " for _, pbNode := range g.GetNodes() {",
  "  kid, err := NodeFromProto(pbNode, sch)",
  "  if err != nil {",
  "   return nil, err",
  "  }",
  "  nodes = append(nodes, kid)",
  " }",
  " n := len(nodes)",
  " thr := int(g.GetThreshold())",
  " if thr < MinimumT(n) {",
  "  return nil, fmt.Errorf(\"invalid threshold: %d vs %d (minimum)\", thr, MinimumT(n))",
  " }",
  " if n > 0 && thr > n {",
  "  return nil, fmt.Errorf(\"invalid threshold: %d is greater than the number of nodes %d\", thr, n)",
  " }",
  " genesisTime := int64(g.GetGenesisTime())",
  " if genesisTime == 0 {",
  "  return nil, fmt.Errorf(\"genesis time zero\")",
  " }",
  " period := time.Duration(g.GetPeriod()) * time.Second",
  " if period == time.Duration(0) {",
  "  return nil, fmt.Errorf(\"period time is zero\")",
  " }",
  " catchupPeriod := time.Duration(g.GetCatchupPeriod()) * time.Second",
  " beaconID := g.GetMetadata().GetBeaconID()",
  " var dist = new(DistPublic)",
  " for _, coeff := range g.DistKey {",
  "  c := sch.KeyGroup.Point()",
  "  if err := c.UnmarshalBinary(coeff); err != nil {",
  "   return nil, fmt.Errorf(\"invalid distributed key coefficients:%w\", err)",
  "  }",
  "  dist.Coefficients = append(dist.Coefficients, c)",
  " }",
  " group := &Group{",
  "  Threshold: thr,",
  "  Period: period,",
  "  CatchupPeriod: catchupPeriod,",
  "  Nodes: nodes,",
  "  GenesisTime: genesisTime,",
  "  TransitionTime: int64(g.GetTransitionTime()),",
  "  Scheme: sch,",
  "  ID: beaconID,",
  " }",
  " if g.GetGenesisSeed() != nil {",
  "  group.GenesisSeed = g.GetGenesisSeed()",
  " }",
  " if len(dist.Coefficients) > 0 {",
  "  if len(dist.Coefficients) != group.Threshold {",
  "   return nil, fmt.Errorf(\"public coefficient length %d is not equal to threshold %d\", len(dist.Coefficients), group.Threshold)",
  "  }",
  "  group.PublicKey = dist",
  " }",
  " return group, nil",
  "}"
] := rfl

theorem tie_src_key_Group_ToProto : Gen.ScriptsC20.key_Group_ToProto = [
  "func (g *Group) ToProto(version common2.Version) *proto.GroupPacket {",
  " var out = new(proto.GroupPacket)",
  " var ids = make([]*proto.Node, len(g.Nodes))",
  " for i, id := range g.Nodes {",
  "  key, _ := id.Key.MarshalBinary()",
  "  ids[i] = &proto.Node{",
  "   Public: &proto.Identity{",
  "    Address: id.Address(),",
  "    Key: key,",
  "    Signature: id.Signature,",
  "   },",
  "   Index: id.Index,",
  "  }",
  " }",
  " out.Nodes = ids",
  " out.Period = uint32(g.Period.Seconds())",
  " out.CatchupPeriod = uint32(g.CatchupPeriod.Seconds())",
  " out.Threshold = uint32(g.Threshold)",
  " out.GenesisTime = uint64(g.GenesisTime)",
  " out.TransitionTime = uint64(g.TransitionTime)",
  " out.GenesisSeed = g.GetGenesisSeed()",
  " out.SchemeID = g.Scheme.Name",
  " out.Metadata = proto.NewMetadata(version.ToProto())",
  " out.Metadata.BeaconID = common2.GetCanonicalBeaconID(g.ID)",
  " if g.PublicKey != nil {",
  "  var coeffs = make([][]byte, len(g.PublicKey.Coefficients))",
  "  for i, c := range g.PublicKey.Coefficients {",
  "   buff, _ := c.MarshalBinary()",
  "   coeffs[i] = buff",
  "  }",
  "  out.DistKey = coeffs",
  " }",
  " return out",
  "}"
] := rfl

theorem tie_src_key_MinimumT : Gen.ScriptsC20.key_MinimumT = [
  "func MinimumT(n int) int {",
  " return (n >> 1) + 1",
  "}"
] := rfl

theorem tie_src_key_Identity_FromTOML : Gen.ScriptsC20.key_Identity_FromTOML = [
  "func (i *Identity) FromTOML(t interface{}) error {",
  " ptoml, ok := t.(*PublicTOML)",
  " if !ok {",
  "  return errors.New(\"public can't decode from non PublicTOML struct\")",
  " }",
  " sch, err := crypto.GetSchemeByID(ptoml.SchemeName)",
  " if err != nil {",
  "  return err",
  " }",
  " i.Scheme = sch",
  " i.Key, err = StringToPoint(sch.KeyGroup, ptoml.Key)",
  " if err != nil {",
  "  return fmt.Errorf(\"decoding public key: %w\", err)",
  " }",
  " i.Addr = ptoml.Address",
  " if ptoml.Signature != \"\" {",
  "  i.Signature, err = hex.DecodeString(ptoml.Signature)",
  " }",
  " return err",
  "}"
] := rfl

theorem tie_src_key_Identity_TOML : Gen.ScriptsC20.key_Identity_TOML = [
  "func (i *Identity) TOML() interface{} {",
  " hexKey := PointToString(i.Key)",
  " var schemeName string",
  " if i.Scheme == nil {",
  "  schemeName = \"nil scheme\"",
  " } else {",
  "  schemeName = i.Scheme.Name",
  " }",
  " return &PublicTOML{",
  "  Address: i.Addr,",
  "  Key: hexKey,",
  "  Signature: hex.EncodeToString(i.Signature),",
  "  SchemeName: schemeName,",
  " }",
  "}"
] := rfl

theorem tie_src_key_IdentityFromProto : Gen.ScriptsC20.key_IdentityFromProto = [
  "func IdentityFromProto(n protoIdentity, targetScheme *crypto.Scheme) (*Identity, error) {",
  " _, _, err := net.SplitHostPort(n.GetAddress())",
  " if err != nil {",
  "  return nil, err",
  " }",
  " if targetScheme == nil {",
  "  return nil, fmt.Errorf(\"invalid Scheme in IdentityFromProto for node %s\", n.GetAddress())",
  " }",
  " public := targetScheme.KeyGroup.Point()",
  " if err := public.UnmarshalBinary(n.GetKey()); err != nil {",
  "  return nil, fmt.Errorf(\"could not unmarshal key - %w\", ErrInvalidKeyScheme)",
  " }",
  " id := &Identity{",
  "  Addr: n.GetAddress(),",
  "  Key: public,",
  "  Signature: n.GetSignature(),",
  "  Scheme: targetScheme,",
  " }",
  " return id, nil",
  "}"
] := rfl

theorem tie_src_key_Identity_ToProto : Gen.ScriptsC20.key_Identity_ToProto = [
  "func (i *Identity) ToProto() *proto.Identity {",
  " buff, _ := i.Key.MarshalBinary()",
  " return &proto.Identity{",
  "  Address: i.Addr,",
  "  Key: buff,",
  "  Signature: i.Signature,",
  " }",
  "}"
] := rfl

theorem tie_src_key_Identity_Equal : Gen.ScriptsC20.key_Identity_Equal = [
  "func (i *Identity) Equal(i2 *Identity) bool {",
  " if i.Addr != i2.Addr {",
  "  return false",
  " }",
  " if !i.Key.Equal(i2.Key) {",
  "  return false",
  " }",
  " return true",
  "}"
] := rfl

theorem tie_src_key_Pair_TOML : Gen.ScriptsC20.key_Pair_TOML = [
  "func (p *Pair) TOML() interface{} {",
  " hexKey := ScalarToString(p.Key)",
  " return &PairTOML{hexKey, p.Public.Scheme.Name}",
  "}"
] := rfl

theorem tie_src_key_Pair_FromTOML : Gen.ScriptsC20.key_Pair_FromTOML = [
  "func (p *Pair) FromTOML(i interface{}) error {",
  " ptoml, ok := i.(*PairTOML)",
  " if !ok {",
  "  return errors.New(\"private can't decode toml from non PairTOML struct\")",
  " }",
  " p.Public = new(Identity)",
  " sch, err := crypto.GetSchemeByID(ptoml.SchemeName)",
  " if err != nil {",
  "  return err",
  " }",
  " p.Public.Scheme = sch",
  " p.Key, err = StringToScalar(sch.KeyGroup, ptoml.Key)",
  " return err",
  "}"
] := rfl

theorem tie_src_key_Share_TOML : Gen.ScriptsC20.key_Share_TOML = [
  "func (s *Share) TOML() interface{} {",
  " dtoml := &ShareTOML{}",
  " dtoml.Commits = make([]string, len(s.Commits))",
  " for i, c := range s.Commits {",
  "  dtoml.Commits[i] = PointToString(c)",
  " }",
  " dtoml.Share = ScalarToString(s.Share.V)",
  " dtoml.Index = s.Share.I",
  " dtoml.SchemeName = s.Scheme.Name",
  " return dtoml",
  "}"
] := rfl

theorem tie_src_key_Share_FromTOML : Gen.ScriptsC20.key_Share_FromTOML = [
  "func (s *Share) FromTOML(i interface{}) error {",
  " t, ok := i.(*ShareTOML)",
  " if !ok {",
  "  return errors.New(\"invalid struct received for share\")",
  " }",
  " sch, err := crypto.GetSchemeByID(t.SchemeName)",
  " if err != nil {",
  "  return err",
  " }",
  " s.Scheme = sch",
  " s.Commits = make([]kyber.Point, len(t.Commits))",
  " for i, c := range t.Commits {",
  "  p, err := StringToPoint(sch.KeyGroup, c)",
  "  if err != nil {",
  "   return fmt.Errorf(\"share.Commit[%d] corruputed: %w\", i, err)",
  "  }",
  "  s.Commits[i] = p",
  " }",
  " sshare, err := StringToScalar(sch.KeyGroup, t.Share)",
  " if err != nil {",
  "  return fmt.Errorf(\"share.Share corrupted: %w\", err)",
  " }",
  " s.Share = &share.PriShare{V: sshare, I: t.Index}",
  " return nil",
  "}"
] := rfl

theorem tie_src_key_DistPublic_TOML : Gen.ScriptsC20.key_DistPublic_TOML = [
  "func (d *DistPublic) TOML() interface{} {",
  " strings := make([]string, len(d.Coefficients))",
  " for i, s := range d.Coefficients {",
  "  strings[i] = PointToString(s)",
  " }",
  " return &DistPublicTOML{strings}",
  "}"
] := rfl

theorem tie_src_key_DistPublic_FromTOML : Gen.ScriptsC20.key_DistPublic_FromTOML = [
  "func (d *DistPublic) FromTOML(sch *crypto.Scheme, i interface{}) error {",
  " dtoml, ok := i.(*DistPublicTOML)",
  " if !ok {",
  "  return errors.New(\"wrong interface: expected DistPublicTOML\")",
  " }",
  " points := make([]kyber.Point, len(dtoml.Coefficients))",
  " for i, s := range dtoml.Coefficients {",
  "  var err error",
  "  points[i], err = StringToPoint(sch.KeyGroup, s)",
  "  if err != nil {",
  "   return err",
  "  }",
  " }",
  " d.Coefficients = points",
  " return nil",
  "}"
] := rfl

theorem tie_src_key_DistPublic_Equal : Gen.ScriptsC20.key_DistPublic_Equal = [
  "func (d *DistPublic) Equal(d2 *DistPublic) bool {",
  " if len(d.Coefficients) != len(d2.Coefficients) {",
  "  return false",
  " }",
  " for i := range d.Coefficients {",
  "  p1 := d.Coefficients[i]",
  "  p2 := d2.Coefficients[i]",
  "  if !p1.Equal(p2) {",
  "   return false",
  "  }",
  " }",
  " return true",
  "}"
] := rfl

theorem tie_src_key_Node_TOML : Gen.ScriptsC20.key_Node_TOML = [
  "func (n *Node) TOML() interface{} {",
  " return &NodeTOML{",
  "  PublicTOML: n.Identity.TOML().(*PublicTOML),",
  "  Index: n.Index,",
  " }",
  "}"
] := rfl

theorem tie_src_key_Node_FromTOML : Gen.ScriptsC20.key_Node_FromTOML = [
  "func (n *Node) FromTOML(t interface{}) error {",
  " ntoml := t.(*NodeTOML)",
  " n.Index = ntoml.Index",
  " if n.Identity == nil {",
  "  n.Identity = new(Identity)",
  " }",
  " return n.Identity.FromTOML(ntoml.PublicTOML)",
  "}"
] := rfl

theorem tie_src_key_Node_Equal : Gen.ScriptsC20.key_Node_Equal = [
  "func (n *Node) Equal(n2 *Node) bool {",
  " return n.Index == n2.Index && n.Identity.Equal(n2.Identity)",
  "}"
] := rfl

theorem tie_src_key_NodeFromProto : Gen.ScriptsC20.key_NodeFromProto = [
  "func NodeFromProto(n *proto.Node, targetScheme *crypto.Scheme) (*Node, error) {",
  " id, err := IdentityFromProto(n.Public, targetScheme)",
  " if err != nil {",
  "  return nil, err",
  " }",
  " return &Node{",
  "  Index: n.Index,",
  "  Identity: id,",
  " }, nil",
  "}"
] := rfl

theorem tie_src_dkg_DBState_TOML : Gen.ScriptsC20.dkg_DBState_TOML = [
  "func (d *DBState) TOML() DBStateTOML {",
  " var finalGroup *key.GroupTOML",
  " if d.FinalGroup != nil {",
  "  finalGroup = d.FinalGroup.TOML().(*key.GroupTOML)",
  " }",
  " var keyShare *key.ShareTOML",
  " if d.KeyShare != nil {",
  "  keyShare = d.KeyShare.TOML().(*key.ShareTOML)",
  " }",
  " return DBStateTOML{",
  "  BeaconID: d.BeaconID,",
  "  Epoch: d.Epoch,",
  "  State: d.State,",
  "  Threshold: d.Threshold,",
  "  Timeout: d.Timeout,",
  "  SchemeID: d.SchemeID,",
  "  GenesisTime: d.GenesisTime.UTC(),",
  "  GenesisSeed: d.GenesisSeed,",
  "  CatchupPeriod: d.CatchupPeriod,",
  "  BeaconPeriod: d.BeaconPeriod,",
  "  Leader: d.Leader,",
  "  Remaining: d.Remaining,",
  "  Joining: d.Joining,",
  "  Leaving: d.Leaving,",
  "  Acceptors: d.Acceptors,",
  "  Rejectors: d.Rejectors,",
  "  FinalGroup: finalGroup,",
  "  KeyShare: keyShare,",
  " }",
  "}"
] := rfl

theorem tie_src_dkg_DBStateTOML_FromTOML : Gen.ScriptsC20.dkg_DBStateTOML_FromTOML = [
  "func (d *DBStateTOML) FromTOML() (*DBState, error) {",
  " var share *key.Share",
  " if d.KeyShare != nil {",
  "  share = &key.Share{}",
  "  err := share.FromTOML(d.KeyShare)",
  "  if err != nil {",
  "   return nil, err",
  "  }",
  " }",
  " var finalGroup *key.Group",
  " if d.FinalGroup != nil {",
  "  finalGroup = &key.Group{}",
  "  sch, err := crypto.GetSchemeByID(d.SchemeID)",
  "  if err != nil {",
  "   return nil, err",
  "  }",
  "  finalGroup.Scheme = sch",
  "  err = finalGroup.FromTOML(d.FinalGroup)",
  "  if err != nil {",
  "   return nil, err",
  "  }",
  " }",
  " return &DBState{",
  "  BeaconID: d.BeaconID,",
  "  Epoch: d.Epoch,",
  "  State: d.State,",
  "  Threshold: d.Threshold,",
  "  Timeout: d.Timeout,",
  "  SchemeID: d.SchemeID,",
  "  GenesisTime: d.GenesisTime.UTC(),",
  "  GenesisSeed: d.GenesisSeed,",
  "  CatchupPeriod: d.CatchupPeriod,",
  "  BeaconPeriod: d.BeaconPeriod,",
  "  Leader: d.Leader,",
  "  Remaining: d.Remaining,",
  "  Joining: d.Joining,",
  "  Leaving: d.Leaving,",
  "  Acceptors: d.Acceptors,",
  "  Rejectors: d.Rejectors,",
  "  FinalGroup: finalGroup,",
  "  KeyShare: share,",
  " }, nil",
  "}"
] := rfl

theorem tie_src_dkg_DBState_Equals : Gen.ScriptsC20.dkg_DBState_Equals = [
  "func (d *DBState) Equals(e *DBState) bool {",
  " if d == nil {",
  "  return e == nil",
  " }",
  " if e == nil {",
  "  return false",
  " }",
  " return d.BeaconID == e.BeaconID &&",
  "  d.Epoch == e.Epoch &&",
  "  d.State == e.State &&",
  "  d.Threshold == e.Threshold &&",
  "  d.Timeout.Unix() == e.Timeout.Unix() &&",
  "  d.SchemeID == e.SchemeID &&",
  "  d.GenesisTime.Unix() == e.GenesisTime.Unix() &&",
  "  bytes.Equal(d.GenesisSeed, e.GenesisSeed) &&",
  "  d.CatchupPeriod == e.CatchupPeriod &&",
  "  d.BeaconPeriod == e.BeaconPeriod &&",
  "  reflect.DeepEqual(d.Leader, e.Leader) &&",
  "  reflect.DeepEqual(d.Remaining, e.Remaining) &&",
  "  reflect.DeepEqual(d.Joining, e.Joining) &&",
  "  reflect.DeepEqual(d.Leaving, e.Leaving) &&",
  "  reflect.DeepEqual(d.Acceptors, e.Acceptors) &&",
  "  reflect.DeepEqual(d.Rejectors, e.Rejectors) &&",
  "  d.FinalGroup.Equal(e.FinalGroup) &&",
  "  reflect.DeepEqual(d.KeyShare, e.KeyShare)",
  "}"
] := rfl

theorem tie_src_common_Beacon_Marshal : Gen.ScriptsC20.common_Beacon_Marshal = [
  "func (b *Beacon) Marshal() ([]byte, error) {",
  " return json.Marshal(b)",
  "}"
] := rfl

theorem tie_src_common_Beacon_Unmarshal : Gen.ScriptsC20.common_Beacon_Unmarshal = [
  "func (b *Beacon) Unmarshal(buff []byte) error {",
  " return json.Unmarshal(buff, b)",
  "}"
] := rfl

theorem tie_src_common_Beacon_Equal : Gen.ScriptsC20.common_Beacon_Equal = [
  "func (b *Beacon) Equal(b2 *Beacon) bool {",
  " return bytes.Equal(b.PreviousSig, b2.PreviousSig) &&",
  "  b.Round == b2.Round &&",
  "  bytes.Equal(b.Signature, b2.Signature)",
  "}"
] := rfl

theorem tie_src_common_HexBytes_MarshalJSON : Gen.ScriptsC20.common_HexBytes_MarshalJSON = [
  "func (h HexBytes) MarshalJSON() ([]byte, error) {",
  " return json.Marshal(h.String())",
  "}"
] := rfl

theorem tie_src_common_HexBytes_UnmarshalJSON : Gen.ScriptsC20.common_HexBytes_UnmarshalJSON = [
  "func (h *HexBytes) UnmarshalJSON(data []byte) error {",
  " var hexString string",
  " if err := json.Unmarshal(data, &hexString); err != nil {",
  "  return err",
  " }",
  " b, err := hex.DecodeString(hexString)",
  " if err != nil {",
  "  return err",
  " }",
  " *h = b",
  " return nil",
  "}"
] := rfl

end Golden.C20
