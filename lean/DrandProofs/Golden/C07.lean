/-
Golden copies of the source skeletons property C07 depends on (tools/go2lean/scripts.cfg). Each theorem says: the
statements of this function in /repo's working tree are still the ones the model and the theorems of C07 were
written against (logging, metrics and tracing statements and comments are not part of the text). Written by
`go2lean -golden`; a reviewed change of the source is followed by regenerating this file.
-/
import Gen.ScriptsC07

namespace Golden.C07

theorem tie_src_beacon_Handler_ProcessPartialBeacon : Gen.ScriptsC07.beacon_Handler_ProcessPartialBeacon = [
  "func (h *Handler) ProcessPartialBeacon(ctx context.Context, p *proto.PartialBeaconPacket) (*proto.Empty, error) {",
  " addr := net.RemoteAddress(ctx)",
  " pRound := p.GetRound()",
  " nextRound, _ := common.NextRound(h.conf.Clock.Now().Unix(), h.conf.Group.Period, h.conf.Group.GenesisTime)",
  " currentRound := nextRound - 1",
  " if pRound > nextRound {",
  "  return nil, fmt.Errorf(\"invalid round: %d instead of %d\", pRound, currentRound)",
  " }",
  " if latest, err := h.chain.Last(ctx); err == nil && pRound <= latest.GetRound() {",
  "  return new(proto.Empty), nil",
  " }",
  " idx, err := h.crypto.ThresholdScheme.IndexOf(p.GetPartialSig())",
  " if err != nil {",
  "  return nil, err",
  " }",
  " if idx < 0 {",
  "  err := fmt.Errorf(\"invalid index %d in partial for round %v\", idx, pRound)",
  "  return nil, err",
  " }",
  " node := h.crypto.GetGroup().Node(uint32(idx))",
  " if node == nil {",
  "  err := fmt.Errorf(\"attempted to process beacon from node of index %d, but it was not in the group file\", uint32(idx))",
  "  return nil, err",
  " }",
  " msg := h.crypto.DigestBeacon(&common.Beacon{Round: pRound, PreviousSig: p.GetPreviousSignature()})",
  " nodeName := node.Address()",
  " if nodeName == h.addr {",
  "  return nil, fmt.Errorf(\"invalid own index %d in partial with msg %v partial_round %v\", idx, msg, pRound)",
  " }",
  " err = h.crypto.ThresholdScheme.VerifyPartial(h.crypto.GetPub(), msg, p.GetPartialSig())",
  " if err != nil {",
  "  return nil, err",
  " }",
  " if idx == h.crypto.Index() {",
  "  return new(proto.Empty), nil",
  " }",
  " h.chain.NewValidPartial(ctx, addr, p)",
  " return new(proto.Empty), nil",
  "}"
] := rfl

theorem tie_src_beacon_Handler_Transition : Gen.ScriptsC07.beacon_Handler_Transition = [
  "func (h *Handler) Transition(ctx context.Context, prevGroup *key.Group) error {",
  " targetTime := h.conf.Group.TransitionTime",
  " tRound := common.CurrentRound(targetTime, h.conf.Group.Period, h.conf.Group.GenesisTime)",
  " tTime := common.TimeOfRound(h.conf.Group.Period, h.conf.Group.GenesisTime, tRound)",
  " if tTime != targetTime {",
  "  return nil",
  " }",
  " go h.run(targetTime)",
  " ctx, _ = context.WithDeadline(ctx, time.Unix(targetTime, 0).Add(-h.conf.Group.Period))",
  " h.chain.RunSync(ctx, tRound-1, toPeers(prevGroup.Nodes))",
  " return nil",
  "}"
] := rfl

theorem tie_src_beacon_Handler_TransitionNewGroup : Gen.ScriptsC07.beacon_Handler_TransitionNewGroup = [
  "func (h *Handler) TransitionNewGroup(ctx context.Context, newShare *key.Share, newGroup *key.Group) {",
  " if h == nil {",
  "  return",
  " }",
  " targetTime := newGroup.TransitionTime",
  " tRound := common.CurrentRound(targetTime, h.conf.Group.Period, h.conf.Group.GenesisTime)",
  " tTime := common.TimeOfRound(h.conf.Group.Period, h.conf.Group.GenesisTime, tRound)",
  " if tTime != targetTime {",
  "  return",
  " }",
  " targetRound := tRound - 1",
  " h.chain.AddCallback(\"transition\", func(b *common.Beacon, closed bool) {",
  "  if closed ||",
  "   b.Round < targetRound {",
  "   return",
  "  }",
  "  h.crypto.SetInfo(newGroup, newShare)",
  "  h.chain.RemoveCallback(\"transition\")",
  " })",
  "}"
] := rfl

theorem tie_src_beacon_Handler_StopAt : Gen.ScriptsC07.beacon_Handler_StopAt = [
  "func (h *Handler) StopAt(ctx context.Context, stopTime int64) error {",
  " now := h.conf.Clock.Now().Unix()",
  " if stopTime <= now {",
  "  return errors.New(\"can't stop in the past or present\")",
  " }",
  " duration := time.Duration(stopTime-now) * time.Second",
  " h.conf.Clock.Sleep(duration)",
  " h.Stop(ctx)",
  " return nil",
  "}"
] := rfl

theorem tie_src_vault_Vault_SetInfo : Gen.ScriptsC07.vault_Vault_SetInfo = [
  "func (v *Vault) SetInfo(newGroup *key.Group, ks *key.Share) {",
  " v.mu.Lock()",
  " defer v.mu.Unlock()",
  " v.share = ks",
  " v.group = newGroup",
  " v.pub = newGroup.PublicKey.PubPoly(v.Scheme)",
  "}"
] := rfl

theorem tie_src_vault_Vault_GetGroup : Gen.ScriptsC07.vault_Vault_GetGroup = [
  "func (v *Vault) GetGroup() *key.Group {",
  " v.mu.RLock()",
  " defer v.mu.RUnlock()",
  " return v.group",
  "}"
] := rfl

theorem tie_src_vault_Vault_GetPub : Gen.ScriptsC07.vault_Vault_GetPub = [
  "func (v *Vault) GetPub() *share.PubPoly {",
  " v.mu.RLock()",
  " defer v.mu.RUnlock()",
  " return v.pub",
  "}"
] := rfl

theorem tie_src_key_Group_Node : Gen.ScriptsC07.key_Group_Node = [
  "func (g *Group) Node(i Index) *Node {",
  " for _, n := range g.Nodes {",
  "  if n.Index == i {",
  "   return n",
  "  }",
  " }",
  " return nil",
  "}"
] := rfl

theorem tie_src_dkg_Process_startDKGExecution : Gen.ScriptsC07.dkg_Process_startDKGExecution = [
  "func (d *Process) startDKGExecution(",
  " ctx context.Context,",
  " beaconID string,",
  " current *DBState,",
  " config *dkg.Config,",
  ") (*ExecutionOutput, error) {",
  " phaser := dkg.NewTimePhaser(d.config.TimeBetweenDKGPhases)",
  " go phaser.Start()",
  " d.lock.Lock()",
  " broadcaster := d.Executions[beaconID]",
  " d.lock.Unlock()",
  " protocol, err := dkg.NewProtocol(config, broadcaster, phaser, d.config.SkipKeyVerification)",
  " if err != nil {",
  "  return nil, err",
  " }",
  " select {",
  " case <-d.close:",
  "  return nil, errors.New(\"daemon was closed before DKG execution completed\")",
  " case result := <-protocol.WaitEnd():",
  "  if result.Error != nil {",
  "   return nil, result.Error",
  "  }",
  "  var transitionTime int64",
  "  if current.Epoch == 1 {",
  "   transitionTime = current.GenesisTime.Unix()",
  "  } else {",
  "   roundsUntilTransition := 10",
  "   currentRound := common.CurrentRound(time.Now().Unix(), current.BeaconPeriod, current.GenesisTime.Unix())",
  "   transitionTime = common.TimeOfRound(current.BeaconPeriod, current.GenesisTime.Unix(), currentRound+uint64(roundsUntilTransition))",
  "  }",
  "  keypair, err := d.beaconIdentifier.KeypairFor(beaconID)",
  "  if err != nil {",
  "   return nil, err",
  "  }",
  "  share := &key.Share{DistKeyShare: *result.Result.Key, Scheme: keypair.Scheme()}",
  "  var finalGroup []dkg.Node",
  "  for _, v := range result.Result.QUAL {",
  "   finalGroup = append(finalGroup, config.NewNodes[v.Index])",
  "  }",
  "  groupFile, err := asGroup(ctx, current, share, finalGroup, transitionTime)",
  "  if err != nil {",
  "   return nil, err",
  "  }",
  "  output := ExecutionOutput{",
  "   FinalGroup: &groupFile,",
  "   KeyShare: share,",
  "  }",
  "  return &output, nil",
  " case <-time.After(time.Until(current.Timeout)):",
  "  return nil, errors.New(\"DKG timed out\")",
  " }",
  "}"
] := rfl

theorem tie_src_dkg_asGroup : Gen.ScriptsC07.dkg_asGroup = [
  "func asGroup(ctx context.Context, details *DBState, keyShare *key.Share, finalNodes []dkg.Node, transitionTime int64) (key.Group, error) {",
  " sch, err := crypto.GetSchemeByID(details.SchemeID)",
  " if err != nil {",
  "  return key.Group{}, fmt.Errorf(\"the schemeID for the given group did not exist, scheme: %s\", details.SchemeID)",
  " }",
  " allSortedParticipants := util.SortedByPublicKey(append(details.Remaining, details.Joining...))",
  " remainingNodes := make([]*key.Node, len(finalNodes))",
  " for i, v := range finalNodes {",
  "  mappedNode, err := util.ToKeyNode(int(v.Index), allSortedParticipants[v.Index], keyShare.Scheme)",
  "  if err != nil {",
  "   return key.Group{}, err",
  "  }",
  "  remainingNodes[i] = &mappedNode",
  " }",
  " group := key.Group{",
  "  ID: details.BeaconID,",
  "  Threshold: int(details.Threshold),",
  "  Period: details.BeaconPeriod,",
  "  Scheme: sch,",
  "  CatchupPeriod: details.CatchupPeriod,",
  "  GenesisTime: details.GenesisTime.Unix(),",
  "  GenesisSeed: details.GenesisSeed,",
  "  TransitionTime: transitionTime,",
  "  Nodes: remainingNodes,",
  "  PublicKey: keyShare.Public(),",
  " }",
  " if len(group.GenesisSeed) == 0 {",
  "  group.GenesisSeed = group.Hash()",
  " }",
  " return group, nil",
  "}"
] := rfl

theorem tie_src_dkg_Process_reshareDKGConfig : Gen.ScriptsC07.dkg_Process_reshareDKGConfig = [
  "func (d *Process) reshareDKGConfig(",
  " current, previous *DBState,",
  " keypair *key.Pair,",
  " sortedParticipants []*drand.Participant,",
  ") (*dkg.Config, error) {",
  " if previous == nil {",
  "  return nil, errors.New(\"cannot reshare with a nil previous DKG state\")",
  " }",
  " newNodes, err := util.TryMapEach[dkg.Node](sortedParticipants, func(index int, participant *drand.Participant) (dkg.Node, error) {",
  "  return util.ToNode(index, participant, keypair.Scheme())",
  " })",
  " if err != nil {",
  "  return nil, err",
  " }",
  " suite := keypair.Scheme().KeyGroup.(dkg.Suite)",
  " return &dkg.Config{",
  "  Suite: suite,",
  "  Longterm: keypair.Key,",
  "  OldNodes: previous.FinalGroup.DKGNodes(),",
  "  NewNodes: newNodes,",
  "  PublicCoeffs: previous.FinalGroup.PublicKey.Coefficients,",
  "  Share: &previous.KeyShare.DistKeyShare,",
  "  Threshold: int(current.Threshold),",
  "  OldThreshold: int(previous.Threshold),",
  "  Reader: nil,",
  "  UserReaderOnly: false,",
  "  FastSync: true,",
  "  Nonce: nonceFor(current),",
  "  Auth: schnorr.NewScheme(suite),",
  "  Log: d.log,",
  " }, nil",
  "}"
] := rfl

theorem tie_src_core_BeaconProcess_onDKGCompleted : Gen.ScriptsC07.core_BeaconProcess_onDKGCompleted = [
  "func (bp *BeaconProcess) onDKGCompleted(ctx context.Context, dkgOutput *dkg.SharingOutput) error {",
  " if dkgOutput.BeaconID != bp.beaconID {",
  "  return nil",
  " }",
  " p, err := util.PublicKeyAsParticipant(bp.priv.Public)",
  " if err != nil {",
  "  return err",
  " }",
  " weWereInLastEpoch := false",
  " if dkgOutput.Old != nil {",
  "  for _, v := range dkgOutput.Old.FinalGroup.Nodes {",
  "   if v.Addr == p.Address {",
  "    weWereInLastEpoch = true",
  "   }",
  "  }",
  " }",
  " weAreInNextEpoch := false",
  " for _, v := range dkgOutput.New.FinalGroup.Nodes {",
  "  if v.Addr == p.Address {",
  "   weAreInNextEpoch = true",
  "  }",
  " }",
  " if weWereInLastEpoch {",
  "  if weAreInNextEpoch {",
  "   return bp.transitionToNext(ctx, dkgOutput)",
  "  }",
  "  return bp.leaveNetwork(ctx)",
  " }",
  " if weAreInNextEpoch {",
  "  return bp.joinNetwork(ctx, dkgOutput)",
  " }",
  " return errors.New(\"failed to join the network during the DKG but somehow got to transition\")",
  "}"
] := rfl

theorem tie_src_core_BeaconProcess_transitionToNext : Gen.ScriptsC07.core_BeaconProcess_transitionToNext = [
  "func (bp *BeaconProcess) transitionToNext(ctx context.Context, dkgOutput *dkg.SharingOutput) error {",
  " newGroup := dkgOutput.New.FinalGroup",
  " newShare := dkgOutput.New.KeyShare",
  " err := bp.validateGroupTransition(bp.group, newGroup)",
  " if err != nil {",
  "  return err",
  " }",
  " err = bp.storeDKGOutput(ctx, newGroup, newShare)",
  " if err != nil {",
  "  return err",
  " }",
  " if bp.beacon == nil {",
  "  return fmt.Errorf(\"cannot transitionToNext on a nil beacon handler\")",
  " }",
  " bp.beacon.TransitionNewGroup(ctx, newShare, newGroup)",
  " return err",
  "}"
] := rfl

theorem tie_src_core_BeaconProcess_joinNetwork : Gen.ScriptsC07.core_BeaconProcess_joinNetwork = [
  "func (bp *BeaconProcess) joinNetwork(ctx context.Context, dkgOutput *dkg.SharingOutput) error {",
  " newGroup := dkgOutput.New.FinalGroup",
  " newShare := dkgOutput.New.KeyShare",
  " if bp.group != nil {",
  "  err := bp.validateGroupTransition(bp.group, newGroup)",
  "  if err != nil {",
  "   return err",
  "  }",
  " }",
  " err := bp.storeDKGOutput(ctx, newGroup, newShare)",
  " if err != nil {",
  "  return err",
  " }",
  " return bp.StartBeacon(ctx, dkgOutput.New.Epoch != 1)",
  "}"
] := rfl

theorem tie_src_core_BeaconProcess_leaveNetwork : Gen.ScriptsC07.core_BeaconProcess_leaveNetwork = [
  "func (bp *BeaconProcess) leaveNetwork(ctx context.Context) error {",
  " timeToStop := bp.group.TransitionTime - 1",
  " err := bp.beacon.StopAt(ctx, timeToStop)",
  " if err != nil {",
  " } else {",
  " }",
  " err = bp.store.Reset()",
  " return err",
  "}"
] := rfl

theorem tie_src_core_BeaconProcess_validateGroupTransition : Gen.ScriptsC07.core_BeaconProcess_validateGroupTransition = [
  "func (bp *BeaconProcess) validateGroupTransition(oldGroup, newGroup *key.Group) error {",
  " if oldGroup == nil {",
  "  if newGroup == nil {",
  "   return errors.New(\"the new group file could not be transitioned to, as it was `nil`\")",
  "  }",
  "  return nil",
  " }",
  " if oldGroup.GenesisTime != newGroup.GenesisTime {",
  "  return errors.New(\"control: old and new group have different genesis time\")",
  " }",
  " if oldGroup.Period != newGroup.Period {",
  "  return errors.New(\"control: old and new group have different period - unsupported feature at the moment\")",
  " }",
  " if !common.CompareBeaconIDs(oldGroup.ID, newGroup.ID) {",
  "  return errors.New(\"control: old and new group have different ID - unsupported feature at the moment\")",
  " }",
  " if !bytes.Equal(oldGroup.GetGenesisSeed(), newGroup.GetGenesisSeed()) {",
  "  return errors.New(\"control: old and new group have different genesis seed\")",
  " }",
  " now := bp.opts.clock.Now().Unix()",
  " if newGroup.TransitionTime < now {",
  "  return errors.New(\"control: new group with transition time in the past\")",
  " }",
  " return nil",
  "}"
] := rfl

theorem tie_src_chain_Info_Hash : Gen.ScriptsC07.chain_Info_Hash = [
  "func (i *Info) Hash() []byte {",
  " h := sha256.New()",
  " _ = binary.Write(h, binary.BigEndian, uint32(i.Period.Seconds()))",
  " _ = binary.Write(h, binary.BigEndian, i.GenesisTime)",
  " buff, err := i.PublicKey.MarshalBinary()",
  " if err != nil {",
  "  log.DefaultLogger().Errorw(\"chain info: failed to hash pubkey\", \"err\", err)",
  " }",
  " _, _ = h.Write(buff)",
  " _, _ = h.Write(i.GenesisSeed)",
  " if !common.IsDefaultBeaconID(i.ID) {",
  "  _, _ = h.Write([]byte(i.ID))",
  " }",
  " return h.Sum(nil)",
  "}"
] := rfl

theorem tie_src_chain_NewChainInfo : Gen.ScriptsC07.chain_NewChainInfo = [
  "func NewChainInfo(g *key.Group) *Info {",
  " return &Info{",
  "  ID: g.ID,",
  "  Period: g.Period,",
  "  Scheme: g.Scheme.Name,",
  "  PublicKey: g.PublicKey.Key(),",
  "  GenesisTime: g.GenesisTime,",
  "  GenesisSeed: g.GetGenesisSeed(),",
  " }",
  "}"
] := rfl

end Golden.C07
