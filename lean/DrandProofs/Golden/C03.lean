/-
Golden copies of the source skeletons property C03 depends on (tools/go2lean/scripts.cfg). Each theorem says: the
statements of this function in /repo's working tree are still the ones the model and the theorems of C03 were
written against (logging, metrics and tracing statements and comments are not part of the text). Written by
`go2lean -golden`; a reviewed change of the source is followed by regenerating this file.
-/
import Gen.ScriptsC03

namespace Golden.C03

theorem tie_src_beacon_Handler_ProcessPartialBeacon : Gen.ScriptsC03.beacon_Handler_ProcessPartialBeacon = [
  "func (h *Handler) ProcessPartialBeacon(ctx context.Context, p *proto.PartialBeaconPacket) (*proto.Empty, error) {",
  " addr := net.RemoteAddress(ctx)",
  " pRound := p.GetRound()",
  " nextRound, _ := common.NextRound(h.conf.Clock.Now().Unix(), h.conf.Group.Period, h.conf.Group.GenesisTime)",
  " currentRound := nextRound - 1",
  " if pRound > nextRound {",
  "  return nil, fmt.Errorf(\"invalid round: %d instead of %d\", pRound, currentRound)",
  " }",
  " if latest, err := h.chain.Last(ctx); err == nil && pRound <= latest.GetRound() {",
  "  return new(proto.Empty), nil",
  " }",
  " idx, err := h.crypto.ThresholdScheme.IndexOf(p.GetPartialSig())",
  " if err != nil {",
  "  return nil, err",
  " }",
  " if idx < 0 {",
  "  err := fmt.Errorf(\"invalid index %d in partial for round %v\", idx, pRound)",
  "  return nil, err",
  " }",
  " node := h.crypto.GetGroup().Node(uint32(idx))",
  " if node == nil {",
  "  err := fmt.Errorf(\"attempted to process beacon from node of index %d, but it was not in the group file\", uint32(idx))",
  "  return nil, err",
  " }",
  " msg := h.crypto.DigestBeacon(&common.Beacon{Round: pRound, PreviousSig: p.GetPreviousSignature()})",
  " nodeName := node.Address()",
  " if nodeName == h.addr {",
  "  return nil, fmt.Errorf(\"invalid own index %d in partial with msg %v partial_round %v\", idx, msg, pRound)",
  " }",
  " err = h.crypto.ThresholdScheme.VerifyPartial(h.crypto.GetPub(), msg, p.GetPartialSig())",
  " if err != nil {",
  "  return nil, err",
  " }",
  " if idx == h.crypto.Index() {",
  "  return new(proto.Empty), nil",
  " }",
  " h.chain.NewValidPartial(ctx, addr, p)",
  " return new(proto.Empty), nil",
  "}"
] := rfl

theorem tie_src_beacon_chainStore_runAggregator : Gen.ScriptsC03.beacon_chainStore_runAggregator = [
  "func (c *chainStore) runAggregator() {",
  " select {",
  " case <-c.ctx.Done():",
  "  return",
  " default:",
  " }",
  " var lastBeacon *common.Beacon",
  " var cache = newPartialCache(c.l, c.crypto.Scheme)",
  " for {",
  "  select {",
  "  case <-c.ctx.Done():",
  "   return",
  "  case lastBeacon = <-c.beaconStoredAgg:",
  "   cache.FlushRounds(lastBeacon.Round)",
  "  case partial := <-c.newPartials:",
  "   var err error",
  "   if lastBeacon == nil {",
  "    lastBeacon, err = c.Last(ctx)",
  "    if err != nil {",
  "     if errors.Is(err, context.Canceled) {",
  "      return",
  "     }",
  "     if strings.Contains(err.Error(), \"sql: database is closed\") {",
  "      return",
  "     }",
  "    }",
  "   }",
  "   pRound := partial.p.GetRound()",
  "   isNotInPast := pRound > lastBeacon.Round",
  "   isNotTooFar := pRound <= lastBeacon.Round+partialCacheStoreLimit+1",
  "   shouldStore := isNotInPast && isNotTooFar",
  "   if !shouldStore {",
  "    break",
  "   }",
  "   thr := c.crypto.GetGroup().Threshold",
  "   n := c.crypto.GetGroup().Len()",
  "   select {",
  "   case <-ctx.Done():",
  "    return",
  "   default:",
  "   }",
  "   err = cache.Append(partial.p)",
  "   if err != nil {",
  "    break",
  "   }",
  "   roundCache := cache.GetRoundCache(partial.p.GetRound(), partial.p.GetPreviousSignature())",
  "   if roundCache == nil {",
  "    break",
  "   }",
  "   if roundCache.Len() < thr {",
  "    break",
  "   }",
  "   msg := c.crypto.DigestBeacon(roundCache)",
  "   finalSig, err := c.crypto.ThresholdScheme.Recover(c.crypto.GetPub(), msg, roundCache.Partials(), thr, n)",
  "   if err != nil {",
  "    break",
  "   }",
  "   if err := c.crypto.ThresholdScheme.VerifyRecovered(c.crypto.GetPub().Commit(), msg, finalSig); err != nil {",
  "    break",
  "   }",
  "   cache.FlushRounds(partial.p.GetRound())",
  "   newBeacon := &common.Beacon{",
  "    Round: roundCache.round,",
  "    PreviousSig: roundCache.prev,",
  "    Signature: finalSig,",
  "   }",
  "   if c.tryAppend(ctx, lastBeacon, newBeacon) {",
  "    lastBeacon = newBeacon",
  "    break",
  "   }",
  "   select {",
  "   case <-c.ctx.Done():",
  "    return",
  "   default:",
  "   }",
  "   if c.shouldSync(lastBeacon, newBeacon) {",
  "    peers := toPeers(c.crypto.GetGroup().Nodes)",
  "    c.syncm.SendSyncRequest(ctx, newBeacon.Round, peers)",
  "   }",
  "  }",
  " }",
  "}"
] := rfl

theorem tie_src_beacon_chainStore_NewValidPartial : Gen.ScriptsC03.beacon_chainStore_NewValidPartial = [
  "func (c *chainStore) NewValidPartial(ctx context.Context, addr string, p *drand.PartialBeaconPacket) {",
  " spanCtx := oteltrace.SpanContextFromContext(ctx)",
  " c.newPartials <- partialInfo{",
  "  spanContext: spanCtx,",
  "  addr: addr,",
  "  p: p,",
  " }",
  "}"
] := rfl

theorem tie_src_beacon_Handler_broadcastNextPartial : Gen.ScriptsC03.beacon_Handler_broadcastNextPartial = [
  "func (h *Handler) broadcastNextPartial(ctx context.Context, current roundInfo, upon *common.Beacon) {",
  " if upon.Round > current.round {",
  "  return",
  " }",
  " previousSig := upon.Signature",
  " round := upon.Round + 1",
  " beaconID := common.GetCanonicalBeaconID(h.conf.Group.ID)",
  " if current.round == upon.Round {",
  "  previousSig = upon.PreviousSig",
  "  round = current.round",
  " }",
  " msg := h.crypto.DigestBeacon(&common.Beacon{",
  "  Round: round,",
  "  PreviousSig: previousSig,",
  " })",
  " currSig, err := h.crypto.SignPartial(msg)",
  " if err != nil {",
  "  return",
  " }",
  " metadata := proto.NewMetadata(h.version.ToProto())",
  " metadata.BeaconID = beaconID",
  " packet := &proto.PartialBeaconPacket{",
  "  Round: round,",
  "  PreviousSignature: previousSig,",
  "  PartialSig: currSig,",
  "  Metadata: metadata,",
  " }",
  " h.chain.NewValidPartial(ctx, h.addr, packet)",
  " for _, id := range h.crypto.GetGroup().Nodes {",
  "  select {",
  "  case <-ctx.Done():",
  "   return",
  "  default:",
  "  }",
  "  idt := id.Identity",
  "  if h.addr == id.Address() {",
  "   continue",
  "  }",
  "  go func(i key.Identity) {",
  "   select {",
  "   case <-ctx.Done():",
  "    return",
  "   default:",
  "   }",
  "   err := h.client.PartialBeacon(ctx, &i, packet)",
  "   if err != nil {",
  "    return",
  "   }",
  "  }(*idt)",
  " }",
  "}"
] := rfl

theorem tie_src_beacon_Handler_TransitionNewGroup : Gen.ScriptsC03.beacon_Handler_TransitionNewGroup = [
  "func (h *Handler) TransitionNewGroup(ctx context.Context, newShare *key.Share, newGroup *key.Group) {",
  " if h == nil {",
  "  return",
  " }",
  " targetTime := newGroup.TransitionTime",
  " tRound := common.CurrentRound(targetTime, h.conf.Group.Period, h.conf.Group.GenesisTime)",
  " tTime := common.TimeOfRound(h.conf.Group.Period, h.conf.Group.GenesisTime, tRound)",
  " if tTime != targetTime {",
  "  return",
  " }",
  " targetRound := tRound - 1",
  " h.chain.AddCallback(\"transition\", func(b *common.Beacon, closed bool) {",
  "  if closed ||",
  "   b.Round < targetRound {",
  "   return",
  "  }",
  "  h.crypto.SetInfo(newGroup, newShare)",
  "  h.chain.RemoveCallback(\"transition\")",
  " })",
  " if last, err := h.chain.Last(ctx); err == nil && last.Round >= targetRound {",
  "  h.crypto.SetInfo(newGroup, newShare)",
  "  h.chain.RemoveCallback(\"transition\")",
  " }",
  "}"
] := rfl

theorem tie_src_beacon_partialCache_Append : Gen.ScriptsC03.beacon_partialCache_Append = [
  "func (c *partialCache) Append(p *drand.PartialBeaconPacket) error {",
  " id := roundID(p.GetRound(), p.GetPreviousSignature())",
  " idx, err := c.scheme.ThresholdScheme.IndexOf(p.GetPartialSig())",
  " if err != nil {",
  "  return err",
  " }",
  " round, err := c.getCache(id, p)",
  " if round == nil || err != nil {",
  "  return fmt.Errorf(\"could not get round from cache: %w\", err)",
  " }",
  " if round.append(p) {",
  "  c.rcvd[idx] = append(c.rcvd[idx], id)",
  " }",
  " return nil",
  "}"
] := rfl

theorem tie_src_beacon_partialCache_getCache : Gen.ScriptsC03.beacon_partialCache_getCache = [
  "func (c *partialCache) getCache(id string, p *drand.PartialBeaconPacket) (*roundCache, error) {",
  " idx, err := c.scheme.ThresholdScheme.IndexOf(p.GetPartialSig())",
  " if err != nil {",
  "  return nil, err",
  " }",
  " round, exists := c.rounds[id]",
  " if exists {",
  "  if _, seen := round.sigs[idx]; seen {",
  "   return round, nil",
  "  }",
  " }",
  " if len(c.rcvd[idx]) >= MaxPartialsPerNode {",
  "  toEvict := c.rcvd[idx][0]",
  "  evicted, ok := c.rounds[toEvict]",
  "  if !ok {",
  "   return nil, fmt.Errorf(\"evicted round missing from cache\")",
  "  }",
  "  evicted.flushIndex(idx)",
  "  c.rcvd[idx] = c.rcvd[idx][1:]",
  "  if evicted.Len() == 0 {",
  "   delete(c.rounds, toEvict)",
  "  }",
  " }",
  " if exists {",
  "  return round, nil",
  " }",
  " round = newRoundCache(id, p, c.scheme)",
  " c.rounds[id] = round",
  " return round, nil",
  "}"
] := rfl

theorem tie_src_beacon_partialCache_FlushRounds : Gen.ScriptsC03.beacon_partialCache_FlushRounds = [
  "func (c *partialCache) FlushRounds(round uint64) {",
  " for id, cache := range c.rounds {",
  "  if cache.round > round {",
  "   continue",
  "  }",
  "  delete(c.rounds, id)",
  "  for idx := range cache.sigs {",
  "   var idSlice = c.rcvd[idx][:0]",
  "   for _, idd := range c.rcvd[idx] {",
  "    if idd == id {",
  "     continue",
  "    }",
  "    idSlice = append(idSlice, idd)",
  "   }",
  "   if len(idSlice) > 0 {",
  "    c.rcvd[idx] = idSlice",
  "   } else {",
  "    delete(c.rcvd, idx)",
  "   }",
  "  }",
  " }",
  "}"
] := rfl

theorem tie_src_beacon_partialCache_GetRoundCache : Gen.ScriptsC03.beacon_partialCache_GetRoundCache = [
  "func (c *partialCache) GetRoundCache(round uint64, previous []byte) *roundCache {",
  " id := roundID(round, previous)",
  " return c.rounds[id]",
  "}"
] := rfl

theorem tie_src_beacon_roundID : Gen.ScriptsC03.beacon_roundID = [
  "func roundID(round uint64, previous []byte) string {",
  " var buff bytes.Buffer",
  " _ = binary.Write(&buff, binary.BigEndian, round)",
  " _, _ = buff.Write(previous)",
  " return buff.String()",
  "}"
] := rfl

theorem tie_src_beacon_newRoundCache : Gen.ScriptsC03.beacon_newRoundCache = [
  "func newRoundCache(id string, p *drand.PartialBeaconPacket, s *crypto.Scheme) *roundCache {",
  " return &roundCache{",
  "  round: p.GetRound(),",
  "  prev: p.GetPreviousSignature(),",
  "  id: id,",
  "  sigs: make(map[int][]byte),",
  "  scheme: s,",
  " }",
  "}"
] := rfl

theorem tie_src_beacon_roundCache_append : Gen.ScriptsC03.beacon_roundCache_append = [
  "func (r *roundCache) append(p *drand.PartialBeaconPacket) bool {",
  " idx, err := r.scheme.ThresholdScheme.IndexOf(p.GetPartialSig())",
  " if err != nil {",
  "  return false",
  " }",
  " _, seen := r.sigs[idx]",
  " r.sigs[idx] = p.GetPartialSig()",
  " return !seen",
  "}"
] := rfl

theorem tie_src_beacon_roundCache_Len : Gen.ScriptsC03.beacon_roundCache_Len = [
  "func (r *roundCache) Len() int {",
  " return len(r.sigs)",
  "}"
] := rfl

theorem tie_src_beacon_roundCache_Partials : Gen.ScriptsC03.beacon_roundCache_Partials = [
  "func (r *roundCache) Partials() [][]byte {",
  " partials := make([][]byte, 0, len(r.sigs))",
  " for _, sig := range r.sigs {",
  "  partials = append(partials, sig)",
  " }",
  " return partials",
  "}"
] := rfl

theorem tie_src_vault_Vault_SetInfo : Gen.ScriptsC03.vault_Vault_SetInfo = [
  "func (v *Vault) SetInfo(newGroup *key.Group, ks *key.Share) {",
  " v.mu.Lock()",
  " defer v.mu.Unlock()",
  " v.share = ks",
  " v.group = newGroup",
  " v.pub = newGroup.PublicKey.PubPoly(v.Scheme)",
  "}"
] := rfl

theorem tie_src_vault_Vault_GetGroup : Gen.ScriptsC03.vault_Vault_GetGroup = [
  "func (v *Vault) GetGroup() *key.Group {",
  " v.mu.RLock()",
  " defer v.mu.RUnlock()",
  " return v.group",
  "}"
] := rfl

theorem tie_src_vault_Vault_GetPub : Gen.ScriptsC03.vault_Vault_GetPub = [
  "func (v *Vault) GetPub() *share.PubPoly {",
  " v.mu.RLock()",
  " defer v.mu.RUnlock()",
  " return v.pub",
  "}"
] := rfl

theorem tie_src_vault_Vault_SignPartial : Gen.ScriptsC03.vault_Vault_SignPartial = [
  "func (v *Vault) SignPartial(msg []byte) ([]byte, error) {",
  " v.mu.RLock()",
  " defer v.mu.RUnlock()",
  " return v.ThresholdScheme.Sign(v.share.PrivateShare(), msg)",
  "}"
] := rfl

theorem tie_src_vault_Vault_Index : Gen.ScriptsC03.vault_Vault_Index = [
  "func (v *Vault) Index() int {",
  " v.mu.RLock()",
  " defer v.mu.RUnlock()",
  " return v.share.Share.I",
  "}"
] := rfl

theorem tie_src_key_Group_Node : Gen.ScriptsC03.key_Group_Node = [
  "func (g *Group) Node(i Index) *Node {",
  " for _, n := range g.Nodes {",
  "  if n.Index == i {",
  "   return n",
  "  }",
  " }",
  " return nil",
  "}"
] := rfl

theorem tie_src_key_Group_Find : Gen.ScriptsC03.key_Group_Find = [
  "func (g *Group) Find(pub *Identity) *Node {",
  " for _, pu := range g.Nodes {",
  "  if pu.Identity.Equal(pub) {",
  "   return &Node{",
  "    Identity: &Identity{",
  "     Key: pu.Key,",
  "     Addr: pu.Addr,",
  "     Signature: pu.Signature,",
  "     Scheme: g.Scheme,",
  "    },",
  "    Index: pu.Index,",
  "   }",
  "  }",
  " }",
  " return nil",
  "}"
] := rfl

theorem tie_src_key_Group_Len : Gen.ScriptsC03.key_Group_Len = [
  "func (g *Group) Len() int {",
  " return len(g.Nodes)",
  "}"
] := rfl

end Golden.C03
