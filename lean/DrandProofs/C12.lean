/-
C12 — remote parties cannot stall beacon storage or grow node state without bound.

Part (a), this file: `callbackStore` (model Drand/Chain/CallbackStore.lean). Part (b), the partial cache, is proved in
DrandProofs/C12Cache.lean (imported; its theorems are audited under C12 as well).

Full statement for (a):   storing a new beacon never waits on a stream consumer that is slow or has stopped reading.
  * `c12_put_never_waits`          holds for the variant whose dispatch is a `select` with `default` (cfg.blocking = false)
  * for the code as it is (plain send, `Gen.callbackPutDispatchBlocking = true`) the full statement is FALSE:
      `c12_put_nonblocking_partial`   a Put completes provided the workers of the ids it still has to reach take a job
                                      (their callback returns) — the hypothesis the proof forces;
      `c12_stall_counterexample`      one consumer whose callback never returns, CallbackWorkerQueue+2 Puts: the last Put
                                      cannot send, RemoveCallback and AddCallback cannot take the write lock;
      `c12_stall_is_permanent`        … and no schedule without that callback returning ever changes this;
      `c12_addcallback_stall_counterexample`  the close signal of AddCallback blocks *inside* the write lock.
  * `c12_queue_bound`              every queue holds at most CallbackWorkerQueue jobs (both variants): memory per consumer is bounded.
The witnesses are replayed on the real callbackStore by the `cbstore` engine (vlib/props/C12.py).
-/
import Drand.Chain.CallbackStore
import Gen.Consts
import Gen.Callback
import DrandProofs.C12Cache

namespace Drand.Chain.Callback
open Drand

/-! ### ties to the regenerated facts -/

/-- the shape of `callbackStore.Put` / `AddCallback` / `RemoveCallback` the model relies on (which of the two
variants the code has is NOT pinned here: the regenerated facts select the machine — `step` for the code as it was,
`stepR` for the repaired store — see `tie_callback_variant` in DrandProofs/C12R.lean) -/
theorem tie_callback_put_shape :
    Gen.callbackPutBaseFirst = true ∧ (Gen.callbackPutHoldsReadLock = true ∨ Gen.callbackPutHoldsWriteLock = true) ∧
    Gen.callbackAddLocked = true ∧ Gen.callbackRemoveLocked = true ∧ Gen.callbackChanCap = "CallbackWorkerQueue" := by decide

/-- the configuration of the code as it is -/
def asIsCfg : Cfg :=
  { cap := Gen.callbackWorkerQueue, blocking := Gen.callbackPutDispatchBlocking, closeBlocking := Gen.callbackAddCloseSendBlocking }

theorem tie_callback_queue_const : asIsCfg.cap = Gen.callbackWorkerQueue ∧ 0 < Gen.callbackWorkerQueue := by decide

/-! ### small facts about the association list of channels -/

theorem mem_setChan {s : St} {id : String} {c : Chan} {e : String × Chan}
    (h : e ∈ (setChan s id c).chans) : e ∈ s.chans ∨ e = (id, c) := by
  simp only [setChan, List.mem_map] at h
  obtain ⟨x, hx, rfl⟩ := h
  by_cases hb : (x.1 == id) = true
  · simp [hb]
  · simp [hb, hx]

theorem mem_setOrphan {s : St} {id : String} {c : Chan} {e : String × Chan}
    (h : e ∈ (setOrphan s id c).orphans) : e ∈ s.orphans ∨ e = (id, c) := by
  simp only [setOrphan, List.mem_map] at h
  obtain ⟨x, hx, rfl⟩ := h
  by_cases hb : (x.1 == id) = true
  · simp [hb]
  · simp [hb, hx]

theorem chanOf_mem {s : St} {id : String} {c : Chan} (h : chanOf s id = some c) : ∃ i, (i, c) ∈ s.chans := by
  simp only [chanOf, Option.map_eq_some_iff] at h
  obtain ⟨e, he, rfl⟩ := h
  exact ⟨e.1, List.mem_of_find?_eq_some he⟩

theorem orphanOf_mem {s : St} {id : String} {c : Chan} (h : orphanOf s id = some c) : ∃ i, (i, c) ∈ s.orphans := by
  simp only [orphanOf, Option.map_eq_some_iff] at h
  obtain ⟨e, he, rfl⟩ := h
  exact ⟨e.1, List.mem_of_find?_eq_some he⟩

/-! ### bounded queues -/

/-- every channel — registered, or removed and still draining — holds at most `cap` jobs -/
def QInv (cfg : Cfg) (s : St) : Prop :=
  (∀ e ∈ s.chans, e.2.queue.length ≤ cfg.cap) ∧ (∀ e ∈ s.orphans, e.2.queue.length ≤ cfg.cap)

private theorem qinv_install {cfg : Cfg} {s : St} (id : String) (h : QInv cfg s) : QInv cfg (install s id) := by
  unfold install
  split
  · refine ⟨?_, h.2⟩
    intro e he
    rcases mem_setChan (s := s) he with h1 | h1
    · exact h.1 e h1
    · subst h1; simp
  · refine ⟨?_, h.2⟩
    intro e he
    simp only [List.mem_append, List.mem_singleton] at he
    rcases he with h1 | h1
    · exact h.1 e h1
    · subst h1; simp

private theorem qinv_step {cfg : Cfg} {s s' : St} (e : Ev) (h : QInv cfg s) (hs : step cfg s e = some s') : QInv cfg s' := by
  cases e with
  | putBegin b =>
    simp only [step] at hs
    split at hs
    · cases hs
    · split at hs <;> (cases hs; exact h)
  | putSend i =>
    simp only [step] at hs
    split at hs
    · cases hs
    · rename_i p hp
      split at hs
      · cases hs
      · rename_i id rest hrem
        split at hs
        · cases hs; exact h
        · rename_i c hc
          split at hs
          · rename_i hlt
            cases hs
            refine ⟨?_, h.2⟩
            intro e he
            rcases mem_setChan (s := s) he with h1 | h1
            · exact h.1 e h1
            · subst h1; simp; omega
          · split at hs
            · cases hs
            · cases hs; exact h
  | putEnd i =>
    simp only [step] at hs
    split at hs
    · split at hs
      · cases hs; exact h
      · cases hs
    · cases hs
  | take id =>
    simp only [step] at hs
    split at hs
    · rename_i c hc
      split at hs
      · cases hs
      · split at hs
        · cases hs
        · rename_i j q hq
          cases hs
          refine ⟨?_, h.2⟩
          intro e he
          rcases mem_setChan (s := s) he with h1 | h1
          · exact h.1 e h1
          · subst h1
            obtain ⟨i, hi⟩ := chanOf_mem hc
            have := h.1 _ hi
            simp [hq] at this ⊢; omega
    · cases hs
  | done id =>
    simp only [step] at hs
    split at hs
    · rename_i c hc
      split at hs
      · cases hs
        refine ⟨?_, h.2⟩
        intro e he
        rcases mem_setChan (s := s) he with h1 | h1
        · exact h.1 e h1
        · subst h1
          obtain ⟨i, hi⟩ := chanOf_mem hc
          simpa using h.1 _ hi
      · cases hs
    · cases hs
  | takeO id =>
    simp only [step] at hs
    split at hs
    · rename_i c hc
      split at hs
      · cases hs
      · split at hs
        · cases hs
        · rename_i j q hq
          cases hs
          refine ⟨h.1, ?_⟩
          intro e he
          rcases mem_setOrphan (s := s) he with h1 | h1
          · exact h.2 e h1
          · subst h1
            obtain ⟨i, hi⟩ := orphanOf_mem hc
            have := h.2 _ hi
            simp [hq] at this ⊢; omega
    · cases hs
  | doneO id =>
    simp only [step] at hs
    split at hs
    · rename_i c hc
      split at hs
      · cases hs
        refine ⟨h.1, ?_⟩
        intro e he
        rcases mem_setOrphan (s := s) he with h1 | h1
        · exact h.2 e h1
        · subst h1
          obtain ⟨i, hi⟩ := orphanOf_mem hc
          simpa using h.2 _ hi
      · cases hs
    · cases hs
  | remove id =>
    simp only [step] at hs
    split at hs
    · cases hs
    · cases hs
      refine ⟨?_, ?_⟩
      · intro e he
        exact h.1 e (List.mem_filter.mp he).1
      · intro e he
        simp only [List.mem_append, List.mem_filter] at he
        rcases he with h1 | h1
        · exact h.2 e h1.1
        · exact h.1 e h1.1
  | add id =>
    simp only [step] at hs
    split at hs
    · cases hs
    · split at hs
      · split at hs
        · cases hs; exact qinv_install id h
        · cases hs; exact h
      · cases hs; exact qinv_install id h
  | addResume =>
    simp only [step] at hs
    split at hs
    · cases hs
    · rename_i id hw
      split at hs
      · split at hs
        · cases hs; exact qinv_install id h
        · cases hs
      · cases hs; exact qinv_install id h

/-- **C12 (bounded state).** Whatever the consumers do and however many beacons are stored, no callback queue ever
holds more than `CallbackWorkerQueue` jobs — for every schedule (steps that are not enabled leave the state alone),
in both dispatch variants. -/
theorem c12_queue_bound (cfg : Cfg) (es : List Ev) (s : St) (h : QInv cfg s) : QInv cfg (runSkip cfg s es) := by
  induction es generalizing s with
  | nil => exact h
  | cons e es ih =>
    simp only [runSkip, List.foldl_cons]
    apply ih
    cases hs : step cfg s e with
    | none => simpa using h
    | some s' => simpa using qinv_step e h hs

example : QInv asIsCfg (runSkip asIsCfg {} [.add "c", .putBegin ⟨1, [], []⟩, .putSend 0, .putEnd 0]) :=
  c12_queue_bound _ _ _ ⟨by simp, by simp⟩

/-! ### the corrected variant never waits -/

private theorem putSend_puts {cfg : Cfg} {s s' : St} {i : Nat} {p : InPut} {id : String} {rest : List String}
    (hp : s.puts[i]? = some p) (hr : p.rem = id :: rest) (hs : step cfg s (.putSend i) = some s') :
    s'.puts = s.puts.set i { p with rem := rest } := by
  simp only [step, hp, hr] at hs
  split at hs
  · cases hs; rfl
  · split at hs
    · cases hs; rfl
    · split at hs
      · cases hs
      · cases hs; rfl

theorem eraseIdx_set {α : Type} (l : List α) (i : Nat) (a : α) : (l.set i a).eraseIdx i = l.eraseIdx i := by
  induction l generalizing i with
  | nil => simp
  | cons x t ih =>
    cases i with
    | zero => simp
    | succ i => simp [ih]

theorem getElem?_set_self' {α : Type} (l : List α) (i : Nat) (a b : α) (h : l[i]? = some b) : (l.set i a)[i]? = some a := by
  have : i < l.length := by
    rcases Nat.lt_or_ge i l.length with h1 | h1
    · exact h1
    · simp [List.getElem?_eq_none h1] at h
  simp [this]

/-- **C12 (no stall), corrected variant.** With a `select`/`default` dispatch a Put in progress can always take its
next step, whatever the consumers do: it needs no step of any other goroutine. -/
theorem c12_put_never_waits (cfg : Cfg) (hb : cfg.blocking = false) (s : St) (i : Nat) (p : InPut)
    (hp : s.puts[i]? = some p) :
    (p.rem ≠ [] → (step cfg s (.putSend i)).isSome = true) ∧ (p.rem = [] → (step cfg s (.putEnd i)).isSome = true) := by
  constructor
  · intro hne
    cases hr : p.rem with
    | nil => exact absurd hr hne
    | cons id rest =>
      simp only [step, hp, hr]
      cases hc : chanOf s id with
      | none => simp
      | some c =>
        by_cases hl : c.queue.length < cfg.cap <;> simp [hl, hb]
  · intro he
    simp [step, hp, he]

/-- … and it returns after exactly `|rem|` sends and the unlock, with no step of anybody else in between. -/
theorem c12_put_completes_alone (cfg : Cfg) (hb : cfg.blocking = false) :
    ∀ (n : Nat) (s : St) (i : Nat) (p : InPut), s.puts[i]? = some p → p.rem.length = n →
      ∃ s', run cfg s (List.replicate n (.putSend i) ++ [.putEnd i]) = some s' ∧ s'.puts = s.puts.eraseIdx i := by
  intro n
  induction n with
  | zero =>
    intro s i p hp hn
    have he : p.rem = [] := List.eq_nil_of_length_eq_zero hn
    refine ⟨{ s with puts := s.puts.eraseIdx i }, ?_, rfl⟩
    simp [run, step, hp, he]
  | succ n ih =>
    intro s i p hp hn
    cases hr : p.rem with
    | nil => simp [hr] at hn
    | cons id rest =>
      have hen := (c12_put_never_waits cfg hb s i p hp).1 (by simp [hr])
      cases hs : step cfg s (.putSend i) with
      | none => simp [hs] at hen
      | some s1 =>
        have hp1 := putSend_puts hp hr hs
        have hp1' : s1.puts[i]? = some { p with rem := rest } := by
          rw [hp1]; exact getElem?_set_self' _ _ _ _ hp
        obtain ⟨s', hrun, hpu⟩ := ih s1 i { p with rem := rest } hp1' (by simp [hr] at hn; simpa using hn)
        refine ⟨s', ?_, ?_⟩
        · simp only [List.replicate_succ, List.cons_append, run, hs]; exact hrun
        · rw [hpu, hp1, eraseIdx_set]

/-! ### the code as it is: a Put completes only if the workers it has to reach make progress -/

theorem find_map_key (l : List (String × Chan)) (x id : String) (v : Chan) :
    ((l.map fun e => if e.1 == x then (x, v) else e).find? (·.1 == id)).map (·.2)
      = ((l.find? (·.1 == id)).map (·.2)).map (fun old => if x = id then v else old) := by
  induction l with
  | nil => simp
  | cons e t ih =>
    simp only [List.map_cons, List.find?_cons]
    by_cases hx : (e.1 == x) = true
    · have hx' : e.1 = x := by simpa using hx
      simp only [hx, if_true]
      by_cases hi : (x == id) = true
      · have hi' : x = id := by simpa using hi
        have h2 : (e.1 == id) = true := by simp [hx', hi']
        simp [h2, hi']
      · have hi' : ¬ x = id := by simpa using hi
        have h2 : (e.1 == id) = false := by simp [hx', hi']
        simp only [Bool.not_eq_true] at hi
        simp only [hi, h2]
        exact ih
    · by_cases hi : (e.1 == id) = true
      · have h3 : ¬ x = id := by
          intro h; apply hx; have : e.1 = id := by simpa using hi
          simp [this, h]
        simp [hi, h3, hx]
      · simp only [Bool.not_eq_true] at hi hx
        simp only [hx, Bool.false_eq_true, if_false, hi]
        exact ih
theorem chanOf_setChan (s : St) (x id : String) (v : Chan) :
    chanOf (setChan s x v) id = (chanOf s id).map (fun old => if x = id then v else old) := by
  simp only [chanOf, setChan]
  exact find_map_key s.chans x id v

private theorem run_cons (cfg : Cfg) (s : St) (e : Ev) (es : List Ev) :
    run cfg s (e :: es) = (step cfg s e).bind (fun s' => run cfg s' es) := by
  simp only [run]; cases step cfg s e <;> rfl

private theorem run_append (cfg : Cfg) (a b : List Ev) (s : St) :
    run cfg s (a ++ b) = (run cfg s a).bind (fun s' => run cfg s' b) := by
  induction a generalizing s with
  | nil => simp [run]
  | cons e t ih =>
    simp only [List.cons_append, run_cons]
    cases step cfg s e with
    | none => simp
    | some s1 => simpa using ih s1

/-- the worker of `id` makes room in its queue: at most "callback returns" and "takes the next job" -/
private theorem make_room (cfg : Cfg) (hcap : 0 < cfg.cap) (s : St) (hq : QInv cfg s) (id : String) (c : Chan)
    (hc : chanOf s id = some c) :
    ∃ es s1, (∀ e ∈ es, e = .take id ∨ e = .done id) ∧ run cfg s es = some s1 ∧ s1.puts = s.puts ∧ QInv cfg s1 ∧
      ∃ c1, chanOf s1 id = some c1 ∧ c1.queue.length < cfg.cap := by
  by_cases hl : c.queue.length < cfg.cap
  · exact ⟨[], s, by simp, rfl, rfl, hq, c, hc, hl⟩
  · -- the queue is full, hence not empty
    obtain ⟨i0, hi0⟩ := chanOf_mem hc
    have hle := hq.1 _ hi0
    -- first let a running callback return
    have hidle : ∃ esA sA, (∀ e ∈ esA, e = .take id ∨ e = .done id) ∧ run cfg s esA = some sA ∧ sA.puts = s.puts ∧ QInv cfg sA ∧
        chanOf sA id = some { c with busy := false } := by
      by_cases hb : c.busy = true
      · have hs : step cfg s (.done id) = some (setChan s id { c with busy := false }) := by simp [step, hc, hb]
        refine ⟨[.done id], setChan s id { c with busy := false }, by simp, by simp [run, hs], rfl, qinv_step _ hq hs, ?_⟩
        simp [chanOf_setChan, hc]
      · have : c = { c with busy := false } := by cases c; simp_all
        exact ⟨[], s, by simp, rfl, rfl, hq, this ▸ hc⟩
    obtain ⟨esA, sA, hesA, hrunA, hpA, hqA, hcA⟩ := hidle
    cases hqu : c.queue with
    | nil => simp [hqu] at hl; omega
    | cons j q =>
      have hs : step cfg sA (.take id) = some (setChan sA id { queue := q, busy := true }) := by
        simp [step, hcA, hqu]
      refine ⟨esA ++ [.take id], setChan sA id { queue := q, busy := true }, ?_, ?_, ?_, qinv_step _ hqA hs, { queue := q, busy := true }, ?_, ?_⟩
      · intro e he
        simp only [List.mem_append, List.mem_singleton] at he
        rcases he with h1 | h1
        · exact hesA e h1
        · exact Or.inl h1
      · simp [run_append, hrunA, run, hs]
      · simpa [setChan] using hpA
      · simp [chanOf_setChan, hcA]
      · simp [hqu] at hle; simp; omega

private theorem drain_put (cfg : Cfg) (hcap : 0 < cfg.cap) :
    ∀ (rem : List String) (s : St) (i : Nat) (p : InPut), QInv cfg s → s.puts[i]? = some p → p.rem = rem →
      ∃ es s', (∀ e ∈ es, e = .putSend i ∨ e = .putEnd i ∨ ∃ id ∈ rem, e = .take id ∨ e = .done id) ∧
        run cfg s es = some s' ∧ s'.puts = s.puts.eraseIdx i := by
  intro rem
  induction rem with
  | nil =>
    intro s i p _ hp hr
    refine ⟨[.putEnd i], { s with puts := s.puts.eraseIdx i }, by simp, ?_, rfl⟩
    simp [run, step, hp, hr]
  | cons id rest ih =>
    intro s i p hq hp hr
    -- room in the queue of `id` (if it has one), then the send
    have hsend : ∃ es1 s1, (∀ e ∈ es1, e = .take id ∨ e = .done id) ∧ run cfg s es1 = some s1 ∧ s1.puts = s.puts ∧ QInv cfg s1 ∧
        ∃ s2, step cfg s1 (.putSend i) = some s2 := by
      cases hc : chanOf s id with
      | none =>
        refine ⟨[], s, by simp, rfl, rfl, hq, ?_⟩
        simp [step, hp, hr, hc]
      | some c =>
        obtain ⟨es1, s1, h1, h2, h3, h4, c1, h5, h6⟩ := make_room cfg hcap s hq id c hc
        refine ⟨es1, s1, h1, h2, h3, h4, ?_⟩
        have hp1 : s1.puts[i]? = some p := by rw [h3]; exact hp
        simp [step, hp1, hr, h5, h6]
    obtain ⟨es1, s1, hes1, hrun1, hpu1, hq1, s2, hs2⟩ := hsend
    have hp1 : s1.puts[i]? = some p := by rw [hpu1]; exact hp
    have hpu2 := putSend_puts hp1 hr hs2
    have hp2 : s2.puts[i]? = some { p with rem := rest } := by rw [hpu2]; exact getElem?_set_self' _ _ _ _ hp1
    obtain ⟨es3, s3, hes3, hrun3, hpu3⟩ := ih s2 i { p with rem := rest } (qinv_step _ hq1 hs2) hp2 rfl
    refine ⟨es1 ++ .putSend i :: es3, s3, ?_, ?_, ?_⟩
    · intro e he
      simp only [List.mem_append, List.mem_cons] at he
      rcases he with h | h | h
      · exact Or.inr (Or.inr ⟨id, by simp, hes1 e h⟩)
      · exact Or.inl h
      · rcases hes3 e h with h' | h' | ⟨x, hx, h'⟩
        · exact Or.inl h'
        · exact Or.inr (Or.inl h')
        · exact Or.inr (Or.inr ⟨x, by simp [hx], h'⟩)
    · simp [run_append, hrun1, run_cons, hs2, hrun3]
    · rw [hpu3, hpu2, eraseIdx_set, hpu1]

/-- **C12 (no stall), the code as it is — partial.** A Put in progress completes provided the workers of the ids it still
has to reach are able to take a job, i.e. their running callback returns: there is a schedule made only of the Put's own
steps and of "callback of id returns" / "worker of id takes the next job" for those ids. The hypothesis cannot be
dropped: `c12_stall_counterexample`. -/
theorem c12_put_nonblocking_partial (cfg : Cfg) (hcap : 0 < cfg.cap) (s : St) (hq : QInv cfg s) (i : Nat) (p : InPut)
    (hp : s.puts[i]? = some p) :
    ∃ es s', (∀ e ∈ es, e = .putSend i ∨ e = .putEnd i ∨ ∃ id ∈ p.rem, e = .take id ∨ e = .done id) ∧
      run cfg s es = some s' ∧ s'.puts = s.puts.eraseIdx i :=
  drain_put cfg hcap p.rem s i p hq hp rfl

/-! ### … and without that hypothesis it does not: the stall -/

/-- the dispatch as coded (plain send), whatever the source says today -/
def stallCfg : Cfg := { cap := Gen.callbackWorkerQueue, blocking := true, closeBlocking := true }

def bcn (r : Nat) : Beacon := ⟨r, [], []⟩

/-- `n` complete Puts of rounds 2 … n+1 -/
def fillEvs (n : Nat) : List Ev := (List.range n).flatMap fun k => [.putBegin (bcn (k + 2)), .putSend 0, .putEnd 0]

/-- one consumer "c" registers; round 1 is stored and handed to its callback, which never returns (no `done "c"` from
here on); `CallbackWorkerQueue` further Puts fill its queue; one more Put starts -/
def stallPrefix : List Ev :=
  [.add "c", .putBegin (bcn 1), .putSend 0, .putEnd 0, .take "c"] ++ fillEvs stallCfg.cap ++ [.putBegin (bcn (stallCfg.cap + 2))]

/-- the worker of `id` sits in a callback with a full queue behind it, and every Put in progress waits to send to it -/
def Stuck (cfg : Cfg) (id : String) (s : St) : Prop :=
  (∃ q, s.chans = [(id, ⟨q, true⟩)] ∧ q.length = cfg.cap) ∧ s.writer = none ∧ s.puts ≠ [] ∧ ∀ p ∈ s.puts, p.rem = [id]

def stuckB (cfg : Cfg) (id : String) (s : St) : Bool :=
  match s.chans with
  | [(i, c)] => i == id && c.busy && c.queue.length == cfg.cap && s.writer.isNone && !s.puts.isEmpty && s.puts.all (fun p => p.rem == [id])
  | _ => false

private theorem stuck_of_stuckB {cfg : Cfg} {id : String} {s : St} (h : stuckB cfg id s = true) : Stuck cfg id s := by
  unfold stuckB at h
  split at h
  · rename_i i c hch
    simp only [Bool.and_eq_true, beq_iff_eq, Option.isNone_iff_eq_none, Bool.not_eq_true', List.all_eq_true] at h
    obtain ⟨⟨⟨⟨⟨h1, h2⟩, h3⟩, h4⟩, h5⟩, h6⟩ := h
    refine ⟨⟨c.queue, ?_, h3⟩, h4, ?_, ?_⟩
    · rw [hch, h1]; cases c; simp_all
    · intro hn; simp [hn] at h5
    · intro p hp; simpa using h6 p hp
  · cases h

private theorem chanOf_single (s : St) (id x : String) (c : Chan) (h : s.chans = [(id, c)]) :
    chanOf s x = if id = x then some c else none := by
  simp only [chanOf, h]
  by_cases hx : id = x <;> simp [List.find?_cons, hx]

/-- in a stuck state the Put cannot send, cannot finish, and nobody can take the write lock -/
theorem stuck_blocks (cfg : Cfg) (hb : cfg.blocking = true) (id : String) (s : St) (h : Stuck cfg id s) :
    (∀ j, step cfg s (.putSend j) = none) ∧ (∀ j, step cfg s (.putEnd j) = none) ∧
    (∀ x, step cfg s (.remove x) = none) ∧ (∀ x, step cfg s (.add x) = none) := by
  obtain ⟨⟨q, hch, hql⟩, hw, hne, hall⟩ := h
  have hpe : s.puts.isEmpty = false := by cases hp : s.puts with | nil => exact absurd hp hne | cons _ _ => rfl
  refine ⟨?_, ?_, ?_, ?_⟩
  · intro j
    simp only [step]
    cases hp : s.puts[j]? with
    | none => rfl
    | some p =>
      have := hall p (List.mem_of_getElem? hp)
      simp [this, chanOf_single s id id _ hch, hql, hb]
  · intro j
    simp only [step]
    cases hp : s.puts[j]? with
    | none => rfl
    | some p => simp [hall p (List.mem_of_getElem? hp)]
  · intro x; simp [step, hpe]
  · intro x; simp [step, hpe]

private theorem stuck_step (cfg : Cfg) (hb : cfg.blocking = true) (id : String) (s s' : St) (e : Ev) (he : e ≠ .done id)
    (h : Stuck cfg id s) (hs : step cfg s e = some s') : Stuck cfg id s' := by
  have hbl := stuck_blocks cfg hb id s h
  obtain ⟨⟨q, hch, hql⟩, hw, hne, hall⟩ := h
  cases e with
  | putBegin b =>
    simp only [step, hw, Option.isSome_none, Bool.false_eq_true, if_false] at hs
    split at hs
    · cases hs; exact ⟨⟨q, hch, hql⟩, by simpa using hw, hne, hall⟩
    · cases hs
      refine ⟨⟨q, hch, hql⟩, by simpa using hw, by simp, ?_⟩
      intro p hp
      simp only [List.mem_append, List.mem_singleton] at hp
      rcases hp with h1 | h1
      · exact hall p h1
      · subst h1; simp [hch]
  | putSend j => rw [hbl.1 j] at hs; cases hs
  | putEnd j => rw [hbl.2.1 j] at hs; cases hs
  | remove x => rw [hbl.2.2.1 x] at hs; cases hs
  | add x => rw [hbl.2.2.2 x] at hs; cases hs
  | addResume => simp [step, hw] at hs
  | take x =>
    simp only [step, chanOf_single s id x _ hch] at hs
    by_cases hx : id = x <;> simp [hx] at hs
  | done x =>
    have hx : ¬ id = x := fun h => he (by rw [h])
    simp [step, chanOf_single s id x _ hch, hx] at hs
  | takeO x =>
    simp only [step] at hs
    split at hs
    · split at hs
      · cases hs
      · split at hs
        · cases hs
        · cases hs; exact ⟨⟨q, hch, hql⟩, hw, hne, hall⟩
    · cases hs
  | doneO x =>
    simp only [step] at hs
    split at hs
    · split at hs
      · cases hs; exact ⟨⟨q, hch, hql⟩, hw, hne, hall⟩
      · cases hs
    · cases hs

/-- **C12 stall, permanence.** From a stuck state no schedule in which the callback of `id` does not return ever leads
out: the Put stays in progress, the write lock stays unavailable — for every sequence of steps of every other goroutine. -/
theorem c12_stall_is_permanent (cfg : Cfg) (hb : cfg.blocking = true) (id : String) (es : List Ev) (s : St)
    (hes : ∀ e ∈ es, e ≠ .done id) (h : Stuck cfg id s) : Stuck cfg id (runSkip cfg s es) := by
  induction es generalizing s with
  | nil => exact h
  | cons e es ih =>
    simp only [runSkip, List.foldl_cons]
    refine ih _ (fun e' he' => hes e' (List.mem_cons_of_mem _ he')) ?_
    cases hs : step cfg s e with
    | none => simpa using h
    | some s' => simpa using stuck_step cfg hb id s s' e (hes e (by simp)) h hs

set_option maxRecDepth 100000 in
private theorem stall_run : (run stallCfg {} stallPrefix).map (stuckB stallCfg "c") = some true := by decide

/-- **C12 stall, the witness** (replayed on the real callbackStore: corpus/C12/stall_put.json). One consumer whose
callback never returns, then `CallbackWorkerQueue + 2` Puts: every step of the schedule is enabled, and in the state
reached the last Put can neither send nor finish, and neither `RemoveCallback` nor `AddCallback` can take the write lock
— and by `c12_stall_is_permanent` that stays so. Hence the unconditional `c12_put_never_waits` is false for the
plain-send variant. -/
theorem c12_stall_counterexample :
    ∃ s, run stallCfg {} stallPrefix = some s ∧ Stuck stallCfg "c" s ∧ s.stored.length = Gen.callbackWorkerQueue + 2 ∧
      (∀ j, step stallCfg s (.putSend j) = none) ∧ (∀ j, step stallCfg s (.putEnd j) = none) ∧
      (∀ x, step stallCfg s (.remove x) = none) ∧ (∀ x, step stallCfg s (.add x) = none) := by
  have h := stall_run
  cases hr : run stallCfg {} stallPrefix with
  | none => simp [hr] at h
  | some s =>
    simp only [hr, Option.map_some, Option.some.injEq] at h
    have hst := stuck_of_stuckB h
    have hlen : (run stallCfg {} stallPrefix).map (fun s => s.stored.length) = some (Gen.callbackWorkerQueue + 2) := by
      set_option maxRecDepth 100000 in decide
    simp only [hr, Option.map_some, Option.some.injEq] at hlen
    exact ⟨s, rfl, hst, hlen, stuck_blocks stallCfg rfl "c" s hst⟩

/-- the same consumer, `CallbackWorkerQueue + 1` Puts, then the client reconnects: `AddCallback("c")` -/
def addStallPrefix : List Ev :=
  [.add "c", .putBegin (bcn 1), .putSend 0, .putEnd 0, .take "c"] ++ fillEvs stallCfg.cap ++ [.add "c"]

set_option maxRecDepth 100000 in
/-- **C12 stall inside the write lock** (corpus/C12/stall_add.json). The close signal `AddCallback` sends to the id it
replaces is a plain send made while the WRITE lock is held: with a full queue it blocks there, and then no Put can even
take the read lock, the reconnect cannot complete, and nobody can remove the consumer. -/
theorem c12_addcallback_stall_counterexample :
    (run stallCfg {} addStallPrefix).map (fun s =>
      s.writer == some "c" && (step stallCfg s .addResume).isNone && (step stallCfg s (.putBegin (bcn 999))).isNone
        && (step stallCfg s (.remove "c")).isNone && (step stallCfg s (.take "c")).isNone) = some true := by decide

/-! ### FIFO -/

theorem find_filter_ne (l : List (String × Chan)) (x id : String) (hne : ¬ x = id) :
    List.find? (fun e => e.1 == id) (l.filter (·.1 != x)) = List.find? (fun e => e.1 == id) l := by
  induction l with
  | nil => rfl
  | cons a t ih =>
    cases h1 : (a.1 == x) <;> cases h2 : (a.1 == id)
    · simp only [List.filter_cons, List.find?_cons, bne, h1, h2, Bool.not_false, if_true]; exact ih
    · simp only [List.filter_cons, List.find?_cons, bne, h1, h2, Bool.not_false, if_true]
    · simp only [List.filter_cons, List.find?_cons, bne, h1, h2, Bool.not_true, Bool.false_eq_true, if_false]; exact ih
    · exfalso; apply hne
      have a1 : a.1 = x := by simpa using h1
      have a2 : a.1 = id := by simpa using h2
      exact a1.symm.trans a2

/-- **FIFO discipline of a callback's queue.** Whatever step is taken, the queue registered under an id either stays as it
is, or gets one job appended at the tail (a dispatch), or loses its head (the worker takes it), or is a fresh empty
queue (a new registration). With Puts being serialised by `appendStore`'s mutex (C02) and dispatched in Put order,
the jobs reach each callback in the order the beacons were stored. -/
theorem c12_worker_fifo (cfg : Cfg) (s s' : St) (e : Ev) (id : String) (c c' : Chan)
    (hs : step cfg s e = some s') (hc : chanOf s id = some c) (hc' : chanOf s' id = some c') :
    c'.queue = c.queue ∨ (∃ j, c'.queue = c.queue ++ [j]) ∨ (∃ j, c.queue = j :: c'.queue) ∨ c'.queue = [] := by
  cases e with
  | putBegin b =>
    simp only [step] at hs
    split at hs
    · cases hs
    · split at hs <;> (cases hs; simp only [chanOf] at hc hc'; rw [hc] at hc'; cases hc'; exact Or.inl rfl)
  | putSend i =>
    simp only [step] at hs
    split at hs
    · cases hs
    · split at hs
      · cases hs
      · rename_i x rest _
        split at hs
        · cases hs; simp only [chanOf] at hc hc'; rw [hc] at hc'; cases hc'; exact Or.inl rfl
        · rename_i cx hcx
          split at hs
          · cases hs
            have : chanOf (setChan s x _) id = some c' := hc'
            rw [chanOf_setChan, hc] at this
            by_cases hx : x = id
            · subst hx; rw [hcx] at hc; cases hc
              simp at this; subst this; exact Or.inr (Or.inl ⟨_, rfl⟩)
            · simp [hx] at this; subst this; exact Or.inl rfl
          · split at hs
            · cases hs
            · cases hs; simp only [chanOf] at hc hc'; rw [hc] at hc'; cases hc'; exact Or.inl rfl
  | putEnd i =>
    simp only [step] at hs
    split at hs
    · split at hs
      · cases hs; simp only [chanOf] at hc hc'; rw [hc] at hc'; cases hc'; exact Or.inl rfl
      · cases hs
    · cases hs
  | take x =>
    simp only [step] at hs
    split at hs
    · rename_i cx hcx
      split at hs
      · cases hs
      · split at hs
        · cases hs
        · rename_i j q hq
          cases hs
          rw [chanOf_setChan, hc] at hc'
          by_cases hx : x = id
          · subst hx; rw [hcx] at hc; cases hc
            simp at hc'; subst hc'; exact Or.inr (Or.inr (Or.inl ⟨j, hq⟩))
          · simp [hx] at hc'; subst hc'; exact Or.inl rfl
    · cases hs
  | done x =>
    simp only [step] at hs
    split at hs
    · rename_i cx hcx
      split at hs
      · cases hs
        rw [chanOf_setChan, hc] at hc'
        by_cases hx : x = id
        · subst hx; rw [hcx] at hc; cases hc
          simp at hc'; subst hc'; exact Or.inl rfl
        · simp [hx] at hc'; subst hc'; exact Or.inl rfl
      · cases hs
    · cases hs
  | takeO x =>
    simp only [step] at hs
    split at hs
    · split at hs
      · cases hs
      · split at hs
        · cases hs
        · cases hs; simp only [chanOf, setOrphan] at hc hc'; rw [hc] at hc'; cases hc'; exact Or.inl rfl
    · cases hs
  | doneO x =>
    simp only [step] at hs
    split at hs
    · split at hs
      · cases hs; simp only [chanOf, setOrphan] at hc hc'; rw [hc] at hc'; cases hc'; exact Or.inl rfl
      · cases hs
    · cases hs
  | remove x =>
    simp only [step] at hs
    split at hs
    · cases hs
    · cases hs
      simp only [chanOf, Option.map_eq_some_iff] at hc hc'
      obtain ⟨e1, he1, rfl⟩ := hc
      obtain ⟨e2, he2, rfl⟩ := hc'
      have h2 := List.find?_some he2
      have hm := List.mem_of_find?_eq_some he2
      have hne : ¬ x = id := by
        intro hx
        have := (List.mem_filter.mp hm).2
        simp at h2 this
        exact this (h2.trans hx.symm)
      have := find_filter_ne s.chans x id hne
      rw [this, he1] at he2
      cases he2; exact Or.inl rfl
  | add x =>
    have hinst : ∀ s1, s1 = install s x → chanOf s1 id = some c' → c'.queue = c.queue ∨ c'.queue = [] := by
      intro s1 h1 h2
      subst h1
      unfold install at h2
      split at h2
      · have : chanOf (setChan s x {}) id = some c' := by simpa [chanOf, setChan] using h2
        rw [chanOf_setChan, hc] at this
        by_cases hx : x = id
        · simp [hx] at this; subst this; exact Or.inr rfl
        · simp [hx] at this; subst this; exact Or.inl rfl
      · rename_i hno
        simp only [chanOf, List.find?_append] at h2 hc
        rw [show List.find? (fun e => e.1 == id) s.chans = _ from rfl] at h2
        cases hf : List.find? (fun e => e.1 == id) s.chans with
        | none => simp [hf] at hc
        | some e0 =>
          simp [hf] at h2 hc
          subst h2 hc; exact Or.inl rfl
    simp only [step] at hs
    split at hs
    · cases hs
    · split at hs
      · split at hs
        · cases hs
          rcases hinst _ rfl hc' with h | h
          · exact Or.inl h
          · exact Or.inr (Or.inr (Or.inr h))
        · cases hs; simp only [chanOf] at hc hc'; rw [hc] at hc'; cases hc'; exact Or.inl rfl
      · cases hs
        rcases hinst _ rfl hc' with h | h
        · exact Or.inl h
        · exact Or.inr (Or.inr (Or.inr h))
  | addResume =>
    have hinst : ∀ x s1, s1 = install s x → chanOf s1 id = some c' → c'.queue = c.queue ∨ c'.queue = [] := by
      intro x s1 h1 h2
      subst h1
      unfold install at h2
      split at h2
      · have : chanOf (setChan s x {}) id = some c' := by simpa [chanOf, setChan] using h2
        rw [chanOf_setChan, hc] at this
        by_cases hx : x = id
        · simp [hx] at this; subst this; exact Or.inr rfl
        · simp [hx] at this; subst this; exact Or.inl rfl
      · simp only [chanOf, List.find?_append] at h2 hc
        cases hf : List.find? (fun e => e.1 == id) s.chans with
        | none => simp [hf] at hc
        | some e0 =>
          simp [hf] at h2 hc
          subst h2 hc; exact Or.inl rfl
    simp only [step] at hs
    split at hs
    · cases hs
    · rename_i x _
      split at hs
      · split at hs
        · cases hs
          rcases hinst x _ rfl hc' with h | h
          · exact Or.inl h
          · exact Or.inr (Or.inr (Or.inr h))
        · cases hs
      · cases hs
        rcases hinst x _ rfl hc' with h | h
        · exact Or.inl h
        · exact Or.inr (Or.inr (Or.inr h))

/-! ### non-vacuity -/

theorem run_eq_runSkip (cfg : Cfg) (es : List Ev) (s s' : St) (h : run cfg s es = some s') : runSkip cfg s es = s' := by
  induction es generalizing s with
  | nil => simpa [run, runSkip] using h
  | cons e es ih =>
    simp only [run] at h
    cases hs : step cfg s e with
    | none => simp [hs] at h
    | some s1 =>
      simp only [hs] at h
      simpa [runSkip, hs] using ih s1 h

-- the partial theorem applies to the stall state: its hypotheses hold there, and once the callback of "c" is allowed
-- to return the blocked Put completes
example : ∃ s p, run stallCfg {} stallPrefix = some s ∧ s.puts[0]? = some p ∧
    ∃ es s', run stallCfg s es = some s' ∧ s'.puts = s.puts.eraseIdx 0 := by
  obtain ⟨s, hr, hst, _, _⟩ := c12_stall_counterexample
  obtain ⟨_, _, hne, _⟩ := hst
  have hq : QInv stallCfg s := by
    have := c12_queue_bound stallCfg stallPrefix {} ⟨by simp, by simp⟩
    rwa [run_eq_runSkip _ _ _ _ hr] at this
  cases hp : s.puts with
  | nil => exact absurd hp hne
  | cons p t =>
    have hp0 : s.puts[0]? = some p := by simp [hp]
    obtain ⟨es, s', _, h2, h3⟩ := c12_put_nonblocking_partial stallCfg (by decide) s hq 0 p hp0
    exact ⟨s, p, hr, hp0, es, s', h2, h3⟩

-- the corrected variant on the same schedule: the Put that was stuck takes its step (the job is dropped) and returns
set_option maxRecDepth 100000 in
example : (run { stallCfg with blocking := false } {} (stallPrefix ++ [.putSend 0, .putEnd 0])).map
    (fun s => s.puts.isEmpty && s.dropped.length == 1) = some true := by decide

-- `c12_stall_is_permanent` is about a real situation: other consumers, other Puts and orphaned workers may move
example : Stuck stallCfg "c" (runSkip stallCfg ((run stallCfg {} stallPrefix).getD {})
    [.putBegin (bcn 500), .putSend 1, .putSend 0, .remove "c", .add "d", .take "c", .putEnd 0]) := by
  obtain ⟨s, hr, hst, _⟩ := c12_stall_counterexample
  rw [hr]
  exact c12_stall_is_permanent stallCfg rfl "c" _ s (by decide) hst

-- the hypotheses of `c12_worker_fifo` are satisfiable (a dispatch that appends at the tail)
example : (((step stallCfg ((run stallCfg {} [.add "c", .putBegin (bcn 1)]).getD {}) (.putSend 0)).bind
    (fun s' => chanOf s' "c")).map (·.queue)) = some [.beacon (bcn 1)] := by decide

end Drand.Chain.Callback
