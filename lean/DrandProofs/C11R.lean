/-
C11 with the repaired callbackStore (reports/cb_fix_1.diff): a stream is never waited for and never skipped — when its job
queue is full the store ends it. Stream side of DrandProofs/C12R.lean (`c11_dispatch_reaches_or_ends`, `c11_never_dropped`,
`c11_closed_is_last` speak about the store; the theorems here about what the CLIENT of `SyncChain` sees).

  `onPutR_is_events`             the repaired `Put`, seen by one stream, is the event `put b` or the two events `replaced`, `put b`
  `runR_is_run`                  hence every run with the repaired store is a run of the machine of C11.lean: its theorems for ALL
                                 schedules (`c11_no_repeat`, `c11_sent_stored`, `c11_scan_exact`, …) hold with the repaired store
  `c11_live_no_skip_or_ended`    after AddStreamCallback, for EVERY schedule: what the stream has sent plus what is still queued for
                                 it is what it had sent before followed by a PREFIX of the beacons stored since, in order, none
                                 skipped; the whole list as long as it is registered; if it is not (and the client neither went
                                 away nor was detached by another stream's stale RemoveCallback — finding C11-d) it has the close
                                 notice queued as its LAST job or has already returned `ErrCallbackReplaced`
  `c11_ended_is_final`           a stream that has returned sends nothing more
  `c11_resume_after_end`         the client asks again from the round after the last one it got: the scan of the new stream sends
                                 exactly the stored beacons from that round on — every round the ended stream did not deliver is
                                 stored (`Put` stores before it dispatches) and hence among them
The gap between the scan and AddStreamCallback (findings C11-a/b) is untouched by the patch; `c11_gap_counterexample` stays.
-/
import DrandProofs.C11
import DrandProofs.C12R

namespace Drand.Beacon.Stream
open Drand Drand.Store

/-- `SyncChain` registers its callback as a stream consumer exactly when the store knows stream consumers; the dispatch
never silently skips a callback: it is a plain send, or a `select` whose `default` branch ends the consumer -/
theorem tie_stream_registration :
    Gen.syncChainRegistersStream = Gen.callbackOverflowEndsConsumer ∧
    (Gen.callbackPutDispatchBlocking = true ∨ Gen.callbackOverflowEndsConsumer = true) := by decide

/-! ### the repaired Put is made of events the stream machine already has -/

theorem replaced_onPut (s : Strm) (b : Beacon) : (s.replaced).onPut b = s.replaced := by
  unfold Strm.replaced Strm.onPut
  by_cases ha : s.attached = true
  · simp [ha]
  · simp [ha]

theorem onPutR_is_events (h : Handover) (cap : Nat) (x : Sys) (b : Beacon) :
    Sys.stepR h cap x (.put b) = Sys.step h x (.put b) ∨ Sys.stepR h cap x (.put b) = Sys.run h x [.replaced, .put b] := by
  simp only [Sys.stepR, Sys.step, Sys.run, List.foldl_cons, List.foldl_nil, Strm.onPutR]
  cases hc : x.s.full cap b
  · left; simp
  · right; simp only [if_true, replaced_onPut]

/-- the events of the stream machine a run with the repaired store consists of: a `replaced` in front of every `put` that
finds the stream's queue full -/
def expand (h : Handover) (cap : Nat) : Sys → List Ev → List Ev
  | _, [] => []
  | x, .put b :: es =>
    (if x.s.full cap b then [.replaced, .put b] else [.put b])
      ++ expand h cap (Sys.stepR h cap x (.put b)) es
  | x, e :: es => e :: expand h cap (Sys.stepR h cap x e) es

theorem run_append' (h : Handover) (x : Sys) (a b : List Ev) : Sys.run h x (a ++ b) = Sys.run h (Sys.run h x a) b := by
  simp [Sys.run, List.foldl_append]

/-- **every run with the repaired store is a run of the stream machine** (with `replaced` events where the store ended the
stream): whatever C11.lean proves for all schedules holds with the repaired store. -/
theorem runR_is_run (h : Handover) (cap : Nat) (es : List Ev) (x : Sys) :
    Sys.runR h cap x es = Sys.run h x (expand h cap x es) := by
  induction es generalizing x with
  | nil => rfl
  | cons e es ih =>
    have hstep : Sys.runR h cap x (e :: es) = Sys.runR h cap (Sys.stepR h cap x e) es := by simp [Sys.runR]
    rw [hstep, ih]
    cases e with
    | put b =>
      simp only [expand]
      rw [run_append']
      congr 1
      simp only [Sys.stepR, Sys.run, Strm.onPutR]
      cases hc : x.s.full cap b
      · simp [Sys.step]
      · simp only [if_true, List.foldl_cons, List.foldl_nil, Sys.step, replaced_onPut]
    | start => simp [expand, Sys.run, Sys.stepR]
    | scanOpen => simp [expand, Sys.run, Sys.stepR]
    | scanNext => simp [expand, Sys.run, Sys.stepR]
    | register => simp [expand, Sys.run, Sys.stepR]
    | deliver => simp [expand, Sys.run, Sys.stepR]
    | replaced => simp [expand, Sys.run, Sys.stepR]
    | detached => simp [expand, Sys.run, Sys.stepR]
    | cancel => simp [expand, Sys.run, Sys.stepR]
    | sendFail => simp [expand, Sys.run, Sys.stepR]

/-- corollary, for instance: no round is ever sent twice with the repaired store either -/
theorem c11r_scan_exact (cap : Nat) (bs : BoltState) (hb : BoltInv bs) (s : Strm) (hs : s.phase = .started) (hsent : s.sent = [])
    (es : List Ev) :
    ScanInv bs s.frm (Sys.runR .asIs cap (Sys.step .asIs ⟨.bolt bs, s⟩ .scanOpen) es).s := by
  rw [runR_is_run]
  exact c11_scan_exact bs hb s hs hsent _

/-! ### the live phase with the repaired store: no skip, or ended -/

/-- the close notice, if any, is the very last job -/
def ClosedLast (q : List Job) : Prop := Job.close ∉ q.dropLast

/-- steps by which the client goes away, or another stream of the same address detaches this one (finding C11-d) -/
def Ev.benign : Ev → Bool
  | .detached | .cancel | .sendFail => false
  | _ => true

structure LiveR (s : Strm) (base ps : List Beacon) : Prop where
  phase : match s.phase with | .live => True | .done _ => True | _ => False
  pre : ∃ k, s.sent ++ queueBeacons s.queue = base ++ ps.take k ∧ (s.attached = true → ps.length ≤ k)
  att : s.attached = true → Job.close ∉ s.queue ∧ (match s.phase with | .live => True | _ => False)
  last : ClosedLast s.queue

private theorem qb_append (a b : List Job) : queueBeacons (a ++ b) = queueBeacons a ++ queueBeacons b := by
  simp [queueBeacons, List.filterMap_append]

private theorem qb_close : queueBeacons [Job.close] = [] := rfl
private theorem qb_beacon (b : Beacon) : queueBeacons [Job.beacon b] = [b] := rfl

private theorem mem_dropLast {α : Type} (a : α) : ∀ (l : List α), a ∈ l.dropLast → a ∈ l
  | [], h => by simp at h
  | [_], h => by simp at h
  | x :: y :: t, h => by
    simp only [List.dropLast_cons_cons, List.mem_cons] at h
    rcases h with h | h
    · simp [h]
    · exact List.mem_cons_of_mem _ (mem_dropLast a (y :: t) h)

private theorem closedLast_tail (j : Job) (q : List Job) (h : ClosedLast (j :: q)) : ClosedLast q := by
  cases q with
  | nil => simp [ClosedLast]
  | cons y t =>
    simp only [ClosedLast, List.dropLast_cons_cons, List.mem_cons, not_or] at h
    exact h.2

private theorem take_append_le {α : Type} (l m : List α) (k : Nat) (h : k ≤ l.length) : (l ++ m).take k = l.take k := by
  rw [List.take_append_of_le_length h]

private theorem putsIn_single (e : Ev) : putsIn [e] = match e with | .put b => if b.round ≠ 0 then [b] else [] | _ => [] := by
  cases e <;> simp [putsIn]
  split <;> simp_all

private theorem liveR_step (cap : Nat) (x : Sys) (e : Ev) (base ps : List Beacon) (h : LiveR x.s base ps) :
    LiveR (Sys.stepR .asIs cap x e).s base (ps ++ putsIn [e]) := by
  obtain ⟨hph, ⟨k, hk, hka⟩, hatt, hlast⟩ := h
  -- a step that leaves sent ++ queued beacons, attachment and phase class alone, and appends nothing to `ps`
  have keep : ∀ (s' : Strm), putsIn [e] = [] → s'.sent ++ queueBeacons s'.queue = x.s.sent ++ queueBeacons x.s.queue →
      (s'.attached = true → x.s.attached = true) →
      (match s'.phase with | .live => True | .done _ => True | _ => False) →
      (s'.attached = true → Job.close ∉ s'.queue ∧ (match s'.phase with | .live => True | _ => False)) →
      ClosedLast s'.queue → LiveR s' base (ps ++ putsIn [e]) := by
    intro s' he hsum ha hp hat hl
    rw [he, List.append_nil]
    exact ⟨hp, ⟨k, by rw [hsum, hk], fun h' => hka (ha h')⟩, hat, hl⟩
  cases e with
  | put b =>
    simp only [Sys.stepR, Strm.onPutR]
    by_cases hb : b.round = 0
    · -- round 0 is never dispatched
      have hp0 : putsIn [Ev.put b] = [] := by simp [putsIn, hb]
      have hfu : x.s.full cap b = false := by simp [Strm.full, hb]
      have hon : x.s.onPut b = x.s := by simp [Strm.onPut, hb]
      simp only [hfu, Bool.false_eq_true, if_false, hon]
      exact keep _ hp0 rfl id hph hatt hlast
    · have hp1 : putsIn [Ev.put b] = [b] := by simp [putsIn, hb]
      rw [hp1]
      by_cases ha : x.s.attached = true
      · have hk' := hka ha
        have hfull : ps.take k = ps := List.take_of_length_le hk'
        by_cases hf : cap + 1 ≤ x.s.queue.length
        · -- the queue is full: the store ends the stream
          have hfu : x.s.full cap b = true := by simp [Strm.full, ha, hb, hf]
          simp only [hfu, if_true, Strm.replaced, ha]
          refine ⟨hph, ⟨ps.length, ?_, by simp⟩, by simp, ?_⟩
          · show x.s.sent ++ queueBeacons (x.s.queue ++ [Job.close]) = base ++ (ps ++ [b]).take ps.length
            rw [qb_append, qb_close, List.append_nil, take_append_le _ _ _ (Nat.le_refl _), List.take_length, hk, hfull]
          · show ClosedLast (x.s.queue ++ [Job.close])
            simpa [ClosedLast] using (hatt ha).1
        · -- room: the beacon goes to the tail
          have hfu : x.s.full cap b = false := by simp [Strm.full, hf]
          have hon : x.s.onPut b = { x.s with queue := x.s.queue ++ [.beacon b] } := by simp [Strm.onPut, ha, hb]
          simp only [hfu, Bool.false_eq_true, if_false, hon]
          refine ⟨hph, ⟨(ps ++ [b]).length, ?_, fun _ => Nat.le_refl _⟩, ?_, ?_⟩
          · show x.s.sent ++ queueBeacons (x.s.queue ++ [Job.beacon b]) = base ++ (ps ++ [b]).take (ps ++ [b]).length
            rw [qb_append, qb_beacon, ← List.append_assoc, hk, hfull, List.take_length, List.append_assoc]
          · intro _
            refine ⟨?_, (hatt ha).2⟩
            show Job.close ∉ x.s.queue ++ [Job.beacon b]
            simp only [List.mem_append, List.mem_singleton, not_or]
            exact ⟨(hatt ha).1, by simp⟩
          · show ClosedLast (x.s.queue ++ [Job.beacon b])
            intro hm
            simp only [List.dropLast_concat] at hm
            exact (hatt ha).1 hm
      · -- not registered: the beacon is stored, nothing reaches the stream
        have hfu : x.s.full cap b = false := by simp [Strm.full, ha]
        have hon : x.s.onPut b = x.s := by simp [Strm.onPut, ha]
        simp only [hfu, Bool.false_eq_true, if_false, hon]
        refine ⟨hph, ⟨min k ps.length, ?_, fun h' => absurd h' ha⟩, fun h' => absurd h' ha, hlast⟩
        rw [take_append_le _ _ _ (Nat.min_le_right _ _), hk]
        congr 1
        rcases Nat.le_total k ps.length with h1 | h1
        · rw [Nat.min_eq_left h1]
        · rw [Nat.min_eq_right h1, List.take_length, List.take_of_length_le h1]
  | start =>
    have : (Sys.stepR .asIs cap x .start).s = x.s := by
      simp only [Sys.stepR, Sys.step, Strm.start]
      cases hp : x.s.phase <;> simp [hp] at hph ⊢
    rw [this]; exact keep _ (by simp [putsIn]) rfl id hph hatt hlast
  | scanOpen =>
    have : (Sys.stepR .asIs cap x .scanOpen).s = x.s := by
      simp only [Sys.stepR, Sys.step, Strm.scanOpen]
      cases hp : x.s.phase <;> simp [hp] at hph ⊢
    rw [this]; exact keep _ (by simp [putsIn]) rfl id hph hatt hlast
  | scanNext =>
    have : (Sys.stepR .asIs cap x .scanNext).s = x.s := by
      simp only [Sys.stepR, Sys.step, Strm.scanNext]
      cases hp : x.s.phase <;> simp [hp] at hph ⊢
    rw [this]; exact keep _ (by simp [putsIn]) rfl id hph hatt hlast
  | register =>
    have : (Sys.stepR .asIs cap x .register).s = x.s := by
      simp only [Sys.stepR, Sys.step, Strm.register]
      cases hp : x.s.phase <;> simp [hp] at hph ⊢
    rw [this]; exact keep _ (by simp [putsIn]) rfl id hph hatt hlast
  | deliver =>
    simp only [Sys.stepR, Sys.step, Strm.deliver]
    cases hp : x.s.phase with
    | live =>
      cases hq : x.s.queue with
      | nil =>
        simp only
        have : ({ x.s with } : Strm) = x.s := rfl
        exact keep _ (by simp [putsIn]) rfl id hph hatt hlast
      | cons j q =>
        cases j with
        | beacon b =>
          simp only [emit]
          refine keep _ (by simp [putsIn]) ?_ id (by simp [hp]) ?_ ?_
          · simp [hq, queueBeacons]
          · intro ha
            have := hatt ha
            simp only [hq, List.mem_cons, not_or] at this
            exact ⟨this.1.2, by simp [hp]⟩
          · rw [hq] at hlast; exact closedLast_tail _ _ hlast
        | close =>
          simp only
          refine keep _ (by simp [putsIn]) ?_ id (by simp) ?_ ?_
          · simp [hq, queueBeacons]
          · intro ha
            have := (hatt ha).1
            simp [hq] at this
          · rw [hq] at hlast; exact closedLast_tail _ _ hlast
    | done r => simp only; exact keep _ (by simp [putsIn]) rfl id hph hatt hlast
    | idle => simp [hp] at hph
    | started => simp [hp] at hph
    | scanning c => simp [hp] at hph
    | scanned => simp [hp] at hph
  | replaced =>
    simp only [Sys.stepR, Sys.step, Strm.replaced]
    by_cases ha : x.s.attached = true
    · simp only [ha, if_true]
      refine keep _ (by simp [putsIn]) ?_ (by simp) hph (by simp) ?_
      · simp [qb_append, queueBeacons]
      · simpa [ClosedLast] using (hatt ha).1
    · simp only [ha, Bool.false_eq_true, if_false]
      exact keep _ (by simp [putsIn]) rfl id hph hatt hlast
  | detached =>
    simp only [Sys.stepR, Sys.step, Strm.detached]
    exact keep _ (by simp [putsIn]) rfl (by simp) hph (by simp) hlast
  | cancel =>
    simp only [Sys.stepR, Sys.step, Strm.cancel]
    cases hp : x.s.phase with
    | live => simp only; exact keep _ (by simp [putsIn]) rfl (by simp) (by simp) (by simp) hlast
    | done r => simp only; exact keep _ (by simp [putsIn]) rfl id hph hatt hlast
    | idle => simp [hp] at hph
    | started => simp [hp] at hph
    | scanning c => simp [hp] at hph
    | scanned => simp [hp] at hph
  | sendFail =>
    simp only [Sys.stepR, Sys.step, Strm.sendFail]
    cases hp : x.s.phase with
    | live =>
      cases hq : x.s.queue with
      | nil => simp only; exact keep _ (by simp [putsIn]) rfl id hph hatt hlast
      | cons j q =>
        cases j with
        | beacon b =>
          simp only
          refine keep _ (by simp [putsIn]) ?_ (by simp) (by simp) (by simp) ?_
          · simp [hq, queueBeacons]
          · rw [hq] at hlast; exact closedLast_tail _ _ hlast
        | close =>
          simp only
          refine keep _ (by simp [putsIn]) ?_ id (by simp) ?_ ?_
          · simp [hq, queueBeacons]
          · intro ha
            have := (hatt ha).1
            simp [hq] at this
          · rw [hq] at hlast; exact closedLast_tail _ _ hlast
    | done r => simp only; exact keep _ (by simp [putsIn]) rfl id hph hatt hlast
    | idle => simp [hp] at hph
    | started => simp [hp] at hph
    | scanning c => simp [hp] at hph
    | scanned => simp [hp] at hph

private theorem putsIn_append (a b : List Ev) : putsIn (a ++ b) = putsIn a ++ putsIn b := by
  simp [putsIn, List.filterMap_append]

private theorem liveR_run (cap : Nat) (es : List Ev) (x : Sys) (base ps : List Beacon) (h : LiveR x.s base ps) :
    LiveR (Sys.runR .asIs cap x es).s base (ps ++ putsIn es) := by
  induction es generalizing x ps with
  | nil => simpa [Sys.runR, putsIn] using h
  | cons e es ih =>
    have h1 := liveR_step cap x e base ps h
    have h2 := ih (Sys.stepR .asIs cap x e) (ps ++ putsIn [e]) h1
    have : putsIn (e :: es) = putsIn [e] ++ putsIn es := putsIn_append [e] es
    rw [this, ← List.append_assoc]
    simpa [Sys.runR] using h2

/-- the stream is told: the close notice is queued, or has been consumed (`SyncChain` returned `ErrCallbackReplaced`) -/
def Told (s : Strm) : Prop := Job.close ∈ s.queue ∨ (match s.phase with | .done .replaced => True | _ => False)

private theorem told_step (cap : Nat) (x : Sys) (e : Ev) (hb : e.benign = true)
    (hph : match x.s.phase with | .live => True | .done _ => True | _ => False)
    (h : x.s.attached = false → Told x.s) :
    (Sys.stepR .asIs cap x e).s.attached = false → Told (Sys.stepR .asIs cap x e).s := by
  cases e with
  | put b =>
    simp only [Sys.stepR, Strm.onPutR]
    cases hfu : x.s.full cap b
    · simp only [Bool.false_eq_true, if_false, Strm.onPut]
      split
      · rename_i hc; intro ha; simp at ha; simp_all
      · exact h
    · have ha : x.s.attached = true := by
        simp only [Strm.full, Bool.and_eq_true] at hfu; exact hfu.1.1
      intro _; left; simp [Strm.replaced, ha]
  | start =>
    have : (Sys.stepR .asIs cap x .start).s = x.s := by
      simp only [Sys.stepR, Sys.step, Strm.start]; cases hp : x.s.phase <;> simp [hp] at hph ⊢
    rw [this]; exact h
  | scanOpen =>
    have : (Sys.stepR .asIs cap x .scanOpen).s = x.s := by
      simp only [Sys.stepR, Sys.step, Strm.scanOpen]; cases hp : x.s.phase <;> simp [hp] at hph ⊢
    rw [this]; exact h
  | scanNext =>
    have : (Sys.stepR .asIs cap x .scanNext).s = x.s := by
      simp only [Sys.stepR, Sys.step, Strm.scanNext]; cases hp : x.s.phase <;> simp [hp] at hph ⊢
    rw [this]; exact h
  | register =>
    have : (Sys.stepR .asIs cap x .register).s = x.s := by
      simp only [Sys.stepR, Sys.step, Strm.register]; cases hp : x.s.phase <;> simp [hp] at hph ⊢
    rw [this]; exact h
  | deliver =>
    simp only [Sys.stepR, Sys.step, Strm.deliver]
    cases hp : x.s.phase with
    | live =>
      cases hq : x.s.queue with
      | nil => simpa [hp, hq] using h
      | cons j q =>
        cases j with
        | beacon b =>
          simp only [emit]
          intro ha
          rcases h ha with h1 | h1
          · left; simpa [hq] using h1
          · simp [hp] at h1
        | close => intro _; right; simp
    | done r => simpa [hp] using h
    | idle => simp [hp] at hph
    | started => simp [hp] at hph
    | scanning c => simp [hp] at hph
    | scanned => simp [hp] at hph
  | replaced =>
    simp only [Sys.stepR, Sys.step, Strm.replaced]
    split
    · intro _; left; simp
    · exact h
  | detached => cases hb
  | cancel => cases hb
  | sendFail => cases hb

private theorem told_run (cap : Nat) (es : List Ev) (hb : ∀ e ∈ es, e.benign = true) (x : Sys) (base ps : List Beacon)
    (hl : LiveR x.s base ps) (h : x.s.attached = false → Told x.s) :
    (Sys.runR .asIs cap x es).s.attached = false → Told (Sys.runR .asIs cap x es).s := by
  induction es generalizing x ps with
  | nil => simpa [Sys.runR] using h
  | cons e es ih =>
    have h1 := told_step cap x e (hb e (by simp)) hl.phase h
    have h2 := liveR_step cap x e base ps hl
    simpa [Sys.runR] using ih (fun e' he' => hb e' (List.mem_cons_of_mem _ he')) (Sys.stepR .asIs cap x e) _ h2 h1

/-- **C11, live phase, repaired store — every schedule.** From `AddStreamCallback` on, whatever happens (appends, a client that
stops reading for as long as it likes, reconnects under the same address, the client going away):
(1) what the stream has sent plus the beacons still queued for it is what it had sent before followed by a PREFIX of the
    beacons stored since, in storing order — no round skipped, none repeated, none out of order;
(2) as long as the stream is registered the prefix is the whole list;
(3) the close notice, if any, is the last job in its queue: nothing follows `closed`;
(4) if the stream is no longer registered, and neither did its client go away nor did another stream's stale
    `RemoveCallback` detach it (finding C11-d, not repaired by this patch), then it has been told: the close notice is queued
    for it or it has already returned `ErrCallbackReplaced`. -/
theorem c11_live_no_skip_or_ended (cap : Nat) (x : Sys) (hx : match x.s.phase with | .scanned => True | _ => False)
    (es : List Ev) :
    let y := Sys.runR .asIs cap (Sys.step .asIs x .register) es
    (∃ k, y.s.sent ++ queueBeacons y.s.queue = x.s.sent ++ (putsIn es).take k ∧ (y.s.attached = true → (putsIn es).length ≤ k)) ∧
    ClosedLast y.s.queue ∧
    ((∀ e ∈ es, e.benign = true) → y.s.attached = false → Told y.s) := by
  have hsc : x.s.phase = .scanned := by cases hph : x.s.phase <;> simp [hph] at hx ⊢
  have h0 : LiveR (Sys.step .asIs x .register).s x.s.sent [] := by
    refine ⟨by simp [Sys.step, Strm.register, hsc], ⟨0, by simp [Sys.step, Strm.register, hsc, queueBeacons], by simp⟩,
      by simp [Sys.step, Strm.register, hsc], by simp [Sys.step, Strm.register, hsc, ClosedLast]⟩
  have h1 := liveR_run cap es _ _ _ h0
  simp only [List.nil_append] at h1
  refine ⟨h1.pre, h1.last, fun hb => ?_⟩
  exact told_run cap es hb _ _ _ h0 (by simp [Sys.step, Strm.register, hsc])

/-- **nothing after the end.** Once `SyncChain` has returned, no step — no append, no late job of the worker — changes what
was sent. -/
theorem c11_ended_is_final (h : Handover) (cap : Nat) (x : Sys) (r : EndReason) (hx : x.s.phase = .done r) (es : List Ev) :
    (Sys.runR h cap x es).s.sent = x.s.sent ∧ (Sys.runR h cap x es).s.phase = .done r := by
  induction es generalizing x with
  | nil => exact ⟨rfl, hx⟩
  | cons e es ih =>
    have hs : (Sys.stepR h cap x e).s.sent = x.s.sent ∧ (Sys.stepR h cap x e).s.phase = .done r := by
      cases e with
      | put b =>
        simp only [Sys.stepR, Strm.onPutR, Strm.replaced, Strm.onPut]
        split
        · split <;> exact ⟨rfl, hx⟩
        · split <;> exact ⟨rfl, hx⟩
      | start => simp [Sys.stepR, Sys.step, Strm.start, hx]
      | scanOpen => simp [Sys.stepR, Sys.step, Strm.scanOpen, hx]
      | scanNext => simp [Sys.stepR, Sys.step, Strm.scanNext, hx]
      | register => simp [Sys.stepR, Sys.step, Strm.register, hx]
      | deliver => simp [Sys.stepR, Sys.step, Strm.deliver, hx]
      | replaced => simp only [Sys.stepR, Sys.step, Strm.replaced]; split <;> exact ⟨rfl, hx⟩
      | detached => exact ⟨rfl, hx⟩
      | cancel => simp [Sys.stepR, Sys.step, Strm.cancel, hx]
      | sendFail => simp [Sys.stepR, Sys.step, Strm.sendFail, hx]
    have := ih (Sys.stepR h cap x e) hs.2
    simp only [Sys.runR, List.foldl_cons] at this ⊢
    exact ⟨this.1.trans hs.1, this.2⟩

/-- **the client resumes.** A client whose stream was ended asks again from the round after the last one it received, `r + 1`.
On a store `bs` (bolt) the scan of the new stream sends exactly the stored beacons of the rounds > r, ascending, each the
stored one — for every schedule of further events — and every stored round > r is among them. Since `Put` stores a beacon
before it dispatches it (`Gen.callbackPutBaseFirst`), the rounds the ended stream did not deliver are stored, hence sent
by the new one: nothing is lost across the end of a stream, and nothing is delivered twice (rounds ≤ r are not sent again). -/
theorem c11_resume_after_end (cap : Nat) (bs : BoltState) (hb : BoltInv bs) (r : Nat) (s2 : Strm) (hs : s2.phase = .started)
    (hsent : s2.sent = []) (hf : s2.frm = r + 1) (es : List Ev) :
    let z := (Sys.runR .asIs cap (Sys.step .asIs ⟨.bolt bs, s2⟩ .scanOpen) es).s
    ScanInv bs (r + 1) z ∧
    (∀ q b, Bolt.get bs q = .ok b → r < q → b ∈ scanOut bs (r + 1)) ∧
    (∀ b ∈ scanOut bs (r + 1), Bolt.get bs b.round = .ok b ∧ r < b.round) := by
  refine ⟨hf ▸ c11r_scan_exact cap bs hb s2 hs hsent es, ?_, ?_⟩
  · intro q b hg hq
    exact (c11_scan_out_stored bs hb (r + 1)).2 q b hg hq
  · intro b hbm
    have := (c11_scan_out_stored bs hb (r + 1)).1 b hbm
    exact ⟨this.1, this.2⟩

/-! ### a stream that deregisters only its own registration (reports/cb_fix_2.diff) -/

/-- `SyncChain` removes with the remover only where the store hands one out -/
theorem tie_own_remover : (Gen.syncChainRemovesOwnOnly = true → Gen.callbackStreamRemover = true ∧ Gen.syncChainRegistersStream = true) := by
  decide

/-- **C11-d repaired: the end of one stream never detaches another.** With `Net.ownR`, a step of stream `sid` changes another
stream `e` only by REGISTERING under the same address (then `e` is replaced and told so: close notice queued); whenever
the step is not a registration — in particular when `sid` ends by a failed `Send` or a cancelled context after `e` has
taken over the id — `e` is exactly as before: attached, same queue. -/
theorem c11_own_end_keeps_others (h : Handover) (n : Net) (sid : String) (ev : Own) (e : Entry) (he : e ∈ n.streams)
    (hne : (e.sid == sid) = false) :
    e ∈ (n.ownR h sid ev).streams ∨ (∃ me, n.streams.find? (·.sid == sid) = some me ∧ e.addr = me.addr ∧
      effectOf n.store ev me.s (Sys.step h ⟨n.store, me.s⟩ ev.toEv).s = .add ∧ { e with s := e.s.replaced } ∈ (n.ownR h sid ev).streams) := by
  unfold Net.ownR
  cases hf : n.streams.find? (·.sid == sid) with
  | none => left; simpa using he
  | some me =>
    simp only
    by_cases ha : (e.addr == me.addr) = true
    · cases heff : effectOf n.store ev me.s (Sys.step h ⟨n.store, me.s⟩ ev.toEv).s with
      | add =>
        right
        refine ⟨me, rfl, by simpa using ha, heff, ?_⟩
        simp only [List.mem_map]
        exact ⟨e, he, by simp [hne, ha]⟩
      | none =>
        left
        simp only [List.mem_map]
        exact ⟨e, he, by simp [hne, ha]⟩
      | remove =>
        left
        simp only [List.mem_map]
        exact ⟨e, he, by simp [hne, ha]⟩
    · left
      simp only [List.mem_map]
      exact ⟨e, he, by simp [hne, ha]⟩

/-- the schedule of `c11_detach_counterexample` with such a stream handler: a's failed `Send` leaves b's callback in place,
b receives 6 and 7 -/
theorem c11_detach_repaired :
    let n0 : Net := ⟨memOf 16 3, [⟨"a", "8.8.8.8:1001", { frm := 0 }⟩, ⟨"b", "8.8.8.8:1001", { frm := 0 }⟩]⟩
    let n := ((((((((((n0.ownR .asIs "a" .start).ownR .asIs "a" .register).put (tb 4)).ownR .asIs "b" .start).ownR .asIs "b" .register).put (tb 5)).ownR
      .asIs "a" .sendFail).put (tb 6)).put (tb 7)).ownR .asIs "b" .deliver).ownR .asIs "b" .deliver
    (n.streams.map fun e => (e.sid, roundsOf e.s.sent, e.s.attached, jobRounds e.s.queue,
        (match e.s.phase with | .live => "live" | .done .sendError => "send-error" | _ => "other"))) =
      [("a", [4], false, [], "send-error"), ("b", [5, 6], true, [7], "live")] ∧ n.store.head = 7 := by decide

/-! ### non-vacuity -/

example : ∃ (n : Net) (e : Entry), e ∈ n.streams ∧ (e.sid == "a") = false ∧ e ∈ (n.ownR .asIs "a" .sendFail).streams :=
  ⟨⟨memOf 16 3, [⟨"a", "x", { frm := 0, phase := .live, attached := false, queue := [.beacon (tb 4)] }⟩,
      ⟨"b", "x", { frm := 0, phase := .live, attached := true }⟩]⟩, ⟨"b", "x", { frm := 0, phase := .live, attached := true }⟩,
    by simp, by decide, by
      have := c11_own_end_keeps_others .asIs ⟨memOf 16 3, [⟨"a", "x", { frm := 0, phase := .live, attached := false, queue := [.beacon (tb 4)] }⟩,
        ⟨"b", "x", { frm := 0, phase := .live, attached := true }⟩]⟩ "a" .sendFail ⟨"b", "x", { frm := 0, phase := .live, attached := true }⟩ (by simp) (by decide)
      rcases this with h | ⟨me, hm, _, heff, _⟩
      · exact h
      · exfalso
        simp at hm
        subst hm
        simp [effectOf, Sys.step, Strm.sendFail, Own.toEv] at heff⟩

-- capacity 2: a live stream whose client does not read while rounds 3..8 are stored is ended at the 4th append; the client
-- reads 3, 4, 5, then SyncChain returns ErrCallbackReplaced; rounds 6, 7, 8 are stored and were never sent …
example :
    let y := Sys.runR .asIs 2 (Sys.step .asIs ⟨boltOf 2, { frm := 2, phase := .scanned, sent := [tb 2] }⟩ .register)
      [.put (tb 3), .put (tb 4), .put (tb 5), .put (tb 6), .put (tb 7), .put (tb 8), .deliver, .deliver, .deliver, .deliver, .deliver]
    roundsOf y.s.sent = [2, 3, 4, 5] ∧ y.s.queue = [] ∧ y.s.attached = false ∧
      (match y.s.phase with | .done .replaced => true | _ => false) = true ∧ y.store.head = 8 := by decide

-- … and the client, asking again from 6, gets 6, 7, 8 from the store
example :
    let y := Sys.runR .asIs 2 (Sys.step .asIs ⟨boltOf 2, { frm := 2, phase := .scanned, sent := [tb 2] }⟩ .register)
      [.put (tb 3), .put (tb 4), .put (tb 5), .put (tb 6), .put (tb 7), .put (tb 8), .deliver, .deliver, .deliver, .deliver]
    roundsOf (Sys.runR .asIs 2 ⟨y.store, { frm := 6 }⟩ [.start, .scanOpen, .scanNext, .scanNext, .scanNext]).s.sent = [6, 7, 8] := by
  decide

example : ∃ y : Sys, (∃ k, y.s.sent ++ queueBeacons y.s.queue = [tb 2] ++ (putsIn [.put (tb 3), .put (tb 4), .put (tb 5), .put (tb 6)]).take k) ∧
    Told y.s :=
  ⟨_, (c11_live_no_skip_or_ended 2 ⟨boltOf 2, { frm := 2, phase := .scanned, sent := [tb 2] }⟩ trivial
        [.put (tb 3), .put (tb 4), .put (tb 5), .put (tb 6)]).1.imp (fun _ h => h.1),
      (c11_live_no_skip_or_ended 2 ⟨boltOf 2, { frm := 2, phase := .scanned, sent := [tb 2] }⟩ trivial
        [.put (tb 3), .put (tb 4), .put (tb 5), .put (tb 6)]).2.2 (by decide) (by decide)⟩

example : (Sys.runR .asIs 2 ⟨boltOf 2, { frm := 0, phase := .done .replaced, sent := [tb 1] }⟩ [.put (tb 3), .deliver]).s.sent = [tb 1] :=
  (c11_ended_is_final .asIs 2 _ .replaced rfl _).1

end Drand.Beacon.Stream
