/-
C07 / C05 across a resharing, the variant "newest wins" of `roundCache.append` (`replace = true`; reports/quiet_fix_2.diff,
regenerated switch `Gen.replaceSameIndex`): the chain continues WITHOUT any discipline on who signs what.

With "newest wins" a stale old-share partial sitting on an index of the new group is overwritten by that member's own
partial at its next broadcast, so `Quiet` (DrandProofs/C07Net.lean) asks nothing of the caches of such nodes, and what it
asks of the packets in flight concerns partials of the CURRENT epoch only — partials of any other epoch are refused by `U`
whatever their round. That part is a consequence of a LOCAL invariant (`Sound`): clocks in lock-step inside `U`, heads and
last ticks of `U` not beyond the clock, and `U` closed for what can reach it WITH A SHARE OF EPOCH `e` and for what it can
sync from. Nothing is assumed about the other nodes: leavers that keep running and signing with their old shares (ahead
or behind), nodes that were never told, arbitrary old-share packets put on the wire between the rounds, stale partials
of any round in any cache (`c07_quiet_counterexample`, `cxFinal true`, is such a state: example at the end).
-/
import DrandProofs.C07Chain

namespace Drand.Net.Reshare

/-- the node holds, or has a registered switch to, a share of epoch `e` -/
def Erel (e : Nat) (d : Node) : Prop := d.vault.epoch = e ∨ ∃ p, d.pend = some p ∧ p.vault.epoch = e

/-- a member of `U` in the period `c`: it runs the "newest wins" cache, holds the vault `V` with no switch registered, and its
head, last tick and sleeping catch-up goroutines are not beyond the clock. NOTHING about its partial cache. -/
structure LocN (V : Vault) (c : Nat) (d : Node) : Prop where
  up : d.up = true
  clk : d.clock = c
  vault : d.vault = V
  pend : d.pend = none
  rep : d.replace = true
  headC : d.head ≤ c
  tickC : d.lastTick ≤ c
  pendC : ∀ r ∈ d.pending, r < d.lastTick

theorem LocN.frame {V : Vault} {c : Nat} {d d' : Node} (h : LocN V c d) (h1 : d'.up = d.up) (h2 : d'.clock = d.clock)
    (h3 : d'.vault = d.vault) (h4 : d'.pend = d.pend) (h5 : d'.replace = d.replace) (h6 : d'.head = d.head)
    (h7 : d'.lastTick = d.lastTick) (h8 : d'.pending = d.pending) : LocN V c d' :=
  ⟨h1 ▸ h.up, h2 ▸ h.clk, h3 ▸ h.vault, h4 ▸ h.pend, h5 ▸ h.rep, h6 ▸ h.headC, h7 ▸ h.tickC, by rw [h8, h7]; exact h.pendC⟩

theorem locN_aggregate {V : Vault} {c B : Nat} {d : Node} (h : LocN V c d) (idx ep r : Nat) (hr : r ≤ c) :
    LocN V c (d.aggregate B idx ep r) := by
  have hn := next_aggregate B d idx ep r
  have hk := hn.2.2.2 h.pend
  refine ⟨hn.1.trans h.up, hn.2.1.trans h.clk, hk.1.trans h.vault, hk.2, (aggregate_replace B d idx ep r).trans h.rep, ?_,
    by rw [aggregate_lastTick]; exact h.tickC, ?_⟩
  · rcases aggregate_head_step B d idx ep r with he | ⟨he, hr1⟩
    · rw [he]; exact h.headC
    · rw [he, ← hr1]; exact hr
  · intro x hx
    rw [aggregate_lastTick]
    rcases aggregate_pending B d idx ep r x hx with h1 | ⟨h1, h2, _⟩
    · exact h.pendC x h1
    · rw [h1]; exact h2

theorem locN_tickStep {V : Vault} {c B i : Nat} {d : Node} (h : LocN V c d) : LocN V c (d.tickStep B i).1 := by
  have h0 : LocN V c (d.setTick d.clock) :=
    ⟨h.up, h.clk, h.vault, h.pend, h.rep, h.headC, Nat.le_of_eq h.clk, fun r hr => by
      have h1 := h.pendC r hr; have h2 := h.tickC; have h3 := h.clk
      show r < d.clock; omega⟩
  have h1 : LocN V c ((d.setTick d.clock).aggregate B d.vault.index d.vault.epoch (Gen.bnpRound d.clock d.head)) :=
    locN_aggregate h0 _ _ _ (by rw [h.clk]; exact bnpRound_le_clock h.headC)
  rcases tickStep_node B i d h.up with he | ⟨v, he⟩ <;> rw [he]
  · exact h1
  · exact h1.frame rfl rfl rfl rfl rfl rfl rfl rfl

theorem locN_fireStep {V : Vault} {c B i : Nat} {d : Node} (h : LocN V c d) : LocN V c (d.fireStep B i).1 := by
  rcases fireStep_cases B i d with he | ⟨_, r, rest, hpd, he⟩ <;> rw [he]
  · exact h
  · have hr : r ∈ d.pending := by rw [hpd]; simp
    have h0 : LocN V c (d.setPending rest) :=
      ⟨h.up, h.clk, h.vault, h.pend, h.rep, h.headC, h.tickC, fun x hx => h.pendC x (by rw [hpd]; simp [show x ∈ rest from hx])⟩
    exact locN_aggregate h0 _ _ _ (by have h1 := h.pendC r hr; have h2 := h.tickC; omega)

theorem locN_recvStep {V : Vault} {c B self : Nat} {d : Node} (h : LocN V c d) (reach : Bool) (m : Msg)
    (hm : reach = true → m.epoch = V.epoch → m.round ≤ c) : LocN V c (d.recvStep B self reach m) := by
  rcases recvStep_cases B self reach d m with ⟨he, _⟩ | ⟨_, hr, ha, he⟩ <;> rw [he]
  · exact h
  · exact locN_aggregate h _ _ _ (hm hr (by rw [(c03_admitted_is_member self d m ha).2.1, h.vault]))

/-- what a run of `Put`s keeps of `LocN` (everything but the bound on the head) -/
private theorem locN_foldl_put {V : Vault} {c : Nat} : ∀ (l : List Nat) (d : Node),
    (d.up = true ∧ d.clock = c ∧ d.vault = V ∧ d.pend = none ∧ d.replace = true ∧ d.lastTick ≤ c ∧ ∀ r ∈ d.pending, r < d.lastTick) →
    ((l.foldl Node.put d).up = true ∧ (l.foldl Node.put d).clock = c ∧ (l.foldl Node.put d).vault = V ∧
      (l.foldl Node.put d).pend = none ∧ (l.foldl Node.put d).replace = true ∧ (l.foldl Node.put d).lastTick ≤ c ∧
      ∀ r ∈ (l.foldl Node.put d).pending, r < (l.foldl Node.put d).lastTick) := by
  intro l
  induction l with
  | nil => intro d h; exact h
  | cons a t ih =>
    intro d h
    obtain ⟨h1, h2, h3, h4, h5, h6, h7⟩ := h
    have hf := put_frame d a
    have hk := (next_put d a).2.2.2 h4
    exact ih (d.put a) ⟨hf.1.trans h1, hf.2.1.trans h2, hk.1.trans h3, hk.2, (put_replace d a).trans h5,
      by rw [hf.2.2.2.2.1]; exact h6, by rw [hf.2.2.2.2.2.1, hf.2.2.2.2.1]; exact h7⟩

theorem locN_appendTo {V : Vault} {c : Nat} {d : Node} (h : LocN V c d) (target : Nat) (ht : target ≤ c) :
    LocN V c (d.appendTo target) := by
  have hh := (appendTo_frame d target).1
  unfold Node.appendTo at hh ⊢
  obtain ⟨g1, g2, g3, g4, g5, g6, g7⟩ := locN_foldl_put (V := V) (c := c) (List.range' (d.head + 1) (target - d.head)) d
    ⟨h.up, h.clk, h.vault, h.pend, h.rep, h.tickC, h.pendC⟩
  refine ⟨g1, g2, g3, g4, g5, ?_, g6, g7⟩
  simp only [setHeld_head] at hh ⊢
  rw [hh]
  have := h.headC
  omega

theorem erel_of_next {e : Nat} {d d' : Node} (hv : d'.vault = d.vault ∨ ∃ p, d.pend = some p ∧ d'.vault = p.vault)
    (hp : d'.pend = d.pend ∨ d'.pend = none) (h : Erel e d') : Erel e d := by
  rcases h with h | ⟨p, h1, h2⟩
  · rcases hv with hv | ⟨p, hp1, hp2⟩
    · exact Or.inl (hv ▸ h)
    · exact Or.inr ⟨p, hp1, hp2 ▸ h⟩
  · rcases hp with hp | hp
    · exact Or.inr ⟨p, hp ▸ h1, h2⟩
    · rw [hp] at h1; cases h1

/-- what a protocol step can do to vault and registered switch: nothing, or the registered switch fires -/
def VStep (d d' : Node) : Prop :=
  (d'.vault = d.vault ∨ ∃ p, d.pend = some p ∧ d'.vault = p.vault) ∧ (d'.pend = d.pend ∨ d'.pend = none)

theorem VStep.refl (d : Node) : VStep d d := ⟨Or.inl rfl, Or.inl rfl⟩

theorem vstep_put (d : Node) (r : Nat) : VStep d (d.put r) := by
  rcases put_vault_cases d r with ⟨hv, hp⟩ | ⟨p, hp, _, _, hv, hpe⟩
  · exact ⟨Or.inl hv, Or.inl hp⟩
  · exact ⟨Or.inr ⟨p, hp, hv⟩, Or.inr hpe⟩

/-- `Erel` cannot appear through protocol steps: it is inherited backwards along `VStep`s -/
theorem erel_back {e : Nat} {d d' : Node} (h : VStep d d') : Erel e d' → Erel e d := erel_of_next h.1 h.2

theorem erel_back_foldl_put {e : Nat} : ∀ (l : List Nat) (d : Node), Erel e (l.foldl Node.put d) → Erel e d := by
  intro l
  induction l with
  | nil => intro d h; exact h
  | cons a t ih => intro d h; exact erel_back (vstep_put d a) (ih _ h)

theorem erel_back_aggregate {e B : Nat} (d : Node) (idx ep r : Nat) : Erel e (d.aggregate B idx ep r) → Erel e d := by
  rcases aggregate_cases B d idx ep r with ⟨_, he⟩ | ⟨_, _, he⟩ | ⟨_, _, _, v, he⟩ | ⟨_, _, _, P, he⟩ <;> rw [he]
  · exact id
  · exact id
  · exact id
  · intro h
    exact erel_back (vstep_put (d.setHeld (flush (d.cacheAdd r idx ep) r)) r) h

theorem erel_back_tickStep {e B i : Nat} (d : Node) : Erel e (d.tickStep B i).1 → Erel e d := by
  by_cases hu : d.up = true
  · rcases tickStep_node B i d hu with he | ⟨v, he⟩ <;> rw [he]
    · exact fun h => erel_back_aggregate (d.setTick d.clock) _ _ _ h
    · exact fun h => erel_back_aggregate (d.setTick d.clock) _ _ _ h
  · rw [tickStep_down B i d hu]; exact id

theorem erel_back_fireStep {e B i : Nat} (d : Node) : Erel e (d.fireStep B i).1 → Erel e d := by
  rcases fireStep_cases B i d with he | ⟨_, r, rest, _, he⟩ <;> rw [he]
  · exact id
  · exact fun h => erel_back_aggregate (d.setPending rest) _ _ _ h

theorem erel_back_recvStep {e B self : Nat} (d : Node) (reach : Bool) (m : Msg) : Erel e (d.recvStep B self reach m) → Erel e d := by
  rcases recvStep_cases B self reach d m with ⟨he, _⟩ | ⟨_, _, _, he⟩ <;> rw [he]
  · exact id
  · exact erel_back_aggregate d _ _ _

/-- **The local invariant.** `U`: members of the new group `G` (epoch `e`, node `i` with index `ix i`), at least `G.thr` of
them, pairwise connected, each `LocN` in the period `c`; partials of epoch `e` in flight towards `U` are not beyond the
clock; every running node that holds (or has registered the switch to) a share of epoch `e` and can reach a member of
`U` is in `U`; every running member of the group a member of `U` can sync from is in `U`. -/
structure Sound (s : State) (U : List Nat) (G : Grp) (e : Nat) (ix : Nat → Nat) (c : Nat) : Prop where
  frame : Frame U G ix s.nIdx
  lt : ∀ i ∈ U, i < s.n
  conn : ∀ i ∈ U, ∀ j ∈ U, s.conn i j = true
  node : ∀ i ∈ U, LocN ⟨G, e, ix i⟩ c (s.node i)
  msgs : ∀ m ∈ s.msgs, m.dst ∈ U → s.conn m.src m.dst = true → m.epoch = e → m.round ≤ c
  closedE : ∀ k, (s.node k).up = true → Erel e (s.node k) → (∃ j ∈ U, s.conn k j = true) → k ∈ U
  closedG : ∀ j ∈ U, ∀ k, s.peerOk j k = true → k ∈ (s.node j).recipients j → k ∈ U
  thr : G.thr ≤ U.length

/-- one node takes a protocol step (the shape shared by tick, catch-up wake-up and delivery) -/
theorem sound_act {s : State} {U : List Nat} {G : Grp} {e : Nat} {ix : Nat → Nat} {c : Nat} (h : Sound s U G e ix c)
    (i : Nat) (F : Node → Node × List Msg)
    (hU : i ∈ U → LocN ⟨G, e, ix i⟩ c (F (s.node i)).1)
    (hup : (F (s.node i)).1.up = (s.node i).up)
    (herel : Erel e (F (s.node i)).1 → Erel e (s.node i))
    (hmsg : ∀ m ∈ (F (s.node i)).2, m.src = i ∧ (s.node i).up = true ∧ (m.epoch = e → (s.node i).vault.epoch = e) ∧
      (i ∈ U → m.round ≤ c)) :
    Sound (s.act i F) U G e ix c := by
  have hnode : ∀ k, k ∈ U → LocN ⟨G, e, ix k⟩ c ((s.act i F).node k) := by
    intro k hk
    rw [act_node]
    by_cases hki : k = i
    · rw [hki] at hk ⊢; simp only [if_true]; exact hU hk
    · simp only [hki, if_false]; exact h.node k hk
  have hupk : ∀ k, ((s.act i F).node k).up = (s.node k).up := by
    intro k
    rw [act_node]
    by_cases hki : k = i
    · rw [hki]; simp only [if_true]; exact hup
    · simp only [hki, if_false]
  refine ⟨h.frame, h.lt, h.conn, hnode, ?_, ?_, ?_, h.thr⟩
  · intro m hm hd hc he
    simp only [act_msgs, List.mem_append] at hm
    rcases hm with hm | hm
    · exact h.msgs m hm hd hc he
    · obtain ⟨h1, h2, h3, h4⟩ := hmsg m hm
      have hiU : i ∈ U := h.closedE i h2 (Or.inl (h3 he)) ⟨m.dst, hd, by rw [← h1]; exact hc⟩
      exact h4 hiU
  · intro k hu he hc
    have hu' : (s.node k).up = true := (hupk k) ▸ hu
    refine h.closedE k hu' ?_ hc
    rw [act_node] at he
    by_cases hki : k = i
    · rw [hki] at he ⊢; simp only [if_true] at he; exact herel he
    · simp only [hki, if_false] at he; exact he
  · intro j hj k hok hmem
    have hrec : ((s.act i F).node j).recipients j = (s.node j).recipients j :=
      recipients_congr j ((hnode j hj).vault.trans (h.node j hj).vault.symm)
    refine h.closedG j hj k ?_ (hrec ▸ hmem)
    simp only [State.peerOk, hupk, act_conn] at hok ⊢
    exact hok

theorem sound_tick {s : State} {U : List Nat} {G : Grp} {e : Nat} {ix : Nat → Nat} {c : Nat} (i : Nat)
    (h : Sound s U G e ix c) : Sound (s.tick i) U G e ix c := by
  apply sound_act h i
  · intro hi; exact locN_tickStep (h.node i hi)
  · exact (next_tickStep _ _ _).1
  · exact erel_back_tickStep _
  · intro m hm
    obtain ⟨h1, h2, h3, h4⟩ := tickStep_msgs hm
    refine ⟨h2, h1, fun he => h4.symm.trans he, fun hi => ?_⟩
    have hl := h.node i hi
    rw [h3, hl.clk]; exact bnpRound_le_clock hl.headC

theorem sound_fire {s : State} {U : List Nat} {G : Grp} {e : Nat} {ix : Nat → Nat} {c : Nat} (i : Nat)
    (h : Sound s U G e ix c) : Sound (s.fire i) U G e ix c := by
  apply sound_act h i
  · intro hi; exact locN_fireStep (h.node i hi)
  · exact (next_fireStep _ _ _).1
  · exact erel_back_fireStep _
  · intro m hm
    rcases fireStep_cases s.nIdx i (s.node i) with hc | ⟨hu, r, rest, hpd, hc⟩
    · rw [show (s.node i).fireStep s.nIdx i = ((s.node i), []) from hc] at hm; cases hm
    · rw [show (s.node i).fireStep s.nIdx i = _ from hc] at hm
      obtain ⟨j, _, rfl⟩ := List.mem_map.mp hm
      refine ⟨rfl, hu, fun he => he, fun hi => ?_⟩
      have hl := h.node i hi
      have hr : r ∈ (s.node i).pending := by rw [hpd]; simp
      have h1 := hl.pendC r hr; have h2 := hl.tickC
      show r + 1 ≤ c; omega

theorem sound_fireNode {s : State} {U : List Nat} {G : Grp} {e : Nat} {ix : Nat → Nat} {c : Nat} (i : Nat)
    (h : Sound s U G e ix c) : Sound (s.fireNode i) U G e ix c := by
  rw [fireNode_eq]
  exact fires_inv (fun x => Sound x U G e ix c) i (fun _ hx => sound_fire i hx) _ s h

theorem sound_recv {s : State} {U : List Nat} {G : Grp} {e : Nat} {ix : Nat → Nat} {c : Nat} (m : Msg)
    (h : Sound s U G e ix c) (hm : m.dst ∈ U → s.conn m.src m.dst = true → m.epoch = e → m.round ≤ c) :
    Sound (s.recv m) U G e ix c := by
  apply sound_act h m.dst
  · intro hi; exact locN_recvStep (h.node m.dst hi) _ m (fun hr he => hm hi hr he)
  · exact (next_recvStep _ _ _ _ _).1
  · exact erel_back_recvStep _ _ _
  · intro m' hm'; cases hm'

theorem sound_foldl_recv {U : List Nat} {G : Grp} {e : Nat} {ix : Nat → Nat} {c : Nat} : ∀ (l : List Msg) (s : State),
    Sound s U G e ix c → (∀ m ∈ l, m.dst ∈ U → s.conn m.src m.dst = true → m.epoch = e → m.round ≤ c) →
    Sound (l.foldl State.recv s) U G e ix c := by
  intro l
  induction l with
  | nil => intro s h _; exact h
  | cons a t ih =>
    intro s h hl
    simp only [List.foldl_cons]
    exact ih (s.recv a) (sound_recv a h (hl a (by simp))) (fun m hm => hl m (by simp [hm]))

theorem sound_deliverAll {s : State} {U : List Nat} {G : Grp} {e : Nat} {ix : Nat → Nat} {c : Nat}
    (h : Sound s U G e ix c) : Sound s.deliverAll U G e ix c := by
  have h0 : Sound { s with msgs := [] } U G e ix c :=
    ⟨h.frame, h.lt, h.conn, h.node, fun m hm => (by cases hm), h.closedE, h.closedG, h.thr⟩
  exact sound_foldl_recv s.msgs _ h0 h.msgs

theorem maxPeerHead_le_of_sound {s : State} {U : List Nat} {G : Grp} {e : Nat} {ix : Nat → Nat} {c : Nat}
    (h : Sound s U G e ix c) (j : Nat) (hj : j ∈ U) : s.maxPeerHead j ≤ c := by
  unfold State.maxPeerHead
  have key : ∀ (l : List Nat) (acc : Nat), acc ≤ c → (∀ k ∈ l, k ∈ (s.node j).recipients j) →
      l.foldl (fun m k => if s.peerOk j k then max m (s.node k).head else m) acc ≤ c := by
    intro l
    induction l with
    | nil => intro acc ha _; exact ha
    | cons a t ih =>
      intro acc ha hl
      simp only [List.foldl_cons]
      apply ih _ _ (fun k hk => hl k (by simp [hk]))
      split
      · next hok =>
        have haU : a ∈ U := h.closedG j hj a hok (hl a (by simp))
        exact Nat.max_le.mpr ⟨ha, (h.node a haU).headC⟩
      · exact ha
  exact key _ 0 (Nat.zero_le _) (fun k hk => hk)

theorem sound_pull {s : State} {U : List Nat} {G : Grp} {e : Nat} {ix : Nat → Nat} {c : Nat} (i : Nat)
    (h : Sound s U G e ix c) : Sound (s.pull i) U G e ix c := by
  have key : ∀ d : Node, (i ∈ U → LocN ⟨G, e, ix i⟩ c d) → d.up = (s.node i).up → (Erel e d → Erel e (s.node i)) →
      Sound (s.setNode i d) U G e ix c := by
    intro d h1 h2 h3
    have hact : s.setNode i d = s.act i (fun _ => (d, [])) := by
      cases s with
      | mk cfg n nIdx node conn msgs => simp [State.setNode, State.act]
    rw [hact]
    exact sound_act h i _ h1 h2 h3 (fun m hm => by cases hm)
  rcases pull_cases s i with he | he | ⟨_, _, v, he⟩ <;> rw [he]
  · exact h
  · exact key _ (fun hi => (h.node i hi).frame rfl rfl rfl rfl rfl rfl rfl rfl) rfl id
  · refine key _ (fun hi => ?_) ?_ ?_
    · have h1 := locN_appendTo (h.node i hi) (min (s.node i).syncTo (s.maxPeerHead i))
        (Nat.le_trans (Nat.min_le_right _ _) (maxPeerHead_le_of_sound h i hi))
      exact h1.frame rfl rfl rfl rfl rfl rfl rfl rfl
    · exact (next_appendTo _ _).1
    · intro he'
      have : Erel e ((s.node i).appendTo (min (s.node i).syncTo (s.maxPeerHead i))) := he'
      unfold Node.appendTo at this
      exact erel_back_foldl_put _ _ this

theorem sound_settle {s : State} {U : List Nat} {G : Grp} {e : Nat} {ix : Nat → Nat} {c : Nat}
    (h : Sound s U G e ix c) : Sound s.settle U G e ix c :=
  foldl_inv (fun x => Sound x U G e ix c) State.pull (fun _ i hx => sound_pull i hx) _ _
    (sound_deliverAll (foldl_inv (fun x => Sound x U G e ix c) State.pull (fun _ i hx => sound_pull i hx) _ _ h))

theorem sound_advance {s : State} {U : List Nat} {G : Grp} {e : Nat} {ix : Nat → Nat} {c : Nat}
    (h : Sound s U G e ix c) : Sound s.advance U G e ix (c + 1) := by
  refine ⟨h.frame, h.lt, h.conn, fun i hi => ?_, fun m hm hd hc he => Nat.le_succ_of_le (h.msgs m hm hd hc he),
    h.closedE, h.closedG, h.thr⟩
  have hl := h.node i hi
  exact ⟨hl.up, by show (s.node i).clock + 1 = c + 1; rw [hl.clk], hl.vault, hl.pend, hl.rep, Nat.le_succ_of_le hl.headC,
    Nat.le_succ_of_le hl.tickC, hl.pendC⟩

theorem sound_fairTick {s : State} {U : List Nat} {G : Grp} {e : Nat} {ix : Nat → Nat} {c : Nat}
    (h : Sound s U G e ix c) : Sound s.fairTick U G e ix (c + 1) :=
  sound_settle (foldl_inv (fun x => Sound x U G e ix (c + 1)) State.tick (fun _ i hx => sound_tick i hx) _ _ (sound_advance h))

theorem sound_fairCatch {s : State} {U : List Nat} {G : Grp} {e : Nat} {ix : Nat → Nat} {c : Nat}
    (h : Sound s U G e ix c) : Sound s.fairCatch U G e ix c :=
  sound_settle (foldl_inv (fun x => Sound x U G e ix c) State.fireNode (fun _ i hx => sound_fireNode i hx) _ _ h)

theorem sound_fairCatchN {U : List Nat} {G : Grp} {e : Nat} {ix : Nat → Nat} {c : Nat} : ∀ (k : Nat) (s : State),
    Sound s U G e ix c → Sound (State.fairCatchN s k) U G e ix c := by
  intro k
  induction k with
  | zero => intro s h; exact h
  | succ k ih => intro s h; exact ih _ (sound_fairCatch h)

/-- anybody puts a packet made with a share of ANOTHER epoch on the wire — any round, any index, any destination -/
theorem sound_inject {s : State} {U : List Nat} {G : Grp} {e : Nat} {ix : Nat → Nat} {c : Nat}
    (h : Sound s U G e ix c) (m : Msg) (hm : m.epoch ≠ e) : Sound (s.apply (.send m)) U G e ix c := by
  refine ⟨h.frame, h.lt, h.conn, h.node, ?_, h.closedE, h.closedG, h.thr⟩
  intro m' hm' hd hc he
  have : m' ∈ s.msgs ++ [m] := hm'
  rcases List.mem_append.mp this with h1 | h1
  · exact h.msgs m' h1 hd hc he
  · rw [List.mem_singleton.mp h1] at he; exact absurd he hm

/-- **`Quiet`, repaired variant, from the local invariant** — no discipline on who signs what, whatever the caches hold -/
theorem c07_quiet_of_sound {s : State} {U : List Nat} {G : Grp} {e : Nat} {ix : Nat → Nat} {c : Nat}
    (h : Sound s U G e ix c) (x : Nat) (hx : c ≤ x + 1) : Quiet s U x e :=
  ⟨fun m hm hd hc he => Nat.le_trans (h.msgs m hm hd hc he) hx,
   fun j hj hrep => by rw [(h.node j hj).rep] at hrep; cases hrep⟩

/-- **One tick sub-round, repaired variant.** As `c07_fair_tick`, from `Sound` instead of `Healthy`: the other running nodes
are arbitrary. -/
theorem c07_fair_tick_repaired {s : State} {U : List Nat} {G : Grp} {e : Nat} {ix : Nat → Nat} {c : Nat}
    (h : Sound s U G e ix c) (hlag : ∀ i ∈ U, c ≤ (s.node i).head + 1) :
    Sound s.fairTick U G e ix (c + 1) ∧ (∀ i ∈ U, c ≤ (s.fairTick.node i).head) ∧
    ((∀ i ∈ U, (s.node i).head = c) → ∀ i ∈ U, (s.fairTick.node i).head = c + 1) := by
  have hS := sound_fairTick h
  have hE : Ext s.advance s.fairTick := ext_advance_fairTick s
  have hmono : ∀ k, (s.node k).head ≤ (s.fairTick.node k).head := fun k => (hE.node k).2.2.1
  have step : ∀ x, x < c + 1 → c ≤ x + 1 → (∀ i ∈ U, (s.node i).head = x) → ∀ j ∈ U, x + 1 ≤ (s.fairTick.node j).head := by
    intro x hx hcx hh
    have side : Side s U G e ix x :=
      ⟨h.frame.nodup, h.lt, fun i hi => (h.node i hi).up, h.conn, fun i hi => (h.node i hi).vault, h.frame.member,
       h.frame.idxLt, h.frame.idxNodup,
       fun k _ hu he hc => Nat.le_of_eq (hh k (h.closedE k hu (Or.inl he) hc))⟩
    exact c07_reshare_step_progress s U G e ix x (c + 1) side h.thr hh (fun i hi => by rw [(h.node i hi).clk]) hx
      (c07_quiet_of_sound h x hcx)
  refine ⟨hS, ?_, ?_⟩
  · intro j hj
    by_cases hex : ∃ m ∈ U, (s.node m).head = c
    · obtain ⟨m, hm, hmc⟩ := hex
      by_cases hjc : c ≤ (s.node j).head
      · exact Nat.le_trans hjc (hmono j)
      · have hjm : j ≠ m := fun hjm => hjc (by rw [hjm, hmc]; exact Nat.le_refl _)
        exact c07_level s j m c (c + 1) (h.lt j hj) hjm (h.node j hj).up (h.node m hm).up (h.conn j hj m hm) (h.conn m hm j hj)
          (h.node j hj).pend (mem_recipients (h.node j hj).vault (h.frame.member m hm) (fun hmj => hjm hmj.symm))
          (by rw [(h.node j hj).clk]) hmc (Nat.lt_succ_self c)
    · have hall : ∀ i ∈ U, (s.node i).head + 1 = c := by
        intro i hi
        have h1 := hlag i hi
        have h2 := (h.node i hi).headC
        have h3 : (s.node i).head ≠ c := fun h3 => hex ⟨i, hi, h3⟩
        omega
      have h2 := hall j hj
      have := step (s.node j).head (by omega) (by omega)
        (fun i hi => by have h1 := hall i hi; omega) j hj
      omega
  · intro hh i hi
    have h1 := step c (Nat.lt_succ_self c) (Nat.le_succ c) hh i hi
    have h2 := (hS.node i hi).headC
    omega

/-- a step of a schedule: a fair round (tick sub-round + `extra` catch-up sub-rounds), or a packet of another epoch put
on the wire by anybody -/
inductive FStep where
  | round (extra : Nat)
  | inject (m : Msg)

def State.fstep (s : State) : FStep → State
  | .round x => s.fairRound x
  | .inject m => s.apply (.send m)

def FStep.ok (e : Nat) : FStep → Prop
  | .round _ => True
  | .inject m => m.epoch ≠ e

def FStep.len : FStep → Nat
  | .round _ => 1
  | .inject _ => 0

/-- the number of periods a schedule spans -/
def periods (sch : List FStep) : Nat := (sch.map FStep.len).sum

/-- **The chain continues, repaired variant — with leavers that keep running and arbitrary old-share packets.** `Sound` in the
period `c` (use: `c = transition − 1`, or any later period — e.g. the halted state of `c07_quiet_counterexample`), every
member of `U` storing `c − 1` or `c`. Then for EVERY schedule made of fair rounds and, between them, arbitrary packets
made with shares of other epochs: after `k` periods the invariant holds in period `c + k`, every member of `U` stores at
least `c + k − 1` and at most `c + k`, and level stays level. No hypothesis on the partial caches (stale partials of any
round under any index), on the nodes outside `U` that hold other epochs (running, signing, ahead or behind), on who was
told when. -/
theorem c07_chain_continues_repaired {U : List Nat} {G : Grp} {e : Nat} {ix : Nat → Nat} :
    ∀ (sch : List FStep) (s : State) (c : Nat), (∀ st ∈ sch, st.ok e) → Sound s U G e ix c → (∀ i ∈ U, c ≤ (s.node i).head + 1) →
    Sound (sch.foldl State.fstep s) U G e ix (c + periods sch) ∧
    (∀ i ∈ U, c + periods sch ≤ ((sch.foldl State.fstep s).node i).head + 1 ∧ ((sch.foldl State.fstep s).node i).head ≤ c + periods sch) ∧
    ((∀ i ∈ U, (s.node i).head = c) → ∀ i ∈ U, ((sch.foldl State.fstep s).node i).head = c + periods sch) := by
  intro sch
  induction sch with
  | nil =>
    intro s c _ h hlag
    simp only [List.foldl_nil, periods, List.map_nil, List.sum_nil, Nat.add_zero]
    exact ⟨h, fun i hi => ⟨hlag i hi, (h.node i hi).headC⟩, fun hh i hi => hh i hi⟩
  | cons st rest ih =>
    intro s c hok h hlag
    have hrest : ∀ x ∈ rest, x.ok e := fun x hx => hok x (by simp [hx])
    cases st with
    | inject m =>
      have h1 : Sound (s.apply (.send m)) U G e ix c := sound_inject h m (hok (.inject m) (by simp))
      have := ih (s.apply (.send m)) c hrest h1 hlag
      have hp : c + periods (FStep.inject m :: rest) = c + periods rest := by
        simp only [periods, List.map_cons, List.sum_cons, FStep.len]; omega
      rw [hp]
      exact ⟨this.1, this.2.1, fun hh => this.2.2 hh⟩
    | round x =>
      obtain ⟨t1, t2, t3⟩ := c07_fair_tick_repaired h hlag
      have hE : Ext s.fairTick (s.fairRound x) := ext_fairCatchN x s.fairTick
      have hS : Sound (s.fairRound x) U G e ix (c + 1) := sound_fairCatchN x _ t1
      have hlag' : ∀ i ∈ U, c + 1 ≤ ((s.fairRound x).node i).head + 1 := by
        intro i hi
        have := Nat.le_trans (t2 i hi) (hE.node i).2.2.1
        omega
      have := ih (s.fairRound x) (c + 1) hrest hS hlag'
      have hp : c + periods (FStep.round x :: rest) = c + 1 + periods rest := by
        simp only [periods, List.map_cons, List.sum_cons, FStep.len]; omega
      rw [hp]
      refine ⟨this.1, this.2.1, fun hh => this.2.2 (fun i hi => ?_)⟩
      have h1 := Nat.le_trans (Nat.le_of_eq (t3 hh i hi).symm) (hE.node i).2.2.1
      have h2 := (hS.node i hi).headC
      omega

/-! ### non-vacuity: the halted state of `c07_quiet_counterexample`, with the repaired cache -/

/-- the indices of the new group `cxNew`: node 1 ↦ 0 (the leaver's old index), node 2 ↦ 1 -/
def cxIx (i : Nat) : Nat := i - 1

theorem cx_frozen (k : Nat) : ((cxFinal true).node (k + 3)).up = false := by
  have hq : ∀ ev ∈ cxEvs, ev.quietFor (k + 3) := by
    intro ev hev
    simp only [cxEvs, List.mem_cons, List.not_mem_nil, or_false] at hev
    rcases hev with h | h | h | h | h | h | h | h | h | h | h | h <;> subst h <;> trivial
  have h0 : ((cxInit true).node (k + 3)).up = false := by
    have : cxOld.members.find? (fun m => m.node == k + 3) = none := by simp [cxOld]
    simp [cxInit, State.init, this]
  exact (frozen_run (k + 3) cxEvs (cxInit true) h0 hq).1

/-- the state in which the code as it is halts for good (`c07_quiet_counterexample`): both members of the new group cache
the leaver's old-share partial for round 2 under index 0, the leaver (node 0) is up, connected to both and keeps signing
with its old share. With "newest wins" the state satisfies the local invariant -/
theorem cx_sound : Sound (cxFinal true) [1, 2] cxNew 1 cxIx 2 := by
  refine ⟨⟨by decide, by decide, by decide, by decide⟩, by decide, by decide, ?_, ?_, ?_, ?_, by decide⟩
  · intro i hi
    simp only [List.mem_cons, List.not_mem_nil, or_false] at hi
    rcases hi with rfl | rfl <;>
      exact ⟨by decide, by decide, by decide, by decide, by decide, by decide, by decide, by decide⟩
  · intro m hm
    rw [show (cxFinal true).msgs = [] from by decide] at hm
    cases hm
  · intro k
    match k with
    | 0 =>
      intro _ he _
      rcases he with he | ⟨p, hp, _⟩
      · exact absurd he (by decide)
      · rw [show ((cxFinal true).node 0).pend = none from by decide] at hp; cases hp
    | 1 => intro _ _ _; simp
    | 2 => intro _ _ _; simp
    | k + 3 => intro hu; rw [cx_frozen k] at hu; cases hu
  · intro j hj k _ hmem
    simp only [List.mem_cons, List.not_mem_nil, or_false] at hj
    rcases hj with rfl | rfl
    · rw [show ((cxFinal true).node 1).recipients 1 = [2] from by decide] at hmem
      simp at hmem; simp [hmem]
    · rw [show ((cxFinal true).node 2).recipients 2 = [1] from by decide] at hmem
      simp at hmem; simp [hmem]

/-- from there the chain continues for every schedule of fair rounds and old-share packets: the stale partials are still in
the caches (`held 2 0 = some 0`), the leaver keeps running, more packets made with its old share — here for rounds 2 and 9 —
arrive between the rounds; after two periods both members store round 2 at least (and 4 at most) -/
example : ((cxFinal true).node 1).held 2 0 = some 0 ∧ ((cxFinal true).node 0).up = true ∧
    ∀ i ∈ [1, 2], 3 ≤ (([FStep.inject ⟨0, 0, 0, 2, 1⟩, .round 1, .inject ⟨0, 0, 0, 9, 2⟩, .round 0].foldl State.fstep (cxFinal true)).node i).head := by
  refine ⟨by decide, by decide, ?_⟩
  have := (c07_chain_continues_repaired [FStep.inject ⟨0, 0, 0, 2, 1⟩, .round 1, .inject ⟨0, 0, 0, 9, 2⟩, .round 0]
    (cxFinal true) 2 (by intro st hst; simp at hst; rcases hst with h | h | h | h <;> subst h <;> first | trivial | (show _ ≠ _; decide))
    cx_sound (by decide)).2.1
  intro i hi
  have := (this i hi).1
  simp only [periods, List.map_cons, List.map_nil, List.sum_cons, List.sum_nil, FStep.len] at this
  omega

end Drand.Net.Reshare
