#!/usr/bin/env python3
"""Cheap syntactic mutation sweep: which small changes to the anchored drand sources do the checks notice?

usage: tools/mutsweep.py --workers 4 --per-file 12 --out /tmp/mut/results.jsonl [--files a.go,b.go] [--seed 1]

Every worker owns a scratch worktree of /repo (the system under test is never /repo itself) and a scratch worktree
of /verif (own lean/Gen and build output, so regenerated facts of different mutants never mix). For each mutant:
  go build ./...                     fails  -> "nobuild"      (discarded)
  go test  <package of the file>     fails  -> "tests"        (the pinned suite notices: not interesting)
  ./check P --tier quick (P from the property<->file anchors), stop at the first VIOLATION -> "killed:P"
  none fired                                -> "survived"     (triage by hand: equivalent, irrelevant to P, or a blind spot)
A control (the unchanged file) is run every 10th slot: a check that fires there is flaky under load.
This is a search for blind spots of the checks, not part of any check and never a proof of anything."""
import argparse, json, os, random, re, subprocess, sys, threading, time, queue

V = os.path.dirname(os.path.dirname(os.path.abspath(__file__)))
ENV = dict(os.environ, GOFLAGS="-mod=mod", GOPROXY="off")

SKIP_LINE = re.compile(r"(\blog\b|\.log\.|Debugw|Infow|Warnw|Errorw|Fatalw|metrics\.|tracer\.|span\.|fmt\.Errorf|errors\.New|^\s*//)")


def sh(cmd, cwd=None, env=None, timeout=3600):
    try:
        p = subprocess.run(cmd, cwd=cwd, env=env or ENV, stdout=subprocess.PIPE, stderr=subprocess.STDOUT, text=True, timeout=timeout)
        return p.returncode, p.stdout
    except subprocess.TimeoutExpired as e:
        return 124, (e.stdout or "") if isinstance(e.stdout, str) else "timeout"


def anchors():
    m = {}
    for l in open(os.path.join(V, "properties.jsonl")):
        p = json.loads(l)
        for f in p["anchors"]["files"]:
            m.setdefault(f, []).append(p["id"])
    return m


OPS = [
    (re.compile(r"(?<![<>=!])<=(?!=)"), "<"), (re.compile(r"(?<![<>=!-])<(?![<=-])"), "<="),
    (re.compile(r"(?<![<>=!])>=(?!=)"), ">"), (re.compile(r"(?<![<>=!-])>(?![>=])"), ">="),
    (re.compile(r"=="), "!="), (re.compile(r"!="), "=="),
    (re.compile(r"&&"), "||"), (re.compile(r"\|\|"), "&&"),
    (re.compile(r"\+ 1\b"), "+ 2"), (re.compile(r"\+ 1\b"), ""), (re.compile(r"- 1\b"), ""), (re.compile(r"\+1\b"), ""), (re.compile(r"-1\b"), ""),
]


def mutants_of(path, src, rng, limit):
    lines = src.split("\n")
    cands = []
    infunc = False
    for i, l in enumerate(lines):
        if l.startswith("func "):
            infunc = True
        if not infunc or SKIP_LINE.search(l):
            continue
        st = l.strip()
        if st.startswith(("if ", "for ", "} else if ", "case ", "return ", "switch ")) or " := " in st or " = " in st:
            for k, (rx, rep) in enumerate(OPS):
                if k in (4, 5) and re.search(r"\berr [!=]= nil", l):
                    continue   # flipping an error test is caught by the first test that runs the line
                for mt in rx.finditer(l):
                    # stay out of string literals (crude: an even number of quotes before the match)
                    if l[:mt.start()].count('"') % 2:
                        continue
                    new = l[:mt.start()] + rep + l[mt.end():]
                    cands.append((i, f"op{k}", new))
        # drop an error / guard return:  `if cond {` followed by `return …` and `}`
        if st.startswith("if ") and st.endswith("{") and i + 2 < len(lines) and lines[i + 1].strip().startswith("return") and lines[i + 2].strip() == "}":
            cands.append((i, "dropguard", None))
        # negate a condition
        m = re.match(r"^(\s*if )([^;{]+)( \{)$", l)
        if m and "err" not in m.group(2):
            cands.append((i, "negate", f"{m.group(1)}!({m.group(2)}){m.group(3)}"))
    rng.shuffle(cands)
    out = []
    seen = set()
    for i, kind, new in cands:
        if (i, kind) in seen:
            continue
        seen.add((i, kind))
        ls = list(lines)
        if kind == "dropguard":
            ls[i] = re.sub(r" \{$", " && false {", ls[i])
            new = ls[i]
        else:
            ls[i] = new
        fn = ""
        for j in range(i, -1, -1):
            if lines[j].startswith("func "):
                fn = lines[j][:100]
                break
        out.append({"file": path, "line": i + 1, "kind": kind, "func": fn, "old": lines[i].strip(), "new": (new or "<guard removed>").strip(), "src": "\n".join(ls)})
        if len(out) >= limit:
            break
    return out


def worker(wid, q, outp, lock, props_of, only_props):
    rw, vw = f"/tmp/mutr_{wid}", f"/tmp/mutv_{wid}"
    sh(["git", "-C", "/repo", "worktree", "remove", "--force", rw]); sh(["git", "-C", V, "worktree", "remove", "--force", vw])
    sh(["git", "-C", "/repo", "worktree", "add", "-q", "--detach", rw, "HEAD"])
    sh(["git", "-C", V, "worktree", "add", "-q", "--detach", vw, "HEAD"])
    ev = os.path.join(vw, ".build", "evidence_scratch")
    cenv = dict(ENV, VERIF_REPO=rw, VERIF_EVIDENCE_DIR=ev)
    while True:
        try:
            m = q.get_nowait()
        except queue.Empty:
            break
        t0 = time.time()
        path = os.path.join(rw, m["file"])
        orig = open(path).read()
        rec = {k: m[k] for k in ("file", "line", "kind", "func", "old", "new")}
        try:
            if m["kind"] != "control":
                open(path, "w").write(m["src"])
            rc, o = sh(["go", "build", "./..."], cwd=rw, timeout=900)
            if rc != 0:
                rec["result"] = "nobuild"
            else:
                rc, o = sh(["go", "vet", "./" + os.path.dirname(m["file"])], cwd=rw, timeout=900)
                pkg = "./" + os.path.dirname(m["file"]) + "/..."
                rc, o = sh(["go", "test", "-vet=off", "-count=1", "-timeout", "20m", pkg], cwd=rw, timeout=1500)
                fails = [l for l in o.splitlines() if l.startswith("--- FAIL")]
                if rc != 0 and m["kind"] != "control" and (fails or "panic:" in o or "FAIL" in o):
                    rec["result"] = "tests"; rec["tests"] = fails[:3]
                else:
                    rec["result"] = "survived"; rec["checks"] = {}
                    for p in props_of(m["file"]):
                        if only_props and p not in only_props:
                            continue
                        t1 = time.time()
                        rc, o = sh(["./check", p, "--tier", "quick"], cwd=vw, env=cenv, timeout=2400)
                        vio = [l for l in o.splitlines() if l.startswith("VIOLATION")]
                        rec["checks"][p] = {"exit": rc, "s": round(time.time() - t1), "vio": vio[:1]}
                        if rc != 0:
                            rec["result"] = "killed:" + p
                            rec["nofail"] = bool(vio) and "no-failing-input-found" in vio[0]
                            if vio and "replay=" in vio[0]:
                                try:
                                    r = json.load(open(vio[0].split("replay=")[1].split()[0]))
                                    rec["why"] = str(r.get("oracle") or r.get("broken") or r.get("note") or r.get("kind"))[:300]
                                except Exception as e:
                                    rec["why"] = "replay unreadable: " + str(e)
                            if not vio:
                                rec["why"] = "exit %d without VIOLATION line: %s" % (rc, o[-300:])
                            break
        finally:
            open(path, "w").write(orig)
        rec["wall_s"] = round(time.time() - t0)
        with lock:
            outp.write(json.dumps(rec) + "\n"); outp.flush()
            print(f"[w{wid}] {rec['result']:12} {m['file']}:{m['line']} {m['kind']} | {rec['old'][:70]} -> {rec['new'][:70]}", flush=True)
    sh(["git", "-C", "/repo", "worktree", "remove", "--force", rw]); sh(["git", "-C", V, "worktree", "remove", "--force", vw])


def main():
    ap = argparse.ArgumentParser()
    ap.add_argument("--workers", type=int, default=4)
    ap.add_argument("--per-file", type=int, default=10)
    ap.add_argument("--files", default="")
    ap.add_argument("--props", default="")
    ap.add_argument("--seed", type=int, default=1)
    ap.add_argument("--out", default="/tmp/mut/results.jsonl")
    a = ap.parse_args()
    anc = anchors()
    files = [f for f in a.files.split(",") if f] or sorted(f for f in anc if "postgres" not in f and os.path.exists("/repo/" + f))
    rng = random.Random(a.seed)
    ms = []
    for f in files:
        ms += mutants_of(f, open("/repo/" + f).read(), rng, a.per_file)
    rng.shuffle(ms)
    withc = []
    for i, m in enumerate(ms):
        if i % 10 == 0:
            withc.append({"file": m["file"], "line": 0, "kind": "control", "func": "", "old": "", "new": "", "src": None})
        withc.append(m)
    q = queue.Queue()
    for m in withc:
        q.put(m)
    os.makedirs(os.path.dirname(a.out), exist_ok=True)
    outp = open(a.out, "a")
    lock = threading.Lock()
    only = set(p for p in a.props.split(",") if p)
    print(f"{len(ms)} mutants over {len(files)} files, {a.workers} workers", flush=True)
    ts = [threading.Thread(target=worker, args=(i, q, outp, lock, lambda f: anc.get(f, []), only)) for i in range(a.workers)]
    for t in ts:
        t.start(); time.sleep(2)
    for t in ts:
        t.join()


if __name__ == "__main__":
    main()
