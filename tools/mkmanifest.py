#!/usr/bin/env python3
"""Regenerates /verif/MANIFEST.json from the table below (kept in one place so it stays valid)."""
import json, os
V = os.path.dirname(os.path.dirname(os.path.abspath(__file__)))
BASE = json.load(open("/root/.vp/BASELINE.json"))["cmd"] if os.path.exists("/root/.vp/BASELINE.json") else ""

CHECKS = {
 "C16": dict(engine="time", design="§3 C16",
   text="Lean theorems over an exact (Int) layer and a machine (uint64/int64 wrap-explicit) layer of common/time.go: uniqueness of the current round, next = current+1 with its exact time, strict monotonicity, and for every 64-bit round the machine TimeOfRound is the exact time or the documented error value, never negative/wrapped; machine NextRound/CurrentRound equal the exact layer on the whole domain. Tied to the code by regenerated constants and a differential run of the real functions against the model's executable definitions.",
   note="Lean kernel + propext/Classical.choice/Quot.sound; IEEE-754 float division/Log2 of Go modelled as exact integer division / Nat.log2 (checked differentially on the complete power-of-two table and boundary-directed inputs); go2lean; harness.",
   technique="Lean 4 proof (omega/nlinarith, 33-way case split on period bits) + regenerated constants + differential correspondence"),
 "C18": dict(engine="store", design="§3 C18",
   text="Lean theorems: for every sequence of put/del the untrimmed bolt model keeps a strictly sorted key list whose entries carry their own round and Get answers exactly as a plain round->beacon map (refinement by induction over the op list); Last is the maximum; a cursor over a snapshot enumerates exactly the snapshot in strictly ascending order, Seek lands on the least round >= the argument and on the round itself when stored, every cursor read is an entry of the snapshot; trimmed store reads are labelled with the key found and the reconstructed previous signature is the stored signature of round-1 or the read fails; the memdb model stays sorted and within capacity for every op sequence, keeps an existing round, forgets only the smallest rounds, and its positional cursor only returns stored elements. Tied to the code by running the real boltdb (trimmed/untrimmed, with/without previous-required) and memdb stores against the model's executable definitions and against an independent sorted-map oracle.",
   note="Lean kernel + standard axioms; bbolt's snapshot/ordering semantics are modelled, not verified; PostgreSQL back-end not modelled; harness.",
   technique="Lean 4 proof (induction over op sequences, refinement to a map) + differential correspondence with real bbolt/memdb + sorted-map oracle"),
 "C17": dict(engine="hash", design="§3 C17",
   text="Lean theorems over the byte-exact preimages of Info.Hash and Group.Hash (layouts regenerated from the source and tied by rfl): determinism incl. id canonicalisation, every single-field change (period, genesis, public key, seed, id; member key/index, threshold, genesis, transition incl. 0<->non-0, dist key, id) changes the preimage (inner hashes under an explicit collision-freedom hypothesis), joint injectivity under fixed key/seed lengths with the seed/id ambiguity exhibited otherwise, independence of node listing order (sorting of a permutation with distinct indices), chain hash ignores membership, decode rejects a mismatching embedded hash. Tied to the code by hashing the model's preimage (python hashlib) and comparing with the real Hash() on generated groups over all 5 schemes, plus equality across TOML/protobuf/JSON paths and inequality under perturbation on the real code.",
   note="Lean kernel + standard axioms; SHA-256/BLAKE2b collision freedom is a hypothesis; go2lean layout extractor; python hashlib; kyber point encodings opaque.",
   technique="Lean 4 proof (list/byte algebra, permutation sorting) + regenerated hash layouts tied by rfl + differential hash comparison"),
 "C02": dict(engine="chain", design="§3 C02",
   text="Lean theorems over the store stack appendStore→schemeStore→base map as coded: for every sequence of Puts (aggregation and sync interleaved arbitrarily — both go through the one mutex-held appendStore.Put, a regenerated lock fact) and restarts, the stored rounds are exactly 0..head, linked by previous signatures (chained) or stripped of them (unchained), the wrappers' cached head equals the stored head; a successful Put writes exactly head+1 and changes no stored round, any other Put changes nothing (re-put of the head answers 'already' iff equal); two nodes whose stores satisfy the invariant and hold only verifying beacons agree byte for byte on every common round (induction on the round, under the explicit uniqueness-of-BLS-signatures hypothesis); the repair path cannot replace a valid beacon by a different valid one. Tied to the code by running the real newAppendStore(NewSchemeStore(base)) over trimmed bolt, untrimmed bolt and memdb against the model and against a gap-free/append-only oracle.",
   note="Lean kernel + standard axioms; base store = sorted map (C18 correspondence); sync.Mutex semantics; SigUnique hypothesis; multi-node agreement is the theorem c02_agree plus C01/C10 validity, real multi-node runs are exercised under C05.",
   technique="Lean 4 proof (invariant by induction over op sequences; agreement by induction on rounds) + regenerated lock facts + differential correspondence"),
 "C10": dict(engine="sync", design="§3 C10",
   text="Lean theorems over a model of SyncManager (tryNode's receive loop check by check, Sync over an arbitrary list of peers = every permutation, ReSync with its one retry, CheckPastBeacons, CorrectPastBeacons, the StartFollowChain loop with its done channel, Run's admission rule) on top of the C02 store stack; a peer is an arbitrary function from the requested round to a dial error or an arbitrary list of stream items (packet with any round/signature/previous signature/beacon id, stall, close); VerifyBeacon is an oracle. Proved by induction over arbitrary peer behaviours: every base-store change made by any sync entry point, in any mode and variant, is the write of a packet the oracle accepted (c10_only_verified); with the participant stack the writes of a Sync are exactly head+1, head+2, … and nothing stored moves (c10_in_order), the store stays a gap-free linked chain of verifying beacons and the head never moves back (c10_bad_peer_harmless); from a prefix of the true chain, with an honest peer ahead of the target reached before any stalling peer, Sync succeeds with the head exactly at the target for every order and every behaviour of the other peers (c10_converges), also after any sequence of earlier cancelled or failed attempts (c10_converges_restarts, c10_resync_retry, c10_follow_retry); CheckPastBeacons returns exactly the rounds 1..min(upTo, head) that cannot be read back or do not verify (c10_check_exact); Run drops a filled request and replaces a sync exactly when its context is dead or no beacon arrived for factor*period (c10_run_admission). Three places where the code as it is does not satisfy the full statement carry a variant switch: the full theorem is proved for the corrected variant, a _partial theorem and a kernel-checked _counterexample for the as-is variant, and each counterexample is replayed on the real code on every run and reported as KNOWN-FINDING: follow stack + unchained scheme stores out-of-order rounds (c10_follow_order / _partial / _counterexample), the repair path writes verified beacons of rounds outside the requested range into the base store (c10_correct_exact / _partial / _counterexample), StartFollowChain's errChan is a nil channel so a failed Sync is never retried (c10_follow_retry / _counterexample).",
   note="Lean kernel + standard axioms; crypto is an oracle (labels computed by the real VerifyBeacon on a chain signed with a real 2-of-3 distributed key); Ideal (only the true chain verifies, signatures of distinct rounds differ) is an explicit hypothesis of the convergence, follow-order and repair theorems, StripOk of the validity part of c10_bad_peer_harmless; channels/contexts/goroutines are modelled (a stall ends only by cancellation; liveness against stalling peers needs Run's restart and a favourable rand.Perm, stated as a hypothesis); store = C02/C18 models, the trimmed previous-required store is a view (its Last() failing when the round below the last one is missing is the explicit parameter lastErr); the sampled part: engine 'sync' drives a real SyncManager over the real store stack with scripted in-memory peers (rand.Perm pinned by seeding math/rand), engine 'follow' drives the real StartFollowChain of a real DrandDaemon through its control port against scripted gRPC peers on loopback (a handful of scenarios, wall-clock bound), Run is driven with a fake clock and observed through its log; memdb and PostgreSQL back-ends are not exercised here.",
   technique="Lean 4 proof (invariants by induction over stream items, peer lists, attempts; counterexamples by kernel evaluation) + regenerated guard-order/stack/errChan facts tied by decide + differential correspondence with variant detection + direct property oracle on the implementation"),
}
NOT_YET = {}
for i in range(1, 21):
    pid = f"C{i:02d}"
    if pid not in CHECKS:
        NOT_YET[pid] = "model and proof not built yet in this round (work in progress; see DESIGN.md §7 order of work)"

m = {
 "version": 1,
 "setup_cmd": "cd /verif && ./setup.sh",
 "hooks": {"guard": "verif",
           "enable": "cd /repo && GOFLAGS=-mod=mod GOPROXY=off go build -tags 'verif conn_insecure' -overlay /verif/.build/overlay.json -o /verif/.build/verifh ./internal/verifh  (overlay adds files only; nothing in /repo is modified)",
           "baseline_off_cmd": BASE, "source_commits": [], "add_only": True},
 "engines": [],
 "checks": [],
 "not_applicable": [{"property_id": k, "reason": v} for k, v in sorted(NOT_YET.items())],
 "notes": "Every check: regenerate lean/Gen from /repo (go2lean) -> lake build the property's proof module + #print axioms audit -> build overlay harness + Lean driver -> differential correspondence + direct property oracle on the implementation -> evidence. See DESIGN.md.",
}
for pid, c in sorted(CHECKS.items()):
    m["checks"].append({
        "property_id": pid,
        "quick_cmd": f"./check {pid} --tier quick",
        "thorough_cmd": f"./check {pid} --tier thorough",
        "evidence_file": f"/verif/evidence/{pid}.json",
        "replay_cmd_template": f"./check {pid} --replay {{path}}",
        "engine": c["engine"],
        "level_claimed": {"category": "proof", "text": c["text"], "design_ref": c["design"]},
        "level_note": c["note"],
        "technique": c["technique"],
    })
json.dump(m, open(os.path.join(V, "MANIFEST.json"), "w"), indent=1)
print("checks:", len(m["checks"]), "not_applicable:", len(m["not_applicable"]))
