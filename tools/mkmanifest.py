#!/usr/bin/env python3
"""Regenerates /verif/MANIFEST.json from the table below (kept in one place so it stays valid)."""
import json, os
V = os.path.dirname(os.path.dirname(os.path.abspath(__file__)))
BASE = json.load(open("/root/.vp/BASELINE.json"))["cmd"] if os.path.exists("/root/.vp/BASELINE.json") else ""

CHECKS = {
 "C16": dict(engine="time", design="§3 C16",
   text="Lean theorems over an exact (Int) layer and a machine (uint64/int64 wrap-explicit) layer of common/time.go: uniqueness of the current round, next = current+1 with its exact time, strict monotonicity, and for every 64-bit round the machine TimeOfRound is the exact time or the documented error value, never negative/wrapped; machine NextRound/CurrentRound equal the exact layer on the whole domain. Tied to the code by regenerated constants and a differential run of the real functions against the model's executable definitions.",
   note="Lean kernel + propext/Classical.choice/Quot.sound; IEEE-754 float division/Log2 of Go modelled as exact integer division / Nat.log2 (checked differentially on the complete power-of-two table and boundary-directed inputs); go2lean; harness.",
   technique="Lean 4 proof (omega/nlinarith, 33-way case split on period bits) + regenerated constants + differential correspondence"),
 "C18": dict(engine="store", design="§3 C18",
   text="Lean theorems: for every sequence of put/del the untrimmed bolt model keeps a strictly sorted key list whose entries carry their own round and Get answers exactly as a plain round->beacon map (refinement by induction over the op list); Last is the maximum; a cursor over a snapshot enumerates exactly the snapshot in strictly ascending order, Seek lands on the least round >= the argument and on the round itself when stored, every cursor read is an entry of the snapshot; trimmed store reads are labelled with the key found and the reconstructed previous signature is the stored signature of round-1 or the read fails; the memdb model stays sorted and within capacity for every op sequence, keeps an existing round, forgets only the smallest rounds, and its positional cursor only returns stored elements. Tied to the code by running the real boltdb (trimmed/untrimmed, with/without previous-required) and memdb stores against the model's executable definitions and against an independent sorted-map oracle.",
   note="Lean kernel + standard axioms; bbolt's snapshot/ordering semantics are modelled, not verified; PostgreSQL back-end not modelled; harness.",
   technique="Lean 4 proof (induction over op sequences, refinement to a map) + differential correspondence with real bbolt/memdb + sorted-map oracle"),
 "C17": dict(engine="hash", design="§3 C17",
   text="Lean theorems over the byte-exact preimages of Info.Hash and Group.Hash (layouts regenerated from the source and tied by rfl): determinism incl. id canonicalisation, every single-field change (period, genesis, public key, seed, id; member key/index, threshold, genesis, transition incl. 0<->non-0, dist key, id) changes the preimage (inner hashes under an explicit collision-freedom hypothesis), joint injectivity under fixed key/seed lengths with the seed/id ambiguity exhibited otherwise, independence of node listing order (sorting of a permutation with distinct indices), chain hash ignores membership, decode rejects a mismatching embedded hash. Tied to the code by hashing the model's preimage (python hashlib) and comparing with the real Hash() on generated groups over all 5 schemes, plus equality across TOML/protobuf/JSON paths and inequality under perturbation on the real code.",
   note="Lean kernel + standard axioms; SHA-256/BLAKE2b collision freedom is a hypothesis; go2lean layout extractor; python hashlib; kyber point encodings opaque.",
   technique="Lean 4 proof (list/byte algebra, permutation sorting) + regenerated hash layouts tied by rfl + differential hash comparison"),
 "C06": dict(engine="dkgrun", design="§3 C06, §5 row 12, §6 (partial)",
   text="PARTIAL. Lean theorems over the model of SortedByPublicKey / setupDKG index assignment / asGroup / the transition-time tail of startDKGExecution: two listings of the same participants (pairwise distinct keys) sort to the same list, hence the same DKG index for every key and the same group from asGroup whatever order the lists were stored in; the final group is a function of (stored terms, QUAL indices, public coefficients, transition time), field by field (id, threshold, period, scheme, catch-up, genesis time, seed, transition time, members = participants at the QUAL indices of the sorted list, distributed key); epoch-1 seed = hash of the first group (C17 preimage); over a field F and an F-module G (Mathlib): a share is the evaluation of the public polynomial at the holder's point and any t shares at distinct points Lagrange-combine to f(0)·H(m), which verifies under the constant public coefficient. The transition time is proved equal on two nodes iff it is epoch 1 or both read their clocks in the same beacon round: the code takes it from each node's own time.Now(), so the full 'one group' statement is proved only under that hypothesis (c06_one_group_partial) with a concrete counterexample (c06_one_group_counterexample) that the check replays on the real code (known finding). NOT proved: that every completing node ends kyber's protocol with the same QUAL and coefficients under every schedule (hypothesis PedersenSpec) — sampled only, by running n real dkg.Process instances with the real kyber DKG over an in-memory client (permuted participant lists, delayed/reordered/duplicated bundles, a slow node, an offline node, completion held before/after/across a round boundary) and checking on the finished DBStates: groups pairwise Equal with equal hashes, share·base = PubPoly.Eval(index), every t-subset signs a message that VerifyRecovered accepts, index = rank of the key; every finished group is reproduced field by field by the Lean asGroup/ordering/transition-time functions.",
   note="Lean kernel + standard axioms; PedersenSpec (kyber's protocol-level agreement and output correctness) is a hypothesis, sampled; go2lean facts (sort comparator, asGroup field map, seed rule, transition tail) tied by rfl; harness with real kyber; time.Now() inside startDKGExecution is not observable: the model is compared for every clock reading in the observed completion window; C16/C17 reused.",
   technique="Lean 4 proof (list permutation/sorting, Mathlib Lagrange interpolation) + regenerated facts + multi-node differential runs with real kyber DKG + direct crypto oracle"),
 "C07": dict(engine="dkgrun", design="§3 C07, §5 row 10, §6 (partial)",
   text="PARTIAL. Lean theorems: resharing algebra (Mathlib): when each old dealer reshapes its share with g_i(0)=s_i and new shares are the Lagrange combination, the constant term and hence the distributed public key are unchanged, any t_new new shares sign under the old key, and an old share is in general off the new polynomial; a group accepted by validateGroupTransition keeps genesis time, seed, period and id, so with the preserved key the Info.Hash preimage is unchanged (scheme is neither compared nor hashed — stated); the chain hash ignores members, threshold, transition time; Vault.SetInfo never writes the chain info; TransitionNewGroup registers target round tRound-1, the live group/share/polynomial are the old ones under every interleaving while all stored rounds are below it and the new ones from the first stored round >= it on (callback-worker asynchrony is an explicit event); after the switch a partial valid only under the old polynomial, or from an index that left, is never admitted by the ProcessPartialBeacon checks; failed/aborted/timed-out reshares and refused transitions leave memory, key files and vault untouched. ValidateProposal pins id, genesis time and seed for members but NOT period and scheme: c07_terms_pinned_partial + counterexamples, replayed on the real Process.Packet (known findings), with the pipeline consequences proved (c07_tampered_period_pipeline). Tied to the code by regenerated guard chains / assignment lists and by reshare scripts on real dkg.Process instances (same set, +1, -1, replace, threshold up/down, abort and failure in between, boundary timings): identity fields and chain hash compared before/after on every node, old-epoch partials checked against the new polynomial, a real beacon.Handler+vault driven round by round across the transition with old/new partials handed to the real ProcessPartialBeacon, the real validateGroupTransition on single-field perturbations; all answers reproduced by the Lean model. Chain continuity itself is C02/C05; agreement on the dealer set under all schedules is PedersenSpec (sampled).",
   note="Lean kernel + standard axioms; PedersenSpec hypothesis; VerifyPartial/IndexOf answers are oracle labels from the real verifier; go2lean guard/assignment facts tied by rfl; C08's ValidateProposal model (its own correspondence) and C17's hash layout reused; the beacon network around the transition is not run (one real handler is), liveness is C05.",
   technique="Lean 4 proof (Mathlib Lagrange; state-machine invariants by induction over event lists) + regenerated facts + multi-node differential reshare runs + real handler/vault hand-over trace"),
 "C02": dict(engine="chain", design="§3 C02",
   text="Lean theorems over the store stack appendStore→schemeStore→base map as coded: for every sequence of Puts (aggregation and sync interleaved arbitrarily — both go through the one mutex-held appendStore.Put, a regenerated lock fact) and restarts, the stored rounds are exactly 0..head, linked by previous signatures (chained) or stripped of them (unchained), the wrappers' cached head equals the stored head; a successful Put writes exactly head+1 and changes no stored round, any other Put changes nothing (re-put of the head answers 'already' iff equal); two nodes whose stores satisfy the invariant and hold only verifying beacons agree byte for byte on every common round (induction on the round, under the explicit uniqueness-of-BLS-signatures hypothesis); the repair path cannot replace a valid beacon by a different valid one. Tied to the code by running the real newAppendStore(NewSchemeStore(base)) over trimmed bolt, untrimmed bolt and memdb against the model and against a gap-free/append-only oracle.",
   note="Lean kernel + standard axioms; base store = sorted map (C18 correspondence); sync.Mutex semantics; SigUnique hypothesis; multi-node agreement is the theorem c02_agree plus C01/C10 validity, real multi-node runs are exercised under C05.",
   technique="Lean 4 proof (invariant by induction over op sequences; agreement by induction on rounds) + regenerated lock facts + differential correspondence"),
}
NOT_YET = {}
for i in range(1, 21):
    pid = f"C{i:02d}"
    if pid not in CHECKS:
        NOT_YET[pid] = "model and proof not built yet in this round (work in progress; see DESIGN.md §7 order of work)"

m = {
 "version": 1,
 "setup_cmd": "cd /verif && ./setup.sh",
 "hooks": {"guard": "verif",
           "enable": "cd /repo && GOFLAGS=-mod=mod GOPROXY=off go build -tags 'verif conn_insecure' -overlay /verif/.build/overlay.json -o /verif/.build/verifh ./internal/verifh  (overlay adds files only; nothing in /repo is modified)",
           "baseline_off_cmd": BASE, "source_commits": [], "add_only": True},
 "engines": [],
 "checks": [],
 "not_applicable": [{"property_id": k, "reason": v} for k, v in sorted(NOT_YET.items())],
 "notes": "Every check: regenerate lean/Gen from /repo (go2lean) -> lake build the property's proof module + #print axioms audit -> build overlay harness + Lean driver -> differential correspondence + direct property oracle on the implementation -> evidence. See DESIGN.md.",
}
for pid, c in sorted(CHECKS.items()):
    m["checks"].append({
        "property_id": pid,
        "quick_cmd": f"./check {pid} --tier quick",
        "thorough_cmd": f"./check {pid} --tier thorough",
        "evidence_file": f"/verif/evidence/{pid}.json",
        "replay_cmd_template": f"./check {pid} --replay {{path}}",
        "engine": c["engine"],
        "level_claimed": {"category": "proof", "text": c["text"], "design_ref": c["design"]},
        "level_note": c["note"],
        "technique": c["technique"],
    })
json.dump(m, open(os.path.join(V, "MANIFEST.json"), "w"), indent=1)
print("checks:", len(m["checks"]), "not_applicable:", len(m["not_applicable"]))
