#!/usr/bin/env python3
"""Regenerates /verif/MANIFEST.json from the table below (kept in one place so it stays valid)."""
import json, os
V = os.path.dirname(os.path.dirname(os.path.abspath(__file__)))
BASE = json.load(open("/root/.vp/BASELINE.json"))["cmd"] if os.path.exists("/root/.vp/BASELINE.json") else ""

CHECKS = {
 "C16": dict(engine="time", design="§3 C16",
   text="Lean theorems over an exact (Int) layer and a machine (uint64/int64 wrap-explicit) layer of common/time.go: uniqueness of the current round, next = current+1 with its exact time, strict monotonicity, and for every 64-bit round the machine TimeOfRound is the exact time or the documented error value, never negative/wrapped; machine NextRound/CurrentRound equal the exact layer on the whole domain. Tied to the code by regenerated constants and a differential run of the real functions against the model's executable definitions.",
   note="Lean kernel + propext/Classical.choice/Quot.sound; IEEE-754 float division/Log2 of Go modelled as exact integer division / Nat.log2 (checked differentially on the complete power-of-two table and boundary-directed inputs); go2lean; harness.",
   technique="Lean 4 proof (omega/nlinarith, 33-way case split on period bits) + regenerated constants + differential correspondence"),
 "C18": dict(engine="store", design="§3 C18",
   text="Lean theorems: for every sequence of put/del the untrimmed bolt model keeps a strictly sorted key list whose entries carry their own round and Get answers exactly as a plain round->beacon map (refinement by induction over the op list); Last is the maximum; a cursor over a snapshot enumerates exactly the snapshot in strictly ascending order, Seek lands on the least round >= the argument and on the round itself when stored, every cursor read is an entry of the snapshot; trimmed store reads are labelled with the key found and the reconstructed previous signature is the stored signature of round-1 or the read fails; the memdb model stays sorted and within capacity for every op sequence, keeps an existing round, forgets only the smallest rounds, and its positional cursor only returns stored elements. Tied to the code by running the real boltdb (trimmed/untrimmed, with/without previous-required) and memdb stores against the model's executable definitions and against an independent sorted-map oracle.",
   note="Lean kernel + standard axioms; bbolt's snapshot/ordering semantics are modelled, not verified; PostgreSQL back-end not modelled; harness.",
   technique="Lean 4 proof (induction over op sequences, refinement to a map) + differential correspondence with real bbolt/memdb + sorted-map oracle"),
 "C19": dict(engine="route", design="§3 C19",
   text="Lean theorems over a line-by-line model of readBeaconID / getBeaconProcessByID / getBeaconProcessFromRequest, InstantiateBeaconProcess, AddBeaconHandler, RemoveBeaconHandler, RemoveBeaconProcess, LoadBeacon(FromStore/sFromDisk), Shutdown, storeDKGOutput + dkgCallback and the HTTP handler table: for every history of key-folder changes, LoadBeacon and Shutdown calls (any length) both routing tables only name running processes whose own group has exactly the chain hash of the entry (no stale entry; with DKG completions and start-up loads under two stated hypotheses, with a counterexample showing the first is needed); a request that is handed to a process is handed to the process its id names, whose chain hash is the requested one when the hash is known, and a process without group when it is not (the coded pending-DKG exception); a mismatching id/hash pair is rejected; a known hash alone selects its chain; neither id nor hash goes to the default chain; the HTTP table selects for a decoded hash only a running process of that hash and the default entry is reachable only without a hash (hex strings are never 'default'); after Shutdown the id and hash resolve nowhere and every request/HTTP path answered by another chain keeps its answer; a successful load makes id, hash and both resolve to the new process and disturbs no request that does not name the new hash. Tied to the code by regenerated helper definitions and statement scripts of the 19 anchored functions (rfl against golden copies) and by a differential run on a real DrandDaemon driven through its real control entry points, with an independent routing oracle on the answers of the real service methods and HTTP handler.",
   note="Lean kernel + standard axioms; hypotheses: group.ID equals the beacon id it is stored under, a resharing keeps the chain hash, LoadBeaconsFromDisk only at start-up, distinct chains have distinct non-empty hashes (remove_local); the DKG database is a stub in the harness; isolation of *content* beyond routing (a BeaconProcess answers from its own group/store only) is observed by the oracle (returned chain info / identity / group / verified randomness), not proved; locks and concurrent control calls are not modelled; go2lean; harness.",
   technique="Lean 4 proof (invariant over event histories, association-list maps) + regenerated definitions/statement scripts tied by rfl + differential correspondence on a real daemon + independent routing oracle (thorough: live 1-of-1 chains, randomness verified under the named chain's key)"),
 "C17": dict(engine="hash", design="§3 C17",
   text="Lean theorems over the byte-exact preimages of Info.Hash and Group.Hash (layouts regenerated from the source and tied by rfl): determinism incl. id canonicalisation, every single-field change (period, genesis, public key, seed, id; member key/index, threshold, genesis, transition incl. 0<->non-0, dist key, id) changes the preimage (inner hashes under an explicit collision-freedom hypothesis), joint injectivity under fixed key/seed lengths with the seed/id ambiguity exhibited otherwise, independence of node listing order (sorting of a permutation with distinct indices), chain hash ignores membership, decode rejects a mismatching embedded hash. Tied to the code by hashing the model's preimage (python hashlib) and comparing with the real Hash() on generated groups over all 5 schemes, plus equality across TOML/protobuf/JSON paths and inequality under perturbation on the real code.",
   note="Lean kernel + standard axioms; SHA-256/BLAKE2b collision freedom is a hypothesis; go2lean layout extractor; python hashlib; kyber point encodings opaque.",
   technique="Lean 4 proof (list/byte algebra, permutation sorting) + regenerated hash layouts tied by rfl + differential hash comparison"),
}
NOT_YET = {}
for i in range(1, 21):
    pid = f"C{i:02d}"
    if pid not in CHECKS:
        NOT_YET[pid] = "model and proof not built yet in this round (work in progress; see DESIGN.md §7 order of work)"

m = {
 "version": 1,
 "setup_cmd": "cd /verif && ./setup.sh",
 "hooks": {"guard": "verif",
           "enable": "cd /repo && GOFLAGS=-mod=mod GOPROXY=off go build -tags 'verif conn_insecure' -overlay /verif/.build/overlay.json -o /verif/.build/verifh ./internal/verifh  (overlay adds files only; nothing in /repo is modified)",
           "baseline_off_cmd": BASE, "source_commits": [], "add_only": True},
 "engines": [],
 "checks": [],
 "not_applicable": [{"property_id": k, "reason": v} for k, v in sorted(NOT_YET.items())],
 "notes": "Every check: regenerate lean/Gen from /repo (go2lean) -> lake build the property's proof module + #print axioms audit -> build overlay harness + Lean driver -> differential correspondence + direct property oracle on the implementation -> evidence. See DESIGN.md.",
}
for pid, c in sorted(CHECKS.items()):
    m["checks"].append({
        "property_id": pid,
        "quick_cmd": f"./check {pid} --tier quick",
        "thorough_cmd": f"./check {pid} --tier thorough",
        "evidence_file": f"/verif/evidence/{pid}.json",
        "replay_cmd_template": f"./check {pid} --replay {{path}}",
        "engine": c["engine"],
        "level_claimed": {"category": "proof", "text": c["text"], "design_ref": c["design"]},
        "level_note": c["note"],
        "technique": c["technique"],
    })
json.dump(m, open(os.path.join(V, "MANIFEST.json"), "w"), indent=1)
print("checks:", len(m["checks"]), "not_applicable:", len(m["not_applicable"]))
