#!/usr/bin/env python3
"""Regenerates /verif/MANIFEST.json from the table below (kept in one place so it stays valid)."""
import json, os
V = os.path.dirname(os.path.dirname(os.path.abspath(__file__)))
BASE = json.load(open("/root/.vp/BASELINE.json"))["cmd"] if os.path.exists("/root/.vp/BASELINE.json") else ""

CHECKS = {
 "C16": dict(engine="time", design="§3 C16",
   text="Lean theorems over an exact (Int) layer and a machine (uint64/int64 wrap-explicit) layer of common/time.go: uniqueness of the current round, next = current+1 with its exact time, strict monotonicity, and for every 64-bit round the machine TimeOfRound is the exact time or the documented error value, never negative/wrapped; machine NextRound/CurrentRound equal the exact layer on the whole domain. Tied to the code by regenerated constants and a differential run of the real functions against the model's executable definitions.",
   note="Lean kernel + propext/Classical.choice/Quot.sound; IEEE-754 float division/Log2 of Go modelled as exact integer division / Nat.log2 (checked differentially on the complete power-of-two table and boundary-directed inputs); go2lean; harness.",
   technique="Lean 4 proof (omega/nlinarith, 33-way case split on period bits) + regenerated constants + differential correspondence"),
 "C18": dict(engine="store", design="§3 C18",
   text="Lean theorems: for every sequence of put/del the untrimmed bolt model keeps a strictly sorted key list whose entries carry their own round and Get answers exactly as a plain round->beacon map (refinement by induction over the op list); Last is the maximum; a cursor over a snapshot enumerates exactly the snapshot in strictly ascending order, Seek lands on the least round >= the argument and on the round itself when stored, every cursor read is an entry of the snapshot; trimmed store reads are labelled with the key found and the reconstructed previous signature is the stored signature of round-1 or the read fails; the memdb model stays sorted and within capacity for every op sequence, keeps an existing round, forgets only the smallest rounds, and its positional cursor only returns stored elements. Tied to the code by running the real boltdb (trimmed/untrimmed, with/without previous-required) and memdb stores against the model's executable definitions and against an independent sorted-map oracle.",
   note="Lean kernel + standard axioms; bbolt's snapshot/ordering semantics are modelled, not verified; PostgreSQL back-end not modelled; harness.",
   technique="Lean 4 proof (induction over op sequences, refinement to a map) + differential correspondence with real bbolt/memdb + sorted-map oracle"),
 "C17": dict(engine="hash", design="§3 C17",
   text="Lean theorems over the byte-exact preimages of Info.Hash and Group.Hash (layouts regenerated from the source and tied by rfl): determinism incl. id canonicalisation, every single-field change (period, genesis, public key, seed, id; member key/index, threshold, genesis, transition incl. 0<->non-0, dist key, id) changes the preimage (inner hashes under an explicit collision-freedom hypothesis), joint injectivity under fixed key/seed lengths with the seed/id ambiguity exhibited otherwise, independence of node listing order (sorting of a permutation with distinct indices), chain hash ignores membership, decode rejects a mismatching embedded hash. Tied to the code by hashing the model's preimage (python hashlib) and comparing with the real Hash() on generated groups over all 5 schemes, plus equality across TOML/protobuf/JSON paths and inequality under perturbation on the real code.",
   note="Lean kernel + standard axioms; SHA-256/BLAKE2b collision freedom is a hypothesis; go2lean layout extractor; python hashlib; kyber point encodings opaque.",
   technique="Lean 4 proof (list/byte algebra, permutation sorting) + regenerated hash layouts tied by rfl + differential hash comparison"),
 "C14": dict(engine="dispatch", design="§3 C14",
   text="PARTIAL. (A) Decided exactly, by Lean `decide` on relations regenerated from the Go sources on every run: for every method of dkg.Process, echoBroadcast, dispatcher, dkg BoltStore, appendStore, schemeStore, callbackStore, beacon.Handler, core.BeaconProcess and core.DrandDaemon — which mutex it Locks/RLocks, deferred or explicit release, which methods of its own receiver it calls on the same goroutine while holding it, closed transitively over the receiver-internal call graph — no holder reaches a blocking re-acquisition of the same mutex (Lock→Lock, Lock→RLock, RLock→Lock; RLock→RLock listed separately: none), every acquisition is released on every return path, the explicitly released critical sections of the peer-facing handlers contain only reviewed non-panicking calls; the peer-facing gRPC listener installs the recovery interceptor on unary and stream calls, the control listener installs none. The pre-fix relation (Packet holds d.lock and calls BroadcastDKG) is shown to be rejected by the same detector. (B) Lean theorems about a hand-derived dispatch model of the DKG endpoints (DrandDaemon proxies, Process.Packet/BroadcastDKG/DKGStatus, DBState.Apply and below, echoBroadcast) with Option for every nested message: on the peer-facing listener no request in any phase takes the process down (panic ⇒ contained), on the control listener no wire-reachable request panics, every panic is at a listed unguarded dereference (tied to regenerated nil-dereference facts) and leaves the node state and all locks as they were, the only wire-reachable panic is terms.Leader in DBState.Proposed, phases move only along fresh→proposed and joined→executing, and — for the corrected variant of one genuine defect — after ANY request and any finite history the node is not wedged and every probe request is answered exactly as before (still serves); for the code as it is the same under the hypothesis the proof forces (broadcaster channel not full or being read) plus the concrete counterexample. Beacon/public endpoints (PartialBeacon, SyncChain, PublicRand(Stream), ChainInfo, GetIdentity, Status, HTTP paths): totality on the listener, no wire-reachable panic, no blocking outcome in the model. Tied to the code by the engine `dispatch`: real dkg.Process in phases fresh / proposed / joined / executing / after a real in-process three-node DKG / closed, real beacon.Handler over a real bolt store, DrandDaemon/BeaconProcess handler methods, all also through the production gRPC gateway and REST listener on loopback, on a request lattice {nil, empty, valid} × every oneof variant × byte-field and id classes, each call under a 5 s watchdog (+confirmation window) with recover, followed by TryLock probes and probe requests; outcome classes and panic sites are compared with the model, and the property is evaluated directly on the implementation's answers. Two genuine defects of the unchanged code are reported as known findings with witnesses in corpus/C14 (blocking send in echoBroadcast.passToApplication under the broadcaster mutex and d.lock; Protocol.Status dialling a request-chosen address list sequentially under BeaconProcess.state.RLock).",
   note="Lean kernel + standard axioms. The lock/listener/nil-dereference facts are syntactic (go2lean walker: dies on unbalanced shapes; interface dispatch and cross-type lock ordering are not followed). The request-level model is hand-derived: agreement with the real handlers is sampled (sequential requests, one initial-epoch DKG world, one beacon id), so a Go-level panic or blocking the model does not predict is only found if the lattice hits it. Oracle labels (valid signed proposal/execute packet, validly signed bundle) are set by construction. DrandDaemon/BeaconProcess are assembled by export shims around the real handler methods (not started from a config folder); the control listener is not served over the network; concurrency between requests, TLS, metrics endpoints are out of scope. sync.Mutex/channel semantics, grpc-go and its recovery middleware, net/http recover are modelled, not verified.",
   technique="Lean 4 proof (decide on regenerated lock/call relations; case analysis over the dispatch model; induction over request histories) + go2lean fact extraction (locks, calls-while-held, nil dereferences, interceptor chains) + differential correspondence and direct property oracle on real service objects in-process and over loopback gRPC/HTTP"),
 "C02": dict(engine="chain", design="§3 C02",
   text="Lean theorems over the store stack appendStore→schemeStore→base map as coded: for every sequence of Puts (aggregation and sync interleaved arbitrarily — both go through the one mutex-held appendStore.Put, a regenerated lock fact) and restarts, the stored rounds are exactly 0..head, linked by previous signatures (chained) or stripped of them (unchained), the wrappers' cached head equals the stored head; a successful Put writes exactly head+1 and changes no stored round, any other Put changes nothing (re-put of the head answers 'already' iff equal); two nodes whose stores satisfy the invariant and hold only verifying beacons agree byte for byte on every common round (induction on the round, under the explicit uniqueness-of-BLS-signatures hypothesis); the repair path cannot replace a valid beacon by a different valid one. Tied to the code by running the real newAppendStore(NewSchemeStore(base)) over trimmed bolt, untrimmed bolt and memdb against the model and against a gap-free/append-only oracle.",
   note="Lean kernel + standard axioms; base store = sorted map (C18 correspondence); sync.Mutex semantics; SigUnique hypothesis; multi-node agreement is the theorem c02_agree plus C01/C10 validity, real multi-node runs are exercised under C05.",
   technique="Lean 4 proof (invariant by induction over op sequences; agreement by induction on rounds) + regenerated lock facts + differential correspondence"),
}
NOT_YET = {}
for i in range(1, 21):
    pid = f"C{i:02d}"
    if pid not in CHECKS:
        NOT_YET[pid] = "model and proof not built yet in this round (work in progress; see DESIGN.md §7 order of work)"

m = {
 "version": 1,
 "setup_cmd": "cd /verif && ./setup.sh",
 "hooks": {"guard": "verif",
           "enable": "cd /repo && GOFLAGS=-mod=mod GOPROXY=off go build -tags 'verif conn_insecure' -overlay /verif/.build/overlay.json -o /verif/.build/verifh ./internal/verifh  (overlay adds files only; nothing in /repo is modified)",
           "baseline_off_cmd": BASE, "source_commits": [], "add_only": True},
 "engines": [],
 "checks": [],
 "not_applicable": [{"property_id": k, "reason": v} for k, v in sorted(NOT_YET.items())],
 "notes": "Every check: regenerate lean/Gen from /repo (go2lean) -> lake build the property's proof module + #print axioms audit -> build overlay harness + Lean driver -> differential correspondence + direct property oracle on the implementation -> evidence. See DESIGN.md.",
}
for pid, c in sorted(CHECKS.items()):
    m["checks"].append({
        "property_id": pid,
        "quick_cmd": f"./check {pid} --tier quick",
        "thorough_cmd": f"./check {pid} --tier thorough",
        "evidence_file": f"/verif/evidence/{pid}.json",
        "replay_cmd_template": f"./check {pid} --replay {{path}}",
        "engine": c["engine"],
        "level_claimed": {"category": "proof", "text": c["text"], "design_ref": c["design"]},
        "level_note": c["note"],
        "technique": c["technique"],
    })
json.dump(m, open(os.path.join(V, "MANIFEST.json"), "w"), indent=1)
print("checks:", len(m["checks"]), "not_applicable:", len(m["not_applicable"]))
