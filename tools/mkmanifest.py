#!/usr/bin/env python3
"""Regenerates /verif/MANIFEST.json from the table below (kept in one place so it stays valid)."""
import json, os
V = os.path.dirname(os.path.dirname(os.path.abspath(__file__)))
BASE = json.load(open("/root/.vp/BASELINE.json"))["cmd"] if os.path.exists("/root/.vp/BASELINE.json") else ""

CHECKS = {
 "C01": dict(engine="agg", design="§3 C01",
   text="Lean theorems over a model of the node's write and read paths (ProcessPartialBeacon, runAggregator/tryAppend, SyncManager.tryNode, callbackStore.Put on the C02 store stack, PublicRand, drandProxy.Get, SyncChain/PublicRandStream), for every cryptographic oracle and every finite event list (any interleaving of peers' partials, own partials, aggregator iterations on its two channels, reordered store notifications, sync streams, vault switches, clock ticks, read requests): every stored beacon of round >= 1 verifies under the chain key for the digest of exactly its round and (chained) previous signature (c01_store_valid, hypothesis KeyConst = reshares keep the group key); each write path hands the store only a beacon that itself passed VerifyRecovered/VerifyBeacon; the digest preimage determines the round and, chained, the previous signature (unconditional; for the hash under an explicit collision-freedom hypothesis); every served beacon is in the store hence verifies; randomness fields equal H(signature) at Beacon.Randomness, drandProxy.Get, proxyStream.Send; a successful PublicRand/Get for round r != 0 returns round r on both the Get and the wait-for-next branch, a missing round is an error. Tied to the code by regenerated digest layouts (5 schemes), VerifyBeacon/RandomnessFromSignature shapes and statement skeletons of the six functions (rfl/decide), and by running a real beacon.Handler / SyncManager.tryNode / SyncChain / core PublicRand+Proxy against the model with packets labelled by the real verifier, plus a direct oracle (scheme.VerifyBeacon of every base-store Put and every served beacon, sha256 of the signature, exact round).",
   note="Lean kernel + standard axioms; crypto as oracle (kyber not verified); goroutines/channels modelled as events (bounded channels as lists); HTTP handler not exercised (its Get is drandProxy.Get; waiter release logic out of scope); settling of the real aggregator relies on the harness's sentinel/barrier protocol; sampled: the correspondence (seeded random sequences, 5 schemes x 5 (n,t) x 2 stores).",
   technique="Lean 4 proof (invariant by induction over event lists, byte-level injectivity of the digest preimage) + go2lean facts tied by rfl/decide + differential correspondence with labelled real crypto + direct property oracle"),
 "C03": dict(engine="agg", design="§3 C03",
   text="Lean theorems over the same node model and the partial-cache model of C12: after any event list every partial waiting for or cached by the aggregator is filed under the index it names and under exactly the (round, previous signature) it was sent for, and was admitted by ProcessPartialBeacon under a group view live at that time (member index, not this node's address or share index, valid under that group's polynomial for that digest) or is the node's own (c03_admitted); within a round cache signer indices are distinct (c03_len_counts_distinct, via C12Cache's c03_distinct on the node's cache); whenever an aggregator iteration reaches tryAppend with a beacon, the cache for exactly its (round, prev) holds >= live threshold partials at pairwise distinct indices each verifying under the live polynomial (c03_threshold, under RecoverSpec) — for every reachable state (c03_threshold_reachable); below the threshold the iteration stops before Recover and nothing is put; one lemma per class of packet that never counts: invalid, malformed/truncated, non-member index, own address, own index, outside the round window, wrong round and wrong previous signature (chained; under SignedOnly + collision freedom), duplicate/replay. Tied to the code by the regenerated skeletons of ProcessPartialBeacon and runAggregator (guards in order, all before the effect; decide) and by running the real Handler on exhaustive arrival orders of subsets of size t-1,t,t+1 (n <= 4) and random ones (n <= 7) with forged partials interleaved, against the model and against a count of delivered valid partials.",
   note="Lean kernel + standard axioms; RecoverSpec is a hypothesis about kyber; 'no beacon anywhere with fewer than t contributors' (adversary offline) is BLS threshold unforgeability, assumed not proved; the network-level statement c03_below_threshold_network of DESIGN.md is not built (single-node statement c03_below_threshold only); harness as C01.",
   technique="Lean 4 proof (cache-origin invariant by induction over event lists, Recover soundness hypothesis) + regenerated guard order (decide) + exhaustive/random differential correspondence + counting oracle"),
 "C16": dict(engine="time", design="§3 C16",
   text="Lean theorems over an exact (Int) layer and a machine (uint64/int64 wrap-explicit) layer of common/time.go: uniqueness of the current round, next = current+1 with its exact time, strict monotonicity, and for every 64-bit round the machine TimeOfRound is the exact time or the documented error value, never negative/wrapped; machine NextRound/CurrentRound equal the exact layer on the whole domain. Tied to the code by regenerated constants and a differential run of the real functions against the model's executable definitions.",
   note="Lean kernel + propext/Classical.choice/Quot.sound; IEEE-754 float division/Log2 of Go modelled as exact integer division / Nat.log2 (checked differentially on the complete power-of-two table and boundary-directed inputs); go2lean; harness.",
   technique="Lean 4 proof (omega/nlinarith, 33-way case split on period bits) + regenerated constants + differential correspondence"),
 "C18": dict(engine="store", design="§3 C18",
   text="Lean theorems: for every sequence of put/del the untrimmed bolt model keeps a strictly sorted key list whose entries carry their own round and Get answers exactly as a plain round->beacon map (refinement by induction over the op list); Last is the maximum; a cursor over a snapshot enumerates exactly the snapshot in strictly ascending order, Seek lands on the least round >= the argument and on the round itself when stored, every cursor read is an entry of the snapshot; trimmed store reads are labelled with the key found and the reconstructed previous signature is the stored signature of round-1 or the read fails; the memdb model stays sorted and within capacity for every op sequence, keeps an existing round, forgets only the smallest rounds, and its positional cursor only returns stored elements. Tied to the code by running the real boltdb (trimmed/untrimmed, with/without previous-required) and memdb stores against the model's executable definitions and against an independent sorted-map oracle.",
   note="Lean kernel + standard axioms; bbolt's snapshot/ordering semantics are modelled, not verified; PostgreSQL back-end not modelled; harness.",
   technique="Lean 4 proof (induction over op sequences, refinement to a map) + differential correspondence with real bbolt/memdb + sorted-map oracle"),
 "C17": dict(engine="hash", design="§3 C17",
   text="Lean theorems over the byte-exact preimages of Info.Hash and Group.Hash (layouts regenerated from the source and tied by rfl): determinism incl. id canonicalisation, every single-field change (period, genesis, public key, seed, id; member key/index, threshold, genesis, transition incl. 0<->non-0, dist key, id) changes the preimage (inner hashes under an explicit collision-freedom hypothesis), joint injectivity under fixed key/seed lengths with the seed/id ambiguity exhibited otherwise, independence of node listing order (sorting of a permutation with distinct indices), chain hash ignores membership, decode rejects a mismatching embedded hash. Tied to the code by hashing the model's preimage (python hashlib) and comparing with the real Hash() on generated groups over all 5 schemes, plus equality across TOML/protobuf/JSON paths and inequality under perturbation on the real code.",
   note="Lean kernel + standard axioms; SHA-256/BLAKE2b collision freedom is a hypothesis; go2lean layout extractor; python hashlib; kyber point encodings opaque.",
   technique="Lean 4 proof (list/byte algebra, permutation sorting) + regenerated hash layouts tied by rfl + differential hash comparison"),
 "C02": dict(engine="chain", design="§3 C02",
   text="Lean theorems over the store stack appendStore→schemeStore→base map as coded: for every sequence of Puts (aggregation and sync interleaved arbitrarily — both go through the one mutex-held appendStore.Put, a regenerated lock fact) and restarts, the stored rounds are exactly 0..head, linked by previous signatures (chained) or stripped of them (unchained), the wrappers' cached head equals the stored head; a successful Put writes exactly head+1 and changes no stored round, any other Put changes nothing (re-put of the head answers 'already' iff equal); two nodes whose stores satisfy the invariant and hold only verifying beacons agree byte for byte on every common round (induction on the round, under the explicit uniqueness-of-BLS-signatures hypothesis); the repair path cannot replace a valid beacon by a different valid one. Tied to the code by running the real newAppendStore(NewSchemeStore(base)) over trimmed bolt, untrimmed bolt and memdb against the model and against a gap-free/append-only oracle.",
   note="Lean kernel + standard axioms; base store = sorted map (C18 correspondence); sync.Mutex semantics; SigUnique hypothesis; multi-node agreement is the theorem c02_agree plus C01/C10 validity, real multi-node runs are exercised under C05.",
   technique="Lean 4 proof (invariant by induction over op sequences; agreement by induction on rounds) + regenerated lock facts + differential correspondence"),
}
NOT_YET = {}
for i in range(1, 21):
    pid = f"C{i:02d}"
    if pid not in CHECKS:
        NOT_YET[pid] = "model and proof not built yet in this round (work in progress; see DESIGN.md §7 order of work)"

m = {
 "version": 1,
 "setup_cmd": "cd /verif && ./setup.sh",
 "hooks": {"guard": "verif",
           "enable": "cd /repo && GOFLAGS=-mod=mod GOPROXY=off go build -tags 'verif conn_insecure' -overlay /verif/.build/overlay.json -o /verif/.build/verifh ./internal/verifh  (overlay adds files only; nothing in /repo is modified)",
           "baseline_off_cmd": BASE, "source_commits": [], "add_only": True},
 "engines": [],
 "checks": [],
 "not_applicable": [{"property_id": k, "reason": v} for k, v in sorted(NOT_YET.items())],
 "notes": "Every check: regenerate lean/Gen from /repo (go2lean) -> lake build the property's proof module + #print axioms audit -> build overlay harness + Lean driver -> differential correspondence + direct property oracle on the implementation -> evidence. See DESIGN.md.",
}
for pid, c in sorted(CHECKS.items()):
    m["checks"].append({
        "property_id": pid,
        "quick_cmd": f"./check {pid} --tier quick",
        "thorough_cmd": f"./check {pid} --tier thorough",
        "evidence_file": f"/verif/evidence/{pid}.json",
        "replay_cmd_template": f"./check {pid} --replay {{path}}",
        "engine": c["engine"],
        "level_claimed": {"category": "proof", "text": c["text"], "design_ref": c["design"]},
        "level_note": c["note"],
        "technique": c["technique"],
    })
json.dump(m, open(os.path.join(V, "MANIFEST.json"), "w"), indent=1)
print("checks:", len(m["checks"]), "not_applicable:", len(m["not_applicable"]))
