#!/usr/bin/env python3
"""Regenerates /verif/MANIFEST.json from the table below (kept in one place so it stays valid)."""
import json, os
V = os.path.dirname(os.path.dirname(os.path.abspath(__file__)))
BASE = json.load(open("/root/.vp/BASELINE.json"))["cmd"] if os.path.exists("/root/.vp/BASELINE.json") else ""

CHECKS = {
 "C16": dict(engine="time", design="§3 C16",
   text="Lean theorems over an exact (Int) layer and a machine (uint64/int64 wrap-explicit) layer of common/time.go: uniqueness of the current round, next = current+1 with its exact time, strict monotonicity, and for every 64-bit round the machine TimeOfRound is the exact time or the documented error value, never negative/wrapped; machine NextRound/CurrentRound equal the exact layer on the whole domain. Tied to the code by regenerated constants and a differential run of the real functions against the model's executable definitions.",
   note="Lean kernel + propext/Classical.choice/Quot.sound; IEEE-754 float division/Log2 of Go modelled as exact integer division / Nat.log2 (checked differentially on the complete power-of-two table and boundary-directed inputs); go2lean; harness.",
   technique="Lean 4 proof (omega/nlinarith, 33-way case split on period bits) + regenerated constants + differential correspondence"),
 "C13": dict(engine="crash", design="§3 C13",
   text="Lean theorems over a disk model (chain db, dkg.db with staged+finished records, group file, share file; file states absent / empty / whole(epoch) / torn prefix classified by what the real decoder makes of it) and the persistence step sequences of the scripted runs, whose call orders are regenerated from the source on every run and tied by rfl: for EVERY crash point (after any number of steps, and with any torn prefix of a file written in place) — the chain store is the old store plus a prefix of the Put sequence, stays gap-free, and contains every round already handed to callbacks; dkg.db holds exactly the old or exactly the new pair of records; steps that only stage DKG state and beacon Puts preserve self-consistency. For the key files the full statement is NOT provable for the code as it is: proved instead an exact characterisation (self-consistent iff the crash point is before the first or after the last step of the completion, or the torn share already decodes to the whole share), the resulting partial theorem, concrete counterexample theorems for each window (db ahead of key files, unreadable/torn group, group ahead of share, torn share, leaving), and the full statement for the corrected variant that reconciles the key files from the finished DKG record at load. Tied to the code by driving one real node directory through scripted histories (first DKG, joining, resharing, eviction, staged-only steps, beacon production, restarts) with the real BoltStore.SaveCurrent/SaveFinished, BeaconProcess.onDKGCompleted (storeDKGOutput / leaveNetwork, fileStore.SaveGroup/SaveShare/Reset) and the handler's store stack; crash points are reconstructed from the inotify event stream and bbolt's commit counter (incl. the image one commit back), every image is materialised and the real DrandDaemon.LoadBeaconFromStore plus the raw loaders run on it; answers are compared with the model and judged by an independent oracle of the property statement. The 13 inconsistent windows of the unchanged code are registered known findings; any other inconsistent image is a violation.",
   note="Lean kernel + standard axioms; go2lean persistence-order extractor; harness (inotify-derived cuts, bbolt meta-page roll-back); trusted: bbolt transaction atomicity/durability, file-system atomicity of create/rename/unlink and prefix semantics of an interrupted write, BurntSushi/toml. The DKG protocol is not executed: its hand-over (group, share, Complete state) is fabricated and SaveFinished/onDKGCompleted are performed in the order extracted from executeAndFinishDKG. Crash points inside joinNetwork's StartBeacon (chain db creation + genesis Put) are not cut. Torn prefixes are sampled at line boundaries/mid-line/1/half/len-1 in quick and at every byte offset in thorough (corpus scenarios: first DKG, resharing, join+eviction).",
   technique="Lean 4 proof (finite enumeration of crash images with symbolic epochs, induction over Put sequences) + regenerated persistence orders tied by rfl + differential correspondence on real directories with real loaders + independent property oracle + known-finding signatures"),
 "C18": dict(engine="store", design="§3 C18",
   text="Lean theorems: for every sequence of put/del the untrimmed bolt model keeps a strictly sorted key list whose entries carry their own round and Get answers exactly as a plain round->beacon map (refinement by induction over the op list); Last is the maximum; a cursor over a snapshot enumerates exactly the snapshot in strictly ascending order, Seek lands on the least round >= the argument and on the round itself when stored, every cursor read is an entry of the snapshot; trimmed store reads are labelled with the key found and the reconstructed previous signature is the stored signature of round-1 or the read fails; the memdb model stays sorted and within capacity for every op sequence, keeps an existing round, forgets only the smallest rounds, and its positional cursor only returns stored elements. Tied to the code by running the real boltdb (trimmed/untrimmed, with/without previous-required) and memdb stores against the model's executable definitions and against an independent sorted-map oracle.",
   note="Lean kernel + standard axioms; bbolt's snapshot/ordering semantics are modelled, not verified; PostgreSQL back-end not modelled; harness.",
   technique="Lean 4 proof (induction over op sequences, refinement to a map) + differential correspondence with real bbolt/memdb + sorted-map oracle"),
 "C17": dict(engine="hash", design="§3 C17",
   text="Lean theorems over the byte-exact preimages of Info.Hash and Group.Hash (layouts regenerated from the source and tied by rfl): determinism incl. id canonicalisation, every single-field change (period, genesis, public key, seed, id; member key/index, threshold, genesis, transition incl. 0<->non-0, dist key, id) changes the preimage (inner hashes under an explicit collision-freedom hypothesis), joint injectivity under fixed key/seed lengths with the seed/id ambiguity exhibited otherwise, independence of node listing order (sorting of a permutation with distinct indices), chain hash ignores membership, decode rejects a mismatching embedded hash. Tied to the code by hashing the model's preimage (python hashlib) and comparing with the real Hash() on generated groups over all 5 schemes, plus equality across TOML/protobuf/JSON paths and inequality under perturbation on the real code.",
   note="Lean kernel + standard axioms; SHA-256/BLAKE2b collision freedom is a hypothesis; go2lean layout extractor; python hashlib; kyber point encodings opaque.",
   technique="Lean 4 proof (list/byte algebra, permutation sorting) + regenerated hash layouts tied by rfl + differential hash comparison"),
}
NOT_YET = {}
for i in range(1, 21):
    pid = f"C{i:02d}"
    if pid not in CHECKS:
        NOT_YET[pid] = "model and proof not built yet in this round (work in progress; see DESIGN.md §7 order of work)"

m = {
 "version": 1,
 "setup_cmd": "cd /verif && ./setup.sh",
 "hooks": {"guard": "verif",
           "enable": "cd /repo && GOFLAGS=-mod=mod GOPROXY=off go build -tags 'verif conn_insecure' -overlay /verif/.build/overlay.json -o /verif/.build/verifh ./internal/verifh  (overlay adds files only; nothing in /repo is modified)",
           "baseline_off_cmd": BASE, "source_commits": [], "add_only": True},
 "engines": [],
 "checks": [],
 "not_applicable": [{"property_id": k, "reason": v} for k, v in sorted(NOT_YET.items())],
 "notes": "Every check: regenerate lean/Gen from /repo (go2lean) -> lake build the property's proof module + #print axioms audit -> build overlay harness + Lean driver -> differential correspondence + direct property oracle on the implementation -> evidence. See DESIGN.md.",
}
for pid, c in sorted(CHECKS.items()):
    m["checks"].append({
        "property_id": pid,
        "quick_cmd": f"./check {pid} --tier quick",
        "thorough_cmd": f"./check {pid} --tier thorough",
        "evidence_file": f"/verif/evidence/{pid}.json",
        "replay_cmd_template": f"./check {pid} --replay {{path}}",
        "engine": c["engine"],
        "level_claimed": {"category": "proof", "text": c["text"], "design_ref": c["design"]},
        "level_note": c["note"],
        "technique": c["technique"],
    })
json.dump(m, open(os.path.join(V, "MANIFEST.json"), "w"), indent=1)
print("checks:", len(m["checks"]), "not_applicable:", len(m["not_applicable"]))
