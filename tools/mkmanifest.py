#!/usr/bin/env python3
"""Regenerates /verif/MANIFEST.json from the table below (kept in one place so it stays valid)."""
import json, os
V = os.path.dirname(os.path.dirname(os.path.abspath(__file__)))
BASE = json.load(open("/root/.vp/BASELINE.json"))["cmd"] if os.path.exists("/root/.vp/BASELINE.json") else ""

CHECKS = {
 "C16": dict(engine="time", design="§3 C16",
   text="Lean theorems over an exact (Int) layer and a machine (uint64/int64 wrap-explicit) layer of common/time.go: uniqueness of the current round, next = current+1 with its exact time, strict monotonicity, and for every 64-bit round the machine TimeOfRound is the exact time or the documented error value, never negative/wrapped; machine NextRound/CurrentRound equal the exact layer on the whole domain. Tied to the code by regenerated constants and a differential run of the real functions against the model's executable definitions.",
   note="Lean kernel + propext/Classical.choice/Quot.sound; IEEE-754 float division/Log2 of Go modelled as exact integer division / Nat.log2 (checked differentially on the complete power-of-two table and boundary-directed inputs); go2lean; harness.",
   technique="Lean 4 proof (omega/nlinarith, 33-way case split on period bits) + regenerated constants + differential correspondence"),
}
NOT_YET = {}
for i in range(1, 21):
    pid = f"C{i:02d}"
    if pid not in CHECKS:
        NOT_YET[pid] = "model and proof not built yet in this round (work in progress; see DESIGN.md §7 order of work)"

m = {
 "version": 1,
 "setup_cmd": "cd /verif && ./setup.sh",
 "hooks": {"guard": "verif",
           "enable": "cd /repo && GOFLAGS=-mod=mod GOPROXY=off go build -tags 'verif conn_insecure' -overlay /verif/.build/overlay.json -o /verif/.build/verifh ./internal/verifh  (overlay adds files only; nothing in /repo is modified)",
           "baseline_off_cmd": BASE, "source_commits": [], "add_only": True},
 "engines": [],
 "checks": [],
 "not_applicable": [{"property_id": k, "reason": v} for k, v in sorted(NOT_YET.items())],
 "notes": "Every check: regenerate lean/Gen from /repo (go2lean) -> lake build the property's proof module + #print axioms audit -> build overlay harness + Lean driver -> differential correspondence + direct property oracle on the implementation -> evidence. See DESIGN.md.",
}
for pid, c in sorted(CHECKS.items()):
    m["checks"].append({
        "property_id": pid,
        "quick_cmd": f"./check {pid} --tier quick",
        "thorough_cmd": f"./check {pid} --tier thorough",
        "evidence_file": f"/verif/evidence/{pid}.json",
        "replay_cmd_template": f"./check {pid} --replay {{path}}",
        "engine": c["engine"],
        "level_claimed": {"category": "proof", "text": c["text"], "design_ref": c["design"]},
        "level_note": c["note"],
        "technique": c["technique"],
    })
json.dump(m, open(os.path.join(V, "MANIFEST.json"), "w"), indent=1)
print("checks:", len(m["checks"]), "not_applicable:", len(m["not_applicable"]))
