#!/usr/bin/env python3
"""Regenerates /verif/MANIFEST.json from the table below (kept in one place so it stays valid)."""
import json, os
V = os.path.dirname(os.path.dirname(os.path.abspath(__file__)))
BASE = json.load(open("/root/.vp/BASELINE.json"))["cmd"] if os.path.exists("/root/.vp/BASELINE.json") else ""

CHECKS = {
 "C16": dict(engine="time", design="§3 C16",
   text="Lean theorems over an exact (Int) layer and a machine (uint64/int64 wrap-explicit) layer of common/time.go: uniqueness of the current round, next = current+1 with its exact time, strict monotonicity, and for every 64-bit round the machine TimeOfRound is the exact time or the documented error value, never negative/wrapped; machine NextRound/CurrentRound equal the exact layer on the whole domain. Tied to the code by regenerated constants and a differential run of the real functions against the model's executable definitions.",
   note="Lean kernel + propext/Classical.choice/Quot.sound; IEEE-754 float division/Log2 of Go modelled as exact integer division / Nat.log2 (checked differentially on the complete power-of-two table and boundary-directed inputs); go2lean; harness.",
   technique="Lean 4 proof (omega/nlinarith, 33-way case split on period bits) + regenerated constants + differential correspondence"),
 "C15": dict(engine="secrecy", design="§3 C15",
   text="PARTIAL. Lean theorems about a model in which node state is split public x secret and every response / packet / HTTP body / log-line constructor is typed Pub -> ...: noninterference for every non-signing channel, signing and DKG channels contain the secret only as the key argument of the crypto oracle (and no channel distinguishes two nodes with equal public state when the oracle is key-independent); over facts regenerated from the source: every function that selects a secret-bearing field (Pair.Key, Share.Share, PriShare.V, DistKeyShare, KeyShare, kyber Result.Key, the hex mirrors) is on a 21-entry commented allow-list, no logging/formatting call takes secret material, every key.Save of a secret-serialising value passes secure=true, the list of file-creating calls is the known one, fs.CreateSecureFile+write never has content in a file accessible to group/other (any umask, any prior file state); file modes: full statement proved for the variant with dkg BoltStoreOpenPerm=0600, and for the code as it is (0660) a _partial theorem (all secret files but dkg.db; dkg.db when the umask masks the group bits) plus a _counterexample (dkg.db holds the share and is 0640 under umask 022) which the check replays on the real dkg.NewDKGStore and reports as a known finding; the byte scanner is proved sound and complete for its encodings. Tied to the code by the syntactic extractor and by a byte scan (raw, hex, base64 variants, python extras) of everything real in-process daemons emit over a scripted life (DKG, beacons, all control/public/protocol/HTTP endpoints with error paths, backup, reshare, restart+sync) through recording TCP proxies, per-node debug log sinks and stat of every file under umask 0 and a umask matrix.",
   note="Lean kernel + standard axioms. NOT proved: that the Go code is the model. The reader/sink lists are syntactic (go/ast + small type tables; flows through interfaces/reflection are invisible); the byte scan covers the sampled executions only (quick: 1 scheme, 3 nodes; thorough: 5 schemes, joiner/leaver) and the listed encodings; secrecy of signatures and encrypted deals is an assumption on the crypto oracle; POSIX mode/umask semantics and bbolt's open are modelled. Channels the run did not exercise are listed in evidence (distribution.channels_not_exercised).",
   technique="Lean 4 proof (noninterference by construction, decide over regenerated facts, step model of CreateSecureFile) + go2lean secret-reader/sink/file-creator extraction + byte scan of real multi-node executions with a Lean-verified scanner as second oracle"),
 "C18": dict(engine="store", design="§3 C18",
   text="Lean theorems: for every sequence of put/del the untrimmed bolt model keeps a strictly sorted key list whose entries carry their own round and Get answers exactly as a plain round->beacon map (refinement by induction over the op list); Last is the maximum; a cursor over a snapshot enumerates exactly the snapshot in strictly ascending order, Seek lands on the least round >= the argument and on the round itself when stored, every cursor read is an entry of the snapshot; trimmed store reads are labelled with the key found and the reconstructed previous signature is the stored signature of round-1 or the read fails; the memdb model stays sorted and within capacity for every op sequence, keeps an existing round, forgets only the smallest rounds, and its positional cursor only returns stored elements. Tied to the code by running the real boltdb (trimmed/untrimmed, with/without previous-required) and memdb stores against the model's executable definitions and against an independent sorted-map oracle.",
   note="Lean kernel + standard axioms; bbolt's snapshot/ordering semantics are modelled, not verified; PostgreSQL back-end not modelled; harness.",
   technique="Lean 4 proof (induction over op sequences, refinement to a map) + differential correspondence with real bbolt/memdb + sorted-map oracle"),
 "C17": dict(engine="hash", design="§3 C17",
   text="Lean theorems over the byte-exact preimages of Info.Hash and Group.Hash (layouts regenerated from the source and tied by rfl): determinism incl. id canonicalisation, every single-field change (period, genesis, public key, seed, id; member key/index, threshold, genesis, transition incl. 0<->non-0, dist key, id) changes the preimage (inner hashes under an explicit collision-freedom hypothesis), joint injectivity under fixed key/seed lengths with the seed/id ambiguity exhibited otherwise, independence of node listing order (sorting of a permutation with distinct indices), chain hash ignores membership, decode rejects a mismatching embedded hash. Tied to the code by hashing the model's preimage (python hashlib) and comparing with the real Hash() on generated groups over all 5 schemes, plus equality across TOML/protobuf/JSON paths and inequality under perturbation on the real code.",
   note="Lean kernel + standard axioms; SHA-256/BLAKE2b collision freedom is a hypothesis; go2lean layout extractor; python hashlib; kyber point encodings opaque.",
   technique="Lean 4 proof (list/byte algebra, permutation sorting) + regenerated hash layouts tied by rfl + differential hash comparison"),
 "C02": dict(engine="chain", design="§3 C02",
   text="Lean theorems over the store stack appendStore→schemeStore→base map as coded: for every sequence of Puts (aggregation and sync interleaved arbitrarily — both go through the one mutex-held appendStore.Put, a regenerated lock fact) and restarts, the stored rounds are exactly 0..head, linked by previous signatures (chained) or stripped of them (unchained), the wrappers' cached head equals the stored head; a successful Put writes exactly head+1 and changes no stored round, any other Put changes nothing (re-put of the head answers 'already' iff equal); two nodes whose stores satisfy the invariant and hold only verifying beacons agree byte for byte on every common round (induction on the round, under the explicit uniqueness-of-BLS-signatures hypothesis); the repair path cannot replace a valid beacon by a different valid one. Tied to the code by running the real newAppendStore(NewSchemeStore(base)) over trimmed bolt, untrimmed bolt and memdb against the model and against a gap-free/append-only oracle.",
   note="Lean kernel + standard axioms; base store = sorted map (C18 correspondence); sync.Mutex semantics; SigUnique hypothesis; multi-node agreement is the theorem c02_agree plus C01/C10 validity, real multi-node runs are exercised under C05.",
   technique="Lean 4 proof (invariant by induction over op sequences; agreement by induction on rounds) + regenerated lock facts + differential correspondence"),
 "C08": dict(engine="dkgsm", design="§3 C08",
   text="Lean theorems over a model of dkg.DBState's methods and dkg.Process (two store buckets, commands, packets with the terminal-state fallback, completion/failure), the transition table regenerated from the source and tied to the protocol's table: every step keeps the status or moves it along a legal arrow from the state the event was applied to; a rejected command or packet writes nothing; the completed record changes only by a completion, which writes one whole Complete record with group and share to both buckets; the completed epoch only grows (invariant EpochInv, proved inductive and lifted to every history); a retry after abort/timeout/failure is built on the last completed epoch; ValidateProposal rejects stale/duplicate/jumping epochs, expired timeouts, thresholds out of range, unknown schemes, bad joiner signatures, and for members changed genesis parameters, dropped or unknown members and too few remaining nodes. The unrestricted 'current epoch never decreases' is refuted by a kernel-checked witness and replayed on the real code (known finding); proved under the hypothesis the proof forced. Tied to the code by running a real dkg.Process on a real bolt store against the model on generated multi-epoch histories with adversarial noise, and an independent C08 oracle on the implementation's own state dumps.",
   note="Lean kernel + standard axioms; go2lean table extraction; harness replaces the kyber execution by Complete+SaveFinished / Failed+SaveCurrent through an export shim; timeouts >= 1 h from the wall clock; v1->v2 migration branch excluded; bbolt and TOML trusted.",
   technique="Lean 4 proof (case analysis over the regenerated transition table, invariant by induction over histories) + differential correspondence with a real dkg.Process"),
 "C09": dict(engine="dkgsm", design="§3 C09",
   text="Lean theorems over the same model with idealised signatures (a signature is the pair key/message): a packet that changes anything was signed, over the message derived from the very state being stored, by the key the stored participant lists record for the claimed sender; proposal/execute/abort only from the leader, accept/reject only from a remaining member for itself; a signature by an unlisted key changes nothing; two term sets with the same signed message agree on every covered field. The parts of the statement the code does not meet are refuted by kernel-checked witnesses replayed on the real code and listed as known findings: the signed message omits the genesis seed and the participants' public keys, and a member authenticates a reshare proposal against keys supplied in the packet (address-only comparison with its group). A further defect found by the failed proof of c09_role (any member's execute packet moved a leaver to Left) was repaired in drand. Tied to the code as C08, plus a C09 oracle (signer = listed sender, entitlement, coverage, key source) on every state-changing packet.",
   note="IdealSig (EUF-CMA idealisation) and comparison of signed messages as typed field lists are assumptions; otherwise as C08.",
   technique="Lean 4 proof over an idealised-signature model + kernel-checked counterexamples + differential correspondence with a real dkg.Process"),
}
ENGINES = [
 {"name": "lean-model", "path": "lean/Drand", "serves_properties": sorted(CHECKS), "kind_free_text": "executable Lean 4 model (core only) + compiled line-protocol driver lean/Main.lean (vdriver)"},
 {"name": "lean-proofs", "path": "lean/DrandProofs", "serves_properties": sorted(CHECKS), "kind_free_text": "property theorems, one file per property; kernel-checked, axioms audited on every run"},
 {"name": "go2lean", "path": "tools/go2lean", "serves_properties": sorted(CHECKS), "kind_free_text": "go/ast fact extractor regenerating lean/Gen from /repo on every run"},
 {"name": "verifh", "path": "harness", "serves_properties": sorted(CHECKS), "kind_free_text": "Go harness overlaid into /repo at build time (go build -overlay, tags verif conn_insecure); one sub-engine per model engine: " + ", ".join(sorted({c["engine"] for c in CHECKS.values()}))},
]
NOT_YET = {}
for i in range(1, 21):
    pid = f"C{i:02d}"
    if pid not in CHECKS:
        NOT_YET[pid] = "model and proof not built yet in this round (work in progress; see DESIGN.md §7 order of work)"

m = {
 "version": 1,
 "setup_cmd": "cd /verif && ./setup.sh",
 "hooks": {"guard": "verif",
           "enable": "cd /repo && GOFLAGS=-mod=mod GOPROXY=off go build -tags 'verif conn_insecure' -overlay /verif/.build/overlay.json -o /verif/.build/verifh ./internal/verifh  (overlay adds files only; nothing in /repo is modified)",
           "baseline_off_cmd": BASE, "source_commits": [], "add_only": True},
 "engines": ENGINES,
 "checks": [],
 "not_applicable": [{"property_id": k, "reason": v} for k, v in sorted(NOT_YET.items())],
 "notes": "Every check: regenerate lean/Gen from /repo (go2lean) -> lake build the property's proof module + #print axioms audit -> build overlay harness + Lean driver -> differential correspondence + direct property oracle on the implementation -> evidence. See DESIGN.md.",
}
for pid, c in sorted(CHECKS.items()):
    m["checks"].append({
        "property_id": pid,
        "quick_cmd": f"./check {pid} --tier quick",
        "thorough_cmd": f"./check {pid} --tier thorough",
        "evidence_file": f"/verif/evidence/{pid}.json",
        "replay_cmd_template": f"./check {pid} --replay {{path}}",
        "engine": c["engine"],
        "level_claimed": {"category": "proof", "text": c["text"], "design_ref": c["design"]},
        "level_note": c["note"],
        "technique": c["technique"],
    })
json.dump(m, open(os.path.join(V, "MANIFEST.json"), "w"), indent=1)
print("checks:", len(m["checks"]), "not_applicable:", len(m["not_applicable"]))
