#!/usr/bin/env python3
"""Regenerates /verif/MANIFEST.json from the table below (kept in one place so it stays valid)."""
import json, os
V = os.path.dirname(os.path.dirname(os.path.abspath(__file__)))
BASE = json.load(open("/root/.vp/BASELINE.json"))["cmd"] if os.path.exists("/root/.vp/BASELINE.json") else ""

CHECKS = {
 "C16": dict(engine="time", design="§3 C16",
   text="Lean theorems over an exact (Int) layer and a machine (uint64/int64 wrap-explicit) layer of common/time.go: uniqueness of the current round, next = current+1 with its exact time, strict monotonicity, and for every 64-bit round the machine TimeOfRound is the exact time or the documented error value, never negative/wrapped; machine NextRound/CurrentRound equal the exact layer on the whole domain. Tied to the code by regenerated constants and a differential run of the real functions against the model's executable definitions.",
   note="Lean kernel + propext/Classical.choice/Quot.sound; IEEE-754 float division/Log2 of Go modelled as exact integer division / Nat.log2 (checked differentially on the complete power-of-two table and boundary-directed inputs); go2lean; harness.",
   technique="Lean 4 proof (omega/nlinarith, 33-way case split on period bits) + regenerated constants + differential correspondence"),
 "C18": dict(engine="store", design="§3 C18",
   text="Lean theorems: for every sequence of put/del the untrimmed bolt model keeps a strictly sorted key list whose entries carry their own round and Get answers exactly as a plain round->beacon map (refinement by induction over the op list); Last is the maximum; a cursor over a snapshot enumerates exactly the snapshot in strictly ascending order, Seek lands on the least round >= the argument and on the round itself when stored, every cursor read is an entry of the snapshot; trimmed store reads are labelled with the key found and the reconstructed previous signature is the stored signature of round-1 or the read fails; the memdb model stays sorted and within capacity for every op sequence, keeps an existing round, forgets only the smallest rounds, and its positional cursor only returns stored elements. Tied to the code by running the real boltdb (trimmed/untrimmed, with/without previous-required) and memdb stores against the model's executable definitions and against an independent sorted-map oracle.",
   note="Lean kernel + standard axioms; bbolt's snapshot/ordering semantics are modelled, not verified; PostgreSQL back-end not modelled; harness.",
   technique="Lean 4 proof (induction over op sequences, refinement to a map) + differential correspondence with real bbolt/memdb + sorted-map oracle"),
 "C17": dict(engine="hash", design="§3 C17",
   text="Lean theorems over the byte-exact preimages of Info.Hash and Group.Hash (layouts regenerated from the source and tied by rfl): determinism incl. id canonicalisation, every single-field change (period, genesis, public key, seed, id; member key/index, threshold, genesis, transition incl. 0<->non-0, dist key, id) changes the preimage (inner hashes under an explicit collision-freedom hypothesis), joint injectivity under fixed key/seed lengths with the seed/id ambiguity exhibited otherwise, independence of node listing order (sorting of a permutation with distinct indices), chain hash ignores membership, decode rejects a mismatching embedded hash. Tied to the code by hashing the model's preimage (python hashlib) and comparing with the real Hash() on generated groups over all 5 schemes, plus equality across TOML/protobuf/JSON paths and inequality under perturbation on the real code.",
   note="Lean kernel + standard axioms; SHA-256/BLAKE2b collision freedom is a hypothesis; go2lean layout extractor; python hashlib; kyber point encodings opaque.",
   technique="Lean 4 proof (list/byte algebra, permutation sorting) + regenerated hash layouts tied by rfl + differential hash comparison"),
 "C02": dict(engine="chain", design="§3 C02",
   text="Lean theorems over the store stack appendStore→schemeStore→base map as coded: for every sequence of Puts (aggregation and sync interleaved arbitrarily — both go through the one mutex-held appendStore.Put, a regenerated lock fact) and restarts, the stored rounds are exactly 0..head, linked by previous signatures (chained) or stripped of them (unchained), the wrappers' cached head equals the stored head; a successful Put writes exactly head+1 and changes no stored round, any other Put changes nothing (re-put of the head answers 'already' iff equal); two nodes whose stores satisfy the invariant and hold only verifying beacons agree byte for byte on every common round (induction on the round, under the explicit uniqueness-of-BLS-signatures hypothesis); the repair path cannot replace a valid beacon by a different valid one. Tied to the code by running the real newAppendStore(NewSchemeStore(base)) over trimmed bolt, untrimmed bolt and memdb against the model and against a gap-free/append-only oracle.",
   note="Lean kernel + standard axioms; base store = sorted map (C18 correspondence); sync.Mutex semantics; SigUnique hypothesis; multi-node agreement is the theorem c02_agree plus C01/C10 validity, real multi-node runs are exercised under C05.",
   technique="Lean 4 proof (invariant by induction over op sequences; agreement by induction on rounds) + regenerated lock facts + differential correspondence"),
 "C05": dict(engine="net", design="§3 C05 (partial, §6)",
   text="PARTIAL. Lean theorems over a message-level model of the beacon loop (n nodes {up, head, clock, lastTick, partial cache, sleeping catch-up goroutines, sync target}, a connectivity relation, a multiset of partials in flight; rules tick/fire/recv/aggregate/pull/stop/restart mirror Handler.run, broadcastNextPartial, ProcessPartialBeacon, runAggregator, tryAppend/shouldSync, SyncManager admission and Catchup, with every comparison regenerated from the Go source and used by the model), for arbitrary n, thr and arbitrary prior state: in a fair sub-round (every running node's timer event happens once, every message between connected running nodes is delivered) a closed, pairwise connected set U of >= thr running nodes whose heads all equal h below the current round all store h+1 (c05_step_progress, under the explicit hypothesis that no partial above h+1 is in play for U, which c05_quiet_of_heads proves for every reachable state in which no node is ahead of U); after a heal every member of U reaches the largest head of U within one fair round by the sync rule (c05_level); from a levelled state c-h rounds behind, the tick sub-round plus c-h-1 catch-up sub-rounds bring every member to exactly c, one round per sub-round (c05_catchup); a restarted node syncs to the common head and its partial is counted in the next round, and is needed when |U| = thr (c05_rejoin, c05_rejoin_needed); heads never decrease and every append is head+1 (c05_heads_monotone, c05_no_skip, tied to C02's store theorem); with fewer than thr possible signers no head ever passes the current maximum under ANY schedule of events without a restart (c05_below_threshold_no_progress). What is NOT proved: real timers, goroutine scheduling, channel capacities, the 2-period sync-restart rule, gRPC, and that the Go code refines the model. Those are sampled: 2-7 REAL beacon.Handlers in one process over an in-memory ProtocolClient with scripted partitions / cut and slow links / stops / restarts and lock-step fake clocks; oracle P5 (gap-free equal valid chains, every due round while >= thr connected, catch-up within rounds-behind x CatchupPeriod + budget, no beacon below threshold) is evaluated on the logged heads, and every logged head vector is validated against the model's fair run and step envelope by the Lean driver.",
   note="Lean kernel + standard axioms for the model theorems; fair-round abstraction (partial synchrony after heal) is an assumption, not a theorem about the Go runtime; ideal crypto in the model (RecoverSpec); go2lean netrules extractor; harness engine 'net' with bounded polling waits, failing scripts retried twice, flake rate reported in evidence; conformance of sampled traces, not equivalence.",
   technique="Lean 4 proof over a message-level protocol model (fold invariants, counting of distinct signers) + regenerated guards used by the model + real multi-node differential runs with trace validation by the Lean driver"),
}
NOT_YET = {}
for i in range(1, 21):
    pid = f"C{i:02d}"
    if pid not in CHECKS:
        NOT_YET[pid] = "model and proof not built yet in this round (work in progress; see DESIGN.md §7 order of work)"

m = {
 "version": 1,
 "setup_cmd": "cd /verif && ./setup.sh",
 "hooks": {"guard": "verif",
           "enable": "cd /repo && GOFLAGS=-mod=mod GOPROXY=off go build -tags 'verif conn_insecure' -overlay /verif/.build/overlay.json -o /verif/.build/verifh ./internal/verifh  (overlay adds files only; nothing in /repo is modified)",
           "baseline_off_cmd": BASE, "source_commits": [], "add_only": True},
 "engines": [],
 "checks": [],
 "not_applicable": [{"property_id": k, "reason": v} for k, v in sorted(NOT_YET.items())],
 "notes": "Every check: regenerate lean/Gen from /repo (go2lean) -> lake build the property's proof module + #print axioms audit -> build overlay harness + Lean driver -> differential correspondence + direct property oracle on the implementation -> evidence. See DESIGN.md.",
}
for pid, c in sorted(CHECKS.items()):
    m["checks"].append({
        "property_id": pid,
        "quick_cmd": f"./check {pid} --tier quick",
        "thorough_cmd": f"./check {pid} --tier thorough",
        "evidence_file": f"/verif/evidence/{pid}.json",
        "replay_cmd_template": f"./check {pid} --replay {{path}}",
        "engine": c["engine"],
        "level_claimed": {"category": "proof", "text": c["text"], "design_ref": c["design"]},
        "level_note": c["note"],
        "technique": c["technique"],
    })
json.dump(m, open(os.path.join(V, "MANIFEST.json"), "w"), indent=1)
print("checks:", len(m["checks"]), "not_applicable:", len(m["not_applicable"]))
