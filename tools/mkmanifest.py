#!/usr/bin/env python3
"""Regenerates /verif/MANIFEST.json from the table below (kept in one place so it stays valid)."""
import json, os
V = os.path.dirname(os.path.dirname(os.path.abspath(__file__)))
BASE = json.load(open("/root/.vp/BASELINE.json"))["cmd"] if os.path.exists("/root/.vp/BASELINE.json") else ""

CHECKS = {
 "C16": dict(engine="time", design="§3 C16",
   text="Lean theorems over an exact (Int) layer and a machine (uint64/int64 wrap-explicit) layer of common/time.go: uniqueness of the current round, next = current+1 with its exact time, strict monotonicity, and for every 64-bit round the machine TimeOfRound is the exact time or the documented error value, never negative/wrapped; machine NextRound/CurrentRound equal the exact layer on the whole domain. Tied to the code by regenerated constants and a differential run of the real functions against the model's executable definitions.",
   note="Lean kernel + propext/Classical.choice/Quot.sound; IEEE-754 float division/Log2 of Go modelled as exact integer division / Nat.log2 (checked differentially on the complete power-of-two table and boundary-directed inputs); go2lean; harness.",
   technique="Lean 4 proof (omega/nlinarith, 33-way case split on period bits) + regenerated constants + differential correspondence"),
 "C15": dict(engine="secrecy", design="§3 C15",
   text="PARTIAL. Lean theorems about a model in which node state is split public x secret and every response / packet / HTTP body / log-line constructor is typed Pub -> ...: noninterference for every non-signing channel, signing and DKG channels contain the secret only as the key argument of the crypto oracle (and no channel distinguishes two nodes with equal public state when the oracle is key-independent); over facts regenerated from the source: every function that selects a secret-bearing field (Pair.Key, Share.Share, PriShare.V, DistKeyShare, KeyShare, kyber Result.Key, the hex mirrors) is on a 21-entry commented allow-list, no logging/formatting call takes secret material, every key.Save of a secret-serialising value passes secure=true, the list of file-creating calls is the known one, fs.CreateSecureFile+write never has content in a file accessible to group/other (any umask, any prior file state); file modes: full statement proved for the variant with dkg BoltStoreOpenPerm=0600, and for the code as it is (0660) a _partial theorem (all secret files but dkg.db; dkg.db when the umask masks the group bits) plus a _counterexample (dkg.db holds the share and is 0640 under umask 022) which the check replays on the real dkg.NewDKGStore and reports as a known finding; the byte scanner is proved sound and complete for its encodings. Tied to the code by the syntactic extractor and by a byte scan (raw, hex, base64 variants, python extras) of everything real in-process daemons emit over a scripted life (DKG, beacons, all control/public/protocol/HTTP endpoints with error paths, backup, reshare, restart+sync) through recording TCP proxies, per-node debug log sinks and stat of every file under umask 0 and a umask matrix.",
   note="Lean kernel + standard axioms. NOT proved: that the Go code is the model. The reader/sink lists are syntactic (go/ast + small type tables; flows through interfaces/reflection are invisible); the byte scan covers the sampled executions only (quick: 1 scheme, 3 nodes; thorough: 5 schemes, joiner/leaver) and the listed encodings; secrecy of signatures and encrypted deals is an assumption on the crypto oracle; POSIX mode/umask semantics and bbolt's open are modelled. Channels the run did not exercise are listed in evidence (distribution.channels_not_exercised).",
   technique="Lean 4 proof (noninterference by construction, decide over regenerated facts, step model of CreateSecureFile) + go2lean secret-reader/sink/file-creator extraction + byte scan of real multi-node executions with a Lean-verified scanner as second oracle"),
 "C18": dict(engine="store", design="§3 C18",
   text="Lean theorems: for every sequence of put/del the untrimmed bolt model keeps a strictly sorted key list whose entries carry their own round and Get answers exactly as a plain round->beacon map (refinement by induction over the op list); Last is the maximum; a cursor over a snapshot enumerates exactly the snapshot in strictly ascending order, Seek lands on the least round >= the argument and on the round itself when stored, every cursor read is an entry of the snapshot; trimmed store reads are labelled with the key found and the reconstructed previous signature is the stored signature of round-1 or the read fails; the memdb model stays sorted and within capacity for every op sequence, keeps an existing round, forgets only the smallest rounds, and its positional cursor only returns stored elements. Tied to the code by running the real boltdb (trimmed/untrimmed, with/without previous-required) and memdb stores against the model's executable definitions and against an independent sorted-map oracle.",
   note="Lean kernel + standard axioms; bbolt's snapshot/ordering semantics are modelled, not verified; PostgreSQL back-end not modelled; harness.",
   technique="Lean 4 proof (induction over op sequences, refinement to a map) + differential correspondence with real bbolt/memdb + sorted-map oracle"),
 "C17": dict(engine="hash", design="§3 C17",
   text="Lean theorems over the byte-exact preimages of Info.Hash and Group.Hash (layouts regenerated from the source and tied by rfl): determinism incl. id canonicalisation, every single-field change (period, genesis, public key, seed, id; member key/index, threshold, genesis, transition incl. 0<->non-0, dist key, id) changes the preimage (inner hashes under an explicit collision-freedom hypothesis), joint injectivity under fixed key/seed lengths with the seed/id ambiguity exhibited otherwise, independence of node listing order (sorting of a permutation with distinct indices), chain hash ignores membership, decode rejects a mismatching embedded hash. Tied to the code by hashing the model's preimage (python hashlib) and comparing with the real Hash() on generated groups over all 5 schemes, plus equality across TOML/protobuf/JSON paths and inequality under perturbation on the real code.",
   note="Lean kernel + standard axioms; SHA-256/BLAKE2b collision freedom is a hypothesis; go2lean layout extractor; python hashlib; kyber point encodings opaque.",
   technique="Lean 4 proof (list/byte algebra, permutation sorting) + regenerated hash layouts tied by rfl + differential hash comparison"),
}
NOT_YET = {}
for i in range(1, 21):
    pid = f"C{i:02d}"
    if pid not in CHECKS:
        NOT_YET[pid] = "model and proof not built yet in this round (work in progress; see DESIGN.md §7 order of work)"

m = {
 "version": 1,
 "setup_cmd": "cd /verif && ./setup.sh",
 "hooks": {"guard": "verif",
           "enable": "cd /repo && GOFLAGS=-mod=mod GOPROXY=off go build -tags 'verif conn_insecure' -overlay /verif/.build/overlay.json -o /verif/.build/verifh ./internal/verifh  (overlay adds files only; nothing in /repo is modified)",
           "baseline_off_cmd": BASE, "source_commits": [], "add_only": True},
 "engines": [],
 "checks": [],
 "not_applicable": [{"property_id": k, "reason": v} for k, v in sorted(NOT_YET.items())],
 "notes": "Every check: regenerate lean/Gen from /repo (go2lean) -> lake build the property's proof module + #print axioms audit -> build overlay harness + Lean driver -> differential correspondence + direct property oracle on the implementation -> evidence. See DESIGN.md.",
}
for pid, c in sorted(CHECKS.items()):
    m["checks"].append({
        "property_id": pid,
        "quick_cmd": f"./check {pid} --tier quick",
        "thorough_cmd": f"./check {pid} --tier thorough",
        "evidence_file": f"/verif/evidence/{pid}.json",
        "replay_cmd_template": f"./check {pid} --replay {{path}}",
        "engine": c["engine"],
        "level_claimed": {"category": "proof", "text": c["text"], "design_ref": c["design"]},
        "level_note": c["note"],
        "technique": c["technique"],
    })
json.dump(m, open(os.path.join(V, "MANIFEST.json"), "w"), indent=1)
print("checks:", len(m["checks"]), "not_applicable:", len(m["not_applicable"]))
