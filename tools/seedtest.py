#!/usr/bin/env python3
"""Validate a seeded change and run the property's check against it.
usage: tools/seedtest.py <dir with patch.diff, meta.json, demo file(s)> [--keep-as <id>] [--no-demo] [--vw <scratch worktree of /verif>]
With --vw the check runs in that worktree of /verif (created, or moved to /verif's HEAD, first), so several of these
can run side by side without sharing lean/Gen or build output.
Works in a scratch worktree of /repo (never /repo itself); VERIF_REPO points the check at it."""
import json, os, shutil, subprocess, sys, time
V = os.path.dirname(os.path.dirname(os.path.abspath(__file__)))
ENV = dict(os.environ, GOFLAGS="-mod=mod", GOPROXY="off")

def sh(cmd, cwd=None, env=None, timeout=3600):
    p = subprocess.run(cmd, cwd=cwd, env=env or ENV, stdout=subprocess.PIPE, stderr=subprocess.STDOUT, text=True, timeout=timeout, shell=isinstance(cmd, str))
    return p.returncode, p.stdout

def main():
    d = os.path.abspath(sys.argv[1])
    keep = sys.argv[sys.argv.index("--keep-as") + 1] if "--keep-as" in sys.argv else None
    meta = json.load(open(os.path.join(d, "meta.json")))
    prop = meta["property"]
    vw = sys.argv[sys.argv.index("--vw") + 1] if "--vw" in sys.argv else None
    CHK = V
    if vw:
        head = sh(["git", "-C", V, "rev-parse", "HEAD"])[1].strip()
        if not os.path.isdir(vw):
            sh(["git", "-C", V, "worktree", "add", "-q", "--detach", vw, head])
        else:
            sh(["git", "-C", vw, "checkout", "-q", "--detach", head])
        CHK = vw
    wt = f"/tmp/rw_seed_{os.getpid()}"
    sh(["git", "-C", "/repo", "worktree", "add", "-q", wt, "HEAD"])
    out = {"property": prop, "dir": d}
    try:
        demo = meta.get("demo_path_in_repo")
        demo_src = None
        for f in os.listdir(d):
            if f.endswith(".go"):
                demo_src = os.path.join(d, f)
        def run_demo():
            if not demo or not demo_src:
                return None, "no demo"
            dst = os.path.join(wt, demo)
            os.makedirs(os.path.dirname(dst), exist_ok=True)
            shutil.copy(demo_src, dst)
            pkg = "./" + os.path.dirname(demo)
            tags = ["-tags", meta["demo_tags"]] if meta.get("demo_tags") else []
            rc, o = sh(["go", "test", "-count=1"] + tags + ["-run", meta.get("demo_test_regex") or "Seeded|Seed|Verif|Demo|Mut", pkg], cwd=wt, timeout=1800)
            os.remove(dst)
            return rc, o[-1500:]
        if "--no-demo" not in sys.argv and "--check-only" not in sys.argv:
            rc0, o0 = run_demo()
            out["demo_without_change"] = "pass" if rc0 == 0 else f"FAIL rc={rc0}: {o0}"
        rc, o = sh(["git", "-C", wt, "apply", os.path.join(d, "patch.diff")])
        if rc != 0:
            out["apply"] = "FAILED: " + o
            print(json.dumps(out, indent=1)); return
        rc, o = sh(["go", "build", "./..."], cwd=wt)
        out["builds"] = rc == 0
        if "--no-demo" not in sys.argv and "--check-only" not in sys.argv:
            rc1, o1 = run_demo()
            out["demo_with_change"] = "fail (as intended)" if rc1 not in (0, None) else f"rc={rc1}: {o1}"
        pkgs = sorted({"./" + os.path.dirname(f) + "/..." for f in meta.get("files_changed", [])})
        full = "--full-suite" in sys.argv
        if "--check-only" in sys.argv:
            pkgs, full = ["./internal/fs/..."], False   # re-validation of the check only: the suite result is already on record
        rc, o = sh(["go", "test", "-json", "-vet=off", "-count=1", "-timeout", "25m"] + (["./..."] if full else pkgs), cwd=wt, timeout=3000)
        stable = set(json.load(open("/root/.vp/BASELINE.json"))["stable_pass"])
        fails = []
        for l in o.splitlines():
            try:
                e = json.loads(l)
            except Exception:
                continue
            if e.get("Test") and e.get("Action") == "fail" and f"{e['Package']}::{e['Test']}" in stable:
                fails.append(f"{e['Package']}::{e['Test']}")
        if "--check-only" not in sys.argv:
            out["existing_tests_failing_with_change"] = sorted(set(fails))
            out["existing_tests_scope"] = "whole pinned suite" if full else " ".join(pkgs)
        # the check
        t = time.time()
        rc, o = sh(["./check", prop, "--tier", "quick"], cwd=CHK, env=dict(ENV, VERIF_REPO=wt, VERIF_EVIDENCE_DIR=os.path.join(CHK, ".build", "evidence_scratch")), timeout=3600)
        out["check_exit"] = rc
        out["check_output"] = [l for l in o.splitlines() if l.startswith(("VIOLATION", "KNOWN-FINDING"))]
        out["check_wall_s"] = round(time.time() - t, 1)
        v = [l for l in out["check_output"] if l.startswith("VIOLATION")]
        if v:
            rp = v[0].split("replay=")[1].split()[0]
            try:
                r = json.load(open(rp))
                out["replay"] = {k: (r[k] if k != "ops" else r[k][:12]) for k in r if k in ("kind", "oracle", "ops", "broken", "note", "signature", "backend", "engine")}
            except Exception as e:
                out["replay"] = str(e)
        out["caught"] = rc == 1 and bool(v)
        out["with_failing_input"] = any("no-failing-input-found" not in l for l in v)
    finally:
        sh(["git", "-C", "/repo", "worktree", "remove", "--force", wt])
    print(json.dumps(out, indent=1))
    if keep:
        dst = os.path.join(V, "seeded", keep)
        os.makedirs(dst, exist_ok=True)
        for f in os.listdir(d):
            if os.path.abspath(d) != os.path.abspath(dst):
                shutil.copy(os.path.join(d, f), dst)
        prev = meta.get("what_i_ran") or {}
        meta["what_i_ran"] = {k: (out.get(k) if out.get(k) is not None else prev.get(k)) for k in ("demo_without_change", "demo_with_change", "builds", "existing_tests_failing_with_change", "existing_tests_scope", "check_exit", "check_output", "caught", "with_failing_input", "replay", "check_wall_s")}
        json.dump(meta, open(os.path.join(dst, "meta.json"), "w"), indent=1)

if __name__ == "__main__":
    main()
