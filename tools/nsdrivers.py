#!/usr/bin/env python3
"""Give every lean/Drand/Driver/<F>.lean its own namespace Drand.Driver.<F>D (drivers written independently clash on
helper names) and open all of them in Main.lean. Idempotent."""
import os, re
V = os.path.dirname(os.path.dirname(os.path.abspath(__file__)))
D = os.path.join(V, "lean", "Drand", "Driver")
names = sorted(f[:-5] for f in os.listdir(D) if f.endswith(".lean"))
for n in names:
    p = os.path.join(D, n + ".lean")
    s = open(p).read()
    ns = f"Drand.Driver.{n}D"
    s2 = re.sub(r"^namespace Drand\.Driver\s*$", f"namespace {ns}", s, flags=re.M)
    s2 = re.sub(r"^end Drand\.Driver\s*$", f"end {ns}", s2, flags=re.M)
    # drivers that import another driver use its helpers
    for m in re.findall(r"^import Drand\.Driver\.(\w+)", s2, flags=re.M):
        line = f"open Drand.Driver.{m}D"
        if line not in s2:
            s2 = s2.replace(f"namespace {ns}\n", f"namespace {ns}\n{line}\n", 1)
    if s2 != s:
        open(p, "w").write(s2)
p = os.path.join(V, "lean", "Main.lean")
s = open(p).read()
s = re.sub(r"^open Drand\.Driver(\.\w+)?\n", "", s, flags=re.M)
opens = "".join(f"open Drand.Driver.{n}D\n" for n in names)
s = s.replace("import Drand\n", "import Drand\n" + opens, 1)
open(p, "w").write(s)
print("drivers:", names)
