#!/usr/bin/env python3
"""Run /repo's pinned suite (guard off) and compare with BASELINE.json stable_pass. Prints the tests that regressed."""
import json, os, subprocess, sys
b = json.load(open("/root/.vp/BASELINE.json"))
env = dict(os.environ, GOFLAGS="-mod=mod", GOPROXY="off")
p = subprocess.run(["go", "test", "-json", "-vet=off", "-count=1", "-timeout", "25m", "./..."], cwd="/repo", env=env,
                   stdout=subprocess.PIPE, stderr=subprocess.DEVNULL, text=True)
res = {}
for line in p.stdout.splitlines():
    try:
        e = json.loads(line)
    except Exception:
        continue
    if e.get("Test") and e.get("Action") in ("pass", "fail", "skip"):
        res[f"{e['Package']}::{e['Test']}"] = e["Action"]
bad = [t for t in b["stable_pass"] if res.get(t) != "pass"]
print("stable_pass:", len(b["stable_pass"]), "now passing:", len(b["stable_pass"]) - len(bad))
for t in bad:
    print("REGRESSED", t, res.get(t))
sys.exit(1 if bad else 0)
