#!/usr/bin/env python3
"""Resolve merge conflicts in the registry files of /verif by taking the union of both sides.
usage: tools/mergefix.py   (run in the middle of a `git merge` with conflicts)"""
import json, os, re, subprocess, sys
V = os.path.dirname(os.path.dirname(os.path.abspath(__file__)))
os.chdir(V)
st = subprocess.run(["git", "status", "--porcelain"], stdout=subprocess.PIPE, text=True).stdout.splitlines()
conf = [l[3:] for l in st if l[:2] in ("UU", "AA")]

def union_text(path):
    s = open(path).read()
    def repl(m):
        ours = m.group(1).splitlines()
        theirs = m.group(2).splitlines()
        out = list(ours)
        for l in theirs:
            if l not in ours or l.strip() in ("", "}", "},", ")", "),"):
                if l.strip() == "" and out and out[-1].strip() == "":
                    continue
                if l not in ours:
                    out.append(l)
        return "\n".join(out) + "\n"
    s2 = re.sub(r"<<<<<<< [^\n]*\n(.*?)=======\n(.*?)>>>>>>> [^\n]*\n", repl, s, flags=re.S)
    open(path, "w").write(s2)

def side(path, which):
    r = subprocess.run(["git", "show", f":{which}:{path}"], stdout=subprocess.PIPE, text=True)
    return r.stdout

for p in conf:
    if p.startswith("evidence/") or p == "MANIFEST.json":
        open(p, "w").write(side(p, 2))          # ours; regenerated anyway
    elif p == "known_findings.json":
        a, b = json.loads(side(p, 2)), json.loads(side(p, 3))
        for k in ("findings", "fixed"):
            for x in b.get(k, []):
                if x not in a[k]:
                    a[k].append(x)
        json.dump(a, open(p, "w"), indent=1)
    else:
        union_text(p)
    subprocess.run(["git", "add", p])
    print("resolved", p)
