#!/usr/bin/env python3
"""For every `fix:` commit of /repo: revert it in a scratch worktree and run the property's check against that tree.
Expected: exit 1 with a VIOLATION line (ideally with a concrete input)."""
import json, os, subprocess, sys, time
V = os.path.dirname(os.path.dirname(os.path.abspath(__file__)))
ENV = dict(os.environ, GOFLAGS="-mod=mod", GOPROXY="off")
FIXES = [("2f777ccd", "C18"), ("cc9dcac8", "C20"), ("955b9441", "C12"), ("17b40598", "C12"), ("67181e5e", "C14"), ("7c7cdcef", "C08"),
         ("ca8aefbc", "C09"), ("b517945e", "C15"), ("8d3b2008", "C10"), ("02d58e97", "C10"), ("3b3fce18", "C04"), ("73c82544", "C14"),
         ("d5f9e438", "C07")]
only = sys.argv[1:]
out = []
for commit, prop in FIXES:
    if only and commit not in only and prop not in only:
        continue
    wt = f"/tmp/rw_rev_{commit}"
    subprocess.run(["git", "-C", "/repo", "worktree", "add", "-q", "--detach", wt, "HEAD"], check=True)
    try:
        r = subprocess.run(["git", "-C", wt, "revert", "--no-commit", commit], stdout=subprocess.PIPE, stderr=subprocess.STDOUT, text=True)
        if r.returncode != 0:
            # overlapping later fix: revert the later ones touching the same file first
            subprocess.run(["git", "-C", wt, "revert", "--abort"])
            subprocess.run(["git", "-C", wt, "checkout", "-q", "--", "."])
            rec = {"commit": commit, "property": prop, "revert": "conflict: " + r.stdout[-200:]}
            out.append(rec); print(json.dumps(rec)); continue
        b = subprocess.run(["go", "build", "./..."], cwd=wt, env=ENV, stdout=subprocess.PIPE, stderr=subprocess.STDOUT, text=True)
        t = time.time()
        c = subprocess.run(["./check", prop, "--tier", "quick"], cwd=V, env=dict(ENV, VERIF_REPO=wt, VERIF_EVIDENCE_DIR=os.path.join(V, ".build", "evidence_scratch")), stdout=subprocess.PIPE, stderr=subprocess.STDOUT, text=True)
        v = [l for l in c.stdout.splitlines() if l.startswith("VIOLATION")]
        rec = {"commit": commit, "property": prop, "builds": b.returncode == 0, "exit": c.returncode, "violations": len(v),
               "with_input": any("no-failing-input-found" not in l for l in v), "wall_s": round(time.time() - t)}
        if v:
            try:
                rp = json.load(open(v[0].split("replay=")[1].split()[0]))
                rec["oracle"] = (rp.get("oracle") or rp.get("note") or json.dumps(rp.get("broken")))[:300]
            except Exception as e:
                rec["oracle"] = str(e)
        out.append(rec); print(json.dumps(rec), flush=True)
    finally:
        subprocess.run(["git", "-C", "/repo", "worktree", "remove", "--force", wt])
json.dump(out, open(os.path.join(V, ".build", "reverttest.json"), "w"), indent=1)
