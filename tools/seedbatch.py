#!/usr/bin/env python3
"""Run tools/seedtest.py over many seeded changes, N at a time, each slot in its own /verif worktree.
usage: tools/seedbatch.py [-j N] [--check-only] <id> ...     results -> seeded/<id>/meta.json, summary on stdout"""
import json, os, subprocess, sys, threading, queue
V = os.path.dirname(os.path.dirname(os.path.abspath(__file__)))
args = sys.argv[1:]
j = 4
if "-j" in args:
    i = args.index("-j"); j = int(args[i + 1]); del args[i:i + 2]
extra = [a for a in args if a.startswith("--")]
ids = [a for a in args if not a.startswith("--")]
q = queue.Queue()
for i in ids: q.put(i)
lock = threading.Lock()
def worker(slot):
    vw = f"/tmp/vw_slot{slot}"
    while True:
        try: i = q.get_nowait()
        except queue.Empty: return
        d = os.path.join(V, "seeded", i)
        p = subprocess.run([sys.executable, os.path.join(V, "tools", "seedtest.py"), d, "--keep-as", i, "--vw", vw] + extra,
                           stdout=subprocess.PIPE, stderr=subprocess.STDOUT, text=True)
        try:
            m = json.load(open(os.path.join(d, "meta.json")))["what_i_ran"]
            line = f"{i} caught={m.get('caught')} input={m.get('with_failing_input')} demo0={str(m.get('demo_without_change'))[:12]} demo1={str(m.get('demo_with_change'))[:12]} fails={m.get('existing_tests_failing_with_change')} wall={m.get('check_wall_s')}"
        except Exception as e:
            line = f"{i} ERROR {e} {p.stdout[-400:]}"
        with lock:
            print(line, flush=True)
ts = [threading.Thread(target=worker, args=(s,)) for s in range(j)]
[t.start() for t in ts]; [t.join() for t in ts]
