package main

// genHTTPW: facts about the waiter / watch logic of handler/http/server.go the model Drand/Http/Waiters.lean relies on
// (C01, C14). Output Gen/HttpW.lean:
//
//	blockGuard1 / blockGuard2   the two `block = …` evaluations of getRand, translated to Lean over (latestRound, round);
//	eval1Region / eval2Region   the statements around them: RLock…RUnlock resp. Lock…append…Unlock
//	waiterChanCap, waiterCloseDeferred   `ch := make(chan []byte, 1)` directly followed by `defer close(ch)`
//	recvBranch / cancelBranch   the bodies of the two select cases of the parked waiter
//	unexpectedRound             the condition of the watcher's "unexpected round" test over (latestRound, nextRound)
//	unexpectedAssign            what it assigns to b in that case
//	notifyRegion                the statements from the watcher's Lock to its Unlock (the notification loop is inside)
//	failRegion                  the statements from Lock to Unlock of the `!ok` branch
//	publicRandDecision          PublicRand's three-way decision on getRand's result
//	beaconsAccess               every access to DrandHandler.beacons: method, kind (read/write/iterate), lock held
//
// Every shape is matched exactly; anything else stops the run with the function name.

import (
	"bytes"
	"go/ast"
	"go/parser"
	"go/printer"
	"go/token"
	"os"
	"path/filepath"
	"strings"
)

const httpDir = "handler/http"

type hwSrc struct {
	fs   *token.FileSet
	file *ast.File
}

func hwLoad() *hwSrc {
	path := filepath.Join(repo, httpDir, "server.go")
	src, err := os.ReadFile(path)
	if err != nil {
		die("httpw: %v", err)
	}
	fs := token.NewFileSet()
	f, err := parser.ParseFile(fs, path, src, 0)
	if err != nil {
		die("httpw: parse: %v", err)
	}
	return &hwSrc{fs, f}
}

func (h *hwSrc) fn(recv, name string) *ast.FuncDecl {
	for _, d := range h.file.Decls {
		g, ok := d.(*ast.FuncDecl)
		if !ok || g.Name.Name != name || g.Body == nil {
			continue
		}
		if recv == "" && g.Recv == nil {
			stripNoise(g.Body)
			return g
		}
		if recv != "" && g.Recv != nil && len(g.Recv.List) == 1 && baseTypeName(g.Recv.List[0].Type) == recv {
			stripNoise(g.Body)
			return g
		}
	}
	die("httpw: function %s.%s not found in %s/server.go", recv, name, httpDir)
	return nil
}

// one-line canonical text of a statement
func (h *hwSrc) text(n ast.Node) string {
	var buf bytes.Buffer
	if err := (&printer.Config{Mode: printer.RawFormat, Tabwidth: 1}).Fprint(&buf, h.fs, n); err != nil {
		die("httpw: print: %v", err)
	}
	return strings.Join(strings.Fields(buf.String()), " ")
}

func (h *hwSrc) texts(l []ast.Stmt) []string {
	out := make([]string, len(l))
	for i, s := range l {
		out[i] = h.text(s)
	}
	return out
}

// hwExpr translates a boolean / uint64 expression over the named quantities to Lean (Bool resp. Nat, uint64 wrap-around
// made explicit). names maps the canonical Go text of a leaf to the Lean parameter.
func hwExpr(e ast.Expr, names map[string]string, where string) (string, bool) {
	switch t := e.(type) {
	case *ast.ParenExpr:
		s, b := hwExpr(t.X, names, where)
		return "(" + s + ")", b
	case *ast.BasicLit:
		if t.Kind != token.INT {
			die("%s: unsupported literal %s", where, t.Value)
		}
		return t.Value, false
	case *ast.BinaryExpr:
		x, xb := hwExpr(t.X, names, where)
		y, yb := hwExpr(t.Y, names, where)
		switch t.Op {
		case token.LAND, token.LOR:
			if !xb || !yb {
				die("%s: %s of non-boolean operands in %s", where, t.Op, exprString(e))
			}
			op := map[token.Token]string{token.LAND: "&&", token.LOR: "||"}[t.Op]
			return "(" + x + " " + op + " " + y + ")", true
		case token.EQL, token.NEQ:
			if xb != yb {
				die("%s: mixed comparison %s", where, exprString(e))
			}
			op := map[token.Token]string{token.EQL: "==", token.NEQ: "!="}[t.Op]
			return "(" + x + " " + op + " " + y + ")", true
		case token.LSS, token.LEQ, token.GTR, token.GEQ:
			if xb || yb {
				die("%s: ordering of booleans in %s", where, exprString(e))
			}
			op := map[token.Token]string{token.LSS: "<", token.LEQ: "≤", token.GTR: ">", token.GEQ: "≥"}[t.Op]
			return "(decide (" + x + " " + op + " " + y + "))", true
		case token.ADD:
			if xb || yb {
				die("%s: + on booleans in %s", where, exprString(e))
			}
			return "((" + x + " + " + y + ") % 18446744073709551616)", false
		}
		die("%s: unsupported operator %s in %s", where, t.Op, exprString(e))
	case *ast.UnaryExpr:
		if t.Op == token.NOT {
			x, xb := hwExpr(t.X, names, where)
			if !xb {
				die("%s: ! of a non-boolean in %s", where, exprString(e))
			}
			return "(!" + x + ")", true
		}
		die("%s: unsupported unary %s", where, t.Op)
	default:
		if n, ok := names[exprString(e)]; ok {
			return n, false
		}
	}
	die("%s: unsupported expression %s", where, exprString(e))
	return "", false
}

func isCallText(s ast.Stmt, want string) bool {
	es, ok := s.(*ast.ExprStmt)
	return ok && exprString(es.X) == want
}

// assignment `block = <expr>`
func blockAssign(s ast.Stmt) ast.Expr {
	as, ok := s.(*ast.AssignStmt)
	if !ok || as.Tok != token.ASSIGN || len(as.Lhs) != 1 || len(as.Rhs) != 1 || exprString(as.Lhs[0]) != "block" {
		return nil
	}
	return as.Rhs[0]
}

func genHTTPW() {
	h := hwLoad()
	l := newLean("HttpW")
	l.pf("/-! facts about handler/http/server.go (waiter / watch logic) — tools/go2lean/httpw.go -/\nnamespace Gen.HttpW\n\n")
	list := func(name, doc string, xs []string) {
		l.pf("/-- %s -/\ndef %s : List String := %s\n\n", doc, name, leanStrList(xs))
	}

	// ---------------------------------------------------------------- getRand
	gr := h.fn("DrandHandler", "getRand")
	body := gr.Body.List
	names := map[string]string{"bh.latestRound": "latestRound", "round": "round"}
	// first evaluation: RLock; block = …; RUnlock — consecutive top-level statements
	i1 := -1
	for i, s := range body {
		if blockAssign(s) != nil {
			if i1 >= 0 {
				die("httpw: getRand: more than one top-level `block =`")
			}
			i1 = i
		}
	}
	if i1 < 1 || i1+2 >= len(body) || !isCallText(body[i1-1], "bh.pendingLk.RLock()") || !isCallText(body[i1+1], "bh.pendingLk.RUnlock()") {
		die("httpw: getRand: the first `block = …` is not enclosed by bh.pendingLk.RLock() / RUnlock()")
	}
	g1, b1 := hwExpr(blockAssign(body[i1]), names, "getRand block (1)")
	if !b1 {
		die("httpw: getRand: block (1) is not boolean")
	}
	l.pf("/-- getRand, under RLock: `%s` -/\ndef blockGuard1 (latestRound round : Nat) : Bool := %s\n\n", h.text(body[i1]), g1)
	list("eval1Region", "getRand: the read-locked region of the first evaluation", h.texts(body[i1-1:i1+2]))
	// `if block { ch := make(chan []byte, 1); defer close(ch); Lock; block = …; if block {append}; Unlock; if block {select…} }`
	ifb, ok := body[i1+2].(*ast.IfStmt)
	if !ok || exprString(ifb.Cond) != "block" || ifb.Init != nil || ifb.Else != nil {
		die("httpw: getRand: `if block {` does not follow the first evaluation")
	}
	in := ifb.Body.List
	if len(in) != 7 {
		die("httpw: getRand: the `if block` body has %d statements, expected 7 (make, defer close, Lock, block=, if-append, Unlock, if-select)", len(in))
	}
	mk, ok := in[0].(*ast.AssignStmt)
	if !ok || mk.Tok != token.DEFINE || exprString(mk.Lhs[0]) != "ch" {
		die("httpw: getRand: `ch := make(…)` expected, found %s", h.text(in[0]))
	}
	mc, ok := mk.Rhs[0].(*ast.CallExpr)
	if !ok || exprString(mc.Fun) != "make" || len(mc.Args) != 2 || exprString(mc.Args[0]) != "chan []byte" {
		die("httpw: getRand: waiter channel is not `make(chan []byte, <cap>)`: %s", h.text(in[0]))
	}
	l.pf("/-- getRand: `%s` -/\ndef waiterChanCap : Nat := %s\n\n", h.text(in[0]), evalInt(httpDir, mc.Args[1], "getRand waiter cap").ExactString())
	df, ok := in[1].(*ast.DeferStmt)
	l.pf("/-- getRand: `defer close(ch)` directly follows the make -/\ndef waiterCloseDeferred : Bool := %v\n\n", ok && exprString(df.Call) == "close(ch)")
	if !isCallText(in[2], "bh.pendingLk.Lock()") || blockAssign(in[3]) == nil || !isCallText(in[5], "bh.pendingLk.Unlock()") {
		die("httpw: getRand: the second `block = …` is not enclosed by bh.pendingLk.Lock() / Unlock()")
	}
	g2, b2 := hwExpr(blockAssign(in[3]), names, "getRand block (2)")
	if !b2 {
		die("httpw: getRand: block (2) is not boolean")
	}
	l.pf("/-- getRand, under Lock: `%s` -/\ndef blockGuard2 (latestRound round : Nat) : Bool := %s\n\n", h.text(in[3]), g2)
	list("eval2Region", "getRand: the write-locked region of the second evaluation and the registration", h.texts(in[2:6]))
	ifs, ok := in[6].(*ast.IfStmt)
	if !ok || exprString(ifs.Cond) != "block" || len(ifs.Body.List) != 1 {
		die("httpw: getRand: `if block { select {…} }` expected after the registration")
	}
	sel, ok := ifs.Body.List[0].(*ast.SelectStmt)
	if !ok || len(sel.Body.List) != 2 {
		die("httpw: getRand: the parked waiter's select does not have exactly two cases")
	}
	var recvB, cancB []string
	for _, c := range sel.Body.List {
		cc := c.(*ast.CommClause)
		switch h.text(cc.Comm) {
		case "r := <-ch":
			recvB = h.texts(cc.Body)
		case "<-ctx.Done()":
			cancB = h.texts(cc.Body)
		default:
			die("httpw: getRand: unexpected select case %s", h.text(cc.Comm))
		}
	}
	if recvB == nil || cancB == nil {
		die("httpw: getRand: select cases `r := <-ch` and `<-ctx.Done()` expected")
	}
	list("recvBranch", "getRand: body of `case r := <-ch:`", recvB)
	list("cancelBranch", "getRand: body of `case <-ctx.Done():`", cancB)
	list("afterWaiting", "getRand: the statements after the `if block` (future test, direct Get)", h.texts(body[i1+3:]))

	// ---------------------------------------------------------------- watchWithTimeout
	ww := h.fn("DrandHandler", "watchWithTimeout")
	var loop *ast.ForStmt
	for _, s := range ww.Body.List {
		if f, ok := s.(*ast.ForStmt); ok && f.Cond == nil && f.Init == nil && f.Post == nil {
			if loop != nil {
				die("httpw: watchWithTimeout: more than one `for {`")
			}
			loop = f
		}
	}
	if loop == nil {
		die("httpw: watchWithTimeout: `for {` not found")
	}
	lb := loop.Body.List
	// `if !ok { … }`
	var fail *ast.IfStmt
	lockAt := -1
	for i, s := range lb {
		if f, ok := s.(*ast.IfStmt); ok && exprString(f.Cond) == "!ok" {
			fail = f
		}
		if isCallText(s, "bh.pendingLk.Lock()") {
			if lockAt >= 0 {
				die("httpw: watchWithTimeout: two top-level Lock() in the loop")
			}
			lockAt = i
		}
	}
	if fail == nil || lockAt < 0 {
		die("httpw: watchWithTimeout: `if !ok` / `bh.pendingLk.Lock()` not found in the loop")
	}
	region := func(l []ast.Stmt, from int, who string) []ast.Stmt {
		for j := from + 1; j < len(l); j++ {
			if isCallText(l[j], "bh.pendingLk.Unlock()") {
				return l[from : j+1]
			}
		}
		die("httpw: watchWithTimeout: no Unlock() after the Lock() of %s", who)
		return nil
	}
	fl := -1
	for i, s := range fail.Body.List {
		if isCallText(s, "bh.pendingLk.Lock()") {
			fl = i
		}
	}
	if fl < 0 {
		die("httpw: watchWithTimeout: the `!ok` branch does not take the lock")
	}
	list("failRegion", "watchWithTimeout, `!ok` branch: Lock … Unlock", h.texts(region(fail.Body.List, fl, "the !ok branch")))
	nr := region(lb, lockAt, "the notification")
	list("notifyRegion", "watchWithTimeout: from the Lock after json.Marshal(next) to its Unlock", h.texts(nr))
	list("afterNotify", "watchWithTimeout: the statements of the loop after that Unlock (none: the loop starts over)", h.texts(lb[lockAt+len(nr):]))
	ur, ok := nr[1].(*ast.IfStmt)
	if !ok || ur.Else != nil || ur.Init != nil || len(ur.Body.List) != 1 {
		die("httpw: watchWithTimeout: the unexpected-round test `if … { b = … }` does not directly follow the Lock")
	}
	uc, ub := hwExpr(ur.Cond, map[string]string{"bh.latestRound": "latestRound", "next.GetRound()": "nextRound"}, "watchWithTimeout unexpected round")
	if !ub {
		die("httpw: watchWithTimeout: the unexpected-round condition is not boolean")
	}
	l.pf("/-- watchWithTimeout, under Lock: `if %s` -/\ndef unexpectedRound (latestRound nextRound : Nat) : Bool := %s\n\n", exprString(ur.Cond), uc)
	ua, ok := ur.Body.List[0].(*ast.AssignStmt)
	if !ok || ua.Tok != token.ASSIGN || exprString(ua.Lhs[0]) != "b" {
		die("httpw: watchWithTimeout: the unexpected-round branch is not `b = …`")
	}
	l.pf("/-- what the watcher sends instead of the beacon in that case -/\ndef unexpectedAssign : String := %s\n\n", leanStr(exprString(ua.Rhs[0])))

	// ---------------------------------------------------------------- PublicRand's decision on getRand's result
	pr := h.fn("DrandHandler", "PublicRand")
	var dec []string
	for i, s := range pr.Body.List {
		as, ok := s.(*ast.AssignStmt)
		if !ok || len(as.Rhs) != 1 || !strings.HasPrefix(exprString(as.Rhs[0]), "h.getRand(") {
			continue
		}
		if exprString(as.Lhs[0]) != "data" || exprString(as.Lhs[1]) != "err" {
			die("httpw: PublicRand: `data, err := h.getRand(…)` expected")
		}
		for _, t := range pr.Body.List[i+1:] {
			switch u := t.(type) {
			case *ast.IfStmt:
				st := ""
				ast.Inspect(u.Body, func(n ast.Node) bool {
					if c, ok := n.(*ast.CallExpr); ok && exprString(c.Fun) == "w.WriteHeader" && len(c.Args) == 1 {
						st = exprString(c.Args[0])
					}
					return true
				})
				last := u.Body.List[len(u.Body.List)-1]
				if _, isRet := last.(*ast.ReturnStmt); !isRet || st == "" {
					die("httpw: PublicRand: decision branch `if %s` does not WriteHeader and return", exprString(u.Cond))
				}
				dec = append(dec, exprString(u.Cond)+" => "+st)
			case *ast.ExprStmt:
				if c, ok := u.X.(*ast.CallExpr); ok && exprString(c.Fun) == "http.ServeContent" {
					dec = append(dec, "=> http.ServeContent "+exprString(c.Args[len(c.Args)-1]))
				}
			}
		}
	}
	if len(dec) == 0 {
		die("httpw: PublicRand: the call of getRand was not found")
	}
	list("publicRandDecision", "PublicRand after `data, err := h.getRand(…)`: condition => status, in source order", dec)

	// ---------------------------------------------------------------- who touches DrandHandler.beacons under which lock
	l.pf("/-- every access to DrandHandler.beacons: (method, kind, lock of h.state held at that statement) -/\ndef beaconsAccess : List (String × String × String) := [\n")
	first := true
	seenAcc := map[string]bool{}
	for _, d := range h.file.Decls {
		fd, ok := d.(*ast.FuncDecl)
		if !ok || fd.Body == nil || fd.Recv == nil || len(fd.Recv.List) != 1 || baseTypeName(fd.Recv.List[0].Type) != "DrandHandler" {
			continue
		}
		if len(fd.Recv.List[0].Names) != 1 {
			continue
		}
		rn := fd.Recv.List[0].Names[0].Name
		sel := rn + ".beacons"
		held := "none"
		for _, s := range fd.Body.List {
			switch {
			case isCallText(s, rn+".state.Lock()"):
				held = "Lock"
				continue
			case isCallText(s, rn+".state.RLock()"):
				held = "RLock"
				continue
			case isCallText(s, rn+".state.Unlock()"), isCallText(s, rn+".state.RUnlock()"):
				held = "none"
				continue
			}
			if ds, ok := s.(*ast.DeferStmt); ok && (exprString(ds.Call) == rn+".state.Unlock()" || exprString(ds.Call) == rn+".state.RUnlock()") {
				continue // released at return: stays held for the rest of the body
			}
			// a lock operation of h.state anywhere below the top level is a shape this walker does not follow
			ast.Inspect(s, func(n ast.Node) bool {
				if c, ok := n.(*ast.CallExpr); ok && strings.HasPrefix(exprString(c.Fun), rn+".state.") {
					die("httpw: %s: %s below the top level of the body", fd.Name.Name, exprString(c))
				}
				return true
			})
			kinds := map[string]bool{}
			var visit func(n ast.Node, kind string)
			visit = func(n ast.Node, kind string) {
				ast.Inspect(n, func(x ast.Node) bool {
					switch t := x.(type) {
					case *ast.RangeStmt:
						if exprString(t.X) == sel {
							kinds["iterate"] = true
						} else {
							visit(t.X, kind)
						}
						visit(t.Body, kind)
						return false
					case *ast.AssignStmt:
						for _, lh := range t.Lhs {
							if ix, ok := lh.(*ast.IndexExpr); ok && exprString(ix.X) == sel {
								kinds["write"] = true
								visit(ix.Index, kind)
							} else {
								visit(lh, kind)
							}
						}
						for _, rh := range t.Rhs {
							visit(rh, kind)
						}
						return false
					case *ast.CallExpr:
						if exprString(t.Fun) == "delete" && len(t.Args) == 2 && exprString(t.Args[0]) == sel {
							kinds["write"] = true
							visit(t.Args[1], kind)
							return false
						}
					case *ast.SelectorExpr:
						if exprString(t) == sel {
							kinds["read"] = true
						}
					}
					return true
				})
			}
			visit(s, "read")
			for _, k := range []string{"iterate", "read", "write"} {
				if kinds[k] && !seenAcc[fd.Name.Name+"|"+k+"|"+held] {
					seenAcc[fd.Name.Name+"|"+k+"|"+held] = true
					if !first {
						l.pf(",\n")
					}
					first = false
					l.pf("  (%s, %s, %s)", leanStr(fd.Name.Name), leanStr(k), leanStr(held))
				}
			}
		}
	}
	l.pf("]\n\nend Gen.HttpW\n")
}
