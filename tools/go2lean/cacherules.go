package main

// genCacheRules (C03, C05, C07, C12): what roundCache.append does with a partial whose signer index is already cached
// for the round. Exactly two shapes are understood — the variant switch `replaceSameIndex` of the cache models
// (Drand/Beacon/Cache.lean, Drand/Net/Reshare.lean):
//
//	first wins  (false)   idx, err := IndexOf(…); if err != nil { return false }; if _, seen := r.sigs[idx]; seen { return false };
//	                      r.sigs[idx] = p.GetPartialSig(); return true
//	newest wins (true)    idx, err := IndexOf(…); if err != nil { return false }; _, seen := r.sigs[idx];
//	                      r.sigs[idx] = p.GetPartialSig(); return !seen          (reports/quiet_fix_2.diff)
//
// and partialCache.Append must use the result only to record the id in the per-signer list (`if round.append(p) { c.rcvd[idx] = append(…) }`).
// Anything else dies.

import (
	"go/ast"
	"strings"
)

func crIfReturnFalse(s ast.Stmt, header string) bool {
	is, ok := s.(*ast.IfStmt)
	return ok && is.Else == nil && rsText(is) == header && len(is.Body.List) == 1 && rsText(is.Body.List[0]) == "return false"
}

func genCacheRules() {
	l := newLean("CacheRules", "Gen.Consts")
	l.pf("namespace Gen\n")
	fd := findFunc("internal/chain/beacon", "roundCache", "append")
	b := fd.Body.List
	var shape []string
	for _, s := range b {
		shape = append(shape, rsText(s))
	}
	if len(b) < 2 || rsText(b[0]) != "idx,err:=r.scheme.ThresholdScheme.IndexOf(p.GetPartialSig())" || !crIfReturnFalse(b[1], "if err!=nil") {
		die("roundCache.append: does not start with `idx, err := …IndexOf(p.GetPartialSig()); if err != nil { return false }`: %s", strings.Join(shape, " | "))
	}
	replace := false
	switch {
	case len(b) == 5 && crIfReturnFalse(b[2], "if _,seen:=r.sigs[idx];seen") && rsText(b[3]) == "r.sigs[idx]=p.GetPartialSig()" && rsText(b[4]) == "return true":
		replace = false
	case len(b) == 5 && rsText(b[2]) == "_,seen:=r.sigs[idx]" && rsText(b[3]) == "r.sigs[idx]=p.GetPartialSig()" && rsText(b[4]) == "return !seen":
		replace = true
	default:
		die("roundCache.append: neither `if seen { return false }; assign; return true` nor `_, seen := …; assign; return !seen`: %s", strings.Join(shape, " | "))
	}
	// the caller: the result only decides whether the id is recorded for the signer
	ap := findFunc("internal/chain/beacon", "partialCache", "Append")
	found := false
	for _, s := range ap.Body.List {
		is, ok := s.(*ast.IfStmt)
		if ok && is.Init == nil && is.Else == nil && exprString(is.Cond) == "round.append(p)" {
			if len(is.Body.List) != 1 || rsText(is.Body.List[0]) != "c.rcvd[idx]=append(c.rcvd[idx],id)" {
				die("partialCache.Append: the body of `if round.append(p)` is not the single statement c.rcvd[idx] = append(c.rcvd[idx], id)")
			}
			found = true
		}
	}
	if !found {
		die("partialCache.Append: `if round.append(p) { … }` not found at the top level")
	}
	l.pf("/-- roundCache.append on a signer index that is already cached for the round: false = the cached partial is kept and the new one dropped (first wins), "+
		"true = the new partial replaces the cached one (newest wins); in both cases the result is `not seen before` and partialCache.Append records the id only then -/\n"+
		"def replaceSameIndex : Bool := %v\n", replace)
	l.pf("def cacheAppendShape : List String := %s\n", leanStrList(shape))
	l.pf("end Gen\n")
}
