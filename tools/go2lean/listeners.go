package main

// C14 listener facts: the interceptor chains and registered services of the peer-facing gRPC listener
// (internal/net/listener.go: NewGRPCListenerForPrivate) and of the control listener
// (internal/net/control.go: NewGRPCListener). The model decides "is a handler panic recovered on this
// listener" from these lists, so removing or reordering the recovery interceptor changes the model.

import (
	"go/ast"
	"strings"
)

func callsIn(fd *ast.FuncDecl) []*ast.CallExpr {
	var out []*ast.CallExpr
	ast.Inspect(fd.Body, func(n ast.Node) bool {
		if c, ok := n.(*ast.CallExpr); ok {
			out = append(out, c)
		}
		return true
	})
	return out
}

func genListeners() {
	l := newLean("Listeners")
	l.pf("namespace Gen.Listeners\n")
	peer := findFunc("internal/net", "", "NewGRPCListenerForPrivate")
	var unary, stream, peerSvc, peerOpts []string
	nNew := 0
	for _, c := range callsIn(peer) {
		fn := exprString(c.Fun)
		switch {
		case fn == "grpcmiddleware.ChainUnaryServer":
			if unary != nil {
				die("listener facts: two unary chains in NewGRPCListenerForPrivate")
			}
			for _, a := range c.Args {
				unary = append(unary, exprString(a))
			}
		case fn == "grpcmiddleware.ChainStreamServer":
			if stream != nil {
				die("listener facts: two stream chains in NewGRPCListenerForPrivate")
			}
			for _, a := range c.Args {
				stream = append(stream, exprString(a))
			}
		case strings.HasPrefix(fn, "grpc.") && fn != "grpc.NewServer" && fn != "grpc.UnaryInterceptor" && fn != "grpc.StreamInterceptor":
			peerOpts = append(peerOpts, fn)
		case fn == "grpc.NewServer":
			nNew++
			if len(c.Args) != 1 || !c.Ellipsis.IsValid() || exprString(c.Args[0]) != "opts" {
				die("listener facts: NewGRPCListenerForPrivate: grpc.NewServer is not called with opts...")
			}
		case strings.Contains(fn, ".Register") && strings.HasSuffix(fn, "Server") && len(c.Args) == 2:
			peerSvc = append(peerSvc, fn)
		}
	}
	if unary == nil || stream == nil || nNew != 1 {
		die("listener facts: NewGRPCListenerForPrivate: interceptor chains / grpc.NewServer not found")
	}
	// the chains must be installed through grpc.UnaryInterceptor / grpc.StreamInterceptor appended to opts
	txt := ""
	for _, s := range peer.Body.List {
		txt += stmtString(s) + "\n"
	}
	if !strings.Contains(txt, "opts=append(opts,grpc.StreamInterceptor(grpcmiddleware.ChainStreamServer(") ||
		!strings.Contains(txt, "grpc.UnaryInterceptor(grpcmiddleware.ChainUnaryServer(") {
		die("listener facts: NewGRPCListenerForPrivate: chains are not installed via opts = append(opts, grpc.StreamInterceptor(…), grpc.UnaryInterceptor(…), …)")
	}
	ctl := findFunc("internal/net", "", "NewGRPCListener")
	var ctlSvc, ctlArgs []string
	nNew = 0
	for _, c := range callsIn(ctl) {
		fn := exprString(c.Fun)
		switch {
		case fn == "grpc.NewServer":
			nNew++
			for _, a := range c.Args {
				ctlArgs = append(ctlArgs, exprString(a))
			}
		case strings.Contains(fn, ".Register") && strings.HasSuffix(fn, "Server") && len(c.Args) == 2:
			ctlSvc = append(ctlSvc, fn)
		}
	}
	if nNew != 1 {
		die("listener facts: NewGRPCListener: expected exactly one grpc.NewServer call")
	}
	gw := findFunc("internal/net", "", "NewGRPCPrivateGateway")
	var gwOpts []string
	found := false
	for _, c := range callsIn(gw) {
		if exprString(c.Fun) == "NewGRPCListenerForPrivate" {
			found = true
			for _, a := range c.Args[3:] {
				gwOpts = append(gwOpts, exprString(a))
			}
		}
	}
	if !found {
		die("listener facts: NewGRPCPrivateGateway does not call NewGRPCListenerForPrivate")
	}
	rest := findFunc("internal/net", "", "NewRESTListenerForPublic")
	restHandler := ""
	ast.Inspect(rest.Body, func(n ast.Node) bool {
		if kv, ok := n.(*ast.KeyValueExpr); ok && exprString(kv.Key) == "Handler" {
			restHandler = exprString(kv.Value)
		}
		return true
	})
	if restHandler == "" {
		die("listener facts: NewRESTListenerForPublic: http.Server{Handler: …} not found")
	}
	l.pf("/-- internal/net/listener.go NewGRPCListenerForPrivate: unary interceptor chain, outermost first -/\ndef peerUnaryChain : List String := %s\n", leanStrList(unary))
	l.pf("/-- idem, stream interceptor chain -/\ndef peerStreamChain : List String := %s\n", leanStrList(stream))
	l.pf("/-- other grpc.* server options built inside NewGRPCListenerForPrivate -/\ndef peerServerOptions : List String := %s\n", leanStrList(peerOpts))
	l.pf("/-- services registered on the peer-facing server -/\ndef peerServices : List String := %s\n", leanStrList(peerSvc))
	l.pf("/-- extra options NewGRPCPrivateGateway passes to NewGRPCListenerForPrivate -/\ndef gatewayListenerOptions : List String := %s\n", leanStrList(gwOpts))
	l.pf("/-- internal/net/control.go NewGRPCListener: arguments of grpc.NewServer (interceptors would appear here) -/\ndef controlServerArgs : List String := %s\n", leanStrList(ctlArgs))
	l.pf("/-- services registered on the control server -/\ndef controlServices : List String := %s\n", leanStrList(ctlSvc))
	l.pf("/-- NewRESTListenerForPublic: the http.Server handler expression (net/http recovers handler panics per connection) -/\ndef restHandler : String := %s\n", leanStr(restHandler))
	l.pf("end Gen.Listeners\n")
}
