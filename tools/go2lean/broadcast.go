package main

import (
	"go/ast"
	"go/token"
	"strings"
)

// genBroadcast: the facts of internal/dkg/broadcast.go that the model Drand/DKG/Broadcast.lean takes as switches (C06):
//   - the order of the steps of echoBroadcast.BroadcastDKG (decode, seen-check, signature check, sendout, pass to the
//     application) and whether the seen-set is written before the signature was verified;
//   - the order of the steps of sendout (stopped check, conversion, record, dispatch) and of the three Push* methods;
//   - the shape of the relay worker `sender.run` (ranges over its queue until the queue is closed / leaves when its
//     context is done) and where newDispatcher's goroutines get that context from;
//   - sendPacket is a non-blocking send (a full queue drops the packet);
//   - senderQueueSize and the capacities of the application channels and of the queues.
// Unknown shapes are fatal.
func genBroadcast() {
	const dir = "internal/dkg"
	l := newLean("Broadcast")
	l.pf("namespace Gen.Bcast\n")

	// ---- BroadcastDKG
	fd := findFunc(dir, "echoBroadcast", "BroadcastDKG")
	steps := bcastSteps(fd, "b")
	l.pf("/-- %s: echoBroadcast.BroadcastDKG — the calls that decide what happens to an incoming bundle, in source order\n(`!` = the error / true branch returns) -/\ndef recvSteps : List String := %s\n", dir, leanStrList(steps))
	putBefore, verifyAt := false, -1
	for i, s := range steps {
		if strings.HasPrefix(s, "VerifyPacketSignature") {
			verifyAt = i
		}
	}
	if verifyAt < 0 {
		die("BroadcastDKG: no call of dkg.VerifyPacketSignature")
	}
	for i, s := range steps {
		if strings.HasPrefix(s, "hashes.put") && i < verifyAt {
			putBefore = true
		}
	}
	l.pf("/-- the seen-set is written (hashes.put) before the signature of the bundle was verified -/\ndef seenPutBeforeVerify : Bool := %v\n", putBefore)

	// ---- sendout
	l.pf("/-- %s: echoBroadcast.sendout -/\ndef sendoutSteps : List String := %s\n", dir, leanStrList(bcastSteps(findFunc(dir, "echoBroadcast", "sendout"), "b")))
	for _, m := range []string{"PushDeals", "PushResponses", "PushJustifications"} {
		l.pf("/-- %s: echoBroadcast.%s -/\ndef steps%s : List String := %s\n", dir, m, m, leanStrList(bcastSteps(findFunc(dir, "echoBroadcast", m), "b")))
	}
	l.pf("/-- %s: echoBroadcast.Stop -/\ndef stopSteps : List String := %s\n", dir, leanStrList(bcastSteps(findFunc(dir, "echoBroadcast", "Stop"), "b")))

	// ---- sender.run
	run := findFunc(dir, "sender", "run")
	loop, onCtx := senderRunShape(run)
	l.pf("/-- %s: the loop of the relay worker sender.run -/\ndef senderRunLoop : String := %s\n", dir, leanStr(loop))
	l.pf("/-- sender.run leaves its loop when its context is done (it mentions ctx.Done / ctx.Err) -/\ndef senderRunStopsOnCtxDone : Bool := %v\n", onCtx)

	// ---- where the workers' context comes from: setupDKG(ctx) → newEchoBroadcast(ctx, …) → newDispatcher(ctx, …) → go sender.run(ctx)
	chain := []string{}
	chain = append(chain, ctxPassed(findFunc(dir, "", "newDispatcher"), "run", true))
	chain = append(chain, ctxPassed(findFunc(dir, "", "newEchoBroadcast"), "newDispatcher", false))
	chain = append(chain, ctxPassed(findFunc(dir, "Process", "setupDKG"), "newEchoBroadcast", false))
	chain = append(chain, ctxPassed(findFunc(dir, "Process", "executeDKG"), "setupDKG", false))
	l.pf("/-- the context argument handed down to the relay workers, caller by caller (`param` = the caller's own ctx parameter,\npossibly re-bound by a tracing span; executeDKG's is the context of the request that started the execution) -/\ndef workerCtxChain : List String := %s\n", leanStrList(chain))
	isReq := true
	for _, c := range chain {
		if !strings.HasSuffix(c, ":param") {
			isReq = false
		}
	}
	l.pf("def workerCtxIsRequest : Bool := %v\n", isReq)

	// ---- sendPacket
	sp := findFunc(dir, "sender", "sendPacket")
	nb := -1
	ast.Inspect(sp.Body, func(n ast.Node) bool {
		switch t := n.(type) {
		case *ast.SelectStmt:
			hasDef, hasSend := false, false
			for _, c := range t.Body.List {
				cc := c.(*ast.CommClause)
				if cc.Comm == nil {
					hasDef = true
				} else if s, ok := cc.Comm.(*ast.SendStmt); ok && exprString(s.Chan) == "s.newCh" {
					hasSend = true
				}
			}
			if hasSend && hasDef {
				nb = 1
			} else if hasSend {
				nb = 0
			}
			return false
		case *ast.SendStmt:
			if exprString(t.Chan) == "s.newCh" && nb < 0 {
				nb = 0
			}
		}
		return true
	})
	if nb < 0 {
		die("sender.sendPacket: no send on s.newCh")
	}
	l.pf("/-- %s: sender.sendPacket sends inside `select … default` (a full queue drops the packet) -/\ndef sendPacketNonBlocking : Bool := %v\n", dir, nb == 1)

	// ---- senderQueueSize: if nodes > C { return C }; return nodes * K
	qs := findFunc(dir, "", "senderQueueSize")
	if len(qs.Type.Params.List) != 1 || len(qs.Type.Params.List[0].Names) != 1 || len(qs.Body.List) != 2 {
		die("senderQueueSize: unknown shape")
	}
	arg := qs.Type.Params.List[0].Names[0].Name
	ifs, ok1 := qs.Body.List[0].(*ast.IfStmt)
	ret, ok2 := qs.Body.List[1].(*ast.ReturnStmt)
	if !ok1 || !ok2 || ifs.Else != nil || ifs.Init != nil || len(ifs.Body.List) != 1 || len(ret.Results) != 1 {
		die("senderQueueSize: unknown shape")
	}
	cond, okc := ifs.Cond.(*ast.BinaryExpr)
	iret, okr := ifs.Body.List[0].(*ast.ReturnStmt)
	mul, okm := ret.Results[0].(*ast.BinaryExpr)
	if !okc || !okr || !okm || cond.Op != token.GTR || exprString(cond.X) != arg || len(iret.Results) != 1 || mul.Op != token.MUL || exprString(mul.X) != arg {
		die("senderQueueSize: unknown shape")
	}
	limit := evalInt(dir, cond.Y, "senderQueueSize")
	capv := evalInt(dir, iret.Results[0], "senderQueueSize")
	fac := evalInt(dir, mul.Y, "senderQueueSize")
	l.pf("/-- %s: senderQueueSize -/\ndef senderQueueSize (nodes : Nat) : Nat := if nodes > %s then %s else nodes * %s\n", dir, limit.ExactString(), capv.ExactString(), fac.ExactString())

	// ---- capacities
	caps := []string{}
	neb := findFunc(dir, "", "newEchoBroadcast")
	ast.Inspect(neb.Body, func(n ast.Node) bool {
		kv, ok := n.(*ast.KeyValueExpr)
		if !ok {
			return true
		}
		if c, ok := kv.Value.(*ast.CallExpr); ok && exprString(c.Fun) == "make" && len(c.Args) == 2 {
			if _, isChan := c.Args[0].(*ast.ChanType); isChan {
				caps = append(caps, exprString(kv.Key)+":"+exprString(c.Args[1]))
			}
		}
		return true
	})
	l.pf("/-- %s: newEchoBroadcast — capacity of each application channel -/\ndef appChanCaps : List String := %s\n", dir, leanStrList(caps))
	nd := findFunc(dir, "", "newDispatcher")
	facts := []string{}
	ast.Inspect(nd.Body, func(n ast.Node) bool {
		switch t := n.(type) {
		case *ast.AssignStmt:
			if len(t.Rhs) == 1 {
				if c, ok := t.Rhs[0].(*ast.CallExpr); ok {
					switch exprString(c.Fun) {
					case "senderQueueSize", "newSender":
						facts = append(facts, exprString(t.Lhs[0])+":="+exprString(c))
					}
				}
			}
		case *ast.IfStmt:
			if len(t.Body.List) == 1 {
				if _, ok := t.Body.List[0].(*ast.BranchStmt); ok {
					facts = append(facts, "skip-if:"+exprString(t.Cond))
				}
			}
		}
		return true
	})
	ns := findFunc(dir, "", "newSender")
	ast.Inspect(ns.Body, func(n ast.Node) bool {
		if kv, ok := n.(*ast.KeyValueExpr); ok {
			if c, ok := kv.Value.(*ast.CallExpr); ok && exprString(c.Fun) == "make" && len(c.Args) == 2 {
				facts = append(facts, "newSender."+exprString(kv.Key)+":"+exprString(c.Args[1]))
			}
		}
		return true
	})
	l.pf("/-- %s: newDispatcher / newSender — one worker per participant other than the node itself, each with a queue of senderQueueSize(len(to)) -/\ndef dispatcherFacts : List String := %s\n", dir, leanStrList(facts))
	l.pf("end Gen.Bcast\n")
}

// bcastSteps lists, in source order, the statements of a method of echoBroadcast that matter for the fate of a bundle.
func bcastSteps(fd *ast.FuncDecl, recv string) []string {
	var out []string
	interesting := func(c *ast.CallExpr) string {
		f := exprString(c.Fun)
		switch f {
		case "protoToDKGPacket", "dkgPacketToProto":
			return f
		case "dkg.VerifyPacketSignature":
			return "VerifyPacketSignature"
		case recv + ".hashes.exists", recv + ".hashes.put":
			return strings.TrimPrefix(f, recv+".")
		case recv + ".sendout":
			if len(c.Args) >= 4 {
				return "sendout(bypass=" + exprString(c.Args[3]) + ")"
			}
			return "sendout"
		case recv + ".passToApplication":
			return "passToApplication"
		case recv + ".dispatcher.broadcast", recv + ".dispatcher.broadcastDirect", recv + ".dispatcher.stop":
			return strings.TrimPrefix(f, recv+".")
		case recv + ".Lock", recv + ".Unlock":
			return strings.TrimPrefix(f, recv+".")
		}
		return ""
	}
	firstCall := func(n ast.Node) string {
		r := ""
		ast.Inspect(n, func(m ast.Node) bool {
			if r != "" {
				return false
			}
			if c, ok := m.(*ast.CallExpr); ok {
				if s := interesting(c); s != "" {
					r = s
					return false
				}
			}
			return true
		})
		return r
	}
	returns := func(b *ast.BlockStmt) string {
		if len(b.List) == 0 {
			return ""
		}
		if r, ok := b.List[len(b.List)-1].(*ast.ReturnStmt); ok {
			if len(r.Results) == 0 {
				return "!return"
			}
			if exprString(r.Results[len(r.Results)-1]) == "nil" {
				return "!return-nil"
			}
			return "!return-err"
		}
		return ""
	}
	var walk func(list []ast.Stmt, prefix string)
	walk = func(list []ast.Stmt, prefix string) {
		for _, st := range list {
			switch t := st.(type) {
			case *ast.IfStmt:
				head := ""
				if t.Init != nil {
					head = firstCall(t.Init)
				}
				if head == "" {
					head = firstCall(t.Cond)
				}
				cond := exprString(t.Cond)
				switch {
				case head != "":
					neg := ""
					if u, ok := t.Cond.(*ast.UnaryExpr); ok && u.Op == token.NOT {
						neg = "not:"
					}
					out = append(out, prefix+head+":if:"+neg+returns(t.Body))
				case cond == "err != nil" && returns(t.Body) != "":
					out = append(out, prefix+"err"+returns(t.Body))
				case cond == recv+".isStopped":
					out = append(out, prefix+"isStopped"+returns(t.Body))
				case cond == "bypass":
					out = append(out, prefix+"if-bypass")
					walk(t.Body.List, prefix+"  then:")
					if eb, ok := t.Else.(*ast.BlockStmt); ok {
						walk(eb.List, prefix+"  else:")
					}
				}
			case *ast.SendStmt:
				out = append(out, prefix+"chan-send:"+exprString(t.Chan))
			case *ast.GoStmt:
				if s := interesting(t.Call); s != "" {
					out = append(out, prefix+"go:"+s)
				}
			case *ast.DeferStmt:
				if s := interesting(t.Call); s != "" {
					out = append(out, prefix+"defer:"+s)
				}
			case *ast.AssignStmt:
				if len(t.Lhs) == 1 && exprString(t.Lhs[0]) == recv+".isStopped" {
					out = append(out, prefix+"isStopped="+exprString(t.Rhs[0]))
				} else if s := firstCall(t); s != "" {
					out = append(out, prefix+s)
				}
			case *ast.ExprStmt:
				if s := firstCall(t); s != "" {
					out = append(out, prefix+s)
				}
			case *ast.ReturnStmt:
			}
		}
	}
	walk(fd.Body.List, "")
	return out
}

// senderRunShape recognises `for x := range s.newCh { … }` and `for { select { case <-ctx.Done(): return; case x, ok := <-s.newCh: … } }`.
func senderRunShape(fd *ast.FuncDecl) (string, bool) {
	loop := ""
	onCtx := false
	ast.Inspect(fd.Body, func(n ast.Node) bool {
		switch t := n.(type) {
		case *ast.RangeStmt:
			if exprString(t.X) == "s.newCh" {
				loop = "range s.newCh"
			}
		case *ast.ForStmt:
			if t.Cond == nil && t.Init == nil && t.Post == nil && loop == "" {
				loop = "for-ever"
				ast.Inspect(t.Body, func(m ast.Node) bool {
					if s, ok := m.(*ast.SelectStmt); ok {
						var cases []string
						for _, c := range s.Body.List {
							cc := c.(*ast.CommClause)
							if cc.Comm == nil {
								cases = append(cases, "default")
								continue
							}
							var rx ast.Expr
							switch cs := cc.Comm.(type) {
							case *ast.ExprStmt:
								rx = cs.X
							case *ast.AssignStmt:
								rx = cs.Rhs[0]
							}
							if u, ok := rx.(*ast.UnaryExpr); ok && u.Op == token.ARROW {
								cases = append(cases, "<-"+exprString(u.X))
							} else {
								cases = append(cases, "?")
							}
						}
						loop = "for-select[" + strings.Join(cases, ",") + "]"
						return false
					}
					return true
				})
			}
		case *ast.SelectorExpr:
			if id, ok := t.X.(*ast.Ident); ok && id.Name == "ctx" && (t.Sel.Name == "Done" || t.Sel.Name == "Err") {
				onCtx = true
			}
		}
		return true
	})
	if loop == "" {
		die("sender.run: no loop over s.newCh recognised")
	}
	return loop, onCtx
}

// ctxPassed: in fd, the first argument of the call of callee (`go x.callee(ctx)` when viaGo) — "callee:param" when it is
// fd's own context parameter (possibly re-bound by `ctx, span := tracer.NewSpan(ctx, …)`), "callee:<expr>" otherwise.
func ctxPassed(fd *ast.FuncDecl, callee string, viaGo bool) string {
	param := ""
	for _, p := range fd.Type.Params.List {
		if exprString(p.Type) == "context.Context" && len(p.Names) == 1 {
			param = p.Names[0].Name
		}
	}
	res := ""
	derived := map[string]bool{param: param != ""}
	ast.Inspect(fd.Body, func(n ast.Node) bool {
		switch t := n.(type) {
		case *ast.AssignStmt:
			// ctx, span := tracer.NewSpan(ctx, "…") keeps the cancellation of its first argument; anything else assigned to the name does not
			if len(t.Lhs) >= 1 && len(t.Rhs) == 1 {
				if id, ok := t.Lhs[0].(*ast.Ident); ok {
					if c, ok := t.Rhs[0].(*ast.CallExpr); ok && exprString(c.Fun) == "tracer.NewSpan" && len(c.Args) >= 1 {
						if a, ok := c.Args[0].(*ast.Ident); ok && derived[a.Name] {
							derived[id.Name] = true
							return true
						}
					}
					if derived[id.Name] && id.Name != "_" {
						if _, isCall := t.Rhs[0].(*ast.CallExpr); isCall && len(t.Lhs) == 2 {
							derived[id.Name] = false
						}
					}
				}
			}
		case *ast.CallExpr:
			f := exprString(t.Fun)
			if (f == callee || strings.HasSuffix(f, "."+callee)) && len(t.Args) >= 1 && res == "" {
				if a, ok := t.Args[0].(*ast.Ident); ok && derived[a.Name] {
					res = callee + ":param"
				} else {
					res = callee + ":" + exprString(t.Args[0])
				}
			}
		}
		return true
	})
	_ = viaGo
	if res == "" {
		die("%s: no call of %s found", fd.Name.Name, callee)
	}
	return res
}
