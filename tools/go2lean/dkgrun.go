package main

import (
	"bytes"
	"go/ast"
	"go/printer"
	"go/token"
	"strings"
)

// src renders a node as gofmt text on one line.
func src(n ast.Node) string {
	var b bytes.Buffer
	if err := printer.Fprint(&b, fset, n); err != nil {
		die("print: %v", err)
	}
	return strings.Join(strings.Fields(b.String()), " ")
}

// compositeFields finds the first composite literal of type `typ` in fd and returns its key/value pairs in order.
func compositeFields(fd *ast.FuncDecl, typ string) [][2]string {
	var out [][2]string
	found := false
	ast.Inspect(fd.Body, func(n ast.Node) bool {
		cl, ok := n.(*ast.CompositeLit)
		if !ok || found || cl.Type == nil || src(cl.Type) != typ || len(cl.Elts) == 0 {
			return true
		}
		found = true
		for _, e := range cl.Elts {
			kv, ok := e.(*ast.KeyValueExpr)
			if !ok {
				die("%s: composite literal %s has a positional element", fd.Name.Name, typ)
			}
			out = append(out, [2]string{src(kv.Key), src(kv.Value)})
		}
		return false
	})
	if !found {
		die("%s: no non-empty composite literal of type %s", fd.Name.Name, typ)
	}
	return out
}

func leanPairs(ps [][2]string) string {
	q := make([]string, len(ps))
	for i, p := range ps {
		q[i] = "(" + leanStr(p[0]) + ", " + leanStr(p[1]) + ")"
	}
	return "[" + strings.Join(q, ", ") + "]"
}

// assignTo returns the right-hand sides assigned (= or :=) to the identifier/selector `lhs` anywhere in the body, in source order.
func assignsTo(body ast.Node, lhs string) []string {
	var out []string
	ast.Inspect(body, func(n ast.Node) bool {
		as, ok := n.(*ast.AssignStmt)
		if !ok {
			return true
		}
		for i, l := range as.Lhs {
			if src(l) == lhs && i < len(as.Rhs) {
				out = append(out, src(as.Rhs[i]))
			}
		}
		return true
	})
	return out
}

// ifChain returns, for a function body that is a sequence of `if cond { …; return … }` statements, the conditions in order.
// Nested ifs are reported as "outer && inner". Statements other than if / assignments / a final return are fatal.
func ifChain(fd *ast.FuncDecl) []string {
	var out []string
	var walk func(stmts []ast.Stmt, prefix string, top bool)
	walk = func(stmts []ast.Stmt, prefix string, top bool) {
		for _, s := range stmts {
			switch t := s.(type) {
			case *ast.IfStmt:
				if t.Init != nil || t.Else != nil {
					die("%s: if with init/else is not an if-chain", fd.Name.Name)
				}
				c := src(t.Cond)
				if prefix != "" {
					c = prefix + " && " + c
				}
				nested := false
				for _, b := range t.Body.List {
					if _, ok := b.(*ast.IfStmt); ok {
						nested = true
					}
				}
				if nested {
					walk(t.Body.List, c, false)
				} else {
					ret := "no-return"
					for _, b := range t.Body.List {
						if r, ok := b.(*ast.ReturnStmt); ok {
							if len(r.Results) == 1 && src(r.Results[0]) == "nil" {
								ret = "return nil"
							} else {
								ret = "return error"
							}
						}
					}
					out = append(out, c+" => "+ret)
				}
			case *ast.AssignStmt, *ast.ExprStmt:
			case *ast.ReturnStmt:
				r := "return error"
				if len(t.Results) == 1 && src(t.Results[0]) == "nil" {
					r = "return nil"
				}
				if top {
					out = append(out, "=> "+r)
				} else {
					out = append(out, prefix+" => "+r)
				}
			default:
				die("%s: unsupported statement %T in if-chain", fd.Name.Name, s)
			}
		}
	}
	walk(fd.Body.List, "", true)
	return out
}

func genDKGRun() {
	l := newLean("DKGRun")
	l.pf("namespace Gen\n")
	// ---- util.SortedByPublicKey: sort.Slice(out, func(i, j int) bool { return <cmp> })
	{
		fd := findFunc("internal/util", "", "SortedByPublicKey")
		cmp := ""
		ast.Inspect(fd.Body, func(n ast.Node) bool {
			c, ok := n.(*ast.CallExpr)
			if !ok || src(c.Fun) != "sort.Slice" || len(c.Args) != 2 {
				return true
			}
			fl, ok := c.Args[1].(*ast.FuncLit)
			if !ok || len(fl.Body.List) != 1 {
				die("SortedByPublicKey: comparator is not a one-statement func literal")
			}
			r, ok := fl.Body.List[0].(*ast.ReturnStmt)
			if !ok || len(r.Results) != 1 {
				die("SortedByPublicKey: comparator does not return one expression")
			}
			cmp = src(r.Results[0])
			return false
		})
		if cmp == "" {
			die("SortedByPublicKey: sort.Slice call not found")
		}
		l.pf("/-- internal/util: the `less` of `SortedByPublicKey` -/\ndef sortComparator : String := %s\n", leanStr(cmp))
	}
	dir := "internal/dkg"
	// ---- setupDKG: the participants that get indices
	{
		fd := findFunc(dir, "Process", "setupDKG")
		rhs := assignsTo(fd.Body, "sortedParticipants")
		if len(rhs) != 1 {
			die("setupDKG: expected one assignment to sortedParticipants")
		}
		l.pf("/-- internal/dkg setupDKG: the list whose positions are the DKG indices -/\ndef setupSortedParticipants : String := %s\n", leanStr(rhs[0]))
	}
	// ---- initialDKGConfig / reshareDKGConfig: NewNodes from ToNode(index, participant, …)
	for _, fn := range []string{"initialDKGConfig", "reshareDKGConfig"} {
		fd := findFunc(dir, "Process", fn)
		call := ""
		ast.Inspect(fd.Body, func(n ast.Node) bool {
			c, ok := n.(*ast.CallExpr)
			if ok && src(c.Fun) == "util.ToNode" {
				call = src(c)
			}
			return true
		})
		if call == "" {
			die("%s: util.ToNode call not found", fn)
		}
		fields := compositeFields(fd, "dkg.Config")
		var keep [][2]string
		for _, f := range fields {
			switch f[0] {
			case "OldNodes", "NewNodes", "PublicCoeffs", "Share", "Threshold", "OldThreshold":
				keep = append(keep, f)
			}
		}
		l.pf("/-- internal/dkg %s: the index assignment and the dealer/share-holder inputs of the kyber config -/\n", fn)
		l.pf("def %sToNode : String := %s\ndef %sConfig : List (String × String) := %s\n", fn, leanStr(call), fn, leanPairs(keep))
	}
	// ---- startDKGExecution tail
	{
		fd := findFunc(dir, "Process", "startDKGExecution")
		var firstCond string
		var thenAssign, elseAssigns []string
		ast.Inspect(fd.Body, func(n ast.Node) bool {
			is, ok := n.(*ast.IfStmt)
			if !ok || is.Else == nil {
				return true
			}
			a := assignsTo(is.Body, "transitionTime")
			if len(a) != 1 {
				return true
			}
			firstCond = src(is.Cond)
			thenAssign = a
			eb, ok := is.Else.(*ast.BlockStmt)
			if !ok {
				die("startDKGExecution: else of the transition-time if is not a block")
			}
			for _, s := range eb.List {
				as, ok := s.(*ast.AssignStmt)
				if !ok {
					die("startDKGExecution: unexpected statement in the transition-time else branch")
				}
				elseAssigns = append(elseAssigns, src(as))
			}
			return false
		})
		if firstCond == "" {
			die("startDKGExecution: transition-time if/else not found")
		}
		l.pf("/-- internal/dkg startDKGExecution: `if <cond> { transitionTime = <then> } else { <else…> }` -/\n")
		l.pf("def transitionCond : String := %s\ndef transitionThen : String := %s\ndef transitionElse : List String := %s\n",
			leanStr(firstCond), leanStr(thenAssign[0]), leanStrList(elseAssigns))
		fg := assignsTo(fd.Body, "finalGroup")
		if len(fg) != 1 {
			die("startDKGExecution: expected one assignment to finalGroup")
		}
		l.pf("/-- internal/dkg startDKGExecution: how QUAL becomes the final node list -/\ndef finalGroupAppend : String := %s\n", leanStr(fg[0]))
	}
	// ---- executeAndFinishDKG: what is written / sent on which path (C07 failed-keeps-old, C13)
	{
		fd := findFunc(dir, "Process", "executeAndFinishDKG")
		var order []string
		callsIn := func(n ast.Node) []string {
			var cs []string
			ast.Inspect(n, func(x ast.Node) bool {
				if c, ok := x.(*ast.CallExpr); ok {
					f := src(c.Fun)
					switch f {
					case "d.startDKGExecution", "current.Failed", "current.Complete", "d.store.SaveCurrent", "d.store.SaveFinished":
						cs = append(cs, f)
					}
				}
				if sd, ok := x.(*ast.SendStmt); ok {
					cs = append(cs, "send:"+src(sd.Chan))
				}
				return true
			})
			return cs
		}
		for _, st := range fd.Body.List {
			switch t := st.(type) {
			case *ast.IfStmt:
				cs := callsIn(t.Body)
				if len(cs) == 0 {
					continue
				}
				last := t.Body.List[len(t.Body.List)-1]
				if _, ok := last.(*ast.ReturnStmt); !ok {
					die("executeAndFinishDKG: a branch that writes state does not end in return")
				}
				order = append(order, "if "+src(t.Cond)+" { "+strings.Join(cs, "; ")+"; return }")
			default:
				for _, c := range callsIn(st) {
					order = append(order, c)
				}
			}
		}
		l.pf("/-- internal/dkg executeAndFinishDKG: state writes and the completion signal, in source order -/\ndef execFinishOrder : List String := %s\n", leanStrList(order))
	}
	// ---- asGroup
	{
		fd := findFunc(dir, "", "asGroup")
		l.pf("/-- internal/dkg asGroup: the fields of the `key.Group` literal -/\ndef asGroupFields : List (String × String) := %s\n",
			leanPairs(compositeFields(fd, "key.Group")))
		s := assignsTo(fd.Body, "allSortedParticipants")
		if len(s) != 1 {
			die("asGroup: expected one assignment to allSortedParticipants")
		}
		l.pf("def asGroupSorted : String := %s\n", leanStr(s[0]))
		call := ""
		ast.Inspect(fd.Body, func(n ast.Node) bool {
			c, ok := n.(*ast.CallExpr)
			if ok && src(c.Fun) == "util.ToKeyNode" {
				call = src(c)
			}
			return true
		})
		if call == "" {
			die("asGroup: util.ToKeyNode call not found")
		}
		l.pf("def asGroupToKeyNode : String := %s\n", leanStr(call))
		seedCond, seedAssign := "", ""
		ast.Inspect(fd.Body, func(n ast.Node) bool {
			is, ok := n.(*ast.IfStmt)
			if !ok {
				return true
			}
			a := assignsTo(is.Body, "group.GenesisSeed")
			if len(a) == 1 {
				seedCond, seedAssign = src(is.Cond), a[0]
			}
			return true
		})
		if seedCond == "" {
			die("asGroup: genesis-seed rule not found")
		}
		l.pf("/-- internal/dkg asGroup: `if <cond> { group.GenesisSeed = <rhs> }` -/\ndef asGroupSeedCond : String := %s\ndef asGroupSeedRhs : String := %s\n",
			leanStr(seedCond), leanStr(seedAssign))
		sch := assignsTo(fd.Body, "sch")
		if len(sch) != 1 {
			die("asGroup: expected one assignment to sch")
		}
		l.pf("def asGroupScheme : String := %s\n", leanStr(sch[0]))
	}
	// ---- util.ToKeyNode / ToNode field maps
	{
		fd := findFunc("internal/util", "", "ToKeyNode")
		l.pf("/-- internal/util ToKeyNode -/\ndef toKeyNodeIdentity : List (String × String) := %s\ndef toKeyNodeNode : List (String × String) := %s\n",
			leanPairs(compositeFields(fd, "key.Identity")), leanPairs(func() [][2]string {
				var keep [][2]string
				for _, f := range compositeFields(fd, "key.Node") {
					if f[0] == "Index" {
						keep = append(keep, f)
					}
				}
				return keep
			}()))
		fd = findFunc("internal/util", "", "ToNode")
		l.pf("def toNodeFields : List (String × String) := %s\n", leanPairs(compositeFields(fd, "dkg.Node")))
	}
	// ---- core validateGroupTransition (C07)
	{
		fd := findFunc("internal/core", "BeaconProcess", "validateGroupTransition")
		// `now := …` is an assignment; the chain must consist of ifs only
		l.pf("/-- internal/core validateGroupTransition: the guards in order -/\ndef validateGroupTransitionChain : List String := %s\n", leanStrList(ifChain(fd)))
		now := assignsTo(fd.Body, "now")
		if len(now) != 1 {
			die("validateGroupTransition: expected one assignment to now")
		}
		l.pf("def validateGroupTransitionNow : String := %s\n", leanStr(now[0]))
	}
	// ---- vault.SetInfo: which fields of the vault change
	{
		fd := findFunc("crypto/vault", "Vault", "SetInfo")
		recv := fd.Recv.List[0].Names[0].Name
		var fields []string
		for _, s := range fd.Body.List {
			switch t := s.(type) {
			case *ast.AssignStmt:
				if len(t.Lhs) != 1 || t.Tok != token.ASSIGN {
					die("Vault.SetInfo: unsupported assignment")
				}
				lhs := src(t.Lhs[0])
				if !strings.HasPrefix(lhs, recv+".") {
					die("Vault.SetInfo: assignment to %s", lhs)
				}
				fields = append(fields, strings.TrimPrefix(lhs, recv+".")+" = "+src(t.Rhs[0]))
			case *ast.ExprStmt, *ast.DeferStmt:
				txt := src(s)
				if !strings.Contains(txt, ".mu.Lock()") && !strings.Contains(txt, ".mu.Unlock()") {
					die("Vault.SetInfo: unsupported statement %s", txt)
				}
			default:
				die("Vault.SetInfo: unsupported statement %T", s)
			}
		}
		l.pf("/-- crypto/vault SetInfo: every assignment it makes (nothing else is written) -/\ndef vaultSetInfoAssigns : List String := %s\n", leanStrList(fields))
	}
	// ---- chain.NewChainInfo
	{
		fd := findFunc("common/chain", "", "NewChainInfo")
		l.pf("/-- common/chain NewChainInfo: chain info derived from the group -/\ndef newChainInfoFields : List (String × String) := %s\n",
			leanPairs(compositeFields(fd, "Info")))
	}
	// ---- beacon.Handler.TransitionNewGroup
	{
		fd := findFunc("internal/chain/beacon", "Handler", "TransitionNewGroup")
		tr := assignsTo(fd.Body, "targetRound")
		trd := assignsTo(fd.Body, "tRound")
		tt := assignsTo(fd.Body, "targetTime")
		if len(tr) != 1 || len(trd) != 1 || len(tt) != 1 {
			die("TransitionNewGroup: targetTime/tRound/targetRound assignments not found")
		}
		var cbCond string
		var cbCalls []string
		ast.Inspect(fd.Body, func(n ast.Node) bool {
			c, ok := n.(*ast.CallExpr)
			if !ok || src(c.Fun) != "h.chain.AddCallback" || len(c.Args) != 2 {
				return true
			}
			fl, ok := c.Args[1].(*ast.FuncLit)
			if !ok {
				die("TransitionNewGroup: callback is not a func literal")
			}
			for i, s := range fl.Body.List {
				switch t := s.(type) {
				case *ast.IfStmt:
					if i != 0 || len(t.Body.List) != 1 || src(t.Body.List[0]) != "return" || t.Else != nil {
						die("TransitionNewGroup: callback guard has an unexpected shape")
					}
					cbCond = src(t.Cond)
				case *ast.ExprStmt:
					cbCalls = append(cbCalls, src(t.X))
				default:
					die("TransitionNewGroup: unsupported statement in callback")
				}
			}
			return false
		})
		if cbCond == "" {
			die("TransitionNewGroup: callback not found")
		}
		l.pf("/-- internal/chain/beacon TransitionNewGroup -/\ndef tngTargetTime : String := %s\ndef tngTRound : String := %s\ndef tngTargetRound : String := %s\n",
			leanStr(tt[0]), leanStr(trd[0]), leanStr(tr[0]))
		l.pf("def tngCallbackSkipIf : String := %s\ndef tngCallbackThen : List String := %s\n", leanStr(cbCond), leanStrList(cbCalls))
	}
	l.pf("end Gen\n")
}
