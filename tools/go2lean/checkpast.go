package main

import (
	"go/ast"
	"go/token"
	"strings"
)

// genCheckPast: how the loop of SyncManager.CheckPastBeacons treats what `s.store.Get(ctx, i)` returns (C10).
//
//	checkPastSteps: the statements of the loop body from the Get on, in source order, each as "<condition> => <effects>":
//	  effects are faulty:<expr> (append to the list of faulty rounds), continue, break, return (the whole check gives up)
//	checkPastEveryGetErrorFaulty: the first statement after the Get is `if err != nil { … faulty:i … }` with no `return` in it and
//	  no test of the kind of error anywhere in the loop: a missing record and an undecodable one are treated alike
//	checkPastLabelChecked: the loop compares the round of the beacon it read with the round it asked for
func genCheckPast() {
	l := newLean("CheckPast")
	l.pf("namespace Gen\n")
	fd := findFunc("internal/chain/beacon", "SyncManager", "CheckPastBeacons")
	var loop *ast.ForStmt
	ast.Inspect(fd.Body, func(n ast.Node) bool {
		if f, ok := n.(*ast.ForStmt); ok {
			if loop != nil {
				die("CheckPastBeacons: more than one for loop")
			}
			loop = f
		}
		return true
	})
	if loop == nil {
		die("CheckPastBeacons: no for loop")
	}
	if stmtString(loop.Init) != "i:=uint64(1)" || exprString(loop.Cond) != "i<=upTo" {
		die("CheckPastBeacons: unrecognised loop header %q; %q", stmtString(loop.Init), exprString(loop.Cond))
	}
	getAt := -1
	for k, st := range loop.Body.List {
		if as, ok := st.(*ast.AssignStmt); ok && strings.Contains(stmtString(as), "s.store.Get(ctx,i)") {
			if stmtString(as) != "b,err:=s.store.Get(ctx,i)" {
				die("CheckPastBeacons: unrecognised read %q", stmtString(as))
			}
			if getAt >= 0 {
				die("CheckPastBeacons: two reads of the store in the loop")
			}
			getAt = k
		}
	}
	if getAt < 0 {
		die("CheckPastBeacons: no `b, err := s.store.Get(ctx, i)` in the loop")
	}
	effects := func(b *ast.BlockStmt) string {
		var out []string
		var walk func(st ast.Stmt, guard string)
		walk = func(st ast.Stmt, guard string) {
			switch t := st.(type) {
			case *ast.AssignStmt:
				s := stmtString(t)
				if strings.HasPrefix(s, "faultyBeacons=append(faultyBeacons,") {
					out = append(out, guard+"faulty:"+strings.TrimSuffix(strings.TrimPrefix(s, "faultyBeacons=append(faultyBeacons,"), ")"))
				} else if strings.Contains(s, "faultyBeacons") {
					die("CheckPastBeacons: unrecognised update of faultyBeacons: %s", s)
				}
			case *ast.BranchStmt:
				switch t.Tok {
				case token.CONTINUE:
					out = append(out, guard+"continue")
				case token.BREAK:
					out = append(out, guard+"break")
				default:
					die("CheckPastBeacons: unexpected %s", t.Tok)
				}
			case *ast.ReturnStmt:
				out = append(out, guard+"return")
			case *ast.IfStmt:
				g := guard + "[" + exprString(t.Cond) + "]"
				for _, in := range t.Body.List {
					walk(in, g)
				}
				if t.Else != nil {
					die("CheckPastBeacons: else branch inside an error branch")
				}
			case *ast.BlockStmt:
				for _, in := range t.List {
					walk(in, guard)
				}
			case *ast.ExprStmt: // logging
			default:
				die("CheckPastBeacons: unrecognised statement in a branch of the loop: %T", st)
			}
		}
		for _, st := range b.List {
			walk(st, "")
		}
		return strings.Join(out, ",")
	}
	var steps []string
	every := false
	label := false
	first := true
	for _, st := range loop.Body.List[getAt+1:] {
		is, ok := st.(*ast.IfStmt)
		if !ok {
			die("CheckPastBeacons: a statement after the read that is not an if: %T", st)
		}
		for cur := is; cur != nil; {
			cond := exprString(cur.Cond)
			if cur.Init != nil {
				cond = stmtString(cur.Init) + ";" + cond
			}
			eff := effects(cur.Body)
			steps = append(steps, cond+" => "+eff)
			if strings.Contains(cond, "b.Round") && strings.Contains(cond, "i") && !strings.Contains(cond, "LogsToSkip") {
				label = true
			}
			if first {
				every = cond == "err!=nil" && strings.Contains(eff, "faulty:i") && !strings.Contains(eff, "return")
				first = false
			}
			switch e := cur.Else.(type) {
			case nil:
				cur = nil
			case *ast.IfStmt:
				cur = e
			default:
				die("CheckPastBeacons: plain else branch in the loop")
			}
		}
	}
	for _, s := range steps {
		if strings.Contains(s, "errors.Is(") || strings.Contains(s, "ErrNoBeaconStored") {
			every = false
		}
	}
	l.pf("/-- internal/chain/beacon `CheckPastBeacons`: the loop body from `b, err := s.store.Get(ctx, i)` on, in source order:\n`<condition> => <effects>` (faulty:<what is appended to the faulty rounds>, continue, break, return = the check gives up) -/\n")
	l.pf("def checkPastSteps : List String := %s\n", leanStrList(steps))
	l.pf("/-- every error of the read marks round `i` faulty and the loop goes on (no `return`, no test of the kind of error) -/\n")
	l.pf("def checkPastEveryGetErrorFaulty : Bool := %v\n", every)
	l.pf("/-- the loop compares the round of the beacon it read with the round it asked for -/\n")
	l.pf("def checkPastLabelChecked : Bool := %v\n", label)
	l.pf("end Gen\n")
}
