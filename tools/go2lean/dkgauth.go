package main

import (
	"go/ast"
	"go/token"
	"strings"
)

// genDKGAuth: facts of internal/dkg/actions_signing.go and validateEpoch (state_machine.go) behind the C08/C09 models:
//   - verifyMessage looks the claimed sender up in Concat(remaining, joining) and stops at the FIRST participant with that
//     address (the loop has a `break`);
//   - the ordered list of writes of messageForSigning after the packet-specific part (what every signature covers);
//   - termsFromState: which field of the stored state fills which term;
//   - validateEpoch: the chain of `if cond { return err }`.
func genDKGAuth() {
	const dir = "internal/dkg"
	l := newLean("DKGAuth")
	l.pf("namespace Gen.DKGAuth\n")

	// ---- verifyMessage
	vm := findFunc(dir, "Process", "verifyMessage")
	lists := []string{}
	lookup := ""
	ast.Inspect(vm.Body, func(n ast.Node) bool {
		switch t := n.(type) {
		case *ast.AssignStmt:
			if len(t.Lhs) == 1 && exprString(t.Lhs[0]) == "participants" && len(t.Rhs) == 1 {
				c, ok := t.Rhs[0].(*ast.CallExpr)
				if !ok || exprString(c.Fun) != "util.Concat" {
					die("verifyMessage: participants is not util.Concat(...)")
				}
				for _, a := range c.Args {
					s := exprString(a)
					s = strings.TrimSuffix(strings.TrimPrefix(s, "proposal.Get"), "()")
					lists = append(lists, s)
				}
			}
		case *ast.RangeStmt:
			if exprString(t.X) != "participants" {
				return true
			}
			if len(t.Body.List) != 1 {
				die("verifyMessage: the lookup loop has %d statements", len(t.Body.List))
			}
			ifs, ok := t.Body.List[0].(*ast.IfStmt)
			if !ok {
				die("verifyMessage: the lookup loop is not a single if")
			}
			assigned, broke := false, false
			for _, st := range ifs.Body.List {
				switch u := st.(type) {
				case *ast.AssignStmt:
					if exprString(u.Lhs[0]) == "p" {
						assigned = true
					}
				case *ast.BranchStmt:
					if u.Tok == token.BREAK {
						broke = true
					}
				}
			}
			if !assigned {
				die("verifyMessage: the lookup loop does not assign p")
			}
			lookup = "last"
			if broke {
				lookup = "first"
			}
		}
		return true
	})
	if lookup == "" || len(lists) == 0 {
		die("verifyMessage: lookup loop not found")
	}
	l.pf("/-- %s: verifyMessage searches these lists of the terms, concatenated in this order -/\ndef verifyMessageLists : List String := %s\n", dir, leanStrList(lists))
	l.pf("/-- … and takes the first / the last participant whose address is the claimed sender's -/\ndef verifyMessageLookup : String := %s\n", leanStr(lookup))

	// ---- messageForSigning: the writes after the switch on the packet type
	mf := findFunc(dir, "", "messageForSigning")
	var writes []string
	var walk func(list []ast.Stmt, prefix string)
	write := func(c *ast.CallExpr, prefix string) {
		f := exprString(c.Fun)
		if f == "ret.WriteString" && len(c.Args) == 1 {
			writes = append(writes, prefix+"str:"+exprString(c.Args[0]))
		} else if f == "ret.Write" && len(c.Args) == 1 {
			writes = append(writes, prefix+"bytes:"+exprString(c.Args[0]))
		}
	}
	walk = func(list []ast.Stmt, prefix string) {
		for _, st := range list {
			switch t := st.(type) {
			case *ast.ExprStmt:
				if c, ok := t.X.(*ast.CallExpr); ok {
					write(c, prefix)
				}
			case *ast.AssignStmt:
				// enc, _ := x.MarshalBinary()
				if len(t.Rhs) == 1 {
					writes = append(writes, prefix+"let:"+exprString(t.Lhs[0])+"="+exprString(t.Rhs[0]))
				}
			case *ast.RangeStmt:
				writes = append(writes, prefix+"for:"+exprString(t.X))
				walk(t.Body.List, prefix+"  ")
			case *ast.TypeSwitchStmt:
				writes = append(writes, prefix+"switch-on-packet-type")
			case *ast.DeclStmt, *ast.ReturnStmt:
			default:
				writes = append(writes, prefix+"?"+strings.TrimSpace(nodeKind(st)))
			}
		}
	}
	walk(mf.Body.List, "")
	l.pf("/-- %s: messageForSigning — every write into the signed buffer outside the packet-type switch, in order -/\ndef signingWrites : List String := %s\n", dir, leanStrList(writes))

	// ---- termsFromState
	tf := findFunc(dir, "", "termsFromState")
	var fields []string
	ast.Inspect(tf.Body, func(n ast.Node) bool {
		if kv, ok := n.(*ast.KeyValueExpr); ok {
			fields = append(fields, exprString(kv.Key)+"="+exprString(kv.Value))
		}
		return true
	})
	if len(fields) == 0 {
		die("termsFromState: no composite literal found")
	}
	// field order in the literal is irrelevant to the value: sort for a canonical form
	sortStrings(fields)
	l.pf("/-- %s: termsFromState — term ← expression over the stored state -/\ndef termsFromStateFields : List String := %s\n", dir, leanStrList(fields))

	// ---- validateEpoch
	ve := findFunc(dir, "", "validateEpoch")
	var chain []string
	for _, st := range ve.Body.List {
		switch t := st.(type) {
		case *ast.IfStmt:
			if t.Init != nil || t.Else != nil || len(t.Body.List) != 1 {
				chain = append(chain, "?if")
				continue
			}
			r, ok := t.Body.List[0].(*ast.ReturnStmt)
			if !ok || len(r.Results) != 1 {
				chain = append(chain, "?if-body")
				continue
			}
			chain = append(chain, "if "+exprString(t.Cond)+" → "+exprString(r.Results[0]))
		case *ast.ReturnStmt:
			if len(t.Results) == 1 {
				chain = append(chain, "return "+exprString(t.Results[0]))
			}
		case *ast.AssignStmt:
			chain = append(chain, "let "+exprString(t.Lhs[0])+" := "+exprString(t.Rhs[0]))
		default:
			chain = append(chain, "?"+nodeKind(st))
		}
	}
	l.pf("/-- %s: validateEpoch — its statements in order -/\ndef validateEpochChain : List String := %s\n", dir, leanStrList(chain))

	// ---- does proposal validation pin the length of every participant signature? (validateForAllDKGs or a function it calls
	// compares len(x.GetSignature()) / len(x.Signature) inside a loop; the loop's range expression is recorded)
	vf := findFunc(dir, "", "validateForAllDKGs")
	cands := []*ast.FuncDecl{vf}
	ast.Inspect(vf.Body, func(n ast.Node) bool {
		if c, ok := n.(*ast.CallExpr); ok {
			if id, ok := c.Fun.(*ast.Ident); ok {
				for _, f := range load(dir) {
					for _, d := range f.Decls {
						if fd, ok := d.(*ast.FuncDecl); ok && fd.Recv == nil && fd.Name.Name == id.Name && fd.Body != nil {
							cands = append(cands, fd)
						}
					}
				}
			}
		}
		return true
	})
	lenChecked := false
	over := ""
	for _, fd := range cands {
		ast.Inspect(fd.Body, func(n ast.Node) bool {
			rs, ok := n.(*ast.RangeStmt)
			if !ok {
				return true
			}
			ast.Inspect(rs.Body, func(m ast.Node) bool {
				be, ok := m.(*ast.BinaryExpr)
				if !ok || (be.Op != token.NEQ && be.Op != token.EQL && be.Op != token.LSS && be.Op != token.GTR) {
					return true
				}
				for _, side := range []ast.Expr{be.X, be.Y} {
					if c, ok := side.(*ast.CallExpr); ok && exprString(c.Fun) == "len" && len(c.Args) == 1 {
						a := exprString(c.Args[0])
						if strings.HasSuffix(a, ".GetSignature()") || strings.HasSuffix(a, ".Signature") {
							lenChecked = true
							over = exprString(rs.X)
						}
					}
				}
				return true
			})
			return true
		})
	}
	l.pf("/-- %s: proposal validation (validateForAllDKGs and what it calls) compares the length of participant signatures -/\ndef validatesSignatureLengths : Bool := %v\n", dir, lenChecked)
	l.pf("/-- … for the participants of this expression -/\ndef signatureLengthsOver : String := %s\n", leanStr(over))
	l.pf("end Gen.DKGAuth\n")
}

func nodeKind(n ast.Node) string {
	switch n.(type) {
	case *ast.IfStmt:
		return "if"
	case *ast.ForStmt:
		return "for"
	case *ast.SwitchStmt:
		return "switch"
	case *ast.GoStmt:
		return "go"
	case *ast.DeferStmt:
		return "defer"
	case *ast.BlockStmt:
		return "block"
	}
	return "stmt"
}

func sortStrings(xs []string) {
	for i := 1; i < len(xs); i++ {
		for j := i; j > 0 && xs[j] < xs[j-1]; j-- {
			xs[j], xs[j-1] = xs[j-1], xs[j]
		}
	}
}
