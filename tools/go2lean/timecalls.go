package main

import (
	"go/ast"
	"sort"
	"strings"
)

// genTimeCalls: which functions outside common/time.go derive rounds/times, and through which of the three
// functions of common/time.go (C16 anchors: ticker.go, handler/http/server.go, node.go). A function that starts doing
// its own period arithmetic drops out of (or changes) this list.
func genTimeCalls() {
	l := newLean("TimeCalls")
	l.pf("namespace Gen\n")
	type pair struct{ fn, callee string }
	var pairs []pair
	scan := func(dir string, files ...string) {
		want := map[string]bool{}
		for _, f := range files {
			want[f] = true
		}
		for _, f := range load(dir) {
			name := fset.Position(f.Pos()).Filename
			base := name[strings.LastIndex(name, "/")+1:]
			if !want[base] {
				continue
			}
			for _, d := range f.Decls {
				fd, ok := d.(*ast.FuncDecl)
				if !ok || fd.Body == nil {
					continue
				}
				fn := fd.Name.Name
				if fd.Recv != nil && len(fd.Recv.List) == 1 {
					fn = baseTypeName(fd.Recv.List[0].Type) + "." + fn
				}
				ast.Inspect(fd.Body, func(n ast.Node) bool {
					c, ok := n.(*ast.CallExpr)
					if !ok {
						return true
					}
					callee := exprString(c.Fun)
					switch callee {
					case "common.TimeOfRound", "common.CurrentRound", "common.NextRound", "commonutils.CurrentRound":
						pairs = append(pairs, pair{dir + ":" + fn, callee[strings.Index(callee, ".")+1:]})
					}
					return true
				})
			}
		}
	}
	scan("handler/http", "server.go")
	scan("internal/chain/beacon", "ticker.go", "node.go", "sync_manager.go", "store.go")
	scan("internal/dkg", "execution.go")
	sort.Slice(pairs, func(i, j int) bool {
		if pairs[i].fn != pairs[j].fn {
			return pairs[i].fn < pairs[j].fn
		}
		return pairs[i].callee < pairs[j].callee
	})
	var items []string
	seen := map[string]bool{}
	for _, p := range pairs {
		k := "(" + leanStr(p.fn) + ", " + leanStr(p.callee) + ")"
		if !seen[k] {
			seen[k] = true
			items = append(items, k)
		}
	}
	l.pf("/-- (function, function of common/time.go it calls) -/\ndef timeCalls : List (String × String) := [\n  %s]\n", strings.Join(items, ",\n  "))
	// handler/http dateOfRound must be exactly time.Unix(common.TimeOfRound(info.Period, info.GenesisTime, round), 0)
	fd := findFunc("handler/http", "", "dateOfRound")
	body := ""
	if len(fd.Body.List) == 1 {
		body = stmtString(fd.Body.List[0])
	}
	l.pf("/-- handler/http: the body of dateOfRound -/\ndef dateOfRoundBody : String := %s\n", leanStr(body))
	l.pf("end Gen\n")
}
