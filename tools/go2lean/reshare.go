package main

// genReshareRules (C03, C05, C07): the facts the message-level model of a resharing (Drand/Net/Reshare.lean) and the
// store-stack retry theorem rest on, regenerated from the source:
//
//	key.Group.Node                 the membership lookup: a linear scan of g.Nodes returning the first node whose Index
//	                               EQUALS the argument, nil after the loop (translated: groupNodeMatch)
//	Handler.broadcastNextPartial   the recipients of a node's partial: the nodes of the VAULT's current group, own address skipped
//	chainStore.runAggregator       threshold and group size are read from the vault INSIDE the newPartials case (every
//	                               iteration), after the window test and before cache.Append; Recover gets exactly them
//	Handler.TransitionNewGroup     targetRound := tRound - 1; the callback's skip condition (translated: transitionSkip);
//	                               whether the function itself switches when the head is already at the target
//	                               (transitionLateSwitch: the variant switch of the model)
//	schemeStore.Put                statement order: previous-signature check, underlying Put, return on error, a.last = b
//
// Anything outside the understood shapes dies.

import (
	"go/ast"
	"go/token"
	"strings"
)

// rsText: canonical text of a statement; an `if` is rendered by its header only
func rsText(s ast.Stmt) string {
	if is, ok := s.(*ast.IfStmt); ok {
		h := "if "
		if is.Init != nil {
			h += strings.TrimSpace(stmtString(is.Init)) + ";"
		}
		return h + exprString(is.Cond)
	}
	return strings.TrimSpace(stmtString(s))
}

func genReshareRules() {
	l := newLean("ReshareRules", "Gen.Consts")
	l.pf("namespace Gen\n")

	// --- key.Group.Node
	{
		fd := findFunc("common/key", "Group", "Node")
		if len(fd.Type.Params.List) != 1 || len(fd.Type.Params.List[0].Names) != 1 {
			die("Group.Node: expected one parameter")
		}
		arg := fd.Type.Params.List[0].Names[0].Name
		if len(fd.Body.List) != 2 {
			die("Group.Node: expected `for … range g.Nodes { if … { return n } }; return nil`, found %d statements", len(fd.Body.List))
		}
		rs, ok := fd.Body.List[0].(*ast.RangeStmt)
		if !ok || exprString(rs.X) != "g.Nodes" || rs.Value == nil || len(rs.Body.List) != 1 {
			die("Group.Node: the first statement is not a plain range over g.Nodes")
		}
		elem := exprString(rs.Value)
		is, ok := rs.Body.List[0].(*ast.IfStmt)
		if !ok || is.Init != nil || is.Else != nil || len(is.Body.List) != 1 || rsText(is.Body.List[0]) != "return "+elem {
			die("Group.Node: loop body is not `if <cond> { return %s }`", elem)
		}
		if rsText(fd.Body.List[1]) != "return nil" {
			die("Group.Node: does not end with `return nil`")
		}
		cond := nrExpr(is.Cond, map[string]string{elem + ".Index": "memberIndex", arg: "i"}, "Group.Node")
		l.pf("/-- key.Group.Node: linear scan of g.Nodes, the first node for which this holds is returned, nil after the loop -/\n"+
			"def groupNodeMatch (memberIndex i : Nat) : Bool := %s\n", cond)
		l.pf("def groupNodeLookup : List String := %s\n", leanStrList([]string{"range " + exprString(rs.X), "if " + exprString(is.Cond), rsText(is.Body.List[0]), "return nil"}))
	}

	// --- broadcastNextPartial: recipients
	{
		fd := findFunc("internal/chain/beacon", "Handler", "broadcastNextPartial")
		var rng *ast.RangeStmt
		ast.Inspect(fd.Body, func(n ast.Node) bool {
			if r, ok := n.(*ast.RangeStmt); ok && nrHasCall(r.Body, "h.client.PartialBeacon(") {
				if rng != nil {
					die("broadcastNextPartial: more than one sending loop")
				}
				rng = r
			}
			return true
		})
		if rng == nil || rng.Value == nil {
			die("broadcastNextPartial: no `for _, id := range … { … h.client.PartialBeacon … }`")
		}
		id := exprString(rng.Value)
		skip := nrFindIf(rng.Body, func(i *ast.IfStmt) bool {
			if len(i.Body.List) != 1 {
				return false
			}
			b, ok := i.Body.List[0].(*ast.BranchStmt)
			return ok && b.Tok == token.CONTINUE
		})
		if skip == nil {
			die("broadcastNextPartial: the sending loop has no `if … { continue }` (own address)")
		}
		// the own partial goes to the own aggregator before the loop
		l.pf("/-- Handler.broadcastNextPartial: the list the partial is sent to (one goroutine per element), and the element that is skipped -/\n"+
			"def bnpRecipients : String := %s\ndef bnpSkipSelf : String := %s\n", leanStr(exprString(rng.X)), leanStr(strings.ReplaceAll(exprString(skip.Cond), id, "id")))
	}

	// --- runAggregator: where threshold and size are read
	{
		fd := findFunc("internal/chain/beacon", "chainStore", "runAggregator")
		pc := nrCommCase(fd.Body, "c.newPartials", "runAggregator")
		pos := map[string]int{}
		for i, s := range pc.Body {
			t := rsText(s)
			switch {
			case strings.HasPrefix(t, "thr:="):
				pos["thr"] = i
				if t != "thr:=c.crypto.GetGroup().Threshold" {
					die("runAggregator: thr is read as %s", t)
				}
			case strings.HasPrefix(t, "n:="):
				pos["n"] = i
				if t != "n:=c.crypto.GetGroup().Len()" {
					die("runAggregator: n is read as %s", t)
				}
			case strings.HasPrefix(t, "err=cache.Append("):
				pos["append"] = i
			case strings.HasPrefix(t, "if !shouldStore"):
				pos["window"] = i
			}
		}
		for _, k := range []string{"thr", "n", "append", "window"} {
			if _, ok := pos[k]; !ok {
				die("runAggregator: inside the newPartials case there is no statement for %q (threshold / size must be read from the vault at every iteration)", k)
			}
		}
		if !(pos["window"] < pos["thr"] && pos["thr"] < pos["append"] && pos["window"] < pos["n"] && pos["n"] < pos["append"]) {
			die("runAggregator: threshold / size are not read between the window test and cache.Append")
		}
		rec := ""
		for _, c := range nrCalls(pc) {
			if strings.HasPrefix(c, "c.crypto.ThresholdScheme.Recover(") {
				rec = c
			}
		}
		if rec != "c.crypto.ThresholdScheme.Recover(c.crypto.GetPub(),msg,roundCache.Partials(),thr,n)" {
			die("runAggregator: Recover is called as %s", rec)
		}
		l.pf("/-- chainStore.runAggregator: read inside the newPartials case (every iteration), between the window test and cache.Append; "+
			"Recover is called with the vault's current public polynomial and exactly these -/\n"+
			"def aggThrInLoop : List String := %s\n", leanStrList([]string{"thr := c.crypto.GetGroup().Threshold", "n := c.crypto.GetGroup().Len()"}))
	}

	// --- TransitionNewGroup
	{
		fd := findFunc("internal/chain/beacon", "Handler", "TransitionNewGroup")
		tr := nrAssignRHS(fd.Body.List, "targetRound", token.DEFINE, "TransitionNewGroup")
		l.pf("/-- Handler.TransitionNewGroup: the round whose storage triggers the switch -/\ndef transitionTarget (tRound : Nat) : Nat := %s\n",
			nrExpr(tr, map[string]string{"tRound": "tRound"}, "TransitionNewGroup targetRound"))
		var cb *ast.FuncLit
		cbIdx := -1
		for i, s := range fd.Body.List {
			es, ok := s.(*ast.ExprStmt)
			if !ok {
				continue
			}
			c, ok := es.X.(*ast.CallExpr)
			if !ok || exprString(c.Fun) != "h.chain.AddCallback" || len(c.Args) != 2 {
				continue
			}
			fl, ok := c.Args[1].(*ast.FuncLit)
			if !ok {
				die("TransitionNewGroup: callback is not a func literal")
			}
			cb, cbIdx = fl, i
		}
		if cb == nil || len(cb.Body.List) < 2 {
			die("TransitionNewGroup: `h.chain.AddCallback(\"transition\", func…)` not found at the top level")
		}
		is, ok := cb.Body.List[0].(*ast.IfStmt)
		if !ok || is.Else != nil || len(is.Body.List) != 1 || rsText(is.Body.List[0]) != "return" {
			die("TransitionNewGroup: the callback does not start with `if <skip> { return }`")
		}
		be, ok := is.Cond.(*ast.BinaryExpr)
		if !ok || be.Op != token.LOR || exprString(be.X) != "closed" {
			die("TransitionNewGroup: the callback's skip condition is not `closed || …`: %s", exprString(is.Cond))
		}
		l.pf("/-- the \"transition\" callback returns without switching when this holds for the stored beacon's round -/\n"+
			"def transitionSkip (bRound targetRound : Nat) : Bool := %s\n",
			nrExpr(be.Y, map[string]string{"b.Round": "bRound", "targetRound": "targetRound"}, "TransitionNewGroup callback"))
		if rsText(cb.Body.List[1]) != "h.crypto.SetInfo(newGroup,newShare)" {
			die("TransitionNewGroup: the callback's first effect is %s, expected h.crypto.SetInfo(newGroup, newShare)", rsText(cb.Body.List[1]))
		}
		// after the registration: nothing (as-is), or the late-registration switch of reports/trans_fix_1.diff
		late := false
		for _, s := range fd.Body.List[cbIdx+1:] {
			is2, ok := s.(*ast.IfStmt)
			if ok && is2.Init != nil && rsText(is2.Init) == "last,err:=h.chain.Last(ctx)" &&
				exprString(is2.Cond) == "err==nil&&last.Round>=targetRound" && len(is2.Body.List) > 0 &&
				rsText(is2.Body.List[0]) == "h.crypto.SetInfo(newGroup,newShare)" {
				late = true
				continue
			}
			die("TransitionNewGroup: unexpected statement after the callback registration: %s", rsText(s))
		}
		l.pf("/-- does TransitionNewGroup itself switch when the head is already at the target round (late registration)? -/\n"+
			"def transitionLateSwitch : Bool := %v\n", late)
	}

	// --- schemeStore.Put: order
	{
		fd := findFunc("internal/chain/beacon", "schemeStore", "Put")
		var order []string
		for _, s := range fd.Body.List {
			t := rsText(s)
			switch {
			case strings.HasPrefix(t, "ctx,span:="), strings.HasPrefix(t, "defer "), t == "a.Lock()":
			case strings.HasPrefix(t, "if a.isChained"):
				order = append(order, "check-prev")
			case strings.HasPrefix(t, "if err:=a.Store.Put(ctx,b);err!=nil"):
				is := s.(*ast.IfStmt)
				if len(is.Body.List) != 1 || rsText(is.Body.List[0]) != "return err" {
					die("schemeStore.Put: a failing underlying Put does not return its error at once")
				}
				order = append(order, "a.Store.Put", "return-on-error")
			case t == "a.last=b":
				order = append(order, "a.last = b")
			case t == "return nil":
				order = append(order, "return nil")
			default:
				die("schemeStore.Put: statement outside the understood shape: %s", t)
			}
		}
		l.pf("/-- schemeStore.Put: the cached head is advanced only after the store below accepted the beacon -/\n"+
			"def schemePutOrder : List String := %s\n", leanStrList(order))
	}
	l.pf("end Gen\n")
}
