package main

// genScripts: the *source skeleton* tie. For every function listed in scripts.cfg the body is printed in canonical
// form (gofmt layout, comments / logging / metrics / tracing statements removed) as a Lean `List String`
// (`Gen.Scripts.<name>`), one file per property (`Gen/ScriptsCxx.lean`). The committed golden copies
// (`lean/DrandProofs/Golden/Cxx.lean`, written once with `go2lean -golden` and reviewed) state
// `Gen.Scripts.<name> = [the text the model was written against] := rfl`. A change to the statements of a listed
// function therefore re-opens an obligation of every property that lists it; whether the property still holds is
// then for the differential run and the search for a failing input to say (DESIGN.md §2.4).

import (
	"bytes"
	_ "embed"
	"go/ast"
	"go/parser"
	"go/printer"
	"go/token"
	"os"
	"path/filepath"
	"regexp"
	"sort"
	"strings"
)

//go:embed scripts.cfg
var scriptsCfg string

type scriptTarget struct {
	prop, dir, recv, fn string
	optional            bool // "?func" in scripts.cfg: a function only some reviewed variants of the tree have; absent = empty text
}

func scriptTargets() []scriptTarget {
	var out []scriptTarget
	for _, ln := range strings.Split(scriptsCfg, "\n") {
		ln = strings.TrimSpace(ln)
		if ln == "" || strings.HasPrefix(ln, "#") {
			continue
		}
		f := strings.Fields(ln)
		if len(f) != 4 {
			die("scripts.cfg: bad line %q (want: <props,comma-separated> <dir> <recv|-> <func>)", ln)
		}
		recv := f[2]
		if recv == "-" {
			recv = ""
		}
		fn, optional := strings.TrimPrefix(f[3], "?"), strings.HasPrefix(f[3], "?")
		for _, p := range strings.Split(f[0], ",") {
			out = append(out, scriptTarget{p, f[1], recv, fn, optional})
		}
	}
	return out
}

var noiseCall = regexp.MustCompile(`^(\w+\.)*(log|l|lg|logger|Log)\.(Debug|Info|Warn|Error|Fatal|Panic|DPanic)\w*$|^metrics\.|^span\.|^(\w+\.)*thresholdMonitor\.`)

func isNoiseCallExpr(e ast.Expr) bool {
	c, ok := e.(*ast.CallExpr)
	if !ok {
		return false
	}
	return noiseCall.MatchString(exprString(c.Fun))
}

func isNoiseStmt(s ast.Stmt) bool {
	switch t := s.(type) {
	case *ast.ExprStmt:
		return isNoiseCallExpr(t.X)
	case *ast.DeferStmt:
		return isNoiseCallExpr(t.Call)
	case *ast.AssignStmt:
		for _, r := range t.Rhs {
			if c, ok := r.(*ast.CallExpr); ok && strings.HasPrefix(exprString(c.Fun), "tracer.") {
				return true
			}
		}
	}
	return false
}

func filterStmts(l []ast.Stmt) []ast.Stmt {
	var out []ast.Stmt
	for _, s := range l {
		if !isNoiseStmt(s) {
			out = append(out, s)
		}
	}
	return out
}

// stripNoise removes logging / metrics / tracing statements from every statement list below n (in place: the ASTs are
// re-parsed per run and the other generators never print statement lists they did not select themselves).
func stripNoise(n ast.Node) {
	ast.Inspect(n, func(x ast.Node) bool {
		switch t := x.(type) {
		case *ast.BlockStmt:
			t.List = filterStmts(t.List)
		case *ast.CaseClause:
			t.Body = filterStmts(t.Body)
		case *ast.CommClause:
			t.Body = filterStmts(t.Body)
		}
		return true
	})
}

func parserParse(fs *token.FileSet, path string, src []byte) (*ast.File, error) {
	return parser.ParseFile(fs, path, src, 0)
}

func funcScript(dir, recv, fn string) []string { return funcScriptOpt(dir, recv, fn, false) }

func funcScriptOpt(dir, recv, fn string, optional bool) []string {
	// parse a private copy without comments so that the shared cache (with comments) stays untouched
	var fd *ast.FuncDecl
	ents, err := os.ReadDir(filepath.Join(repo, dir))
	if err != nil {
		die("scripts: cannot read %s: %v", dir, err)
	}
	fs := token.NewFileSet()
	for _, e := range ents {
		n := e.Name()
		if !strings.HasSuffix(n, ".go") || strings.HasSuffix(n, "_test.go") || strings.HasPrefix(n, "zz_verif") {
			continue
		}
		src, err := os.ReadFile(filepath.Join(repo, dir, n))
		if err != nil {
			die("scripts: %v", err)
		}
		if !strings.Contains(string(src), fn) {
			continue
		}
		f, err := parserParse(fs, filepath.Join(repo, dir, n), src)
		if err != nil {
			die("scripts: parse %s/%s: %v", dir, n, err)
		}
		for _, d := range f.Decls {
			g, ok := d.(*ast.FuncDecl)
			if !ok || g.Name.Name != fn || g.Body == nil {
				continue
			}
			if recv == "" && g.Recv == nil {
				fd = g
			}
			if recv != "" && g.Recv != nil && len(g.Recv.List) == 1 && baseTypeName(g.Recv.List[0].Type) == recv {
				fd = g
			}
		}
	}
	if fd == nil && optional {
		return nil
	}
	if fd == nil {
		die("scripts: function %s.%s not found in %s", recv, fn, dir)
	}
	fd.Doc = nil
	stripNoise(fd.Body)
	var buf bytes.Buffer
	if err := (&printer.Config{Mode: printer.RawFormat, Tabwidth: 1}).Fprint(&buf, fs, fd); err != nil {
		die("scripts: print %s.%s: %v", recv, fn, err)
	}
	var out []string
	for _, ln := range strings.Split(buf.String(), "\n") {
		ln = strings.TrimRight(ln, " \t")
		if strings.TrimSpace(ln) == "" {
			continue
		}
		// indentation: one space per tab
		i := 0
		for i < len(ln) && ln[i] == '\t' {
			i++
		}
		out = append(out, strings.Repeat(" ", i)+strings.Join(strings.Fields(ln[i:]), " "))
	}
	return out
}

func scriptName(t scriptTarget) string {
	p := filepath.Base(t.dir)
	if t.recv == "" {
		return p + "_" + t.fn
	}
	return p + "_" + t.recv + "_" + t.fn
}

func genScripts() {
	byProp := map[string][]scriptTarget{}
	for _, t := range scriptTargets() {
		byProp[t.prop] = append(byProp[t.prop], t)
	}
	var props []string
	for p := range byProp {
		props = append(props, p)
	}
	sort.Strings(props)
	cache := map[string][]string{}
	for _, p := range props {
		l := newLean("Scripts" + p)
		l.pf("/-! canonical statement text of the functions property %s's model and theorems were written against (tools/go2lean/scripts.cfg) -/\n", p)
		l.pf("namespace Gen.Scripts%s\n", p)
		seen := map[string]bool{}
		for _, t := range byProp[p] {
			n := scriptName(t)
			if seen[n] {
				continue
			}
			seen[n] = true
			k := t.dir + "|" + t.recv + "|" + t.fn
			if _, ok := cache[k]; !ok {
				cache[k] = funcScriptOpt(t.dir, t.recv, t.fn, t.optional)
			}
			l.pf("/-- %s: %s%s -/\ndef %s : List String := [\n", t.dir, map[bool]string{true: t.recv + ".", false: ""}[t.recv != ""], t.fn, n)
			for i, s := range cache[k] {
				sep := ","
				if i == len(cache[k])-1 {
					sep = ""
				}
				l.pf("  %s%s\n", leanStr(s), sep)
			}
			l.pf("]\n")
		}
		l.pf("end Gen.Scripts%s\n", p)
	}
}

// writeGolden writes lean/DrandProofs/Golden/Cxx.lean from the current tree: used once to create the golden copies
// and again only when a change of the listed sources has been reviewed (a `fix:` commit, a model update).
func writeGolden(out string) {
	byProp := map[string][]scriptTarget{}
	for _, t := range scriptTargets() {
		byProp[t.prop] = append(byProp[t.prop], t)
	}
	dir := filepath.Join(out, "DrandProofs", "Golden")
	if err := os.MkdirAll(dir, 0o755); err != nil {
		die("%v", err)
	}
	for p, ts := range byProp {
		var sb strings.Builder
		sb.WriteString("/-\nGolden copies of the source skeletons property " + p + " depends on (tools/go2lean/scripts.cfg). Each theorem says: the\nstatements of this function in /repo's working tree are still the ones the model and the theorems of " + p + " were\nwritten against (logging, metrics and tracing statements and comments are not part of the text). Written by\n`go2lean -golden`; a reviewed change of the source is followed by regenerating this file.\n-/\n")
		sb.WriteString("import Gen.Scripts" + p + "\n\nnamespace Golden." + p + "\n")
		seen := map[string]bool{}
		for _, t := range ts {
			n := scriptName(t)
			if seen[n] {
				continue
			}
			seen[n] = true
			sc := funcScriptOpt(t.dir, t.recv, t.fn, t.optional)
			sb.WriteString("\ntheorem tie_src_" + n + " : Gen.Scripts" + p + "." + n + " = [\n")
			for i, s := range sc {
				sep := ","
				if i == len(sc)-1 {
					sep = ""
				}
				sb.WriteString("  " + leanStr(s) + sep + "\n")
			}
			sb.WriteString("] := rfl\n")
		}
		sb.WriteString("\nend Golden." + p + "\n")
		if err := os.WriteFile(filepath.Join(dir, p+".lean"), []byte(sb.String()), 0o644); err != nil {
			die("%v", err)
		}
	}
}
