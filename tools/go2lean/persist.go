package main

import (
	"go/ast"
	"go/token"
	"strings"
)

// persistence call orders (C13): for a fixed list of functions, the calls that touch persistent state (or hand
// the work to the next stage), in evaluation order, tagged with the branch they sit in. A call whose callee
// starts with one of the function's *strict* prefixes but is not in its vocabulary is fatal (a new kind of
// persistence step the model knows nothing about), and so is a required call that is missing.

type persistSpec struct {
	lean     string            // name of the generated definition
	dir      string            // package dir
	recv     string            // receiver base type ("" for plain functions)
	fn       string            // function name
	vocab    map[string]string // callee text -> emitted name
	sends    map[string]string // channel expression text -> emitted name
	strict   []string          // callee prefixes that must be in vocab
	ifTags   map[string]string // if-condition text -> tag for the body
	elseTags map[string]string // if-condition text -> tag for the else branch
	txFuncs  []string          // callees whose func-literal argument is one transaction: calls inside get "tx:"
	args     map[string][]int  // callee text -> indices of arguments appended to the emitted name
	required []string          // emitted names that must occur
	returns  bool              // also record every return statement (tagged with its branch) as "return"
}

func persistSeq(sp persistSpec) []string {
	fd := findFunc(sp.dir, sp.recv, sp.fn)
	where := sp.dir + ":" + sp.recv + "." + sp.fn
	var out []string
	// single-assignment locals are rendered by their defining expression (e.g. key := chain.RoundToBytes(beacon.Round))
	locals := map[string]string{}
	ast.Inspect(fd.Body, func(x ast.Node) bool {
		if as, ok := x.(*ast.AssignStmt); ok && len(as.Lhs) == len(as.Rhs) {
			for i, lh := range as.Lhs {
				if id, ok := lh.(*ast.Ident); ok {
					if _, seen := locals[id.Name]; seen || as.Tok != token.DEFINE {
						locals[id.Name] = "<reassigned>"
					} else {
						locals[id.Name] = exprString(as.Rhs[i])
					}
				}
			}
		}
		return true
	})
	argText := func(e ast.Expr) string {
		if id, ok := e.(*ast.Ident); ok {
			if d, ok := locals[id.Name]; ok {
				return d
			}
		}
		return exprString(e)
	}
	isTx := func(c string) bool {
		for _, t := range sp.txFuncs {
			if t == c {
				return true
			}
		}
		return false
	}
	var visit func(n ast.Node, tag string)
	visitList := func(ns []ast.Stmt, tag string) {
		for _, s := range ns {
			visit(s, tag)
		}
	}
	visit = func(n ast.Node, tag string) {
		if n == nil {
			return
		}
		ast.Inspect(n, func(x ast.Node) bool {
			switch t := x.(type) {
			case *ast.IfStmt:
				if t.Init != nil {
					visit(t.Init, tag)
				}
				visit(t.Cond, tag)
				cond := exprString(t.Cond)
				visitList(t.Body.List, tag+sp.ifTags[cond])
				if t.Else != nil {
					visit(t.Else, tag+sp.elseTags[cond])
				}
				return false
			case *ast.CallExpr:
				callee := exprString(t.Fun)
				// operands first (evaluation order), the call itself last
				visit(t.Fun, tag)
				for _, a := range t.Args {
					if _, ok := a.(*ast.FuncLit); ok && isTx(callee) {
						continue // the transaction body is visited after the call is recorded
					}
					visit(a, tag)
				}
				if name, ok := sp.vocab[callee]; ok {
					if name != "" {
						for _, i := range sp.args[callee] {
							if i >= len(t.Args) {
								die("%s: call %s has no argument %d", where, callee, i)
							}
							name += ":" + argText(t.Args[i])
						}
						out = append(out, tag+name)
					}
				} else {
					for _, p := range sp.strict {
						if strings.HasPrefix(callee, p) {
							die("%s: unrecognised persistence-relevant call %s", where, callee)
						}
					}
				}
				if isTx(callee) {
					for _, a := range t.Args {
						if fl, ok := a.(*ast.FuncLit); ok {
							visitList(fl.Body.List, tag+"tx:")
						}
					}
				}
				return false
			case *ast.SendStmt:
				visit(t.Value, tag)
				ch := exprString(t.Chan)
				if name, ok := sp.sends[ch]; ok {
					out = append(out, tag+name)
				}
				return false
			case *ast.DeferStmt:
				// a deferred call runs when the function returns, not where it is written
				visit(t.Call, tag+"defer:")
				return false
			case *ast.ReturnStmt:
				if !sp.returns {
					return true
				}
				// the results are evaluated first, then the function returns
				for _, r := range t.Results {
					visit(r, tag)
				}
				out = append(out, tag+"return")
				return false
			case *ast.GoStmt:
				die("%s: goroutine started inside a persistence sequence", where)
			}
			return true
		})
	}
	visitList(fd.Body.List, "")
	for _, r := range sp.required {
		found := false
		for _, o := range out {
			if o == r {
				found = true
			}
		}
		if !found {
			die("%s: expected call %q not found (got %v)", where, r, out)
		}
	}
	return out
}

// singleDefinition returns the text of the right-hand side of the one `name := …` in fd (fatal if there is none, or if the
// name is assigned anywhere else).
func singleDefinition(fd *ast.FuncDecl, name string) string {
	def, n := "", 0
	ast.Inspect(fd.Body, func(x ast.Node) bool {
		if as, ok := x.(*ast.AssignStmt); ok && len(as.Lhs) == len(as.Rhs) {
			for i, lh := range as.Lhs {
				if id, ok := lh.(*ast.Ident); ok && id.Name == name {
					n++
					if as.Tok == token.DEFINE {
						def = exprString(as.Rhs[i])
					}
				}
			}
		}
		return true
	})
	if n != 1 || def == "" {
		die("%s: local %s is not defined exactly once", fd.Name.Name, name)
	}
	return def
}

// boltOpenOptions returns the text of the third argument of every bolt.Open call in fn.
func boltOpenOptions(dir, recv, fn string) []string {
	fd := findFunc(dir, recv, fn)
	var out []string
	ast.Inspect(fd.Body, func(n ast.Node) bool {
		if c, ok := n.(*ast.CallExpr); ok && exprString(c.Fun) == "bolt.Open" {
			if len(c.Args) != 3 {
				die("%s.%s: bolt.Open with %d arguments", dir, fn, len(c.Args))
			}
			out = append(out, exprString(c.Args[2]))
		}
		return true
	})
	if len(out) == 0 {
		die("%s.%s: no bolt.Open call", dir, fn)
	}
	return out
}

// countAssignmentsTo counts assignments whose left side selects one of the given field names, in a package.
func countAssignmentsTo(dir string, fields ...string) int {
	n := 0
	for _, f := range load(dir) {
		ast.Inspect(f, func(x ast.Node) bool {
			switch t := x.(type) {
			case *ast.AssignStmt:
				for _, l := range t.Lhs {
					if se, ok := l.(*ast.SelectorExpr); ok {
						for _, fl := range fields {
							if se.Sel.Name == fl {
								n++
							}
						}
					}
				}
			case *ast.KeyValueExpr:
				if id, ok := t.Key.(*ast.Ident); ok {
					for _, fl := range fields {
						if id.Name == fl {
							n++
						}
					}
				}
			}
			return true
		})
	}
	return n
}

func genPersist() {
	l := newLean("Persist")
	l.pf("namespace Gen\n")
	emit := func(sp persistSpec) {
		seq := persistSeq(sp)
		l.pf("/-- %s: `%s%s` — persistence-relevant calls in evaluation order -/\ndef %s : List String := %s\n",
			sp.dir, map[bool]string{true: sp.recv + ".", false: ""}[sp.recv != ""], sp.fn, sp.lean, leanStrList(seq))
	}
	errTag := map[string]string{"err!=nil": "err:"}
	emit(persistSpec{lean: "executeAndFinishDKGPersist", dir: "internal/dkg", recv: "Process", fn: "executeAndFinishDKG",
		vocab: map[string]string{"d.store.GetCurrent": "store.GetCurrent", "d.store.GetFinished": "store.GetFinished",
			"d.startDKGExecution": "startDKGExecution", "d.store.SaveCurrent": "store.SaveCurrent",
			"current.Complete": "Complete", "d.store.SaveFinished": "store.SaveFinished", "d.completedDKGs.Chan": ""},
		sends:    map[string]string{"d.completedDKGs.Chan()": "completedDKGs.send"},
		strict:   []string{"d.store.", "d.completedDKGs."},
		ifTags:   errTag,
		required: []string{"store.SaveFinished", "completedDKGs.send"}})
	emit(persistSpec{lean: "onDKGCompletedPersist", dir: "internal/core", recv: "BeaconProcess", fn: "onDKGCompleted",
		vocab:    map[string]string{"bp.transitionToNext": "transitionToNext", "bp.leaveNetwork": "leaveNetwork", "bp.joinNetwork": "joinNetwork"},
		strict:   []string{"bp.store.", "os.", "fs."},
		ifTags:   map[string]string{"weWereInLastEpoch": "was:", "weAreInNextEpoch": "is:"},
		required: []string{"was:is:transitionToNext", "was:leaveNetwork", "is:joinNetwork"}})
	emit(persistSpec{lean: "transitionToNextPersist", dir: "internal/core", recv: "BeaconProcess", fn: "transitionToNext",
		vocab:    map[string]string{"bp.validateGroupTransition": "validateGroupTransition", "bp.storeDKGOutput": "storeDKGOutput", "bp.beacon.TransitionNewGroup": "beacon.TransitionNewGroup"},
		strict:   []string{"bp.store.", "os.", "fs."},
		required: []string{"storeDKGOutput"}})
	emit(persistSpec{lean: "joinNetworkPersist", dir: "internal/core", recv: "BeaconProcess", fn: "joinNetwork",
		vocab:    map[string]string{"bp.validateGroupTransition": "validateGroupTransition", "bp.storeDKGOutput": "storeDKGOutput", "bp.StartBeacon": "StartBeacon"},
		strict:   []string{"bp.store.", "os.", "fs."},
		ifTags:   map[string]string{"bp.group!=nil": "havegroup:"},
		required: []string{"storeDKGOutput", "StartBeacon"}})
	emit(persistSpec{lean: "leaveNetworkPersist", dir: "internal/core", recv: "BeaconProcess", fn: "leaveNetwork",
		vocab:    map[string]string{"bp.beacon.StopAt": "beacon.StopAt", "bp.store.Reset": "store.Reset"},
		strict:   []string{"bp.store.", "os.", "fs."},
		required: []string{"store.Reset"}})
	emit(persistSpec{lean: "storeDKGOutputPersist", dir: "internal/core", recv: "BeaconProcess", fn: "storeDKGOutput",
		vocab:    map[string]string{"bp.store.SaveGroup": "store.SaveGroup", "bp.store.SaveShare": "store.SaveShare", "bp.opts.dkgCallback": "dkgCallback"},
		strict:   []string{"bp.store.", "os.", "fs."},
		required: []string{"store.SaveGroup", "store.SaveShare"}})
	emit(persistSpec{lean: "fileStoreSaveGroupPersist", dir: "common/key", recv: "fileStore", fn: "SaveGroup",
		vocab: map[string]string{"Save": "Save"}, args: map[string][]int{"Save": {0, 2}},
		strict: []string{"os.", "fs.", "toml."}, required: []string{"Save:f.groupFile:false"}})
	emit(persistSpec{lean: "fileStoreSaveSharePersist", dir: "common/key", recv: "fileStore", fn: "SaveShare",
		vocab: map[string]string{"Save": "Save", "fmt.Printf": ""}, args: map[string][]int{"Save": {0, 2}},
		strict: []string{"os.", "fs.", "toml."}, required: []string{"Save:f.shareFile:true"}})
	// fileStore.Reset: share, then group; the atomicRename variant also removes what an interrupted Save left behind
	emit(persistSpec{lean: "fileStoreResetPersist", dir: "common/key", recv: "fileStore", fn: "Reset",
		vocab: map[string]string{"Delete": "Delete", "fmt.Errorf": ""}, args: map[string][]int{"Delete": {0}},
		strict: []string{"os.", "fs."}, required: []string{"Delete:f.shareFile", "Delete:f.groupFile"}})
	// key.Save: the file-write primitive of the key store. Two shapes are recognised, anything else is fatal:
	//   inPlace       creator(filePath); defer Close; Encode                       (a crash leaves a truncated / torn target)
	//   atomicRename  creator(filePath+tmpExtension); Encode; Sync; Close; os.Rename(tmp, filePath); os.Remove(tmp) on error
	saveSeq := persistSeq(persistSpec{lean: "keySavePersist", dir: "common/key", recv: "", fn: "Save",
		vocab: map[string]string{"fs.CreateSecureFile": "fs.CreateSecureFile", "os.Create": "os.Create",
			"toml.NewEncoder": "", "toml.NewEncoder(fd).Encode": "Encode", "fd.Close": "Close", "fd.Sync": "Sync",
			"os.Rename": "os.Rename", "os.Remove": "os.Remove",
			"t.TOML": "", "fmt.Errorf": "", "reflect.TypeOf": "", "reflect.TypeOf(t).String": ""},
		args:     map[string][]int{"fs.CreateSecureFile": {0}, "os.Create": {0}, "os.Rename": {0, 1}, "os.Remove": {0}},
		strict:   []string{"os.", "fs.", "toml.", "fd."},
		ifTags:   map[string]string{"secure": "secure:", "err!=nil": "err:", "err==nil": "ok:"},
		elseTags: map[string]string{"secure": "plain:"},
		required: []string{"Encode"}})
	saveInPlace := []string{"secure:fs.CreateSecureFile:filePath", "plain:os.Create:filePath", "defer:Close", "Encode"}
	saveAtomic := []string{"secure:fs.CreateSecureFile:filePath+tmpExtension", "plain:os.Create:filePath+tmpExtension",
		"err:os.Remove:filePath+tmpExtension", "Encode", "ok:Sync", "Close",
		"ok:os.Rename:filePath+tmpExtension:filePath", "err:os.Remove:filePath+tmpExtension"}
	variant, tmpExt := "", ""
	switch strings.Join(saveSeq, " ; ") {
	case strings.Join(saveInPlace, " ; "):
		variant = "inPlace"
	case strings.Join(saveAtomic, " ; "):
		variant = "atomicRename"
		tmpExt = constString("common/key", "tmpExtension")
		if tmpExt == "" || strings.ContainsAny(tmpExt, "/\\") {
			die("common/key: tmpExtension %q does not name a sibling of the target file", tmpExt)
		}
	default:
		die("common/key:Save: file-write protocol not recognised (neither write-in-place nor temporary-file-then-rename): %v", saveSeq)
	}
	l.pf("/-- common/key: `Save` — persistence-relevant calls in evaluation order (argument texts appended; a single-assignment local is shown by its defining expression) -/\ndef keySavePersist : List String := %s\n", leanStrList(saveSeq))
	l.pf("/-- which of the two recognised file-write protocols `key.Save` is: \"inPlace\" (create/truncate the target, encode into it) or\n\"atomicRename\" (encode into `<target><tmpExtension>`, Sync, Close, rename over the target, remove the temporary file on error) -/\n")
	l.pf("def keySaveVariant : String := %s\ndef keyTmpExtension : String := %s\n", leanStr(variant), leanStr(tmpExt))
	emit(persistSpec{lean: "keyDeletePersist", dir: "common/key", recv: "", fn: "Delete",
		vocab: map[string]string{"os.RemoveAll": "os.RemoveAll"}, strict: []string{"os.", "fs."}, required: []string{"os.RemoveAll"}})
	emit(persistSpec{lean: "createSecureFilePersist", dir: "internal/fs", recv: "", fn: "CreateSecureFile",
		vocab:    map[string]string{"os.Create": "os.Create", "fd.Close": "Close", "chmodFunc": "chmod", "os.OpenFile": "os.OpenFile", "fmt.Errorf": ""},
		strict:   []string{"os.", "fd."},
		required: []string{"os.Create", "chmod", "os.OpenFile"}})
	emit(persistSpec{lean: "dkgSaveFinishedPersist", dir: "internal/dkg", recv: "BoltStore", fn: "SaveFinished",
		vocab: map[string]string{"s.db.Update": "Update", "finishedBucket.Put": "finishedBucket.Put", "currentBucket.Put": "currentBucket.Put",
			"tx.Bucket": "", "encodeState": "", "errors.Errorf": ""},
		txFuncs: []string{"s.db.Update"}, strict: []string{"s.db.", "tx.", "finishedBucket.", "currentBucket."},
		required: []string{"Update", "tx:finishedBucket.Put", "tx:currentBucket.Put"}})
	emit(persistSpec{lean: "dkgSavePersist", dir: "internal/dkg", recv: "BoltStore", fn: "save",
		vocab:   map[string]string{"s.db.Update": "Update", "bucket.Put": "bucket.Put", "tx.Bucket": "", "encodeState": "", "errors.Errorf": ""},
		txFuncs: []string{"s.db.Update"}, strict: []string{"s.db.", "tx.", "bucket."},
		required: []string{"Update", "tx:bucket.Put"}})
	emit(persistSpec{lean: "dkgSaveCurrentPersist", dir: "internal/dkg", recv: "BoltStore", fn: "SaveCurrent",
		vocab: map[string]string{"s.save": "save"}, args: map[string][]int{"s.save": {0}},
		strict: []string{"s.db.", "s."}, required: []string{"save:stagedStateBucket"}})
	putVocab := map[string]string{"b.db.Update": "Update", "bucket.Put": "bucket.Put", "tx.Bucket": "", "chain.RoundToBytes": "",
		"tracer.NewSpan": "", "span.End": "", "ctx.Done": "", "ctx.Err": "", "b.log.Errorw": "", "json.NewEncoder": "",
		"json.NewEncoder(&buff).Encode": "", "buff.Bytes": ""}
	emit(persistSpec{lean: "trimmedPutPersist", dir: "internal/chain/boltdb", recv: "trimmedStore", fn: "Put",
		vocab: putVocab, args: map[string][]int{"bucket.Put": {0, 1}}, txFuncs: []string{"b.db.Update"},
		strict: []string{"b.db.", "tx.", "bucket."}, required: []string{"Update"}})
	emit(persistSpec{lean: "boltPutPersist", dir: "internal/chain/boltdb", recv: "BoltStore", fn: "Put",
		vocab: putVocab, args: map[string][]int{"bucket.Put": {0}}, txFuncs: []string{"b.db.Update"},
		strict: []string{"b.db.", "tx.", "bucket."}, required: []string{"Update"}})
	emit(persistSpec{lean: "bpLoadPersist", dir: "internal/core", recv: "BeaconProcess", fn: "Load",
		vocab: map[string]string{"bp.store.LoadGroup": "store.LoadGroup", "public.NewChainInfo": "NewChainInfo",
			"bp.store.LoadShare": "store.LoadShare", "bp.group.Find": "group.Find"},
		strict: []string{"bp.store."}, required: []string{"store.LoadGroup", "store.LoadShare", "group.Find"}})
	// DrandDaemon.LoadBeaconFromStore: the start-up path. Two shapes are recognised, anything else is fatal:
	//   asIs       DKGStatus; no completed record: v1 migration branch; bp.Load; StartBeacon
	//   reconcile  the same, and WITH a completed record dd.reconcileKeyFiles runs before bp.Load
	lbfs := persistSeq(persistSpec{lean: "loadBeaconFromStorePersist", dir: "internal/core", recv: "DrandDaemon", fn: "LoadBeaconFromStore",
		vocab: map[string]string{"dd.InstantiateBeaconProcess": "InstantiateBeaconProcess", "dd.dkg.DKGStatus": "dkg.DKGStatus",
			"store.LoadGroup": "store.LoadGroup", "store.LoadShare": "store.LoadShare", "dd.dkg.Migrate": "dkg.Migrate",
			"dd.reconcileKeyFiles": "reconcileKeyFiles",
			"bp.Load": "bp.Load", "dd.AddBeaconHandler": "AddBeaconHandler", "bp.StartBeacon": "bp.StartBeacon"},
		strict: []string{"store.", "dd.dkg.", "dd.reconcile", "bp.store."}, ifTags: map[string]string{"freshRun": "fresh:"},
		elseTags: map[string]string{"freshRun": "completed:"},
		required: []string{"dkg.DKGStatus", "fresh:store.LoadGroup", "fresh:store.LoadShare", "fresh:dkg.Migrate", "bp.Load", "bp.StartBeacon"}})
	startAsIs := []string{"InstantiateBeaconProcess", "dkg.DKGStatus", "fresh:store.LoadGroup", "fresh:store.LoadShare", "fresh:dkg.Migrate",
		"bp.Load", "AddBeaconHandler", "bp.StartBeacon"}
	startReconcile := []string{"InstantiateBeaconProcess", "dkg.DKGStatus", "fresh:store.LoadGroup", "fresh:store.LoadShare", "fresh:dkg.Migrate",
		"completed:reconcileKeyFiles", "bp.Load", "AddBeaconHandler", "bp.StartBeacon"}
	startVariant := ""
	var recSeq, recDefs, lastCompleted []string
	switch strings.Join(lbfs, " ; ") {
	case strings.Join(startAsIs, " ; "):
		startVariant = "asIs"
	case strings.Join(startReconcile, " ; "):
		startVariant = "reconcile"
		// reconcileKeyFiles: reads first; returns without a write when there is no record, when both files are the
		// record's, when the group file is newer than the record; Reset for a node outside the recorded group that
		// still holds a file; otherwise SaveGroup then SaveShare from the record. Exactly this shape, or fatal.
		recSeq = persistSeq(persistSpec{lean: "reconcileKeyFilesPersist", dir: "internal/core", recv: "DrandDaemon", fn: "reconcileKeyFiles",
			vocab: map[string]string{"dd.dkg.LastCompleted": "dkg.LastCompleted", "store.LoadGroup": "store.LoadGroup",
				"store.LoadShare": "store.LoadShare", "store.Reset": "store.Reset", "store.SaveGroup": "store.SaveGroup",
				"store.SaveShare": "store.SaveShare", "done.FinalGroup.Find": "FinalGroup.Find",
				"group.PublicKey.Equal": "group.PublicKey.Equal", "share.Public().Equal": "share.Public.Equal", "share.Public": ""},
			strict: []string{"store.", "dd.dkg.", "bp.store.", "os.", "fs.", "key."}, returns: true,
			ifTags: map[string]string{"err!=nil||done==nil": "norecord:", "groupInSync&&shareInSync": "insync:",
				"group!=nil&&group.TransitionTime>done.FinalGroup.TransitionTime": "newer:",
				"done.FinalGroup.Find(bp.priv.Public)==nil": "out:", "group==nil&&shareErr!=nil": "nofiles:", "err!=nil": "err:"},
			required: []string{"dkg.LastCompleted", "store.LoadGroup", "store.LoadShare", "out:store.Reset", "store.SaveGroup", "store.SaveShare"}})
		want := []string{"dkg.LastCompleted", "norecord:return", "store.LoadGroup", "store.LoadShare", "group.PublicKey.Equal",
			"share.Public.Equal", "insync:return", "newer:return", "FinalGroup.Find", "out:nofiles:return", "out:store.Reset", "out:return",
			"store.SaveGroup", "err:return", "store.SaveShare", "return"}
		if strings.Join(recSeq, " ; ") != strings.Join(want, " ; ") {
			die("internal/core:DrandDaemon.reconcileKeyFiles: shape not recognised: %v", recSeq)
		}
		rfd := findFunc("internal/core", "DrandDaemon", "reconcileKeyFiles")
		for _, nm := range []string{"distKey", "groupInSync", "shareInSync"} {
			recDefs = append(recDefs, nm+":="+singleDefinition(rfd, nm))
		}
		wantDefs := []string{"distKey:=done.FinalGroup.PublicKey",
			"groupInSync:=group!=nil&&group.PublicKey!=nil&&group.PublicKey.Equal(distKey)",
			"shareInSync:=shareErr==nil&&share.Public().Equal(distKey)"}
		if strings.Join(recDefs, " ; ") != strings.Join(wantDefs, " ; ") {
			die("internal/core:DrandDaemon.reconcileKeyFiles: in-sync tests not recognised: %v", recDefs)
		}
		// dkg.Process.LastCompleted only reads the finished record
		lastCompleted = persistSeq(persistSpec{lean: "dkgLastCompletedPersist", dir: "internal/dkg", recv: "Process", fn: "LastCompleted",
			vocab: map[string]string{"d.store.GetFinished": "store.GetFinished"}, strict: []string{"d.store.", "d.completedDKGs."},
			required: []string{"store.GetFinished"}})
	default:
		die("internal/core:DrandDaemon.LoadBeaconFromStore: start-up path not recognised (neither the as-is nor the reconciling shape): %v", lbfs)
	}
	l.pf("/-- internal/core: `DrandDaemon.LoadBeaconFromStore` — persistence-relevant calls in evaluation order -/\ndef loadBeaconFromStorePersist : List String := %s\n", leanStrList(lbfs))
	l.pf("/-- which of the two recognised start-up paths the tree has: \"asIs\" (straight to `bp.Load`) or \"reconcile\" (with a completed DKG\nrecord `reconcileKeyFiles` makes the key folder agree with it before `bp.Load`) -/\n")
	l.pf("def startupVariant : String := %s\n", leanStr(startVariant))
	l.pf("/-- internal/core: `DrandDaemon.reconcileKeyFiles` — calls and returns in evaluation order, tagged with their branch (empty: the tree has no such function) -/\ndef reconcileKeyFilesPersist : List String := %s\n", leanStrList(recSeq))
	l.pf("/-- the defining expressions of its in-sync tests -/\ndef reconcileInSync : List String := %s\n", leanStrList(recDefs))
	l.pf("/-- internal/dkg: `Process.LastCompleted` — store calls -/\ndef dkgLastCompletedPersist : List String := %s\n", leanStrList(lastCompleted))
	emit(persistSpec{lean: "callbackStorePutPersist", dir: "internal/chain/beacon", recv: "callbackStore", fn: "Put",
		vocab: map[string]string{"c.Store.Put": "Store.Put"}, sends: map[string]string{"j": "dispatch"},
		strict: []string{"c.Store."}, ifTags: map[string]string{"err!=nil": "err:", "b.Round!=0": ""}, required: []string{"Store.Put", "dispatch"}})
	emit(persistSpec{lean: "newHandlerPersist", dir: "internal/chain/beacon", recv: "", fn: "NewHandler",
		vocab: map[string]string{"conf.Group.Find": "group.Find", "s.Put": "store.Put", "chain.GenesisBeacon": "GenesisBeacon", "newChainStore": "newChainStore"},
		strict: []string{"s."}, required: []string{"group.Find", "store.Put", "newChainStore"}})
	// bbolt is opened with default options (nil): every commit is fsync'ed; nobody switches syncing off
	l.pf("/-- third argument of every `bolt.Open` call in NewDKGStore / newTrimmedStore / NewBoltStore -/\n")
	var opts []string
	opts = append(opts, boltOpenOptions("internal/dkg", "", "NewDKGStore")...)
	opts = append(opts, boltOpenOptions("internal/chain/boltdb", "", "newTrimmedStore")...)
	opts = append(opts, boltOpenOptions("internal/chain/boltdb", "", "NewBoltStore")...)
	l.pf("def boltOpenOptions : List String := %s\n", leanStrList(opts))
	l.pf("/-- assignments to NoSync / NoGrowSync / NoFreelistSync in internal/dkg and internal/chain/boltdb -/\n")
	l.pf("def boltNoSyncAssignments : Nat := %d\n",
		countAssignmentsTo("internal/dkg", "NoSync", "NoGrowSync", "NoFreelistSync")+countAssignmentsTo("internal/chain/boltdb", "NoSync", "NoGrowSync", "NoFreelistSync"))
	_ = token.NoPos
	l.pf("end Gen\n")
}
