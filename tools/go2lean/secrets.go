package main

// C15 facts: who reads secret key material, where it could be formatted, and how the files that hold it are created.
//
// Everything here is syntactic (go/ast) plus a deliberately small amount of type knowledge:
// struct/interface/function tables of the repo's own packages and a hand-written table for the few
// kyber types involved. The analysis over-approximates: a selection of a sensitive field name on an
// expression whose type cannot be resolved is reported as a read.

import (
	"go/ast"
	"go/token"
	"os"
	"path/filepath"
	"regexp"
	"sort"
	"strconv"
	"strings"
)

const modPath = "github.com/drand/drand/v2"
const kyberP = "github.com/drand/kyber"

// ---------------------------------------------------------------------------------------------
// package tables

type pkgTab struct {
	dir, path string
	files     []*ast.File
	imports   map[*ast.File]map[string]string // alias -> import path
	structs   map[string]*ast.StructType
	ifaces    map[string]*ast.InterfaceType
	named     map[string]ast.Expr // other named types -> underlying type expr
	typeFile  map[string]*ast.File
	funcs     map[string]*ast.FuncDecl
	methods   map[string]map[string]*ast.FuncDecl
	vars      map[string]*ast.ValueSpec
	varFile   map[string]*ast.File
}

var pkgs = map[string]*pkgTab{} // by import path

var versionElem = regexp.MustCompile(`^v[0-9]+$`)

func defaultAlias(p string) string {
	parts := strings.Split(p, "/")
	last := parts[len(parts)-1]
	if versionElem.MatchString(last) && len(parts) > 1 {
		last = parts[len(parts)-2]
	}
	return strings.TrimPrefix(last, "go-")
}

func loadPkg(dir string) *pkgTab {
	p := modPath + "/" + dir
	if t, ok := pkgs[p]; ok {
		return t
	}
	t := &pkgTab{dir: dir, path: p, files: load(dir), imports: map[*ast.File]map[string]string{},
		structs: map[string]*ast.StructType{}, ifaces: map[string]*ast.InterfaceType{}, named: map[string]ast.Expr{},
		typeFile: map[string]*ast.File{}, funcs: map[string]*ast.FuncDecl{}, methods: map[string]map[string]*ast.FuncDecl{},
		vars: map[string]*ast.ValueSpec{}, varFile: map[string]*ast.File{}}
	pkgs[p] = t
	for _, f := range t.files {
		im := map[string]string{}
		for _, is := range f.Imports {
			ip, _ := strconv.Unquote(is.Path.Value)
			a := defaultAlias(ip)
			if is.Name != nil {
				a = is.Name.Name
			}
			im[a] = ip
		}
		t.imports[f] = im
		for _, d := range f.Decls {
			switch x := d.(type) {
			case *ast.GenDecl:
				for _, s := range x.Specs {
					switch sp := s.(type) {
					case *ast.TypeSpec:
						t.typeFile[sp.Name.Name] = f
						switch ty := sp.Type.(type) {
						case *ast.StructType:
							t.structs[sp.Name.Name] = ty
						case *ast.InterfaceType:
							t.ifaces[sp.Name.Name] = ty
						default:
							t.named[sp.Name.Name] = sp.Type
						}
					case *ast.ValueSpec:
						for _, n := range sp.Names {
							t.vars[n.Name] = sp
							t.varFile[n.Name] = f
						}
					}
				}
			case *ast.FuncDecl:
				if x.Recv == nil {
					t.funcs[x.Name.Name] = x
				} else if len(x.Recv.List) == 1 {
					r := baseTypeName(x.Recv.List[0].Type)
					if t.methods[r] == nil {
						t.methods[r] = map[string]*ast.FuncDecl{}
					}
					t.methods[r][x.Name.Name] = x
				}
			}
		}
	}
	return t
}

// scopeDirs lists the package directories whose code can emit bytes from a running node.
func scopeDirs() []string {
	var out []string
	for _, top := range []string{"common", "crypto", "internal", "handler"} {
		root := filepath.Join(repo, top)
		_ = filepath.Walk(root, func(p string, info os.FileInfo, err error) error {
			if err != nil || !info.IsDir() {
				return nil
			}
			rel, _ := filepath.Rel(repo, p)
			rel = filepath.ToSlash(rel)
			if rel == "internal/test" || rel == "internal/drand-cli" || rel == "internal/verifh" ||
				strings.HasPrefix(rel, "internal/test/") || strings.HasPrefix(rel, "internal/drand-cli/") {
				return filepath.SkipDir
			}
			ents, _ := os.ReadDir(p)
			for _, e := range ents {
				n := e.Name()
				if strings.HasSuffix(n, ".go") && !strings.HasSuffix(n, "_test.go") && !strings.HasPrefix(n, "zz_verif") {
					out = append(out, rel)
					break
				}
			}
			return nil
		})
	}
	sort.Strings(out)
	if len(out) < 10 {
		die("secrets: only %d package directories found under common/ crypto/ internal/ handler/", len(out))
	}
	return out
}

// ---------------------------------------------------------------------------------------------
// types as strings: "path.Name", "*T", "[]T", "map[K]V", "chan T", basic names, "" = unknown

func deref(t string) string { return strings.TrimPrefix(t, "*") }

func elemOf(t string) string {
	t = deref(t)
	switch {
	case strings.HasPrefix(t, "[]"):
		return t[2:]
	case strings.HasPrefix(t, "chan "):
		return t[5:]
	case strings.HasPrefix(t, "map["):
		depth := 0
		for i, c := range t {
			if c == '[' {
				depth++
			} else if c == ']' {
				depth--
				if depth == 0 {
					return t[i+1:]
				}
			}
		}
	}
	return ""
}

var basicTypes = map[string]bool{"string": true, "int": true, "int64": true, "uint64": true, "uint32": true, "int32": true,
	"bool": true, "byte": true, "error": true, "uint": true, "float64": true, "uint8": true, "uint16": true, "int8": true,
	"int16": true, "float32": true, "any": true, "rune": true, "uintptr": true}

func (t *pkgTab) typeExpr(f *ast.File, e ast.Expr) string {
	switch x := e.(type) {
	case nil:
		return ""
	case *ast.Ident:
		if basicTypes[x.Name] {
			return x.Name
		}
		if _, ok := t.typeFile[x.Name]; ok {
			return t.path + "." + x.Name
		}
		return ""
	case *ast.SelectorExpr:
		if id, ok := x.X.(*ast.Ident); ok {
			if ip, ok := t.imports[f][id.Name]; ok {
				return ip + "." + x.Sel.Name
			}
		}
		return ""
	case *ast.StarExpr:
		in := t.typeExpr(f, x.X)
		if in == "" {
			return ""
		}
		return "*" + in
	case *ast.ArrayType:
		in := t.typeExpr(f, x.Elt)
		if in == "" {
			return ""
		}
		return "[]" + in
	case *ast.Ellipsis:
		in := t.typeExpr(f, x.Elt)
		if in == "" {
			return ""
		}
		return "[]" + in
	case *ast.MapType:
		return "map[" + t.typeExpr(f, x.Key) + "]" + t.typeExpr(f, x.Value)
	case *ast.ChanType:
		in := t.typeExpr(f, x.Value)
		if in == "" {
			return ""
		}
		return "chan " + in
	case *ast.ParenExpr:
		return t.typeExpr(f, x.X)
	case *ast.IndexExpr: // generic instantiation: keep the base type
		return t.typeExpr(f, x.X)
	case *ast.InterfaceType:
		return "any"
	}
	return ""
}

// knowledge about the kyber types that carry or produce secret scalars (kyber is outside /repo)
var extFields = map[string]map[string]string{
	kyberP + "/share/dkg.DistKeyShare": {"Share": "*" + kyberP + "/share.PriShare", "Commits": "[]" + kyberP + ".Point"},
	kyberP + "/share.PriShare":         {"I": "int", "V": kyberP + ".Scalar"},
	kyberP + "/share/dkg.Result":       {"Key": "*" + kyberP + "/share/dkg.DistKeyShare", "QUAL": "[]" + kyberP + "/share/dkg.Node"},
	kyberP + "/share/dkg.OptionResult": {"Result": "*" + kyberP + "/share/dkg.Result", "Error": "error"},
	kyberP + "/share/dkg.Node":         {"Index": "uint32", "Public": kyberP + ".Point"},
	kyberP + "/share/dkg.Config": {"Longterm": kyberP + ".Scalar", "Share": "*" + kyberP + "/share/dkg.DistKeyShare",
		"OldNodes": "[]" + kyberP + "/share/dkg.Node", "NewNodes": "[]" + kyberP + "/share/dkg.Node", "Threshold": "int", "OldThreshold": "int",
		"Nonce": "[]byte", "PublicCoeffs": "[]" + kyberP + ".Point"},
	kyberP + "/share/dkg.Justification": {"ShareIndex": "uint32", "Share": kyberP + ".Scalar"},
	kyberP + "/share/dkg.Deal":          {"ShareIndex": "uint32", "EncryptedShare": "[]byte"},
	kyberP + "/share/dkg.Response":      {"DealerIndex": "uint32", "Status": "bool"},
}
var extMethods = map[string]map[string][]string{
	kyberP + ".Group":  {"Scalar": {kyberP + ".Scalar"}, "Point": {kyberP + ".Point"}},
	kyberP + ".Scalar": {"Pick": {kyberP + ".Scalar"}, "Clone": {kyberP + ".Scalar"}, "Set": {kyberP + ".Scalar"}, "SetInt64": {kyberP + ".Scalar"}, "Zero": {kyberP + ".Scalar"}, "One": {kyberP + ".Scalar"}, "Add": {kyberP + ".Scalar"}, "Sub": {kyberP + ".Scalar"}, "Neg": {kyberP + ".Scalar"}, "Mul": {kyberP + ".Scalar"}, "Div": {kyberP + ".Scalar"}, "Inv": {kyberP + ".Scalar"}, "SetBytes": {kyberP + ".Scalar"}, "String": {"string"}, "MarshalBinary": {"[]byte", "error"}},
	kyberP + ".Point":  {"Mul": {kyberP + ".Point"}, "Pick": {kyberP + ".Point"}, "Base": {kyberP + ".Point"}, "Null": {kyberP + ".Point"}, "Add": {kyberP + ".Point"}, "Clone": {kyberP + ".Point"}, "String": {"string"}, "MarshalBinary": {"[]byte", "error"}},
}

// types whose *value* is (or directly contains) a secret scalar
var secretTypes = map[string]bool{
	kyberP + ".Scalar":                 true,
	kyberP + "/share.PriShare":         true,
	kyberP + "/share/dkg.DistKeyShare": true,
	kyberP + "/share/dkg.Result":       true,
	modPath + "/common/key.Pair":       true,
	modPath + "/common/key.Share":      true,
	modPath + "/common/key.PairTOML":   true,
	modPath + "/common/key.ShareTOML":  true,
}

// (struct type, field) pairs that are secret although the field type is not a secret type (hex mirrors)
var secretFieldsByName = map[string]bool{
	modPath + "/common/key.PairTOML.Key":    true,
	modPath + "/common/key.ShareTOML.Share": true,
}

// field names that are sensitive whatever the type of the value they are selected on
var alwaysSensitive = map[string]bool{"KeyShare": true, "DistKeyShare": true, "Longterm": true}

// field names for which an unresolvable receiver type is reported as a read
var sensitiveNames = map[string]bool{"Key": true, "Share": true, "V": true}

func pkgOfType(t string) (*pkgTab, string) {
	t = deref(t)
	i := strings.LastIndex(t, ".")
	if i < 0 {
		return nil, ""
	}
	p, n := t[:i], t[i+1:]
	if !strings.HasPrefix(p, modPath+"/") {
		return nil, n
	}
	dir := strings.TrimPrefix(p, modPath+"/")
	if st, err := os.Stat(filepath.Join(repo, dir)); err != nil || !st.IsDir() {
		return nil, n
	}
	return loadPkg(dir), n
}

// fieldType looks a field up in a struct (following embedded fields). known=false: the type's fields are not known.
func fieldType(t string, field string, depth int) (ft string, known bool, found bool) {
	t = deref(t)
	if depth > 4 {
		return "", false, false
	}
	if fs, ok := extFields[t]; ok {
		ft, found = fs[field]
		return ft, true, found
	}
	pt, name := pkgOfType(t)
	if pt == nil {
		return "", false, false
	}
	st, ok := pt.structs[name]
	if !ok {
		if und, ok := pt.named[name]; ok {
			return fieldType(pt.typeExpr(pt.typeFile[name], und), field, depth+1)
		}
		if _, ok := pt.ifaces[name]; ok {
			return "", true, false // interfaces have no fields
		}
		return "", false, false
	}
	f := pt.typeFile[name]
	allKnown := true
	for _, fl := range st.Fields.List {
		ty := pt.typeExpr(f, fl.Type)
		for _, n := range fl.Names {
			if n.Name == field {
				return ty, true, true
			}
		}
		if len(fl.Names) == 0 { // embedded
			if baseTypeName(fl.Type) == field {
				return ty, true, true
			}
		}
	}
	for _, fl := range st.Fields.List {
		if len(fl.Names) == 0 {
			ty := pt.typeExpr(f, fl.Type)
			r, k, fnd := fieldType(ty, field, depth+1)
			if fnd {
				return r, true, true
			}
			if !k {
				allKnown = false
			}
		}
	}
	return "", allKnown, false
}

func methodResults(t string, name string, depth int) ([]string, bool) {
	t = deref(t)
	if depth > 4 {
		return nil, false
	}
	if ms, ok := extMethods[t]; ok {
		r, ok := ms[name]
		return r, ok
	}
	pt, tn := pkgOfType(t)
	if pt == nil {
		return nil, false
	}
	if fd, ok := pt.methods[tn][name]; ok {
		return pt.resultTypes(fileOf(pt, fd), fd.Type), true
	}
	if it, ok := pt.ifaces[tn]; ok {
		f := pt.typeFile[tn]
		for _, m := range it.Methods.List {
			if ft, ok := m.Type.(*ast.FuncType); ok {
				for _, n := range m.Names {
					if n.Name == name {
						return pt.resultTypes(f, ft), true
					}
				}
			} else { // embedded interface
				if r, ok := methodResults(pt.typeExpr(f, m.Type), name, depth+1); ok {
					return r, true
				}
			}
		}
		return nil, false
	}
	if st, ok := pt.structs[tn]; ok {
		f := pt.typeFile[tn]
		for _, fl := range st.Fields.List {
			if len(fl.Names) == 0 {
				if r, ok := methodResults(pt.typeExpr(f, fl.Type), name, depth+1); ok {
					return r, true
				}
			}
		}
	}
	return nil, false
}

func fileOf(pt *pkgTab, n ast.Node) *ast.File {
	for _, f := range pt.files {
		if f.Pos() <= n.Pos() && n.Pos() < f.End() {
			return f
		}
	}
	die("secrets: node not in any file of %s", pt.dir)
	return nil
}

func (t *pkgTab) resultTypes(f *ast.File, ft *ast.FuncType) []string {
	var out []string
	if ft.Results == nil {
		return out
	}
	for _, r := range ft.Results.List {
		ty := t.typeExpr(f, r.Type)
		n := len(r.Names)
		if n == 0 {
			n = 1
		}
		for i := 0; i < n; i++ {
			out = append(out, ty)
		}
	}
	return out
}

// ---------------------------------------------------------------------------------------------
// per-function analysis

type fnCtx struct {
	pt   *pkgTab
	f    *ast.File
	fd   *ast.FuncDecl
	name string
	env  map[string]string // identifier -> type ("" = unknown, "?" = conflicting)
}

func (c *fnCtx) bind(name, ty string) {
	if name == "_" || name == "" {
		return
	}
	if old, ok := c.env[name]; ok && old != ty {
		if old == "" {
			c.env[name] = ty
			return
		}
		if ty == "" {
			return
		}
		c.env[name] = "?"
		return
	}
	c.env[name] = ty
}

func (c *fnCtx) bindFields(fl *ast.FieldList) {
	if fl == nil {
		return
	}
	for _, p := range fl.List {
		ty := c.pt.typeExpr(c.f, p.Type)
		for _, n := range p.Names {
			c.bind(n.Name, ty)
		}
	}
}

// typeOfMulti returns the types of a (possibly multi-valued) expression.
func (c *fnCtx) typeOfMulti(e ast.Expr) []string {
	if call, ok := e.(*ast.CallExpr); ok {
		return c.callTypes(call)
	}
	if ta, ok := e.(*ast.TypeAssertExpr); ok {
		return []string{c.pt.typeExpr(c.f, ta.Type), "bool"}
	}
	if ix, ok := e.(*ast.IndexExpr); ok {
		return []string{c.typeOf(ix), "bool"}
	}
	if u, ok := e.(*ast.UnaryExpr); ok && u.Op == token.ARROW {
		return []string{c.typeOf(u), "bool"}
	}
	return []string{c.typeOf(e)}
}

func (c *fnCtx) callTypes(call *ast.CallExpr) []string {
	switch fn := call.Fun.(type) {
	case *ast.Ident:
		switch fn.Name {
		case "new":
			if len(call.Args) == 1 {
				if t := c.pt.typeExpr(c.f, call.Args[0]); t != "" {
					return []string{"*" + t}
				}
			}
			return []string{""}
		case "make":
			if len(call.Args) >= 1 {
				return []string{c.pt.typeExpr(c.f, call.Args[0])}
			}
		case "append":
			if len(call.Args) >= 1 {
				return []string{c.typeOf(call.Args[0])}
			}
		case "len", "cap", "copy":
			return []string{"int"}
		case "string":
			return []string{"string"}
		}
		if basicTypes[fn.Name] {
			return []string{fn.Name}
		}
		if fd, ok := c.pt.funcs[fn.Name]; ok {
			return c.pt.resultTypes(fileOf(c.pt, fd), fd.Type)
		}
		if _, ok := c.pt.typeFile[fn.Name]; ok { // conversion
			return []string{c.pt.path + "." + fn.Name}
		}
		return []string{""}
	case *ast.SelectorExpr:
		if id, ok := fn.X.(*ast.Ident); ok {
			if _, shadow := c.env[id.Name]; !shadow {
				if ip, ok := c.pt.imports[c.f][id.Name]; ok {
					if strings.HasPrefix(ip, modPath+"/") {
						dir := strings.TrimPrefix(ip, modPath+"/")
						if st, err := os.Stat(filepath.Join(repo, dir)); err == nil && st.IsDir() {
							op := loadPkg(dir)
							if fd, ok := op.funcs[fn.Sel.Name]; ok {
								return op.resultTypes(fileOf(op, fd), fd.Type)
							}
							if _, ok := op.typeFile[fn.Sel.Name]; ok {
								return []string{ip + "." + fn.Sel.Name}
							}
						}
					}
					return []string{""}
				}
			}
		}
		rt := c.typeOf(fn.X)
		if rt == "" || rt == "?" {
			return []string{""}
		}
		if r, ok := methodResults(rt, fn.Sel.Name, 0); ok {
			return r
		}
		// a struct field of function type
		return []string{""}
	case *ast.ArrayType, *ast.StarExpr, *ast.ParenExpr, *ast.MapType:
		return []string{c.pt.typeExpr(c.f, fn)}
	}
	return []string{""}
}

func (c *fnCtx) typeOf(e ast.Expr) string {
	switch x := e.(type) {
	case *ast.Ident:
		if t, ok := c.env[x.Name]; ok {
			return t
		}
		if vs, ok := c.pt.vars[x.Name]; ok && vs.Type != nil {
			return c.pt.typeExpr(c.pt.varFile[x.Name], vs.Type)
		}
		if x.Name == "nil" || x.Name == "true" || x.Name == "false" {
			return "basic"
		}
		return ""
	case *ast.BasicLit:
		return "basic"
	case *ast.ParenExpr:
		return c.typeOf(x.X)
	case *ast.StarExpr:
		return deref(c.typeOf(x.X))
	case *ast.UnaryExpr:
		in := c.typeOf(x.X)
		if in == "" || in == "?" {
			return in
		}
		switch x.Op {
		case token.AND:
			return "*" + in
		case token.ARROW:
			return elemOf(in)
		}
		return in
	case *ast.CompositeLit:
		return c.pt.typeExpr(c.f, x.Type)
	case *ast.CallExpr:
		r := c.callTypes(x)
		if len(r) > 0 {
			return r[0]
		}
		return ""
	case *ast.TypeAssertExpr:
		return c.pt.typeExpr(c.f, x.Type)
	case *ast.IndexExpr:
		in := c.typeOf(x.X)
		if in == "" || in == "?" {
			return in
		}
		return elemOf(in)
	case *ast.SliceExpr:
		return c.typeOf(x.X)
	case *ast.BinaryExpr:
		return "basic"
	case *ast.FuncLit:
		return "func"
	case *ast.SelectorExpr:
		if id, ok := x.X.(*ast.Ident); ok {
			if _, shadow := c.env[id.Name]; !shadow {
				if _, ok := c.pt.imports[c.f][id.Name]; ok {
					return "" // package-level identifier of another package
				}
			}
		}
		rt := c.typeOf(x.X)
		if rt == "" || rt == "?" {
			return ""
		}
		ft, _, found := fieldType(rt, x.Sel.Name, 0)
		if found {
			return ft
		}
		return ""
	}
	return ""
}

// secretSelection reports whether the selector expression reads secret material (or might).
func (c *fnCtx) secretSelection(x *ast.SelectorExpr) (bool, string) {
	name := x.Sel.Name
	if id, ok := x.X.(*ast.Ident); ok {
		if _, shadow := c.env[id.Name]; !shadow {
			if _, ok := c.pt.imports[c.f][id.Name]; ok {
				return false, "" // pkg.Name
			}
		}
	}
	if alwaysSensitive[name] {
		return true, name
	}
	rt := c.typeOf(x.X)
	if rt == "basic" || rt == "func" {
		return false, ""
	}
	if rt == "" || rt == "?" {
		if sensitiveNames[name] {
			return true, name + "(unresolved receiver " + exprString(x.X) + ")"
		}
		return false, ""
	}
	base := deref(rt)
	if secretFieldsByName[base+"."+name] {
		return true, name
	}
	ft, known, found := fieldType(rt, name, 0)
	if found {
		if secretTypes[deref(ft)] && !holderOnly(deref(ft)) {
			return true, name
		}
		return false, ""
	}
	if !known && sensitiveNames[name] {
		return true, name + "(fields of " + base + " unknown)"
	}
	return false, ""
}

// key.Pair / key.Share values are handles: passing them around is not a read of the scalar,
// selecting the scalar-bearing field out of them is.
func holderOnly(t string) bool {
	return t == modPath+"/common/key.Pair" || t == modPath+"/common/key.Share"
}

func (c *fnCtx) bindAssign(lhs []ast.Expr, rhs []ast.Expr) {
	var tys []string
	if len(rhs) == 1 && len(lhs) > 1 {
		tys = c.typeOfMulti(rhs[0])
	} else {
		for _, r := range rhs {
			tys = append(tys, c.typeOf(r))
		}
	}
	for i, l := range lhs {
		id, ok := l.(*ast.Ident)
		if !ok {
			continue
		}
		ty := ""
		if i < len(tys) {
			ty = tys[i]
		}
		if ty == "basic" {
			ty = "int"
		}
		c.bind(id.Name, ty)
	}
}

// collectEnv: two passes over the body so that uses before (textually) later definitions in closures resolve.
func (c *fnCtx) collectEnv() {
	for pass := 0; pass < 2; pass++ {
		ast.Inspect(c.fd.Body, func(n ast.Node) bool {
			switch s := n.(type) {
			case *ast.AssignStmt:
				if s.Tok == token.DEFINE {
					c.bindAssign(s.Lhs, s.Rhs)
				}
			case *ast.DeclStmt:
				if gd, ok := s.Decl.(*ast.GenDecl); ok && gd.Tok == token.VAR {
					for _, sp := range gd.Specs {
						vs := sp.(*ast.ValueSpec)
						if vs.Type != nil {
							ty := c.pt.typeExpr(c.f, vs.Type)
							for _, nm := range vs.Names {
								c.bind(nm.Name, ty)
							}
						} else {
							lhs := make([]ast.Expr, len(vs.Names))
							for i, nm := range vs.Names {
								lhs[i] = nm
							}
							c.bindAssign(lhs, vs.Values)
						}
					}
				}
			case *ast.RangeStmt:
				if s.Tok == token.DEFINE {
					xt := c.typeOf(s.X)
					if k, ok := s.Key.(*ast.Ident); ok {
						kt := "int"
						if strings.HasPrefix(deref(xt), "map[") {
							kt = ""
						}
						if strings.HasPrefix(deref(xt), "chan ") {
							kt = elemOf(xt)
						}
						c.bind(k.Name, kt)
					}
					if v, ok := s.Value.(*ast.Ident); ok {
						et := ""
						if xt != "" && xt != "?" {
							et = elemOf(xt)
						}
						c.bind(v.Name, et)
					}
				}
			case *ast.FuncLit:
				c.bindFields(s.Type.Params)
				c.bindFields(s.Type.Results)
			case *ast.TypeSwitchStmt:
				// `switch v := x.(type)`: v has a different type per clause -> unknown
				if as, ok := s.Assign.(*ast.AssignStmt); ok {
					if id, ok := as.Lhs[0].(*ast.Ident); ok {
						c.env[id.Name] = "?"
					}
				}
			}
			return true
		})
	}
}

var sinkNames = map[string]bool{"Debugw": true, "Infow": true, "Warnw": true, "Errorw": true, "Fatalw": true, "Panicw": true,
	"Debug": true, "Info": true, "Warn": true, "Error": true, "Fatal": true, "Panic": true, "With": true,
	"Sprintf": true, "Printf": true, "Errorf": true, "Sprint": true, "Println": true, "Print": true, "Fprintf": true,
	"Fprintln": true, "Fprint": true, "Sprintln": true, "Wrapf": true, "Wrap": true, "Fatalf": true, "Panicf": true,
	"Debugf": true, "Infof": true, "Warnf": true, "New": false, "SetAttributes": true, "RecordError": false,
	"String": false, "Any": true, "Stringer": true, "Reflect": true, "Sprintw": true, "WriteString": true}

// secretExpr: does evaluating e yield (or format) secret material?
func (c *fnCtx) secretExpr(e ast.Expr) bool {
	switch x := e.(type) {
	case nil:
		return false
	case *ast.SelectorExpr:
		if s, _ := c.secretSelection(x); s {
			return true
		}
		t := c.typeOf(x)
		if t != "" && t != "?" {
			return secretTypes[deref(t)]
		}
		// unknown result type: secret if what it is selected from is secret
		if id, ok := x.X.(*ast.Ident); ok {
			if _, shadow := c.env[id.Name]; !shadow {
				if _, ok := c.pt.imports[c.f][id.Name]; ok {
					return false
				}
			}
		}
		xt := c.typeOf(x.X)
		return xt != "" && xt != "?" && secretTypes[deref(xt)] && !fieldKnownPublic(xt, x.Sel.Name)
	case *ast.Ident:
		t := c.typeOf(x)
		return secretTypes[deref(t)]
	case *ast.CallExpr:
		if sel, ok := x.Fun.(*ast.SelectorExpr); ok {
			if sel.Sel.Name == "PrivateShare" {
				return true
			}
			if c.secretRecv(sel.X) {
				return true
			}
		}
		if fname := calleeName(x); fname == "ScalarToString" {
			return true
		}
		for _, a := range x.Args {
			if c.secretExpr(a) {
				return true
			}
		}
		t := c.typeOf(x)
		return secretTypes[deref(t)]
	case *ast.ParenExpr:
		return c.secretExpr(x.X)
	case *ast.StarExpr:
		return c.secretExpr(x.X)
	case *ast.UnaryExpr:
		return c.secretExpr(x.X)
	case *ast.BinaryExpr:
		return c.secretExpr(x.X) || c.secretExpr(x.Y)
	case *ast.IndexExpr:
		return c.secretExpr(x.X)
	case *ast.SliceExpr:
		return c.secretExpr(x.X)
	case *ast.TypeAssertExpr:
		return c.secretExpr(x.X) || secretTypes[deref(c.pt.typeExpr(c.f, x.Type))]
	case *ast.CompositeLit:
		for _, el := range x.Elts {
			if kv, ok := el.(*ast.KeyValueExpr); ok {
				if c.secretExpr(kv.Value) {
					return true
				}
			} else if c.secretExpr(el) {
				return true
			}
		}
		return secretTypes[deref(c.pt.typeExpr(c.f, x.Type))]
	}
	return false
}

// secretRecv: a method is called on this expression; is the receiver itself a scalar-level secret
// (p.Key.String(), share.Share.V.MarshalBinary(), …)? Methods on the handles key.Pair / key.Share are not.
func (c *fnCtx) secretRecv(e ast.Expr) bool {
	if s, ok := e.(*ast.SelectorExpr); ok {
		if r, _ := c.secretSelection(s); r {
			return true
		}
	}
	t := deref(c.typeOf(e))
	if t == "" || t == "?" {
		if _, ok := e.(*ast.Ident); ok {
			return false
		}
		return c.secretExpr(e)
	}
	return secretTypes[t] && !holderOnly(t)
}

func fieldKnownPublic(t, field string) bool {
	ft, _, found := fieldType(t, field, 0)
	return found && ft != "" && !secretTypes[deref(ft)]
}

func calleeName(call *ast.CallExpr) string {
	switch fn := call.Fun.(type) {
	case *ast.Ident:
		return fn.Name
	case *ast.SelectorExpr:
		return fn.Sel.Name
	}
	return ""
}

func funcName(pt *pkgTab, fd *ast.FuncDecl) string {
	n := fd.Name.Name
	if fd.Recv != nil && len(fd.Recv.List) == 1 {
		n = baseTypeName(fd.Recv.List[0].Type) + "." + n
	}
	return pt.dir + ":" + n
}

type secretFacts struct {
	readers map[string][]string // function -> what it reads
	sinks   []string
	nFuncs  int
}

func analyseSecrets() *secretFacts {
	out := &secretFacts{readers: map[string][]string{}}
	for _, dir := range scopeDirs() {
		pt := loadPkg(dir)
		for _, f := range pt.files {
			for _, d := range f.Decls {
				fd, ok := d.(*ast.FuncDecl)
				if !ok || fd.Body == nil {
					continue
				}
				out.nFuncs++
				c := &fnCtx{pt: pt, f: f, fd: fd, name: funcName(pt, fd), env: map[string]string{}}
				c.bindFields(fd.Recv)
				c.bindFields(fd.Type.Params)
				c.bindFields(fd.Type.Results)
				c.collectEnv()
				seen := map[string]bool{}
				ast.Inspect(fd.Body, func(n ast.Node) bool {
					switch x := n.(type) {
					case *ast.SelectorExpr:
						if s, what := c.secretSelection(x); s && !seen[what] {
							seen[what] = true
							out.readers[c.name] = append(out.readers[c.name], what)
						}
					case *ast.CallExpr:
						if sel, ok := x.Fun.(*ast.SelectorExpr); ok && sel.Sel.Name == "PrivateShare" && !seen["PrivateShare()"] {
							seen["PrivateShare()"] = true
							out.readers[c.name] = append(out.readers[c.name], "PrivateShare()")
						}
						if sinkNames[calleeName(x)] {
							for i, a := range x.Args {
								if c.secretExpr(a) {
									out.sinks = append(out.sinks, c.name+" -> "+exprString(x.Fun)+" arg "+strconv.Itoa(i)+": "+exprString(a))
								}
							}
						}
					}
					return true
				})
			}
		}
	}
	sort.Strings(out.sinks)
	return out
}

// ---------------------------------------------------------------------------------------------
// file creation facts

func constString(dir, name string) string {
	s, err := strconv.Unquote(constStr(dir, name))
	if err != nil {
		die("constant %s.%s is not a plain string", dir, name)
	}
	return s
}

// createSecureFileSteps: the exact call sequence of fs.CreateSecureFile.
func createSecureFileSteps() []string {
	fd := findFunc("internal/fs", "", "CreateSecureFile")
	if len(fd.Type.Params.List) != 1 || len(fd.Type.Params.List[0].Names) != 1 {
		die("CreateSecureFile: unexpected parameters")
	}
	file := fd.Type.Params.List[0].Names[0].Name
	// chmodFunc must be os.Chmod
	pt := loadPkg("internal/fs")
	vs, ok := pt.vars["chmodFunc"]
	if !ok || len(vs.Values) != 1 || exprString(vs.Values[0]) != "os.Chmod" {
		die("internal/fs: chmodFunc is not `= os.Chmod`")
	}
	var steps []string
	for _, st := range fd.Body.List {
		switch s := st.(type) {
		case *ast.AssignStmt:
			if len(s.Rhs) == 1 && exprString(s.Rhs[0]) == "os.Create("+file+")" && exprString(s.Lhs[0]) == "fd" {
				steps = append(steps, "create")
				continue
			}
			die("CreateSecureFile: unrecognised assignment %s", exprString(s.Rhs[0]))
		case *ast.IfStmt:
			if exprString(s.Cond) != "err!=nil" {
				die("CreateSecureFile: unrecognised condition %s", exprString(s.Cond))
			}
			if s.Init != nil {
				as, ok := s.Init.(*ast.AssignStmt)
				if !ok || len(as.Rhs) != 1 {
					die("CreateSecureFile: unrecognised if-init")
				}
				call := exprString(as.Rhs[0])
				if strings.HasPrefix(call, "chmodFunc("+file+",") {
					steps = append(steps, "chmod:"+exprString(as.Rhs[0].(*ast.CallExpr).Args[1]))
				} else {
					die("CreateSecureFile: unrecognised call %s", call)
				}
			}
			// the error branch must return
			if len(s.Body.List) == 0 {
				die("CreateSecureFile: empty error branch")
			}
			if _, ok := s.Body.List[len(s.Body.List)-1].(*ast.ReturnStmt); !ok {
				die("CreateSecureFile: error branch does not return")
			}
		case *ast.ExprStmt:
			if exprString(s.X) == "fd.Close()" {
				steps = append(steps, "close")
				continue
			}
			die("CreateSecureFile: unrecognised statement %s", exprString(s.X))
		case *ast.ReturnStmt:
			if len(s.Results) != 1 {
				die("CreateSecureFile: unrecognised return")
			}
			call, ok := s.Results[0].(*ast.CallExpr)
			if !ok || exprString(call.Fun) != "os.OpenFile" || len(call.Args) != 3 || exprString(call.Args[0]) != file {
				die("CreateSecureFile: returns %s", exprString(s.Results[0]))
			}
			steps = append(steps, "open:"+exprString(call.Args[1])+":"+exprString(call.Args[2]))
		default:
			die("CreateSecureFile: unsupported statement %T", st)
		}
	}
	return steps
}

// saveShape checks key.Save. Two shapes are recognised (anything else is fatal):
//
//	in place:      `if secure { fd = fs.CreateSecureFile(filePath) } else { fd = os.Create(filePath) }` … return Encode(t.TOML())
//	atomic rename: `tmpPath := filePath + tmpExtension`, the same two creators applied to tmpPath, `err = Encode(t.TOML())`,
//	               and afterwards exactly one `os.Rename(tmpPath, filePath)`; `os.Remove(tmpPath)` is the only other os call
//
// target is the text of the path the creators are applied to ("filePath" or "filePath+tmpExtension"); renamed tells
// whether the file written is moved over filePath afterwards.
func saveShape() (secureCreator, plainCreator, target string, renamed bool) {
	fd := findFunc("common/key", "", "Save")
	ps := fd.Type.Params.List
	if len(ps) != 3 || ps[0].Names[0].Name != "filePath" || ps[2].Names[0].Name != "secure" {
		die("key.Save: unexpected parameters")
	}
	// the one local that may stand for a path: tmpPath := filePath + tmpExtension
	pathVar := "filePath"
	target = "filePath"
	if len(fd.Body.List) > 0 {
		if as, ok := fd.Body.List[0].(*ast.AssignStmt); ok && as.Tok == token.DEFINE && len(as.Lhs) == 1 && len(as.Rhs) == 1 &&
			exprString(as.Lhs[0]) == "tmpPath" {
			if exprString(as.Rhs[0]) != "filePath+tmpExtension" {
				die("key.Save: tmpPath is %s, expected filePath + tmpExtension", exprString(as.Rhs[0]))
			}
			pathVar, target = "tmpPath", "filePath+tmpExtension"
		}
	}
	// tmpPath is never reassigned
	ast.Inspect(fd.Body, func(n ast.Node) bool {
		if as, ok := n.(*ast.AssignStmt); ok {
			for i, l := range as.Lhs {
				if nm := exprString(l); (nm == "tmpPath" && !(as.Tok == token.DEFINE && i == 0 && as == fd.Body.List[0])) || nm == "filePath" {
					die("key.Save: %s is assigned to", nm)
				}
			}
		}
		return true
	})
	var encodePos, ifPos, renamePos token.Pos
	for _, st := range fd.Body.List {
		ifs, ok := st.(*ast.IfStmt)
		if ok && exprString(ifs.Cond) == "secure" {
			ifPos = ifs.Pos()
			get := func(b *ast.BlockStmt) string {
				if len(b.List) != 1 {
					die("key.Save: branch with %d statements", len(b.List))
				}
				as, ok := b.List[0].(*ast.AssignStmt)
				if !ok || len(as.Rhs) != 1 || exprString(as.Lhs[0]) != "fd" {
					die("key.Save: unrecognised branch")
				}
				call, ok := as.Rhs[0].(*ast.CallExpr)
				if !ok || len(call.Args) != 1 || exprString(call.Args[0]) != pathVar {
					die("key.Save: unrecognised creator %s", exprString(as.Rhs[0]))
				}
				return exprString(call.Fun)
			}
			secureCreator = get(ifs.Body)
			eb, ok := ifs.Else.(*ast.BlockStmt)
			if !ok {
				die("key.Save: no else branch")
			}
			plainCreator = get(eb)
		}
	}
	// the encoding is written after the creator returned; in the rename shape the rename comes after the encoding
	nRename := 0
	ast.Inspect(fd.Body, func(n ast.Node) bool {
		call, ok := n.(*ast.CallExpr)
		if !ok {
			return true
		}
		f := exprString(call.Fun)
		switch {
		case strings.HasSuffix(f, ".Encode") && exprString(call) == "toml.NewEncoder(fd).Encode(t.TOML())":
			if encodePos != 0 {
				die("key.Save: more than one Encode")
			}
			encodePos = call.Pos()
		case f == "os.Rename":
			if pathVar != "tmpPath" || len(call.Args) != 2 || exprString(call.Args[0]) != "tmpPath" || exprString(call.Args[1]) != "filePath" {
				die("key.Save: unexpected %s", exprString(call))
			}
			nRename++
			renamePos = call.Pos()
		case f == "os.Remove":
			if pathVar != "tmpPath" || len(call.Args) != 1 || exprString(call.Args[0]) != "tmpPath" {
				die("key.Save: unexpected %s", exprString(call))
			}
		case strings.HasPrefix(f, "os.") && f != plainCreator:
			// nothing else in the body may create, chmod, move or remove a file
			die("key.Save: unexpected call %s", f)
		}
		return true
	})
	if secureCreator == "" || encodePos == 0 || encodePos < ifPos {
		die("key.Save: shape not recognised (creator %q, encode after create: %v)", secureCreator, encodePos > ifPos)
	}
	renamed = pathVar == "tmpPath"
	if renamed && (nRename != 1 || renamePos < encodePos) {
		die("key.Save: writes to a temporary file but does not rename it over filePath exactly once after the encoding (%d renames)", nRename)
	}
	return
}

var fileCreatorCalls = map[string]int{ // callee -> index of the mode argument (-1: none)
	"os.Create": -1, "os.OpenFile": 2, "os.WriteFile": 2, "os.CreateTemp": -1, "ioutil.WriteFile": 2, "ioutil.TempFile": -1,
	"bolt.Open": 1, "bbolt.Open": 1, "fs.CreateSecureFile": -1, "CreateSecureFile": -1, "os.Chmod": 1, "chmodFunc": 1,
	"fs.CopyFile": -1, "CopyFile": -1,
}

func genSecrets() {
	facts := analyseSecrets()
	l := newLean("Secrets")
	l.pf("namespace Gen\n")
	var names []string
	for n := range facts.readers {
		names = append(names, n)
	}
	sort.Strings(names)
	l.pf("/-- every function in common/, crypto/, internal/ (without test, drand-cli), handler/ (non-test files) whose body\n")
	l.pf("selects a secret-bearing field (`Pair.Key`, `Share.Share`, `PriShare.V`, `DistKeyShare`, `KeyShare`, kyber `Result.Key`,\n")
	l.pf("`Longterm`, the hex mirrors `PairTOML.Key` / `ShareTOML.Share`), selects `Key`/`Share`/`V` on a value whose type the\n")
	l.pf("extractor cannot resolve, or calls `PrivateShare()`. %d function bodies analysed. -/\n", facts.nFuncs)
	l.pf("def secretReaders : List String := [\n")
	for i, n := range names {
		sep := ","
		if i == len(names)-1 {
			sep = ""
		}
		l.pf("  %s%s  -- %s\n", leanStr(n), sep, strings.Join(facts.readers[n], ", "))
	}
	l.pf("]\n")
	l.pf("/-- calls to a logging / formatting / error-wrapping function with an argument that evaluates to secret material -/\n")
	l.pf("def secretSinks : List String := %s\n", leanStrList(facts.sinks))
	l.pf("def secretFunctionsAnalysed : Nat := %d\n", facts.nFuncs)

	// ---- files
	l.pf("/-- internal/fs.CreateSecureFile, statement by statement -/\ndef createSecureFileSteps : List String := %s\n", leanStrList(createSecureFileSteps()))
	sc, pc, target, renamed := saveShape()
	l.pf("/-- common/key.Save: creator used when secure = true / false; the TOML encoding is written after the creator returned -/\n")
	l.pf("def saveSecureCreator : String := %s\ndef savePlainCreator : String := %s\n", leanStr(sc), leanStr(pc))
	l.pf("/-- common/key.Save: the path the creator is applied to, and whether that file is renamed over `filePath` once the encoding\nis complete (the temporary file holds the same bytes as the target will: it is created by the same creator) -/\n")
	l.pf("def saveWritesTo : String := %s\ndef saveRenamesOverTarget : Bool := %v\n", leanStr(target), renamed)

	// Save call sites
	type site struct{ fn, path, ty, secure string }
	var sites []site
	for _, dir := range scopeDirs() {
		pt := loadPkg(dir)
		for _, f := range pt.files {
			for _, d := range f.Decls {
				fd, ok := d.(*ast.FuncDecl)
				if !ok || fd.Body == nil {
					continue
				}
				c := &fnCtx{pt: pt, f: f, fd: fd, name: funcName(pt, fd), env: map[string]string{}}
				c.bindFields(fd.Recv)
				c.bindFields(fd.Type.Params)
				c.bindFields(fd.Type.Results)
				c.collectEnv()
				ast.Inspect(fd.Body, func(n ast.Node) bool {
					call, ok := n.(*ast.CallExpr)
					if !ok {
						return true
					}
					fn := exprString(call.Fun)
					isSave := (fn == "Save" && dir == "common/key") || fn == "key.Save"
					if !isSave {
						return true
					}
					if len(call.Args) != 3 {
						die("%s: Save with %d arguments", c.name, len(call.Args))
					}
					sec := exprString(call.Args[2])
					if sec != "true" && sec != "false" {
						die("%s: Save(..., %s): secure flag is not a literal", c.name, sec)
					}
					ty := c.typeOf(call.Args[1])
					if ty == "" || ty == "?" {
						die("%s: cannot resolve the type of the value saved by Save(%s, %s, %s)", c.name, exprString(call.Args[0]), exprString(call.Args[1]), sec)
					}
					ty = strings.TrimPrefix(deref(ty), modPath+"/")
					dot := strings.LastIndex(ty, ".")
					if dot < 0 {
						die("%s: Save of a value of type %s", c.name, ty)
					}
					// the method whose output is written: <dir>:<Type>.TOML
					ty = ty[:dot] + ":" + ty[dot+1:] + ".TOML"
					sites = append(sites, site{c.name, exprString(call.Args[0]), ty, sec})
					return true
				})
			}
		}
	}
	if len(sites) == 0 {
		die("secrets: no key.Save call sites found")
	}
	l.pf("/-- every call of common/key.Save in scope: (caller, path expression, TOML method of the saved value, secure) -/\n")
	l.pf("def saveCallSites : List (String × String × String × Bool) := [\n")
	for i, s := range sites {
		sep := ","
		if i == len(sites)-1 {
			sep = ""
		}
		l.pf("  (%s, %s, %s, %s)%s\n", leanStr(s.fn), leanStr(s.path), leanStr(s.ty), s.secure, sep)
	}
	l.pf("]\n")
	// which saved types' TOML() methods read secret material
	var secretTomlers []string
	for _, n := range names {
		if strings.HasSuffix(n, ".TOML") {
			secretTomlers = append(secretTomlers, n)
		}
	}
	l.pf("/-- `TOML()` methods among the secret readers: values of these types serialise secret material -/\n")
	l.pf("def secretTomlers : List String := %s\n", leanStrList(secretTomlers))
	// file store paths
	{
		fd := findFunc("common/key", "", "NewFileStore")
		want := map[string]string{}
		ast.Inspect(fd.Body, func(n ast.Node) bool {
			as, ok := n.(*ast.AssignStmt)
			if !ok || len(as.Lhs) != 1 || len(as.Rhs) != 1 {
				return true
			}
			lhs := exprString(as.Lhs[0])
			if strings.HasPrefix(lhs, "store.") && strings.HasSuffix(lhs, "File") {
				want[strings.TrimPrefix(lhs, "store.")] = exprString(as.Rhs[0])
			}
			return true
		})
		res := func(e string) string {
			r := strings.NewReplacer("path.Join(", "", ")", "", "keyFolder", constString("common/key", "FolderName"),
				"groupFolder", constString("common/key", "GroupFolderName"), "keyFileName", constString("common/key", "keyFileName"),
				"privateExtension", constString("common/key", "privateExtension"), "publicExtension", constString("common/key", "publicExtension"),
				"groupFileName", constString("common/key", "groupFileName"), "shareFileName", constString("common/key", "shareFileName"),
				",", "/", "+", "")
			return r.Replace(e)
		}
		var ks []string
		for k := range want {
			ks = append(ks, k)
		}
		sort.Strings(ks)
		if len(ks) != 4 {
			die("NewFileStore: expected 4 file fields, found %v", ks)
		}
		l.pf("/-- common/key.NewFileStore: file field ↦ path below <folder>/<beaconID>/ -/\ndef fileStorePaths : List (String × String) := [")
		for i, k := range ks {
			if i > 0 {
				l.pf(", ")
			}
			l.pf("(%s, %s)", leanStr("f."+k), leanStr(res(want[k])))
		}
		l.pf("]\n")
	}
	// dkg store
	{
		fd := findFunc("internal/dkg", "", "NewDKGStore")
		found := ""
		dbPath := ""
		ast.Inspect(fd.Body, func(n ast.Node) bool {
			if as, ok := n.(*ast.AssignStmt); ok && len(as.Lhs) >= 1 && exprString(as.Lhs[0]) == "dbPath" {
				dbPath = exprString(as.Rhs[0])
			}
			call, ok := n.(*ast.CallExpr)
			if ok && exprString(call.Fun) == "bolt.Open" {
				if len(call.Args) != 3 || exprString(call.Args[0]) != "dbPath" {
					die("NewDKGStore: bolt.Open(%s, …)", exprString(call.Args[0]))
				}
				found = exprString(call.Args[1])
			}
			return true
		})
		if found == "" || dbPath != "path.Join(baseFolder,BoltFileName)" {
			die("NewDKGStore: open shape not recognised (perm %q, path %q)", found, dbPath)
		}
		l.pf("/-- internal/dkg.NewDKGStore: bolt.Open(path.Join(baseFolder, BoltFileName), <perm>, nil) -/\n")
		l.pf("def dkgStoreFile : String := %s\ndef dkgStoreOpenPerm : String := %s\n", leanStr(constString("internal/dkg", "BoltFileName")), leanStr(found))
		// what is written into it
		var writers []string
		pt := loadPkg("internal/dkg")
		for name, m := range pt.methods["BoltStore"] {
			usesEncode, puts := false, false
			ast.Inspect(m.Body, func(n ast.Node) bool {
				if call, ok := n.(*ast.CallExpr); ok {
					f := exprString(call.Fun)
					if f == "encodeState" {
						usesEncode = true
					}
					if strings.HasSuffix(f, ".Put") {
						puts = true
					}
				}
				return true
			})
			if puts {
				if !usesEncode {
					die("BoltStore.%s: Put of something that is not encodeState(state)", name)
				}
				writers = append(writers, name)
			}
		}
		sort.Strings(writers)
		enc := findFunc("internal/dkg", "", "encodeState")
		if !strings.Contains(exprString(enc.Body.List[2].(*ast.AssignStmt).Rhs[0]), "Encode(state.TOML())") {
			die("encodeState: does not encode state.TOML()")
		}
		l.pf("/-- BoltStore methods that Put `encodeState(state)` = TOML of `DBState.TOML()` into dkg.db -/\ndef dkgStoreWriters : List String := %s\n", leanStrList(writers))
	}
	// every file-creating call in scope
	{
		var rows []string
		for _, dir := range scopeDirs() {
			pt := loadPkg(dir)
			for _, f := range pt.files {
				for _, d := range f.Decls {
					fd, ok := d.(*ast.FuncDecl)
					if !ok || fd.Body == nil {
						continue
					}
					ast.Inspect(fd.Body, func(n ast.Node) bool {
						call, ok := n.(*ast.CallExpr)
						if !ok {
							return true
						}
						fn := exprString(call.Fun)
						mi, ok := fileCreatorCalls[fn]
						if !ok {
							return true
						}
						mode := "-"
						if mi >= 0 {
							if mi >= len(call.Args) {
								die("%s: %s with %d arguments", funcName(pt, fd), fn, len(call.Args))
							}
							mode = exprString(call.Args[mi])
						}
						rows = append(rows, funcName(pt, fd)+" "+fn+" "+mode)
						return true
					})
				}
			}
		}
		sort.Strings(rows)
		l.pf("/-- every call in scope that creates, opens-for-create, chmods or copies a file: \"dir:Func callee mode-expression\" -/\n")
		l.pf("def fileCreators : List String := [\n")
		for i, r := range rows {
			sep := ","
			if i == len(rows)-1 {
				sep = ""
			}
			l.pf("  %s%s\n", leanStr(r), sep)
		}
		l.pf("]\n")
	}
	l.pf("end Gen\n")
}
