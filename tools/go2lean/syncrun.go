package main

import (
	"go/ast"
	"go/token"
	"strings"
)

// genSyncRun: facts about SyncManager.Run, about the order in which Sync walks the peers of a request, and about the
// requests CorrectPastBeacons makes (C10).
//
//	syncIteratesRandPerm   Sync ranges over `rand.Perm(len(request.nodes))` and indexes request.nodes with what it yields
//	                       (true) or walks request.nodes in list order (false); anything else is not a recognised shape
//	syncTriesIndexedNode   the peer handed to tryNode is `request.nodes[<loop variable>]`
//	correctPastRequests    "perRound": one `s.ReSync(ctx, b, b, peers)` per element b of faultyBeacons;
//	                       "mergedRuns": runs of consecutive rounds are merged into one `s.ReSync(ctx, from, to, peers)`
//	runArms                the arms of Run's select, each with its statements in canonical form (logging / tracing removed)
//	runInitial             the statements between the genesis wait and the loop
func genSyncRun() {
	l := newLean("SyncRun")
	l.pf("namespace Gen\n")

	// ---- Sync: the walk over request.nodes
	fd := findFunc("internal/chain/beacon", "SyncManager", "Sync")
	var rng *ast.RangeStmt
	var plainFor *ast.ForStmt
	for _, st := range fd.Body.List {
		switch t := st.(type) {
		case *ast.RangeStmt:
			if rng != nil || plainFor != nil {
				die("Sync: more than one loop at the top level")
			}
			rng = t
		case *ast.ForStmt:
			if rng != nil || plainFor != nil {
				die("Sync: more than one loop at the top level")
			}
			plainFor = t
		}
	}
	shuffles, loopVar, valueVar := "", "", ""
	switch {
	case rng != nil:
		x := exprString(rng.X)
		key, val := "_", "_"
		if rng.Key != nil {
			key = exprString(rng.Key)
		}
		if rng.Value != nil {
			val = exprString(rng.Value)
		}
		switch {
		case x == "rand.Perm(len(request.nodes))":
			if key != "_" || val == "_" {
				die("Sync: `range rand.Perm(…)` must bind the permuted index as the value (got key %s, value %s)", key, val)
			}
			shuffles, loopVar = "true", val
		case x == "request.nodes":
			shuffles = "false"
			if key != "_" {
				loopVar = key
			}
			if val != "_" {
				valueVar = val
			}
			if loopVar == "" && valueVar == "" {
				die("Sync: `range request.nodes` binds neither index nor element")
			}
		default:
			die("Sync: unrecognised peer walk `range %s`", x)
		}
	case plainFor != nil:
		init, cond, post := "", "", ""
		if plainFor.Init != nil {
			init = stmtString(plainFor.Init)
		}
		if plainFor.Cond != nil {
			cond = exprString(plainFor.Cond)
		}
		if inc, ok := plainFor.Post.(*ast.IncDecStmt); ok && inc.Tok == token.INC {
			post = exprString(inc.X) + "++"
		}
		if !strings.HasSuffix(init, ":=0") || post != strings.TrimSuffix(init, ":=0")+"++" || cond != strings.TrimSuffix(init, ":=0")+"<len(request.nodes)" {
			die("Sync: unrecognised peer walk `for %s; %s; %s`", init, cond, post)
		}
		shuffles, loopVar = "false", strings.TrimSuffix(init, ":=0")
	default:
		die("Sync: no loop over the peers of the request")
	}
	var body *ast.BlockStmt
	if rng != nil {
		body = rng.Body
	} else {
		body = plainFor.Body
	}
	// the peer handed to tryNode
	tried := ""
	defs := map[string]string{}
	ast.Inspect(body, func(n ast.Node) bool {
		switch t := n.(type) {
		case *ast.AssignStmt:
			if t.Tok == token.DEFINE && len(t.Lhs) == 1 && len(t.Rhs) == 1 {
				defs[exprString(t.Lhs[0])] = exprString(t.Rhs[0])
			}
		case *ast.CallExpr:
			if exprString(t.Fun) == "s.tryNode" {
				if len(t.Args) != 4 || tried != "" {
					die("Sync: unrecognised call of tryNode")
				}
				tried = exprString(t.Args[3])
				if d, ok := defs[tried]; ok {
					tried = d
				}
			}
		}
		return true
	})
	indexed := "false"
	switch {
	case loopVar != "" && tried == "request.nodes["+loopVar+"]":
		indexed = "true"
	case valueVar != "" && tried == valueVar:
		indexed = "true"
	default:
		die("Sync: tryNode is handed %q, not the peer of the current loop iteration", tried)
	}
	l.pf("/-- internal/chain/beacon `Sync`: the peers of a request are tried in the order `rand.Perm(len(request.nodes))` yields\n(false: in the order of the list) -/\n")
	l.pf("def syncIteratesRandPerm : Bool := %s\n", shuffles)
	l.pf("/-- the peer handed to `tryNode` is the element of `request.nodes` of the current iteration -/\n")
	l.pf("def syncTriesIndexedNode : Bool := %s\n", indexed)

	// ---- CorrectPastBeacons: which ReSync requests are made
	cp := findFunc("internal/chain/beacon", "SyncManager", "CorrectPastBeacons")
	var call *ast.CallExpr
	var outer ast.Stmt
	for _, st := range cp.Body.List {
		switch st.(type) {
		case *ast.RangeStmt, *ast.ForStmt:
			found := false
			ast.Inspect(st, func(n ast.Node) bool {
				if c, ok := n.(*ast.CallExpr); ok && exprString(c.Fun) == "s.ReSync" {
					if call != nil {
						die("CorrectPastBeacons: more than one call of ReSync")
					}
					call = c
					found = true
				}
				return true
			})
			if found {
				outer = st
			}
		}
	}
	if call == nil || len(call.Args) != 4 {
		die("CorrectPastBeacons: no `s.ReSync(ctx, from, to, peers)` inside a loop")
	}
	a, b := exprString(call.Args[1]), exprString(call.Args[2])
	kind := ""
	switch t := outer.(type) {
	case *ast.RangeStmt:
		if exprString(t.X) == "faultyBeacons" && t.Value != nil && a == exprString(t.Value) && b == a {
			kind = "perRound"
		}
	case *ast.ForStmt:
		// for i := 0; i < len(faultyBeacons); i++ { …; from, to := faultyBeacons[i], faultyBeacons[i];
		//   for i+1 < len(faultyBeacons) && faultyBeacons[i+1] == to+1 { i++; to++ }; …; s.ReSync(ctx, from, to, peers) }
		if t.Init != nil && stmtString(t.Init) == "i:=0" && t.Cond != nil && exprString(t.Cond) == "i<len(faultyBeacons)" {
			sawDef, sawRun := false, false
			for _, st := range t.Body.List {
				switch u := st.(type) {
				case *ast.AssignStmt:
					if stmtString(u) == a+","+b+":=faultyBeacons[i],faultyBeacons[i]" {
						sawDef = true
					}
				case *ast.ForStmt:
					if u.Init == nil && u.Post == nil && u.Cond != nil &&
						exprString(u.Cond) == "i+1<len(faultyBeacons)&&faultyBeacons[i+1]=="+b+"+1" && len(u.Body.List) == 2 {
						i0, ok0 := u.Body.List[0].(*ast.IncDecStmt)
						i1, ok1 := u.Body.List[1].(*ast.IncDecStmt)
						if ok0 && ok1 && i0.Tok == token.INC && i1.Tok == token.INC {
							got := map[string]bool{exprString(i0.X): true, exprString(i1.X): true}
							if got["i"] && got[b] {
								sawRun = true
							}
						}
					}
				}
			}
			if sawDef && sawRun && a != b {
				kind = "mergedRuns"
			}
		}
	}
	if kind == "" {
		die("CorrectPastBeacons: unrecognised request shape: ReSync(ctx, %s, %s, …) inside %T", a, b, outer)
	}
	l.pf("/-- internal/chain/beacon `CorrectPastBeacons`: \"perRound\" = one `ReSync(ctx, b, b, peers)` per faulty round b;\n\"mergedRuns\" = one `ReSync(ctx, from, to, peers)` per maximal run of consecutive faulty rounds -/\n")
	l.pf("def correctPastRequests : String := %s\n", leanStr(kind))

	// ---- Run: the arms of the select
	lines := funcScript("internal/chain/beacon", "SyncManager", "Run")
	sel := -1
	for i, ln := range lines {
		if strings.TrimSpace(ln) == "select {" {
			if sel >= 0 {
				die("Run: more than one select")
			}
			sel = i
		}
	}
	if sel < 0 {
		die("Run: no select")
	}
	depth := len(lines[sel]) - len(strings.TrimLeft(lines[sel], " "))
	var initial []string
	seenFor := false
	for _, ln := range lines[1:sel] {
		t := strings.TrimSpace(ln)
		ind := len(ln) - len(strings.TrimLeft(ln, " "))
		if ind == 1 && t == "for {" {
			seenFor = true
			continue
		}
		if ind == 1 && !strings.HasPrefix(t, "for ") && t != "}" {
			initial = append(initial, t)
		}
	}
	if !seenFor {
		die("Run: the select is not inside a plain `for {` loop")
	}
	type arm struct {
		comm string
		body []string
	}
	var arms []arm
	for _, ln := range lines[sel+1:] {
		ind := len(ln) - len(strings.TrimLeft(ln, " "))
		t := strings.TrimSpace(ln)
		if ind == depth && t == "}" {
			break
		}
		if ind == depth && strings.HasPrefix(t, "case ") {
			arms = append(arms, arm{comm: strings.TrimSuffix(strings.TrimPrefix(t, "case "), ":")})
			continue
		}
		if ind == depth && t == "default:" {
			die("Run: the select has a default arm")
		}
		if len(arms) == 0 {
			die("Run: statement before the first arm of the select")
		}
		arms[len(arms)-1].body = append(arms[len(arms)-1].body, strings.Repeat(" ", ind-depth-1)+t)
	}
	l.pf("/-- internal/chain/beacon `Run`: the statements between the wait for genesis and the loop -/\n")
	l.pf("def runInitial : List String := %s\n", leanStrList(initial))
	l.pf("/-- the arms of `Run`'s select: (communication, statements in canonical form; one leading space per nesting level) -/\n")
	l.pf("def runArms : List (String × List String) := [")
	for i, a := range arms {
		if i > 0 {
			l.pf(",")
		}
		l.pf("\n  (%s, %s)", leanStr(a.comm), leanStrList(a.body))
	}
	l.pf("]\n")
	l.pf("end Gen\n")
}
