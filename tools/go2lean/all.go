package main

// genAll calls every other generator; each lives in its own file.
func genAll() {
	genHashes()
	genLocks()
	genCallback()
	genDKGTable()
	genSecrets()
	genMirrors()
	genRouting()
	genPersist()
}
