package main

// genAll calls every other generator; each lives in its own file.
func genAll() {
	genHashes()
	genLocks()
	genCallback()
	genDKGTable()
	genTimeCalls()
	genSecrets()
	genMirrors()
	genRouting()
	genPersist()
	genLockCalls()
	genDerefs()
	genListeners()
	genEcho()
	genBroadcast()
	genDKGAuth()
	genBeaconNode()
	genDKGRun()
	genSync()
	genCheckPast()
	genHandler()
	genNetRules()
	genHTTPW()
	genReshareRules()
	genScripts()
}
