package main

// genHandler (C04): the round decisions of internal/chain/beacon/node.go and ticker.go.
//
//   broadcastNextPartial : `round := upon.Round + 1`; `if current.round == upon.Round { … round = current.round }`;
//                          `round` is what gets digested, signed and put in the packet
//   run, tick branch     : broadcastNextPartial(ctx, current, lastBeacon) with lastBeacon from h.chain.Last;
//                          `if lastBeacon.Round+1 < current.round { … RunSync(ctx, current.round, nil) }`
//   run, appended branch : `if b.Round < current.round { go func(c, latest){ Sleep(CatchupPeriod); …;
//                          broadcastNextPartial(ctx, c, &latest) }(current, *b) }`
//   ProcessPartialBeacon : nextRound from common.NextRound(clock…); the refusals in order, the first two being
//                          `pRound > nextRound` and `pRound <= latest.GetRound()`
//   ticker.Start         : tround = common.CurrentRound(nt.Unix(), …), ttime = nt.Unix(), `chinfo.startAt > ttime` skips
//
// Comparisons and +k arithmetic over round numbers are translated to Lean functions over Nat (the model calls
// them); everything else is emitted as canonical strings tied by rfl theorems. Any other shape: die.

import (
	"go/ast"
	"go/token"
	"strings"
)

const hdir = "internal/chain/beacon"

// natExpr translates an expression over round numbers: identifiers / selectors listed in vars (canonical
// Go rendering -> Lean parameter name), integer literals, +, and the comparison operators.
func natExpr(where string, e ast.Expr, vars map[string]string) string {
	switch t := e.(type) {
	case *ast.ParenExpr:
		return "(" + natExpr(where, t.X, vars) + ")"
	case *ast.BasicLit:
		if t.Kind != token.INT {
			die("%s: non-integer literal %s", where, t.Value)
		}
		return evalInt(hdir, t, where).ExactString()
	case *ast.BinaryExpr:
		x := natExpr(where, t.X, vars)
		y := natExpr(where, t.Y, vars)
		switch t.Op {
		case token.ADD:
			return "(" + x + " + " + y + ")"
		case token.EQL:
			return "decide (" + x + " = " + y + ")"
		case token.NEQ:
			return "decide (" + x + " ≠ " + y + ")"
		case token.LSS:
			return "decide (" + x + " < " + y + ")"
		case token.GTR:
			return "decide (" + x + " > " + y + ")"
		case token.LEQ:
			return "decide (" + x + " ≤ " + y + ")"
		case token.GEQ:
			return "decide (" + x + " ≥ " + y + ")"
		}
		die("%s: unsupported operator %s in %s", where, t.Op, exprString(e))
	default:
		s := exprString(e)
		if v, ok := vars[s]; ok {
			return v
		}
		die("%s: unexpected operand %s (known: %v)", where, s, vars)
	}
	return ""
}

func isCmp(e ast.Expr) bool {
	b, ok := e.(*ast.BinaryExpr)
	if !ok {
		return false
	}
	switch b.Op {
	case token.EQL, token.NEQ, token.LSS, token.GTR, token.LEQ, token.GEQ:
		return true
	}
	return false
}

// hAssignsTo returns the right-hand sides of every assignment (= or :=) to the identifier name inside n.
func hAssignsTo(n ast.Node, name string) (defs []ast.Expr, sets []ast.Expr) {
	ast.Inspect(n, func(x ast.Node) bool {
		as, ok := x.(*ast.AssignStmt)
		if !ok || (len(as.Lhs) != len(as.Rhs) && len(as.Rhs) != 1) {
			return true
		}
		for i, l := range as.Lhs {
			if id, ok := l.(*ast.Ident); ok && id.Name == name {
				rhs := as.Rhs[0] // multi-value call: the call itself
				if len(as.Rhs) == len(as.Lhs) {
					rhs = as.Rhs[i]
				}
				if as.Tok == token.DEFINE {
					defs = append(defs, rhs)
				} else {
					sets = append(sets, rhs)
				}
			}
		}
		return true
	})
	return
}

func containsCall(n ast.Node, rendered string) bool {
	found := false
	ast.Inspect(n, func(x ast.Node) bool {
		if c, ok := x.(*ast.CallExpr); ok && exprString(c) == rendered {
			found = true
		}
		return !found
	})
	return found
}

func callsWithPrefix(n ast.Node, prefix string) []string {
	var out []string
	ast.Inspect(n, func(x ast.Node) bool {
		if c, ok := x.(*ast.CallExpr); ok && strings.HasPrefix(exprString(c), prefix) {
			out = append(out, exprString(c))
		}
		return true
	})
	return out
}

func genHandler() {
	l := newLean("Handler")
	l.pf("set_option linter.unusedVariables false\nnamespace Gen.Handler\n")

	// ---- broadcastNextPartial ----
	{
		fd := findFunc(hdir, "Handler", "broadcastNextPartial")
		if len(fd.Type.Params.List) != 3 || exprString(fd.Type.Params.List[1].Type) != "roundInfo" ||
			fd.Type.Params.List[1].Names[0].Name != "current" || fd.Type.Params.List[2].Names[0].Name != "upon" {
			die("broadcastNextPartial: parameters are not (ctx, current roundInfo, upon *common.Beacon)")
		}
		defs, sets := hAssignsTo(fd.Body, "round")
		if len(defs) != 1 || len(sets) != 1 {
			die("broadcastNextPartial: expected exactly one `round := …` and one `round = …`, got %d and %d", len(defs), len(sets))
		}
		vars := map[string]string{"upon.Round": "uponRound", "current.round": "currentRound"}
		l.pf("/-- broadcastNextPartial: `round := %s` -/\ndef bnpRound (currentRound uponRound : Nat) : Nat := %s\n",
			exprString(defs[0]), natExpr("broadcastNextPartial.round", defs[0], vars))
		// the if that re-assigns round
		var theIf *ast.IfStmt
		for _, st := range fd.Body.List {
			is, ok := st.(*ast.IfStmt)
			if !ok {
				continue
			}
			_, s2 := hAssignsTo(is.Body, "round")
			if len(s2) == 1 {
				if theIf != nil {
					die("broadcastNextPartial: two ifs assign round")
				}
				theIf = is
			}
		}
		if theIf == nil || theIf.Init != nil || theIf.Else != nil || !isCmp(theIf.Cond) {
			die("broadcastNextPartial: `round = …` is not inside a plain top-level `if <comparison> {…}`")
		}
		l.pf("/-- broadcastNextPartial: `if %s` (re-sign) -/\ndef bnpResign (currentRound uponRound : Nat) : Bool := %s\n",
			exprString(theIf.Cond), natExpr("broadcastNextPartial.if", theIf.Cond, vars))
		l.pf("/-- broadcastNextPartial: inside that if, `round = %s` -/\ndef bnpResignRound (currentRound uponRound : Nat) : Nat := %s\n",
			exprString(sets[0]), natExpr("broadcastNextPartial.round=", sets[0], vars))
		// the if must come after the := and before the digest; `round` is what is digested and sent
		var order []string
		for _, st := range fd.Body.List {
			switch {
			case func() bool { d, _ := hAssignsTo(st, "round"); _, isIf := st.(*ast.IfStmt); return len(d) == 1 && !isIf }():
				order = append(order, "define")
			case st == ast.Stmt(theIf):
				order = append(order, "resign-if")
			case strings.Contains(stmtStringDeep(st), "h.crypto.DigestBeacon(&common.Beacon{Round:round,PreviousSig:previousSig})"):
				order = append(order, "digest(round)")
			case strings.Contains(stmtStringDeep(st), "h.crypto.SignPartial(msg)"):
				order = append(order, "sign")
			case strings.Contains(stmtStringDeep(st), "&proto.PartialBeaconPacket{Round:round,"):
				order = append(order, "packet(round)")
			case strings.Contains(stmtStringDeep(st), "h.chain.NewValidPartial(ctx,h.addr,packet)"):
				order = append(order, "own-partial")
			case strings.Contains(stmtStringDeep(st), "h.client.PartialBeacon(ctx,&i,packet)"):
				order = append(order, "send")
			}
		}
		l.pf("/-- broadcastNextPartial: order of the statements that decide and use `round` -/\ndef bnpOrder : List String := %s\n", leanStrList(order))
		// Every other top-level `if` before the digest must be the "head ahead of the tick" guard of the corrected
		// variant: `if upon.Round > current.round { …log…; return }`. Anything else that can leave the function
		// (or change what is signed) before the digest is an unrecognised shape.
		skip := false
		for _, st := range fd.Body.List {
			if strings.Contains(stmtStringDeep(st), "h.crypto.DigestBeacon(") {
				break
			}
			is, ok := st.(*ast.IfStmt)
			if !ok || is == theIf {
				continue
			}
			c := exprString(is.Cond)
			last := ""
			if n := len(is.Body.List); n > 0 {
				last = stmtStringDeep(is.Body.List[n-1])
			}
			if (c == "upon.Round>current.round" || c == "current.round<upon.Round") && is.Init == nil && is.Else == nil && last == "return " {
				for _, b := range is.Body.List[:len(is.Body.List)-1] {
					if !strings.HasPrefix(stmtStringDeep(b), "h.l.") && !strings.HasPrefix(stmtStringDeep(b), "span.") {
						die("broadcastNextPartial: the head-ahead guard does more than log and return: %s", stmtStringDeep(b))
					}
				}
				skip = true
				continue
			}
			die("broadcastNextPartial: unrecognised `if %s` before the digest", c)
		}
		l.pf("/-- broadcastNextPartial: is there a guard `if upon.Round > current.round { return }` before anything is signed (the corrected variant)? -/\ndef bnpSkipAhead : Bool := %v\n", skip)
	}

	// ---- run ----
	{
		fd := findFunc(hdir, "Handler", "run")
		var sel *ast.SelectStmt
		ast.Inspect(fd.Body, func(n ast.Node) bool {
			if s, ok := n.(*ast.SelectStmt); ok && sel == nil {
				sel = s
			}
			return sel == nil
		})
		if sel == nil {
			die("run: no select statement")
		}
		var tick, app *ast.CommClause
		for _, c := range sel.Body.List {
			cc := c.(*ast.CommClause)
			switch stmtStringDeep(cc.Comm) {
			case "current=<-chanTick":
				tick = cc
			case "b:=<-h.chain.AppendedBeaconNoSync()":
				app = cc
			case "<-h.ctx.Done()":
			default:
				die("run: unexpected select case %s", stmtStringDeep(cc.Comm))
			}
		}
		if tick == nil || app == nil {
			die("run: tick or appended-beacon select case not found")
		}
		// tick branch
		bn := callsWithPrefix(tick, "h.broadcastNextPartial(")
		if len(bn) != 1 {
			die("run/tick: expected exactly one broadcastNextPartial call, got %v", bn)
		}
		lb, _ := hAssignsTo(tick, "lastBeacon")
		if len(lb) != 1 || exprString(lb[0]) != "h.chain.Last(ctx)" {
			die("run/tick: lastBeacon is not `h.chain.Last(ctx)`")
		}
		l.pf("/-- run, tick branch: the call that signs -/\ndef tickBroadcast : String := %s\n", leanStr(bn[0]))
		var syncIf *ast.IfStmt
		ast.Inspect(tick, func(n ast.Node) bool {
			if is, ok := n.(*ast.IfStmt); ok && len(callsWithPrefix(is.Body, "h.chain.RunSync(")) > 0 {
				syncIf = is
			}
			return true
		})
		if syncIf == nil || !isCmp(syncIf.Cond) {
			die("run/tick: no `if <comparison> { … h.chain.RunSync(…) }`")
		}
		vars := map[string]string{"lastBeacon.Round": "lastRound", "current.round": "currentRound", "b.Round": "bRound"}
		l.pf("/-- run, tick branch: `if %s` then `%s` -/\ndef tickSyncGuard (lastRound currentRound : Nat) : Bool := %s\n",
			exprString(syncIf.Cond), callsWithPrefix(syncIf.Body, "h.chain.RunSync(")[0], natExpr("run.tick.if", syncIf.Cond, vars))
		l.pf("def tickSyncCall : String := %s\n", leanStr(callsWithPrefix(syncIf.Body, "h.chain.RunSync(")[0]))
		// appended branch: every go statement in it must sit under one if whose condition we translate
		var goStmts []*ast.GoStmt
		ast.Inspect(app, func(n ast.Node) bool {
			if g, ok := n.(*ast.GoStmt); ok {
				goStmts = append(goStmts, g)
			}
			return true
		})
		if len(goStmts) != 1 {
			die("run/appended: expected exactly one go statement, got %d", len(goStmts))
		}
		var guard *ast.IfStmt
		for _, st := range app.Body {
			if is, ok := st.(*ast.IfStmt); ok {
				inBody := false
				ast.Inspect(is.Body, func(n ast.Node) bool {
					if n == ast.Node(goStmts[0]) {
						inBody = true
					}
					return true
				})
				if inBody {
					guard = is
				}
			}
		}
		if guard == nil || guard.Init != nil || !isCmp(guard.Cond) {
			die("run/appended: the catch-up goroutine is not launched under a plain `if <comparison>` (guard removed?)")
		}
		if len(callsWithPrefix(app, "h.broadcastNextPartial(")) != 1 {
			die("run/appended: expected exactly one broadcastNextPartial call")
		}
		l.pf("/-- run, appended-beacon branch: the catch-up goroutine is launched only `if %s` -/\ndef catchupGuard (bRound currentRound : Nat) : Bool := %s\n",
			exprString(guard.Cond), natExpr("run.appended.if", guard.Cond, vars))
		fl, ok := goStmts[0].Call.Fun.(*ast.FuncLit)
		if !ok || len(fl.Type.Params.List) != 2 {
			die("run/appended: go statement is not a func literal of two parameters")
		}
		var captured []string
		for _, a := range goStmts[0].Call.Args {
			captured = append(captured, exprString(a))
		}
		var params []string
		for _, p := range fl.Type.Params.List {
			params = append(params, p.Names[0].Name+" "+exprString(p.Type))
		}
		l.pf("/-- catch-up goroutine: parameters and the values captured at launch -/\ndef catchupParams : List String := %s\ndef catchupCaptured : List String := %s\n",
			leanStrList(params), leanStrList(captured))
		// inside the goroutine: Sleep(CatchupPeriod) strictly before the broadcast
		var seq []string
		for _, st := range fl.Body.List {
			s := stmtStringDeep(st)
			switch {
			case s == "h.conf.Clock.Sleep(h.conf.Group.CatchupPeriod)":
				seq = append(seq, "sleep(CatchupPeriod)")
			case strings.HasPrefix(s, "h.broadcastNextPartial("):
				seq = append(seq, s)
			}
		}
		l.pf("/-- catch-up goroutine: sleep, then the call that signs -/\ndef catchupSeq : List String := %s\n", leanStrList(seq))
	}

	// ---- ProcessPartialBeacon ----
	{
		fd := findFunc(hdir, "Handler", "ProcessPartialBeacon")
		nr, _ := hAssignsTo(fd.Body, "nextRound")
		if len(nr) != 1 || exprString(nr[0]) != "common.NextRound(h.conf.Clock.Now().Unix(),h.conf.Group.Period,h.conf.Group.GenesisTime)" {
			die("ProcessPartialBeacon: nextRound is not common.NextRound(clock now, period, genesis)")
		}
		pr, _ := hAssignsTo(fd.Body, "pRound")
		if len(pr) != 1 || exprString(pr[0]) != "p.GetRound()" {
			die("ProcessPartialBeacon: pRound is not p.GetRound()")
		}
		// top-level ifs that return, in order, until NewValidPartial
		names := map[string]string{
			"pRound>nextRound":                     "future",
			"err==nil&&pRound<=latest.GetRound()":  "past",
			"err!=nil":                             "err",
			"idx<0":                                "index-neg",
			"node==nil":                            "not-in-group",
			"nodeName==h.addr":                     "own-address",
			"idx==h.crypto.Index()":                "own-index",
		}
		vars := map[string]string{"pRound": "pRound", "nextRound": "nextRound", "latest.GetRound()": "latestRound"}
		var guards []string
		lastAssign := ""
		done := false
		for _, st := range fd.Body.List {
			if done {
				break
			}
			switch t := st.(type) {
			case *ast.AssignStmt:
				if len(t.Rhs) == 1 {
					lastAssign = exprString(t.Rhs[0])
				}
			case *ast.ExprStmt:
				if exprString(t.X) == "h.chain.NewValidPartial(ctx,addr,p)" {
					guards = append(guards, "NewValidPartial")
					done = true
				}
			case *ast.IfStmt:
				returns := false
				for _, b := range t.Body.List {
					if _, ok := b.(*ast.ReturnStmt); ok {
						returns = true
					}
				}
				if !returns {
					die("ProcessPartialBeacon: top-level if without return: %s", exprString(t.Cond))
				}
				c := exprString(t.Cond)
				n, ok := names[c]
				if !ok {
					die("ProcessPartialBeacon: unrecognised refusal condition `%s`", c)
				}
				switch n {
				case "future":
					l.pf("/-- ProcessPartialBeacon: refuse `if %s` (nextRound = common.NextRound(clock).round) -/\ndef ppFuture (pRound nextRound : Nat) : Bool := %s\n",
						c, natExpr("ProcessPartialBeacon.future", t.Cond, vars))
				case "past":
					if t.Init == nil || stmtStringDeep(t.Init) != "latest,err:=h.chain.Last(ctx)" {
						die("ProcessPartialBeacon: the past check does not read h.chain.Last")
					}
					and := t.Cond.(*ast.BinaryExpr)
					l.pf("/-- ProcessPartialBeacon: ignore `if %s` -/\ndef ppPast (pRound latestRound : Nat) : Bool := %s\n",
						c, natExpr("ProcessPartialBeacon.past", and.Y, vars))
				case "err":
					switch {
					case strings.HasPrefix(lastAssign, "h.crypto.ThresholdScheme.IndexOf("):
						n = "index-err"
					case strings.HasPrefix(lastAssign, "h.crypto.ThresholdScheme.VerifyPartial(h.crypto.GetPub(),msg,"):
						n = "verify"
					default:
						die("ProcessPartialBeacon: `if err != nil` after unrecognised call %s", lastAssign)
					}
				}
				guards = append(guards, n)
			}
		}
		if !done {
			die("ProcessPartialBeacon: h.chain.NewValidPartial(ctx, addr, p) not found at top level")
		}
		l.pf("/-- ProcessPartialBeacon: the refusals in source order, ending with the hand-over to the aggregator -/\ndef ppGuards : List String := %s\n", leanStrList(guards))
	}

	// ---- ticker.Start ----
	{
		fd := findFunc(hdir, "ticker", "Start")
		tr, _ := hAssignsTo(fd.Body, "tround")
		_, trs := hAssignsTo(fd.Body, "tround")
		tt, tts := hAssignsTo(fd.Body, "ttime")
		_ = tr
		_ = tt
		var roundSrc, timeSrc []string
		for _, e := range trs {
			roundSrc = append(roundSrc, exprString(e))
		}
		for _, e := range tts {
			timeSrc = append(timeSrc, exprString(e))
		}
		l.pf("/-- ticker.Start: every assignment to the round / time a tick carries -/\ndef tickRoundSrc : List String := %s\ndef tickTimeSrc : List String := %s\n",
			leanStrList(roundSrc), leanStrList(timeSrc))
		var skips []string
		ast.Inspect(fd.Body, func(n ast.Node) bool {
			if is, ok := n.(*ast.IfStmt); ok && len(is.Body.List) == 1 {
				if br, ok := is.Body.List[0].(*ast.BranchStmt); ok && br.Tok == token.CONTINUE {
					skips = append(skips, exprString(is.Cond))
				}
			}
			return true
		})
		l.pf("/-- ticker.Start: conditions under which a registered channel is skipped -/\ndef tickSkip : List String := %s\n", leanStrList(skips))
		// the first tick: sleep until the next round time, then send clock.Now()
		first := []string{}
		ast.Inspect(fd.Body, func(n ast.Node) bool {
			if fl, ok := n.(*ast.FuncLit); ok && len(first) == 0 {
				for _, st := range fl.Body.List {
					s := stmtStringDeep(st)
					if strings.Contains(s, "common.NextRound(now,t.period,t.genesis)") || strings.HasPrefix(s, "chanTime<-") ||
						strings.Contains(s, "t.clock.NewTicker(") || strings.Contains(s, "t.clock.Sleep(") {
						first = append(first, s)
					}
				}
			}
			return true
		})
		l.pf("/-- ticker.Start, timing goroutine: next-round computation, sleep, first tick, period ticker -/\ndef tickFirst : List String := %s\n", leanStrList(first))
	}
	l.pf("end Gen.Handler\n")
}

// stmtStringDeep renders a statement canonically (whitespace-free), descending into blocks.
func stmtStringDeep(s ast.Stmt) string {
	switch t := s.(type) {
	case nil:
		return ""
	case *ast.SendStmt:
		return exprString(t.Chan) + "<-" + exprString(t.Value)
	case *ast.IfStmt:
		var sb strings.Builder
		sb.WriteString("if ")
		if t.Init != nil {
			sb.WriteString(stmtStringDeep(t.Init) + ";")
		}
		sb.WriteString(exprString(t.Cond) + "{")
		for _, b := range t.Body.List {
			sb.WriteString(stmtStringDeep(b) + ";")
		}
		sb.WriteString("}")
		if t.Else != nil {
			sb.WriteString("else " + stmtStringDeep(t.Else))
		}
		return sb.String()
	case *ast.BlockStmt:
		var sb strings.Builder
		sb.WriteString("{")
		for _, b := range t.List {
			sb.WriteString(stmtStringDeep(b) + ";")
		}
		sb.WriteString("}")
		return sb.String()
	case *ast.ForStmt:
		return "for{" + stmtStringDeep(t.Body) + "}"
	case *ast.RangeStmt:
		return "range " + exprString(t.X) + stmtStringDeep(t.Body)
	case *ast.GoStmt:
		if fl, ok := t.Call.Fun.(*ast.FuncLit); ok {
			return "go func" + stmtStringDeep(fl.Body)
		}
		return "go " + exprString(t.Call)
	case *ast.SelectStmt:
		return "select" + stmtStringDeep(t.Body)
	case *ast.CommClause:
		var sb strings.Builder
		sb.WriteString("case " + stmtStringDeep(t.Comm) + ":")
		for _, b := range t.Body {
			sb.WriteString(stmtStringDeep(b) + ";")
		}
		return sb.String()
	case *ast.ExprStmt:
		if c, ok := t.X.(*ast.CallExpr); ok {
			if fl, ok := c.Fun.(*ast.FuncLit); ok {
				return "func" + stmtStringDeep(fl.Body) + "()"
			}
		}
		return exprString(t.X)
	case *ast.DeclStmt:
		return "<decl>"
	case *ast.BranchStmt:
		return t.Tok.String()
	}
	return stmtString(s)
}
