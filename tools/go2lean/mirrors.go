package main

// C20: struct <-> mirror conversion facts.
//
// For every (type, mirror, to-function, from-function) quadruple below this emits
//   - the exported field list of the type and of the mirror,
//   - the set of type fields READ and mirror fields WRITTEN by the to-function,
//   - the set of mirror fields READ and type fields WRITTEN by the from-function,
// as `Gen.mirrors : List Gen.Mirror`. DrandProofs/C20.lean proves by `decide` that every field is covered
// (modulo an explicit, commented exemption list) — the "hand-maintained mirror" hazard of DBState.
//
// The analysis is purely syntactic and deliberately narrow: a conversion body may touch its subject
// variables (the receiver / the mirror variable) only through field selectors, getters, composite
// literals and a short whitelist of whole-value uses. Anything else is fatal.
//
// Also emitted: the scheme-name table of crypto/schemes.go, the `if` guard chains of Group.FromTOML and
// GroupFromProto in source order, MinimumT, and the JSON tag tables of chain.Info / common.Beacon.

import (
	"go/ast"
	"go/token"
	"reflect"
	"sort"
	"strconv"
	"strings"
)

type mirrorSpec struct {
	name string
	// the Go type
	typDir, typ string
	expand       map[string][]string // embedded structs from other modules: name -> promoted fields
	// the mirror: a named struct (mirDir, mir) or an anonymous local struct variable (mirVar) of the functions
	mirDir, mir string
	mirVar      string
	// to-function: receiver is the type unless toTypeParam names a parameter
	toDir, toRecv, toFn, toTypeParam string
	// from-function: the mirror is the receiver (fromRecv == mir), a parameter (fromMirParam), or bound by a type assertion
	fromDir, fromRecv, fromFn, fromMirParam string
	// methods of the type that may be called on the type variable -> field they read ("" = derived value, reads no single field)
	methods map[string]string
}

var mirrorSpecs = []mirrorSpec{
	{name: "DBState/TOML", typDir: "internal/dkg", typ: "DBState", mirDir: "internal/dkg", mir: "DBStateTOML",
		toDir: "internal/dkg", toRecv: "DBState", toFn: "TOML", fromDir: "internal/dkg", fromRecv: "DBStateTOML", fromFn: "FromTOML"},
	{name: "Group/TOML", typDir: "common/key", typ: "Group", mirDir: "common/key", mir: "GroupTOML",
		toDir: "common/key", toRecv: "Group", toFn: "TOML", fromDir: "common/key", fromRecv: "Group", fromFn: "FromTOML",
		methods: map[string]string{"Len": "Nodes", "GetGenesisSeed": "GenesisSeed"}},
	{name: "Identity/TOML", typDir: "common/key", typ: "Identity", mirDir: "common/key", mir: "PublicTOML",
		toDir: "common/key", toRecv: "Identity", toFn: "TOML", fromDir: "common/key", fromRecv: "Identity", fromFn: "FromTOML"},
	{name: "Node/TOML", typDir: "common/key", typ: "Node", mirDir: "common/key", mir: "NodeTOML",
		toDir: "common/key", toRecv: "Node", toFn: "TOML", fromDir: "common/key", fromRecv: "Node", fromFn: "FromTOML"},
	{name: "Pair/TOML", typDir: "common/key", typ: "Pair", mirDir: "common/key", mir: "PairTOML",
		toDir: "common/key", toRecv: "Pair", toFn: "TOML", fromDir: "common/key", fromRecv: "Pair", fromFn: "FromTOML"},
	{name: "Share/TOML", typDir: "common/key", typ: "Share", expand: map[string][]string{"DistKeyShare": {"Commits", "Share"}},
		mirDir: "common/key", mir: "ShareTOML",
		toDir: "common/key", toRecv: "Share", toFn: "TOML", fromDir: "common/key", fromRecv: "Share", fromFn: "FromTOML"},
	{name: "DistPublic/TOML", typDir: "common/key", typ: "DistPublic", mirDir: "common/key", mir: "DistPublicTOML",
		toDir: "common/key", toRecv: "DistPublic", toFn: "TOML", fromDir: "common/key", fromRecv: "DistPublic", fromFn: "FromTOML"},
	{name: "Info/JSON", typDir: "common/chain", typ: "Info", mirVar: "v2Str",
		toDir: "common/chain", toRecv: "Info", toFn: "MarshalJSON", fromDir: "common/chain", fromRecv: "Info", fromFn: "UnmarshalJSON",
		methods: map[string]string{"HashString": ""}},
	{name: "Group/Proto", typDir: "common/key", typ: "Group", mirDir: "protobuf/drand", mir: "GroupPacket",
		toDir: "common/key", toRecv: "Group", toFn: "ToProto", fromDir: "common/key", fromFn: "GroupFromProto", fromMirParam: "g",
		methods: map[string]string{"Len": "Nodes", "GetGenesisSeed": "GenesisSeed"}},
	{name: "Identity/Proto", typDir: "common/key", typ: "Identity", mirDir: "protobuf/drand", mir: "Identity",
		toDir: "common/key", toRecv: "Identity", toFn: "ToProto", fromDir: "common/key", fromFn: "IdentityFromProto", fromMirParam: "n"},
	{name: "Info/Proto", typDir: "common/chain", typ: "Info", mirDir: "protobuf/drand", mir: "ChainInfoPacket",
		toDir: "common/chain", toRecv: "Info", toFn: "ToProto", fromDir: "common/chain", fromFn: "InfoFromProto", fromMirParam: "p",
		methods: map[string]string{"Hash": ""}},
	{name: "Beacon/Proto", typDir: "common", typ: "Beacon", mirDir: "protobuf/drand", mir: "BeaconPacket",
		toDir: "internal/chain/beacon", toFn: "beaconToProto", toTypeParam: "b",
		fromDir: "internal/chain/beacon", fromFn: "protoToBeacon", fromMirParam: "p"},
}

// methods whose call on a field of the type variable mutates that field (pointer receivers filling the value in)
var mutatingMethods = map[string]bool{"FromTOML": true}

// calls that may take a subject variable as a whole argument without reading fields behind our back
var wholeValueCalls = map[string]bool{"json.Unmarshal": true, "json.Marshal": true}

func findStruct(dir, typ string) *ast.StructType {
	for _, f := range load(dir) {
		for _, d := range f.Decls {
			gd, ok := d.(*ast.GenDecl)
			if !ok || gd.Tok != token.TYPE {
				continue
			}
			for _, s := range gd.Specs {
				ts := s.(*ast.TypeSpec)
				if ts.Name.Name != typ {
					continue
				}
				st, ok := ts.Type.(*ast.StructType)
				if !ok {
					die("mirrors: %s.%s is not a struct", dir, typ)
				}
				return st
			}
		}
	}
	die("mirrors: struct %s not found in %s", typ, dir)
	return nil
}

// exportedFields lists the exported fields of a struct in declaration order; embedded fields are named by
// their base type unless `expand` replaces them by their promoted fields.
func exportedFields(st *ast.StructType, expand map[string][]string, where string) []string {
	var out []string
	for _, fl := range st.Fields.List {
		if len(fl.Names) == 0 {
			n := baseTypeName(fl.Type)
			if n == "" {
				die("mirrors: %s: embedded field of unsupported type %s", where, exprString(fl.Type))
			}
			if ex, ok := expand[n]; ok {
				out = append(out, ex...)
			} else if ast.IsExported(n) {
				out = append(out, n)
			}
			continue
		}
		for _, n := range fl.Names {
			if ast.IsExported(n.Name) {
				out = append(out, n.Name)
			}
		}
	}
	if len(out) == 0 {
		die("mirrors: %s has no exported fields", where)
	}
	return out
}

func jsonTags(st *ast.StructType, where string) []string {
	var out []string
	for _, fl := range st.Fields.List {
		if fl.Tag == nil {
			die("mirrors: %s: field without json tag", where)
		}
		raw, err := strconv.Unquote(fl.Tag.Value)
		if err != nil {
			die("mirrors: %s: bad tag %s", where, fl.Tag.Value)
		}
		tag, ok := reflect.StructTag(raw).Lookup("json")
		if !ok {
			die("mirrors: %s: field without json tag", where)
		}
		for range fl.Names {
			out = append(out, tag)
		}
	}
	return out
}

type convFacts struct {
	typeFields, mirFields     []string
	typeReads, typeWrites     map[string]bool
	mirReads, mirWrites       map[string]bool
	anonMirror                *ast.StructType
}

func inList(xs []string, x string) bool {
	for _, y := range xs {
		if x == y {
			return true
		}
	}
	return false
}

// rootOf strips selectors / index / star / paren / slice down to the root identifier and returns the first field
// selected on it ("" if the expression is the bare identifier).
func rootOf(e ast.Expr) (root *ast.Ident, first string, firstSel *ast.SelectorExpr) {
	for {
		switch t := e.(type) {
		case *ast.Ident:
			return t, first, firstSel
		case *ast.SelectorExpr:
			first = t.Sel.Name
			firstSel = t
			e = t.X
		case *ast.IndexExpr:
			e = t.X
		case *ast.StarExpr:
			e = t.X
		case *ast.ParenExpr:
			e = t.X
		case *ast.SliceExpr:
			e = t.X
		case *ast.CallExpr:
			// a.B().C : the call itself is handled where the selector a.B is visited
			e = t.Fun
		default:
			return nil, "", nil
		}
	}
}

// analyse one conversion function.
func analyse(sp *mirrorSpec, fd *ast.FuncDecl, dirn string, typeFields []string, mirFieldsNamed []string) *convFacts {
	where := sp.name + ":" + fd.Name.Name
	cf := &convFacts{typeFields: typeFields, mirFields: mirFieldsNamed,
		typeReads: map[string]bool{}, typeWrites: map[string]bool{}, mirReads: map[string]bool{}, mirWrites: map[string]bool{}}
	typeVars := map[string]bool{}
	mirVars := map[string]bool{}
	recvName := ""
	if fd.Recv != nil && len(fd.Recv.List) == 1 && len(fd.Recv.List[0].Names) == 1 {
		recvName = fd.Recv.List[0].Names[0].Name
	}
	paramNames := map[string]bool{}
	for _, p := range fd.Type.Params.List {
		for _, n := range p.Names {
			paramNames[n.Name] = true
		}
	}
	needParam := func(n string) {
		if !paramNames[n] {
			die("mirrors: %s: expected a parameter named %s", where, n)
		}
	}
	if dirn == "to" {
		if sp.toTypeParam != "" {
			needParam(sp.toTypeParam)
			typeVars[sp.toTypeParam] = true
		} else {
			if recvName == "" {
				die("mirrors: %s: no receiver", where)
			}
			typeVars[recvName] = true
		}
	} else {
		switch {
		case sp.fromMirParam != "":
			needParam(sp.fromMirParam)
			mirVars[sp.fromMirParam] = true
		case sp.fromRecv == sp.mir && sp.mir != "":
			mirVars[recvName] = true
		default:
			typeVars[recvName] = true // mirror bound later (type assertion or anonymous struct variable)
		}
	}
	isType := func(e ast.Expr, want string) bool { return want != "" && baseTypeName(e) == want }
	// classify a type expression as the type side / the mirror side; when both have the same base name
	// (key.Identity vs proto.Identity) the package-qualified one is the mirror
	classify := func(e ast.Expr) (isT, isM bool) {
		isT, isM = isType(e, sp.typ), isType(e, sp.mir)
		if isT && isM {
			x := e
			if st, ok := x.(*ast.StarExpr); ok {
				x = st.X
			}
			_, qualified := x.(*ast.SelectorExpr)
			isM, isT = qualified, !qualified
		}
		return
	}
	// pass 1: discover local subject variables
	declare := func(name string, typExpr ast.Expr) {
		if typeVars[name] || mirVars[name] {
			die("mirrors: %s: subject variable %s is redeclared", where, name)
		}
		isT, isM := classify(typExpr)
		switch {
		case isM:
			mirVars[name] = true
		case isT:
			typeVars[name] = true
		}
	}
	litType := func(e ast.Expr) ast.Expr {
		switch t := e.(type) {
		case *ast.UnaryExpr:
			if t.Op == token.AND {
				if cl, ok := t.X.(*ast.CompositeLit); ok {
					return cl.Type
				}
			}
		case *ast.CompositeLit:
			return t.Type
		case *ast.CallExpr:
			if id, ok := t.Fun.(*ast.Ident); ok && id.Name == "new" && len(t.Args) == 1 {
				return t.Args[0]
			}
		case *ast.TypeAssertExpr:
			return t.Type
		}
		return nil
	}
	defined := map[*ast.Ident]bool{}
	ast.Inspect(fd.Body, func(n ast.Node) bool {
		switch s := n.(type) {
		case *ast.AssignStmt:
			if s.Tok != token.DEFINE {
				return true
			}
			for i, l := range s.Lhs {
				id, ok := l.(*ast.Ident)
				if !ok {
					continue
				}
				defined[id] = true
				var rhs ast.Expr
				if len(s.Rhs) == len(s.Lhs) {
					rhs = s.Rhs[i]
				} else if i == 0 && len(s.Rhs) == 1 {
					rhs = s.Rhs[0]
				}
				if typeVars[id.Name] || mirVars[id.Name] {
					die("mirrors: %s: subject variable %s is shadowed", where, id.Name)
				}
				if rhs != nil {
					if t := litType(rhs); t != nil {
						declare(id.Name, t)
					}
				}
			}
		case *ast.RangeStmt:
			for _, kv := range []ast.Expr{s.Key, s.Value} {
				if id, ok := kv.(*ast.Ident); ok {
					defined[id] = true
					if typeVars[id.Name] || mirVars[id.Name] {
						die("mirrors: %s: subject variable %s is shadowed by a range variable", where, id.Name)
					}
				}
			}
		case *ast.DeclStmt:
			gd := s.Decl.(*ast.GenDecl)
			if gd.Tok != token.VAR {
				return true
			}
			for _, spc := range gd.Specs {
				vs := spc.(*ast.ValueSpec)
				for i, id := range vs.Names {
					defined[id] = true
					if typeVars[id.Name] || mirVars[id.Name] {
						die("mirrors: %s: subject variable %s is shadowed", where, id.Name)
					}
					if st, ok := vs.Type.(*ast.StructType); ok && sp.mir == "" && id.Name == sp.mirVar {
						mirVars[id.Name] = true
						cf.anonMirror = st
						cf.mirFields = exportedFields(st, nil, where+" anonymous mirror")
						continue
					}
					if vs.Type != nil {
						declare(id.Name, vs.Type)
					} else if i < len(vs.Values) {
						if t := litType(vs.Values[i]); t != nil {
							declare(id.Name, t)
						}
					}
				}
			}
		}
		return true
	})
	if sp.mir == "" && cf.anonMirror == nil {
		die("mirrors: %s: anonymous mirror variable %s not found", where, sp.mirVar)
	}
	if dirn == "from" && len(mirVars) == 0 {
		die("mirrors: %s: no mirror variable found", where)
	}
	// pass 2: every occurrence of a subject variable, with its syntactic context
	var stack []ast.Node
	mark := func(isTypeVar bool, field string, write bool, pos ast.Node) {
		fields, reads, writes := cf.mirFields, cf.mirReads, cf.mirWrites
		side := "mirror"
		if isTypeVar {
			fields, reads, writes = cf.typeFields, cf.typeReads, cf.typeWrites
			side = "type"
		}
		if !inList(fields, field) {
			die("mirrors: %s: %s variable selects unknown field/method %q (%s)", where, side, field, fset.Position(pos.Pos()))
		}
		if write {
			writes[field] = true
		} else {
			reads[field] = true
		}
	}
	ast.Inspect(fd.Body, func(n ast.Node) bool {
		if n == nil {
			stack = stack[:len(stack)-1]
			return true
		}
		stack = append(stack, n)
		switch t := n.(type) {
		case *ast.CompositeLit:
			isT, isM := false, false
			if t.Type != nil {
				isT, isM = classify(t.Type)
			}
			if isT || isM {
				fields := cf.mirFields
				if isT {
					fields = cf.typeFields
				}
				if len(t.Elts) > 0 {
					if _, kv := t.Elts[0].(*ast.KeyValueExpr); !kv {
						if len(t.Elts) != len(fields) {
							die("mirrors: %s: positional literal of %s with %d of %d fields", where, exprString(t.Type), len(t.Elts), len(fields))
						}
						for _, f := range fields {
							mark(isT, f, true, t)
						}
					} else {
						for _, e := range t.Elts {
							kv, ok := e.(*ast.KeyValueExpr)
							if !ok {
								die("mirrors: %s: mixed literal of %s", where, exprString(t.Type))
							}
							mark(isT, exprString(kv.Key), true, kv)
						}
					}
				}
			}
		case *ast.Ident:
			if defined[t] || (!typeVars[t.Name] && !mirVars[t.Name]) {
				return true
			}
			if len(stack) < 2 {
				return true
			}
			parent := stack[len(stack)-2]
			// not a variable use: the selected name of a selector, or a key of a composite literal
			if se, ok := parent.(*ast.SelectorExpr); ok && se.Sel == t {
				return true
			}
			if kv, ok := parent.(*ast.KeyValueExpr); ok && kv.Key == t {
				return true
			}
			isTV := typeVars[t.Name]
			// climb to the outermost selector/index/star/call chain rooted at this identifier
			top := len(stack) - 1
			var firstSel *ast.SelectorExpr
			for top > 0 {
				p := stack[top-1]
				ok := false
				switch pp := p.(type) {
				case *ast.SelectorExpr:
					ok = pp.X == stack[top]
					if ok && firstSel == nil {
						firstSel = pp
					}
				case *ast.IndexExpr:
					ok = pp.X == stack[top]
				case *ast.SliceExpr:
					ok = pp.X == stack[top]
				case *ast.StarExpr, *ast.ParenExpr:
					ok = true
				case *ast.CallExpr:
					ok = pp.Fun == stack[top]
				}
				if !ok {
					break
				}
				top--
			}
			chain := stack[top].(ast.Expr)
			var ctx ast.Node
			if top > 0 {
				ctx = stack[top-1]
			}
			if firstSel == nil {
				// whole-value use of a subject variable
				switch c := ctx.(type) {
				case *ast.ReturnStmt:
					return true
				case *ast.BinaryExpr:
					other := c.X
					if other == chain {
						other = c.Y
					}
					if id, ok := other.(*ast.Ident); ok && id.Name == "nil" && (c.Op == token.EQL || c.Op == token.NEQ) {
						return true
					}
				case *ast.UnaryExpr:
					if c.Op == token.AND && top > 1 {
						if call, ok := stack[top-2].(*ast.CallExpr); ok && wholeValueCalls[exprString(call.Fun)] && !isTV {
							return true
						}
					}
				case *ast.CallExpr:
					if wholeValueCalls[exprString(c.Fun)] && !isTV {
						return true
					}
				case *ast.TypeAssertExpr:
					return true
				}
				die("mirrors: %s: subject variable %s is used as a whole value (%s): fields may flow unseen", where, t.Name, fset.Position(t.Pos()))
			}
			field := firstSel.Sel.Name
			// is the first selector a method call?  v.M(...)
			selIdx := -1
			for i := len(stack) - 1; i >= top; i-- {
				if stack[i] == ast.Node(firstSel) {
					selIdx = i
				}
			}
			isCall := false
			if selIdx > 0 {
				if call, ok := stack[selIdx-1].(*ast.CallExpr); ok && call.Fun == ast.Expr(firstSel) {
					isCall = true
				}
			}
			if isCall {
				if isTV {
					f, ok := sp.methods[field]
					if !ok {
						die("mirrors: %s: call of unlisted method %s on the type variable (%s)", where, field, fset.Position(t.Pos()))
					}
					if f != "" {
						mark(true, f, false, t)
					}
					return true
				}
				// mirror getters: GetX() reads X
				if strings.HasPrefix(field, "Get") && inList(cf.mirFields, strings.TrimPrefix(field, "Get")) {
					mark(false, strings.TrimPrefix(field, "Get"), false, t)
					return true
				}
				die("mirrors: %s: call of method %s on the mirror variable (%s)", where, field, fset.Position(t.Pos()))
			}
			// write contexts: left-hand side of an assignment, or receiver of a mutating method
			write := false
			switch c := ctx.(type) {
			case *ast.AssignStmt:
				for _, l := range c.Lhs {
					if l == chain {
						write = true
					}
				}
			case *ast.IncDecStmt:
				write = true
			}
			if !write {
				// v.F.FromTOML(...): the chain ends in a call of a mutating method whose receiver is exactly v.F
				if call, ok := chain.(*ast.CallExpr); ok {
					if se, ok := call.Fun.(*ast.SelectorExpr); ok && mutatingMethods[se.Sel.Name] {
						r, f, _ := rootOf(se.X)
						if r == t && f == field {
							// count as both: the old value may be read by the method
							mark(isTV, field, true, t)
						}
					}
				}
			}
			mark(isTV, field, write, t)
		}
		return true
	})
	return cf
}

func setInOrder(fields []string, set map[string]bool) []string {
	out := []string{}
	for _, f := range fields {
		if set[f] {
			out = append(out, f)
		}
	}
	return out
}

// ifConditions returns every `if` condition of the function in source order (pre-order).
func ifConditions(fd *ast.FuncDecl) []string {
	var out []string
	ast.Inspect(fd.Body, func(n ast.Node) bool {
		if s, ok := n.(*ast.IfStmt); ok {
			c := exprString(s.Cond)
			if s.Init != nil {
				if as, ok := s.Init.(*ast.AssignStmt); ok {
					var l, r []string
					for _, e := range as.Lhs {
						l = append(l, exprString(e))
					}
					for _, e := range as.Rhs {
						r = append(r, exprString(e))
					}
					c = strings.Join(l, ",") + as.Tok.String() + strings.Join(r, ",") + ";" + c
				} else {
					die("mirrors: %s: unsupported if-initialiser", fd.Name.Name)
				}
			}
			out = append(out, c)
		}
		return true
	})
	return out
}

func genMirrors() {
	l := newLean("Mirrors", "Gen.DKGTable")
	l.pf(`namespace Gen
/-- one (type, mirror, to, from) conversion pair: field lists and the fields each body touches -/
structure Mirror where
  name : String
  typeFields : List String
  /-- fields of the mirror as seen by the to-function / by the from-function (they differ only for anonymous JSON mirrors) -/
  mirrorFieldsTo : List String
  mirrorFieldsFrom : List String
  toReads : List String
  toWrites : List String
  fromReads : List String
  fromWrites : List String
  deriving Repr, DecidableEq

`)
	var names []string
	for i := range mirrorSpecs {
		sp := &mirrorSpecs[i]
		typeFields := exportedFields(findStruct(sp.typDir, sp.typ), sp.expand, sp.typDir+"."+sp.typ)
		var mirFields []string
		if sp.mir != "" {
			mirFields = exportedFields(findStruct(sp.mirDir, sp.mir), nil, sp.mirDir+"."+sp.mir)
		}
		toFd := findFunc(sp.toDir, sp.toRecv, sp.toFn)
		fromFd := findFunc(sp.fromDir, sp.fromRecv, sp.fromFn)
		to := analyse(sp, toFd, "to", typeFields, mirFields)
		from := analyse(sp, fromFd, "from", typeFields, mirFields)
		if len(to.mirWrites) == 0 || len(from.typeWrites) == 0 {
			die("mirrors: %s: conversion writes nothing (shape not recognised)", sp.name)
		}
		lean := "m" + strings.NewReplacer("/", "_").Replace(sp.name)
		names = append(names, lean)
		l.pf("/-- %s: `%s.%s` ↔ `%s` via `%s` / `%s` -/\ndef %s : Mirror := {\n  name := %s,\n  typeFields := %s,\n  mirrorFieldsTo := %s,\n  mirrorFieldsFrom := %s,\n  toReads := %s,\n  toWrites := %s,\n  fromReads := %s,\n  fromWrites := %s }\n",
			sp.name, sp.typDir, sp.typ, map[bool]string{true: sp.mirDir + "." + sp.mir, false: "anonymous struct " + sp.mirVar}[sp.mir != ""],
			sp.toFn, sp.fromFn, lean, leanStr(sp.name),
			leanStrList(typeFields), leanStrList(to.mirFields), leanStrList(from.mirFields),
			leanStrList(setInOrder(typeFields, to.typeReads)), leanStrList(setInOrder(to.mirFields, to.mirWrites)),
			leanStrList(setInOrder(from.mirFields, from.mirReads)), leanStrList(setInOrder(typeFields, from.typeWrites)))
		if sp.mir == "" {
			l.pf("/-- json tags of the anonymous mirrors of %s, to-side and from-side, in field order -/\ndef %s_toTags : List String := %s\ndef %s_fromTags : List String := %s\n",
				sp.name, lean, leanStrList(jsonTags(to.anonMirror, sp.name)), lean, leanStrList(jsonTags(from.anonMirror, sp.name)))
		}
	}
	l.pf("def mirrors : List Mirror := [%s]\n", strings.Join(names, ", "))
	// Beacon: one struct on both sides, json tags matter
	{
		st := findStruct("common", "Beacon")
		l.pf("/-- common.Beacon: exported fields and their json tags -/\ndef beaconFields : List String := %s\ndef beaconJsonTags : List String := %s\n",
			leanStrList(exportedFields(st, nil, "common.Beacon")), leanStrList(jsonTags(st, "common.Beacon")))
	}
	// scheme table
	{
		fd := findFunc("crypto", "", "SchemeFromName")
		var sw *ast.SwitchStmt
		for _, s := range fd.Body.List {
			if x, ok := s.(*ast.SwitchStmt); ok {
				sw = x
			}
		}
		if sw == nil || exprString(sw.Tag) != "schemeName" {
			die("mirrors: SchemeFromName is not a switch over schemeName")
		}
		var schemes []string
		sawDefault := false
		for _, c := range sw.Body.List {
			cc := c.(*ast.CaseClause)
			if cc.List == nil {
				sawDefault = true
				ret, ok := cc.Body[len(cc.Body)-1].(*ast.ReturnStmt)
				if !ok || exprString(ret.Results[0]) != "nil" {
					die("mirrors: SchemeFromName default case does not return a nil scheme")
				}
				continue
			}
			for _, e := range cc.List {
				id, ok := e.(*ast.Ident)
				if !ok {
					die("mirrors: SchemeFromName case %s is not a constant name", exprString(e))
				}
				schemes = append(schemes, constStr("crypto", id.Name))
			}
			ret, ok := cc.Body[len(cc.Body)-1].(*ast.ReturnStmt)
			if !ok || len(ret.Results) != 2 || exprString(ret.Results[1]) != "nil" {
				die("mirrors: SchemeFromName case does not return (scheme, nil)")
			}
		}
		if !sawDefault {
			die("mirrors: SchemeFromName has no rejecting default case")
		}
		l.pf("/-- crypto.SchemeFromName: the names it accepts, in source order; everything else is an error -/\ndef schemeNames : List String := [%s]\n", strings.Join(schemes, ", "))
		// `Gen.defaultSchemeID` is emitted by the DKG table generator (Gen/DKGTable.lean), imported above
		_ = constStr("crypto", "DefaultSchemeID")
		g := findFunc("crypto", "", "GetSchemeByID")
		conds := ifConditions(g)
		last, ok := g.Body.List[len(g.Body.List)-1].(*ast.ReturnStmt)
		if len(conds) != 1 || conds[0] != `id==""` || !ok || exprString(last.Results[0]) != "SchemeFromName(id)" {
			die("mirrors: GetSchemeByID: unexpected body")
		}
		as, ok := g.Body.List[0].(*ast.IfStmt).Body.List[0].(*ast.AssignStmt)
		if !ok || exprString(as.Lhs[0]) != "id" || exprString(as.Rhs[0]) != "DefaultSchemeID" {
			die("mirrors: GetSchemeByID: empty id is not mapped to DefaultSchemeID")
		}
		l.pf("/-- crypto.GetSchemeByID(id) = SchemeFromName(if id == \"\" then DefaultSchemeID else id) -/\ndef getSchemeByIDDefaultsEmpty : Bool := true\n")
	}
	// MinimumT
	{
		fd := findFunc("common/key", "", "MinimumT")
		ret, ok := fd.Body.List[0].(*ast.ReturnStmt)
		if !ok || len(fd.Body.List) != 1 || exprString(ret.Results[0]) != "(n>>1)+1" {
			die("mirrors: MinimumT: unexpected body")
		}
		l.pf("/-- common/key.MinimumT -/\ndef minimumT (n : Nat) : Nat := (n >>> 1) + 1\n")
	}
	// guard chains
	l.pf("/-- every `if` condition of key.Group.FromTOML, in source order -/\ndef groupFromTOMLGuards : List String := %s\n",
		leanStrList(ifConditions(findFunc("common/key", "Group", "FromTOML"))))
	l.pf("/-- every `if` condition of key.GroupFromProto, in source order -/\ndef groupFromProtoGuards : List String := %s\n",
		leanStrList(ifConditions(findFunc("common/key", "", "GroupFromProto"))))
	l.pf("/-- every `if` condition of key.IdentityFromProto / key.Identity.FromTOML, in source order -/\ndef identityFromProtoGuards : List String := %s\ndef identityFromTOMLGuards : List String := %s\n",
		leanStrList(ifConditions(findFunc("common/key", "", "IdentityFromProto"))), leanStrList(ifConditions(findFunc("common/key", "Identity", "FromTOML"))))
	l.pf("/-- every `if` condition of chain.Info.UnmarshalJSON / chain.InfoFromProto / dkg.DBStateTOML.FromTOML, in source order -/\ndef infoUnmarshalJSONGuards : List String := %s\ndef infoFromProtoGuards : List String := %s\ndef dbStateFromTOMLGuards : List String := %s\n",
		leanStrList(ifConditions(findFunc("common/chain", "Info", "UnmarshalJSON"))), leanStrList(ifConditions(findFunc("common/chain", "", "InfoFromProto"))),
		leanStrList(ifConditions(findFunc("internal/dkg", "DBStateTOML", "FromTOML"))))
	l.pf("end Gen\n")
	_ = sort.Strings
}
