package main

// C14 lock facts. For every method of the listed receiver types: which mutexes it acquires
// (Lock / RLock), how each acquisition is released (deferred, or explicitly on every path), which
// methods of the same receiver it calls on the same goroutine while the mutex is held, and the
// receiver-internal call graph (so that "calls b, b calls c, c locks" is visible). The walker is
// syntactic and dies on every shape it cannot account for (unbalanced Unlock, branches that leave
// with different lock sets, a loop body that changes the lock set).

import (
	"fmt"
	"go/ast"
	"go/token"
	"sort"
	"strings"
)

type lockType struct{ dir, name string }

var lockTypes = []lockType{
	{"internal/dkg", "Process"},
	{"internal/dkg", "echoBroadcast"},
	{"internal/dkg", "dispatcher"},
	{"internal/dkg", "BoltStore"},
	{"internal/chain/beacon", "appendStore"},
	{"internal/chain/beacon", "schemeStore"},
	{"internal/chain/beacon", "callbackStore"},
	{"internal/chain/beacon", "Handler"},
	{"internal/core", "BeaconProcess"},
	{"internal/core", "DrandDaemon"},
	{"handler/http", "DrandHandler"},
}

type acq struct {
	recv, method, mutex, kind string
	deferred                  bool
	released                  bool
	callsHeld                 []string
	regionCalls               []string
	leaks                     int
	foreign                   bool
}

type lockWalker struct {
	recvType string
	recvVar  string
	method   string // current (pseudo-)function name
	methods  map[string]bool
	acqs     []*acq
	calls    map[string]map[string]bool // caller -> callee set (same goroutine)
	litN     int
	where    string
}

func (w *lockWalker) dief(format string, a ...any) {
	die("lock facts: %s.%s: %s", w.recvType, w.method, fmt.Sprintf(format, a...))
}

// mutexOf: is `call` of the form X.Lock() / X.RLock() / X.Unlock() / X.RUnlock() with X rooted at an identifier?
// returns (mutex name, op).
func (w *lockWalker) mutexOf(call *ast.CallExpr) (string, string, bool) {
	sel, ok := call.Fun.(*ast.SelectorExpr)
	if !ok || len(call.Args) != 0 {
		return "", "", false
	}
	op := sel.Sel.Name
	if op != "Lock" && op != "RLock" && op != "Unlock" && op != "RUnlock" {
		return "", "", false
	}
	x := exprString(sel.X)
	root := x
	if i := strings.IndexByte(x, '.'); i >= 0 {
		root = x[:i]
	}
	if strings.ContainsAny(x, "()[]") {
		w.dief("mutex expression %s is not a plain selector", x)
	}
	switch {
	case x == w.recvVar:
		return w.recvType + ".(embedded)", op, true
	case root == w.recvVar:
		return w.recvType + "." + x[len(root)+1:], op, true
	}
	// a mutex that does not belong to the receiver (local mutex, another object's lock)
	return "~" + x, op, true
}

type heldSet []*acq

func (h heldSet) clone() heldSet { return append(heldSet{}, h...) }
// key identifies the acquisitions that still need an explicit Unlock; deferred ones are released at
// function exit on every path and may differ between branches (they are unioned at a merge).
func (h heldSet) key() string {
	var ks []string
	for _, a := range h {
		if a.deferred {
			continue
		}
		ks = append(ks, fmt.Sprintf("%s/%s", a.mutex, a.kind))
	}
	sort.Strings(ks)
	return strings.Join(ks, ",")
}

// recvCallsIn collects the receiver's own methods called in the expression/statement n on this goroutine
// (does not descend into `go` statements; descends into other function literals, which may run inline),
// and every call expression rendered as text.
func (w *lockWalker) recvCallsIn(n ast.Node) (own []string, all []string) {
	if n == nil {
		return
	}
	ast.Inspect(n, func(x ast.Node) bool {
		switch t := x.(type) {
		case *ast.GoStmt:
			return false
		case *ast.CallExpr:
			if _, _, isMx := w.mutexOf(t); isMx {
				return true
			}
			all = append(all, exprString(t.Fun))
			if sel, ok := t.Fun.(*ast.SelectorExpr); ok {
				if id, ok := sel.X.(*ast.Ident); ok && id.Name == w.recvVar && w.methods[sel.Sel.Name] {
					own = append(own, sel.Sel.Name)
				}
			}
		}
		return true
	})
	return
}

func (w *lockWalker) note(n ast.Node, held heldSet) {
	own, all := w.recvCallsIn(n)
	for _, c := range own {
		if w.calls[w.method] == nil {
			w.calls[w.method] = map[string]bool{}
		}
		w.calls[w.method][c] = true
	}
	for _, a := range held {
		a.callsHeld = append(a.callsHeld, own...)
		if !a.deferred {
			a.regionCalls = append(a.regionCalls, all...)
		}
	}
}

// funcLits walks every function literal below n as a pseudo-function of its own (its lock set starts empty).
func (w *lockWalker) funcLits(n ast.Node) {
	if n == nil {
		return
	}
	ast.Inspect(n, func(x ast.Node) bool {
		fl, ok := x.(*ast.FuncLit)
		if !ok {
			return true
		}
		w.litN++
		saved := w.method
		base := saved
		if i := strings.Index(base, "$"); i >= 0 {
			base = base[:i]
		}
		w.method = fmt.Sprintf("%s$lit%d", base, w.litN)
		w.methods[w.method] = true
		end, term := w.walk(fl.Body.List, nil)
		if !term {
			w.atEnd(end)
		}
		w.method = saved
		return false // nested literals were handled by the recursive walk
	})
}

func (w *lockWalker) atEnd(held heldSet) {
	for _, a := range held {
		if !a.deferred {
			a.leaks++
		}
	}
}

func (w *lockWalker) lockOp(call *ast.CallExpr, held heldSet, isDefer bool) heldSet {
	mx, op, _ := w.mutexOf(call)
	switch op {
	case "Lock", "RLock":
		if isDefer {
			w.dief("deferred %s of %s", op, mx)
		}
		k := "lock"
		if op == "RLock" {
			k = "rlock"
		}
		a := &acq{recv: w.recvType, method: w.method, mutex: mx, kind: k, foreign: strings.HasPrefix(mx, "~")}
		w.acqs = append(w.acqs, a)
		return append(held, a)
	default:
		want := "lock"
		if op == "RUnlock" {
			want = "rlock"
		}
		for i := len(held) - 1; i >= 0; i-- {
			a := held[i]
			if a.mutex == mx && a.kind == want && !a.deferred {
				if isDefer {
					a.deferred = true
					return held
				}
				a.released = true
				out := append(heldSet{}, held[:i]...)
				return append(out, held[i+1:]...)
			}
		}
		w.dief("%s of %s without a matching acquisition in the same function", op, mx)
	}
	return held
}

// walk processes a statement list; returns the lock set at its end and whether control cannot fall through.
func (w *lockWalker) walk(stmts []ast.Stmt, held heldSet) (heldSet, bool) {
	for _, s := range stmts {
		var term bool
		held, term = w.stmt(s, held)
		if term {
			return held, true
		}
	}
	return held, false
}

func (w *lockWalker) merge(what string, start heldSet, outs []heldSet, terms []bool, mayskip bool) (heldSet, bool) {
	var live []heldSet
	for i, o := range outs {
		if !terms[i] {
			live = append(live, o)
		}
	}
	if mayskip {
		live = append(live, start)
	}
	if len(live) == 0 {
		return start, true
	}
	for _, o := range live[1:] {
		if o.key() != live[0].key() {
			w.dief("%s: branches leave with different lock sets {%s} vs {%s}", what, live[0].key(), o.key())
		}
	}
	out := live[0].clone()
	for _, o := range live[1:] {
		for _, a := range o {
			if !a.deferred {
				continue
			}
			dup := false
			for _, b := range out {
				if a == b {
					dup = true
				}
			}
			if !dup {
				out = append(out, a)
			}
		}
	}
	return out, false
}

func (w *lockWalker) stmt(s ast.Stmt, held heldSet) (heldSet, bool) {
	switch t := s.(type) {
	case *ast.ExprStmt:
		if call, ok := t.X.(*ast.CallExpr); ok {
			if _, _, isMx := w.mutexOf(call); isMx {
				return w.lockOp(call, held, false), false
			}
			if id, ok := call.Fun.(*ast.Ident); ok && id.Name == "panic" {
				w.note(t, held)
				return held, true
			}
		}
		w.note(t, held)
		w.funcLits(t)
		return held, false
	case *ast.DeferStmt:
		if _, _, isMx := w.mutexOf(t.Call); isMx {
			return w.lockOp(t.Call, held, true), false
		}
		if fl, ok := t.Call.Fun.(*ast.FuncLit); ok {
			// defer func() { … X.Unlock() … }(): treat Unlocks of held mutexes inside as deferred releases
			ast.Inspect(fl.Body, func(x ast.Node) bool {
				if c, ok := x.(*ast.CallExpr); ok {
					if mx, op, isMx := w.mutexOf(c); isMx && (op == "Unlock" || op == "RUnlock") {
						for _, a := range held {
							if a.mutex == mx && !a.deferred {
								a.deferred = true
								return true
							}
						}
					}
				}
				return true
			})
			// calls inside the deferred closure run at function exit while deferred locks may still be held
			w.note(fl.Body, held)
			return held, false
		}
		w.note(t.Call, held)
		return held, false
	case *ast.GoStmt:
		// another goroutine: not "while held"; literals are pseudo-functions of their own
		for _, a := range t.Call.Args {
			w.note(a, held)
		}
		w.funcLits(t.Call)
		return held, false
	case *ast.ReturnStmt:
		w.note(t, held)
		w.funcLits(t)
		w.atEnd(held)
		return held, true
	case *ast.BlockStmt:
		return w.walk(t.List, held)
	case *ast.LabeledStmt:
		return w.stmt(t.Stmt, held)
	case *ast.IfStmt:
		if t.Init != nil {
			held, _ = w.stmt(t.Init, held)
		}
		w.note(t.Cond, held)
		w.funcLits(t.Cond)
		h1, t1 := w.walk(t.Body.List, held.clone())
		outs := []heldSet{h1}
		terms := []bool{t1}
		mayskip := true
		if t.Else != nil {
			h2, t2 := w.stmt(t.Else, held.clone())
			outs = append(outs, h2)
			terms = append(terms, t2)
			mayskip = false
		}
		return w.merge("if", held, outs, terms, mayskip)
	case *ast.ForStmt:
		if t.Init != nil {
			held, _ = w.stmt(t.Init, held)
		}
		if t.Cond != nil {
			w.note(t.Cond, held)
		}
		if t.Post != nil {
			w.note(t.Post, held)
		}
		h1, t1 := w.walk(t.Body.List, held.clone())
		if !t1 && h1.key() != held.key() {
			w.dief("for: body changes the lock set {%s} -> {%s}", held.key(), h1.key())
		}
		return held, false
	case *ast.RangeStmt:
		w.note(t.X, held)
		h1, t1 := w.walk(t.Body.List, held.clone())
		if !t1 && h1.key() != held.key() {
			w.dief("range: body changes the lock set {%s} -> {%s}", held.key(), h1.key())
		}
		return held, false
	case *ast.SwitchStmt, *ast.TypeSwitchStmt, *ast.SelectStmt:
		var body *ast.BlockStmt
		hasDefault := false
		switch u := t.(type) {
		case *ast.SwitchStmt:
			if u.Init != nil {
				held, _ = w.stmt(u.Init, held)
			}
			if u.Tag != nil {
				w.note(u.Tag, held)
			}
			body = u.Body
		case *ast.TypeSwitchStmt:
			if u.Init != nil {
				held, _ = w.stmt(u.Init, held)
			}
			w.note(u.Assign, held)
			body = u.Body
		case *ast.SelectStmt:
			body = u.Body
			hasDefault = true // a select always takes exactly one of its clauses
		}
		var outs []heldSet
		var terms []bool
		for _, c := range body.List {
			var list []ast.Stmt
			switch cc := c.(type) {
			case *ast.CaseClause:
				if cc.List == nil {
					hasDefault = true
				}
				for _, e := range cc.List {
					w.note(e, held)
				}
				list = cc.Body
			case *ast.CommClause:
				if cc.Comm != nil {
					w.note(cc.Comm, held)
				}
				list = cc.Body
			}
			h1, t1 := w.walk(list, held.clone())
			outs = append(outs, h1)
			terms = append(terms, t1)
		}
		return w.merge("switch/select", held, outs, terms, !hasDefault)
	case *ast.BranchStmt:
		if t.Tok == token.GOTO {
			w.dief("goto")
		}
		// break/continue: the enclosing loop check requires the body to be lock-neutral; treat as fallthrough-free
		return held, false
	case *ast.AssignStmt, *ast.DeclStmt, *ast.IncDecStmt, *ast.SendStmt, *ast.EmptyStmt:
		w.note(t, held)
		w.funcLits(t)
		return held, false
	}
	w.dief("unsupported statement %T", s)
	return held, false
}

func leanIdent(s string) string {
	r := strings.NewReplacer(".", "_", "$", "_", "(", "", ")", "", "~", "ext_", "-", "_")
	return r.Replace(s)
}

func genLockCalls() {
	l := newLean("LockCalls")
	l.pf("namespace Gen.LockCalls\n")
	var all []*acq
	type edge struct{ a, b string }
	var edges []edge
	fnSet := map[string]bool{}
	mxSet := map[string]bool{}
	for _, lt := range lockTypes {
		// method set
		methods := map[string]bool{}
		var decls []*ast.FuncDecl
		for _, f := range load(lt.dir) {
			for _, d := range f.Decls {
				fd, ok := d.(*ast.FuncDecl)
				if ok && fd.Recv != nil && len(fd.Recv.List) == 1 && baseTypeName(fd.Recv.List[0].Type) == lt.name && fd.Body != nil {
					methods[fd.Name.Name] = true
					decls = append(decls, fd)
				}
			}
		}
		if len(decls) == 0 {
			die("lock facts: type %s has no methods in %s", lt.name, lt.dir)
		}
		sort.Slice(decls, func(i, j int) bool { return decls[i].Name.Name < decls[j].Name.Name })
		for _, fd := range decls {
			rv := "_"
			if len(fd.Recv.List[0].Names) == 1 {
				rv = fd.Recv.List[0].Names[0].Name
			}
			w := &lockWalker{recvType: lt.name, recvVar: rv, method: fd.Name.Name, methods: methods, calls: map[string]map[string]bool{}}
			end, term := w.walk(fd.Body.List, nil)
			if !term {
				w.atEnd(end)
			}
			all = append(all, w.acqs...)
			fnSet[lt.name+"."+fd.Name.Name] = true
			for caller, cs := range w.calls {
				fnSet[lt.name+"."+caller] = true
				for c := range cs {
					edges = append(edges, edge{lt.name + "." + caller, lt.name + "." + c})
					fnSet[lt.name+"."+c] = true
				}
			}
			for _, a := range w.acqs {
				fnSet[a.recv+"."+a.method] = true
				mxSet[a.mutex] = true
				for _, c := range a.callsHeld {
					fnSet[a.recv+"."+c] = true
				}
			}
		}
	}
	var fns, mxs []string
	for f := range fnSet {
		fns = append(fns, f)
	}
	for m := range mxSet {
		mxs = append(mxs, m)
	}
	sort.Strings(fns)
	sort.Strings(mxs)
	l.pf("/-- every method (and function literal `m$litN`) of the analysed receiver types that takes part in a lock fact or a receiver-internal call -/\ninductive Fn\n")
	for _, f := range fns {
		l.pf("  | %s\n", leanIdent(f))
	}
	l.pf("  deriving DecidableEq, Repr\n")
	l.pf("/-- mutexes: `Type.field`, `Type.(embedded)` for an embedded sync.Mutex, `~expr` for a mutex that is not a field of the receiver -/\ninductive Mx\n")
	for _, m := range mxs {
		l.pf("  | %s\n", leanIdent(m))
	}
	l.pf("  deriving DecidableEq, Repr\n")
	l.pf("inductive Kind | lock | rlock deriving DecidableEq, Repr\n")
	l.pf("inductive Release | deferred | explicit deriving DecidableEq, Repr\n")
	l.pf("structure Acq where\n  fn : Fn\n  mutex : Mx\n  kind : Kind\n  release : Release\n  /-- methods of the same receiver called on the same goroutine while this acquisition is held -/\n  callsHeld : List Fn\n  /-- explicit regions only: every call made between Lock and Unlock (text) -/\n  regionCalls : List String\n  /-- number of return statements / function ends reached with this (non-deferred) acquisition still held -/\n  leaks : Nat\n  deriving Repr\n")
	l.pf("def fnName : Fn → String\n")
	for _, f := range fns {
		l.pf("  | .%s => %s\n", leanIdent(f), leanStr(f))
	}
	l.pf("def mxName : Mx → String\n")
	for _, m := range mxs {
		l.pf("  | .%s => %s\n", leanIdent(m), leanStr(m))
	}
	uniq := func(xs []string) []string {
		seen := map[string]bool{}
		var out []string
		for _, x := range xs {
			if !seen[x] {
				seen[x] = true
				out = append(out, x)
			}
		}
		return out
	}
	l.pf("def acqs : List Acq := [\n")
	for i, a := range all {
		rel := "explicit"
		if a.deferred {
			rel = "deferred"
		}
		if !a.deferred && !a.released && a.leaks == 0 {
			die("lock facts: %s.%s acquires %s and neither releases nor leaks it (walker bug)", a.recv, a.method, a.mutex)
		}
		var ch []string
		for _, c := range uniq(a.callsHeld) {
			ch = append(ch, "."+leanIdent(a.recv+"."+c))
		}
		sep := ","
		if i == len(all)-1 {
			sep = ""
		}
		l.pf("  { fn := .%s, mutex := .%s, kind := .%s, release := .%s, callsHeld := [%s], regionCalls := %s, leaks := %d }%s\n",
			leanIdent(a.recv+"."+a.method), leanIdent(a.mutex), a.kind, rel, strings.Join(ch, ", "), leanStrList(uniq(a.regionCalls)), a.leaks, sep)
	}
	l.pf("]\n")
	sort.Slice(edges, func(i, j int) bool {
		if edges[i].a != edges[j].a {
			return edges[i].a < edges[j].a
		}
		return edges[i].b < edges[j].b
	})
	l.pf("/-- receiver-internal same-goroutine call graph (caller, callee) -/\ndef calls : List (Fn × Fn) := [\n")
	var es []string
	last := edge{}
	for _, e := range edges {
		if e == last {
			continue
		}
		last = e
		es = append(es, fmt.Sprintf("  (.%s, .%s)", leanIdent(e.a), leanIdent(e.b)))
	}
	l.pf("%s\n]\n", strings.Join(es, ",\n"))
	l.pf("end Gen.LockCalls\n")
}
