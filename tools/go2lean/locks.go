package main

import (
	"fmt"
	"go/ast"
	"sort"
	"strings"
)

// holdsMutexForWholeBody reports whether the method body (ignoring tracing boilerplate) starts with
// `<x>.Lock()` followed by `defer <x>.Unlock()`, i.e. the whole body is one critical section.
func holdsMutexForWholeBody(dir, recv, method string) bool {
	fd := findFunc(dir, recv, method)
	var stmts []ast.Stmt
	for _, s := range fd.Body.List {
		txt := stmtString(s)
		if strings.Contains(txt, "tracer.NewSpan") || txt == "defer span.End()" {
			continue
		}
		stmts = append(stmts, s)
	}
	if len(stmts) < 2 {
		return false
	}
	a := stmtString(stmts[0])
	b := stmtString(stmts[1])
	if !strings.HasSuffix(a, ".Lock()") {
		return false
	}
	x := strings.TrimSuffix(a, ".Lock()")
	return b == "defer "+x+".Unlock()"
}

// lockBeforeReceiverUse reports whether the method takes `<recv>.<mutex>.Lock()` immediately followed by
// `defer <recv>.<mutex>.Unlock()` at the top level of its body before any statement touches a field of the receiver
// other than its logger: everything the method reads or writes of the receiver then happens inside one critical
// section that lasts until the method returns.
func lockBeforeReceiverUse(dir, recv, method, mutex string) bool {
	fd := findFunc(dir, recv, method)
	if fd.Recv == nil || len(fd.Recv.List) == 0 || len(fd.Recv.List[0].Names) == 0 {
		return false
	}
	rv := fd.Recv.List[0].Names[0].Name
	for i, s := range fd.Body.List {
		if stmtString(s) == rv+"."+mutex+".Lock()" {
			return i+1 < len(fd.Body.List) && stmtString(fd.Body.List[i+1]) == "defer "+rv+"."+mutex+".Unlock()"
		}
		touched := false
		ast.Inspect(s, func(n ast.Node) bool {
			if se, ok := n.(*ast.SelectorExpr); ok {
				if id, ok := se.X.(*ast.Ident); ok && id.Name == rv && se.Sel.Name != "log" {
					touched = true
				}
			}
			return true
		})
		if touched {
			return false
		}
	}
	return false
}

// wholeBodyLockKind: "W" when the method body begins with <x>.Lock(); defer <x>.Unlock(), "R" for RLock/RUnlock,
// "-" otherwise (tracing boilerplate ignored).
func wholeBodyLockKind(fd *ast.FuncDecl) string {
	var stmts []ast.Stmt
	for _, s := range fd.Body.List {
		txt := stmtString(s)
		if strings.Contains(txt, "tracer.NewSpan") || txt == "defer span.End()" {
			continue
		}
		stmts = append(stmts, s)
	}
	if len(stmts) < 2 {
		return "-"
	}
	a, b := stmtString(stmts[0]), stmtString(stmts[1])
	for _, k := range [][3]string{{".Lock()", ".Unlock()", "W"}, {".RLock()", ".RUnlock()", "R"}} {
		if strings.HasSuffix(a, k[0]) && b == "defer "+strings.TrimSuffix(a, k[0])+k[1] {
			return k[2]
		}
	}
	return "-"
}

// lockTable lists, for every method of the given receiver types in dir (source order of the names given), how its
// whole body is locked.
func lockTable(dir string, recvs ...string) [][2]string {
	var out [][2]string
	for _, f := range load(dir) {
		for _, d := range f.Decls {
			fd, ok := d.(*ast.FuncDecl)
			if !ok || fd.Recv == nil || len(fd.Recv.List) != 1 || fd.Body == nil {
				continue
			}
			rn := baseTypeName(fd.Recv.List[0].Type)
			for _, r := range recvs {
				if r == rn {
					out = append(out, [2]string{rn + "." + fd.Name.Name, wholeBodyLockKind(fd)})
				}
			}
		}
	}
	sort.Slice(out, func(i, j int) bool { return out[i][0] < out[j][0] })
	return out
}

func stmtString(s ast.Stmt) string {
	switch t := s.(type) {
	case *ast.ExprStmt:
		return exprString(t.X)
	case *ast.DeferStmt:
		return "defer " + exprString(t.Call)
	case *ast.AssignStmt:
		var l, r []string
		for _, e := range t.Lhs {
			l = append(l, exprString(e))
		}
		for _, e := range t.Rhs {
			r = append(r, exprString(e))
		}
		return strings.Join(l, ",") + t.Tok.String() + strings.Join(r, ",")
	case *ast.ReturnStmt:
		var r []string
		for _, e := range t.Results {
			r = append(r, exprString(e))
		}
		return "return " + strings.Join(r, ",")
	case *ast.GoStmt:
		return "go " + exprString(t.Call)
	}
	return "<stmt>"
}

func genLocks() {
	l := newLean("Locks")
	l.pf("namespace Gen\n")
	b := func(lean, dir, recv, method string) {
		v := "false"
		if holdsMutexForWholeBody(dir, recv, method) {
			v = "true"
		}
		l.pf("/-- %s: `%s.%s` begins with Lock(); defer Unlock() (its whole body is one critical section) -/\ndef %s : Bool := %s\n", dir, recv, method, lean, v)
	}
	b("appendStorePutLocked", "internal/chain/beacon", "appendStore", "Put")
	b("schemeStorePutLocked", "internal/chain/beacon", "schemeStore", "Put")
	a := func(lean, dir, recv, method, mutex string) {
		v := "false"
		if lockBeforeReceiverUse(dir, recv, method, mutex) {
			v = "true"
		}
		l.pf("/-- %s: `%s.%s` takes %s (Lock(); defer Unlock()) before it touches any receiver state: what it reads and writes of the process is one critical section -/\ndef %s : Bool := %s\n", dir, recv, method, mutex, lean, v)
	}
	a("processCommandAtomic", "internal/dkg", "Process", "Command", "lock")
	a("processPacketAtomic", "internal/dkg", "Process", "Packet", "lock")
	var rows []string
	for _, r := range lockTable("internal/chain/memdb", "Store", "memDBCursor") {
		rows = append(rows, fmt.Sprintf("(%q, %q)", r[0], r[1]))
	}
	l.pf("/-- internal/chain/memdb: per method of Store and memDBCursor, whether its whole body is one critical section of the store mutex (W = Lock, R = RLock, - = neither) -/\ndef memdbLockTable : List (String × String) := [%s]\n", strings.Join(rows, ", "))
	l.pf("end Gen\n")
}
