package main

// Facts for C01 / C03 (DESIGN.md §2.3): the beacon digest layouts of crypto/schemes.go, the shape of
// VerifyBeacon / RandomnessFromSignature and its three exits, and the statement skeletons (binds, guards
// with their exits, effects — in source order) of ProcessPartialBeacon, runAggregator, tryAppend and the
// packet loop of tryNode. Output: lean/Gen/BeaconNode.lean, namespace Gen.BeaconNode.

import (
	"go/ast"
	"go/token"
	"strings"
)

// ---- digest layouts ------------------------------------------------------------------------------

// schemeConstructors parses `SchemeFromName`: case <ConstID>: return <Ctor>(), nil
func schemeConstructors() (ids, ctors []string) {
	fd := findFunc("crypto", "", "SchemeFromName")
	if len(fd.Body.List) != 1 {
		die("SchemeFromName: expected a single switch statement")
	}
	sw, ok := fd.Body.List[0].(*ast.SwitchStmt)
	if !ok {
		die("SchemeFromName: expected a switch")
	}
	for _, c := range sw.Body.List {
		cc := c.(*ast.CaseClause)
		if cc.List == nil {
			continue // default: error
		}
		if len(cc.List) != 1 || len(cc.Body) != 1 {
			die("SchemeFromName: unsupported case shape")
		}
		ret, ok := cc.Body[0].(*ast.ReturnStmt)
		if !ok || len(ret.Results) != 2 || exprString(ret.Results[1]) != "nil" {
			die("SchemeFromName: case does not return (<ctor>(), nil)")
		}
		call, ok := ret.Results[0].(*ast.CallExpr)
		if !ok || len(call.Args) != 0 {
			die("SchemeFromName: case does not call a constructor")
		}
		ids = append(ids, exprString(cc.List[0]))
		ctors = append(ctors, exprString(call.Fun))
	}
	if len(ids) == 0 {
		die("SchemeFromName: no schemes found")
	}
	return
}

// digestOf extracts (scheme name constant, hash algorithm, segments) from a scheme constructor.
func digestOf(ctor string) (nameConst, algo string, segs []string) {
	fd := findFunc("crypto", "", ctor)
	var lit *ast.FuncLit
	for _, st := range fd.Body.List {
		ds, ok := st.(*ast.DeclStmt)
		if !ok {
			continue
		}
		gd := ds.Decl.(*ast.GenDecl)
		for _, sp := range gd.Specs {
			vs := sp.(*ast.ValueSpec)
			if len(vs.Names) == 1 && vs.Names[0].Name == "DigestFunc" {
				fl, ok := vs.Values[0].(*ast.FuncLit)
				if !ok {
					die("%s: DigestFunc is not a function literal", ctor)
				}
				lit = fl
			}
		}
	}
	if lit == nil {
		die("%s: var DigestFunc not found", ctor)
	}
	if len(lit.Type.Params.List) != 1 || len(lit.Type.Params.List[0].Names) != 1 || lit.Type.Params.List[0].Names[0].Name != "b" ||
		exprString(lit.Type.Params.List[0].Type) != "hashableBeacon" {
		die("%s: DigestFunc must take (b hashableBeacon)", ctor)
	}
	for i, st := range lit.Body.List {
		txt := skText(st)
		switch {
		case i == 0 && txt == "h:=sha256.New()":
			algo = "sha256"
		case i == 0 && txt == "h:=sha3.NewLegacyKeccak256()":
			algo = "keccak256"
		case txt == "_=binary.Write(h,binary.BigEndian,b.GetRound())":
			segs = append(segs, ".roundBE64")
		case txt == "return h.Sum(nil)":
			if i != len(lit.Body.List)-1 {
				die("%s: DigestFunc: return is not last", ctor)
			}
		default:
			ifs, ok := st.(*ast.IfStmt)
			if ok && ifs.Init == nil && ifs.Else == nil && exprString(ifs.Cond) == "len(b.GetPreviousSignature())>0" &&
				len(ifs.Body.List) == 1 && skText(ifs.Body.List[0]) == "_,_=h.Write(b.GetPreviousSignature())" {
				segs = append(segs, ".prevIfNonEmpty")
				continue
			}
			die("%s: DigestFunc: unrecognised statement %q", ctor, txt)
		}
	}
	if algo == "" || len(segs) == 0 {
		die("%s: DigestFunc: no hash or no writes", ctor)
	}
	// the returned Scheme literal must use DigestFunc and carry a constant name
	found := false
	ast.Inspect(fd.Body, func(n ast.Node) bool {
		cl, ok := n.(*ast.CompositeLit)
		if !ok || exprString(cl.Type) != "Scheme" {
			return true
		}
		var nm, dg string
		for _, e := range cl.Elts {
			kv := e.(*ast.KeyValueExpr)
			switch exprString(kv.Key) {
			case "Name":
				nm = exprString(kv.Value)
			case "DigestBeacon":
				dg = exprString(kv.Value)
			}
		}
		if dg != "DigestFunc" {
			die("%s: Scheme.DigestBeacon is %q, not DigestFunc", ctor, dg)
		}
		nameConst = nm
		found = true
		return true
	})
	if !found || nameConst == "" {
		die("%s: Scheme literal not found", ctor)
	}
	// GetRound must be a uint64 (8 bytes written)
	return
}

func interfaceMethodResult(dir, iface, method string) string {
	for _, f := range load(dir) {
		for _, d := range f.Decls {
			gd, ok := d.(*ast.GenDecl)
			if !ok || gd.Tok != token.TYPE {
				continue
			}
			for _, s := range gd.Specs {
				ts := s.(*ast.TypeSpec)
				it, ok := ts.Type.(*ast.InterfaceType)
				if !ok || ts.Name.Name != iface {
					continue
				}
				for _, m := range it.Methods.List {
					if len(m.Names) == 1 && m.Names[0].Name == method {
						ft := m.Type.(*ast.FuncType)
						if ft.Results == nil || len(ft.Results.List) != 1 {
							die("%s.%s: unexpected results", iface, method)
						}
						return exprString(ft.Results.List[0].Type)
					}
				}
			}
		}
	}
	die("interface method %s.%s not found in %s", iface, method, dir)
	return ""
}

// singleReturn returns the text of the only statement of a function body, which must be a return.
func singleReturn(dir, recv, name string) string {
	fd := findFunc(dir, recv, name)
	var keep []ast.Stmt
	for _, st := range fd.Body.List {
		if !skNoise(st) {
			keep = append(keep, st)
		}
	}
	if len(keep) != 1 {
		die("%s.%s: expected a single return statement", recv, name)
	}
	r, ok := keep[0].(*ast.ReturnStmt)
	if !ok {
		die("%s.%s: expected a return statement", recv, name)
	}
	return skText(r)
}

// ---- statement skeletons -------------------------------------------------------------------------

func skText(s ast.Stmt) string {
	switch t := s.(type) {
	case *ast.DeclStmt:
		gd := t.Decl.(*ast.GenDecl)
		var parts []string
		for _, sp := range gd.Specs {
			vs, ok := sp.(*ast.ValueSpec)
			if !ok {
				return "<decl>"
			}
			var names, vals []string
			for _, n := range vs.Names {
				names = append(names, n.Name)
			}
			for _, v := range vs.Values {
				vals = append(vals, exprString(v))
			}
			p := gd.Tok.String() + " " + strings.Join(names, ",")
			if vs.Type != nil {
				p += " " + exprString(vs.Type)
			}
			if len(vals) > 0 {
				p += "=" + strings.Join(vals, ",")
			}
			parts = append(parts, p)
		}
		return strings.Join(parts, ";")
	case *ast.BranchStmt:
		return t.Tok.String()
	case *ast.SendStmt:
		return exprString(t.Chan) + "<-" + exprString(t.Value)
	case *ast.IncDecStmt:
		return exprString(t.X) + t.Tok.String()
	}
	return stmtString(s)
}

var skNoisePrefixes = []string{"span.", "defer span.End()", "h.l.", "c.l.", "logger.", "s.log.", "bp.log.", "defer cancel()"}

func skNoise(s ast.Stmt) bool {
	txt := skText(s)
	for _, p := range skNoisePrefixes {
		if strings.HasPrefix(txt, p) {
			return true
		}
	}
	if as, ok := s.(*ast.AssignStmt); ok && len(as.Rhs) == 1 {
		r := exprString(as.Rhs[0])
		if strings.HasPrefix(r, "tracer.NewSpan") {
			return true
		}
		if strings.HasPrefix(r, "s.log.Named(") {
			return true
		}
	}
	return false
}

func isExit(s ast.Stmt) bool {
	switch t := s.(type) {
	case *ast.ReturnStmt:
		return true
	case *ast.BranchStmt:
		return t.Tok == token.BREAK || t.Tok == token.CONTINUE
	}
	return false
}

// isCtxCheck recognises `select { case <-X.Done(): …; return…  default: }`
func isCtxCheck(s ast.Stmt) bool {
	sel, ok := s.(*ast.SelectStmt)
	if !ok || len(sel.Body.List) != 2 {
		return false
	}
	var done, def bool
	for _, c := range sel.Body.List {
		cc := c.(*ast.CommClause)
		if cc.Comm == nil {
			def = len(skeleton(cc.Body, "ctxCheck")) == 0
			continue
		}
		if es, ok := cc.Comm.(*ast.ExprStmt); ok && strings.HasSuffix(exprString(es.X), ".Done()") && strings.HasPrefix(exprString(es.X), "<-") {
			n := len(cc.Body)
			done = n > 0 && isExit(cc.Body[n-1])
		}
	}
	return done && def
}

// isTrySend recognises `select { case ch <- v:  default: <noise> }`
func trySend(s ast.Stmt) (string, bool) {
	sel, ok := s.(*ast.SelectStmt)
	if !ok || len(sel.Body.List) != 2 {
		return "", false
	}
	var send string
	var def bool
	for _, c := range sel.Body.List {
		cc := c.(*ast.CommClause)
		if cc.Comm == nil {
			def = len(skeleton(cc.Body, "trySend")) == 0
			continue
		}
		if ss, ok := cc.Comm.(*ast.SendStmt); ok && len(skeleton(cc.Body, "trySend")) == 0 {
			send = skText(ss)
		}
	}
	return send, send != "" && def
}

func leanSteps(xs []string) string { return "[" + strings.Join(xs, ", ") + "]" }

// skeleton linearises a statement list into Lean `Step` terms; unknown statement kinds are fatal.
func skeleton(stmts []ast.Stmt, where string) []string {
	var out []string
	for _, st := range stmts {
		if skNoise(st) {
			continue
		}
		switch s := st.(type) {
		case *ast.AssignStmt, *ast.DeclStmt, *ast.IncDecStmt:
			if as, ok := st.(*ast.AssignStmt); ok && len(as.Lhs) == 1 && len(as.Rhs) == 1 {
				if fl, ok := as.Rhs[0].(*ast.FuncLit); ok {
					out = append(out, ".fn "+leanStr(exprString(as.Lhs[0]))+" "+leanSteps(skeleton(fl.Body.List, where)))
					continue
				}
			}
			out = append(out, ".bind "+leanStr(skText(st)))
		case *ast.ExprStmt, *ast.SendStmt, *ast.GoStmt, *ast.DeferStmt:
			out = append(out, ".call "+leanStr(skText(st)))
		case *ast.ReturnStmt, *ast.BranchStmt:
			out = append(out, ".exit "+leanStr(skText(st)))
		case *ast.IfStmt:
			cond := exprString(s.Cond)
			if s.Init != nil {
				cond = skText(s.Init) + ";" + cond
			}
			body := skeleton(s.Body.List, where)
			var els []string
			switch e := s.Else.(type) {
			case nil:
			case *ast.BlockStmt:
				els = skeleton(e.List, where)
			case *ast.IfStmt:
				els = skeleton([]ast.Stmt{e}, where)
			default:
				die("%s: unsupported else", where)
			}
			n := len(s.Body.List)
			if n > 0 && isExit(s.Body.List[n-1]) && s.Else == nil {
				out = append(out, ".guard "+leanStr(cond)+" "+leanSteps(body))
			} else {
				out = append(out, ".branch "+leanStr(cond)+" "+leanSteps(body)+" "+leanSteps(els))
			}
		case *ast.SelectStmt:
			if isCtxCheck(st) {
				out = append(out, ".ctxCheck")
			} else if v, ok := trySend(st); ok {
				out = append(out, ".trySend "+leanStr(v))
			} else {
				var cases []string
				for _, c := range s.Body.List {
					cc := c.(*ast.CommClause)
					cases = append(cases, ".selectCase "+leanStr(commText(cc))+" "+leanSteps(skeleton(cc.Body, where)))
				}
				out = append(out, ".select "+leanSteps(cases))
			}
		case *ast.BlockStmt:
			out = append(out, skeleton(s.List, where)...)
		case *ast.RangeStmt:
			hdr := "range " + exprString(s.X)
			out = append(out, ".loop "+leanStr(hdr)+" "+leanSteps(skeleton(s.Body.List, where)))
		default:
			die("%s: unsupported statement %T (%s)", where, st, skText(st))
		}
	}
	return out
}

// loopCases finds the single `for { select { … } }` of a function and returns its comm clauses.
func loopCases(fd *ast.FuncDecl, where string) []*ast.CommClause {
	var loops []*ast.ForStmt
	for _, st := range fd.Body.List {
		if f, ok := st.(*ast.ForStmt); ok {
			loops = append(loops, f)
		}
	}
	if len(loops) != 1 || loops[0].Cond != nil || len(loops[0].Body.List) != 1 {
		die("%s: expected exactly one `for { select {…} }`", where)
	}
	sel, ok := loops[0].Body.List[0].(*ast.SelectStmt)
	if !ok {
		die("%s: loop body is not a select", where)
	}
	var out []*ast.CommClause
	for _, c := range sel.Body.List {
		out = append(out, c.(*ast.CommClause))
	}
	return out
}

func commText(cc *ast.CommClause) string {
	if cc.Comm == nil {
		return "default"
	}
	return skText(cc.Comm)
}

func genBeaconNode() {
	l := newLean("BeaconNode")
	l.pf(`namespace Gen.BeaconNode
/-- one write into the beacon digest, in source order -/
inductive DSeg where
  | prevIfNonEmpty      -- if len(prev) > 0 { h.Write(prev) }
  | roundBE64           -- binary.Write(h, BigEndian, uint64 round)
  deriving Repr, DecidableEq

structure DigestInfo where
  name : String
  algo : String
  segs : List DSeg
  deriving Repr, DecidableEq

/-- statement skeleton of a Go function body: binds, calls, guards (an if whose body ends in return/break/continue),
fall-through branches, context checks and non-blocking sends, in source order; logging and tracing are dropped -/
inductive Step where
  | bind (s : String)
  | call (s : String)
  | exit (s : String)
  | guard (cond : String) (body : List Step)
  | branch (cond : String) (thenB : List Step) (elseB : List Step)
  | ctxCheck
  | trySend (s : String)
  | loop (hdr : String) (body : List Step)
  | select (cases : List Step)
  | selectCase (comm : String) (body : List Step)
  | fn (name : String) (body : List Step)
  deriving Repr

`)
	ids, ctors := schemeConstructors()
	if interfaceMethodResult("crypto", "hashableBeacon", "GetRound") != "uint64" {
		die("hashableBeacon.GetRound is not uint64")
	}
	var items []string
	for i, ctor := range ctors {
		nameConst, algo, segs := digestOf(ctor)
		if nameConst != ids[i] {
			die("%s: scheme is named %s but registered under %s", ctor, nameConst, ids[i])
		}
		items = append(items, "⟨"+constStr("crypto", nameConst)+", "+leanStr(algo)+", ["+strings.Join(segs, ", ")+"]⟩")
	}
	l.pf("/-- crypto/schemes.go: per scheme of `SchemeFromName`, the `DigestFunc` of its constructor -/\ndef digests : List DigestInfo := [\n  %s]\n", strings.Join(items, ",\n  "))
	l.pf("/-- crypto: `DefaultSchemeID` -/\ndef defaultSchemeID : String := %s\n", constStr("crypto", "DefaultSchemeID"))
	// schemeStore: isChained: sch.Name == crypto.DefaultSchemeID
	{
		fd := findFunc("internal/chain/beacon", "", "NewSchemeStore")
		var got string
		ast.Inspect(fd.Body, func(n ast.Node) bool {
			if kv, ok := n.(*ast.KeyValueExpr); ok && exprString(kv.Key) == "isChained" {
				got = exprString(kv.Value)
			}
			return true
		})
		if got != "sch.Name==crypto.DefaultSchemeID" {
			die("NewSchemeStore: isChained is %q", got)
		}
		l.pf("/-- internal/chain/beacon `NewSchemeStore`: isChained = (sch.Name == crypto.DefaultSchemeID) -/\ndef schemeStoreChainedIffDefault : Bool := true\n")
	}
	l.pf("/-- crypto: `Scheme.VerifyBeacon` -/\ndef verifyBeaconBody : String := %s\n", leanStr(singleReturn("crypto", "Scheme", "VerifyBeacon")))
	// RandomnessFromSignature and its exits
	{
		fd := findFunc("crypto", "", "RandomnessFromSignature")
		sk := skeleton(fd.Body.List, "RandomnessFromSignature")
		want := []string{`.bind "out:=sha256.Sum256(sig)"`, `.exit "return out[:]"`}
		if strings.Join(sk, "|") != strings.Join(want, "|") {
			die("RandomnessFromSignature: unexpected body %v", sk)
		}
		l.pf("/-- crypto: `RandomnessFromSignature(sig)` = sha256.Sum256(sig) -/\ndef randomnessAlgo : String := \"sha256\"\n")
		exits := [][2]string{}
		exits = append(exits, [2]string{"common.Beacon.Randomness", singleReturn("common", "Beacon", "Randomness")})
		// drandProxy.Get: resp.Randomness = crypto.RandomnessFromSignature(resp.GetSignature())
		find := func(dir, recv, fn, lhs string) string {
			fd := findFunc(dir, recv, fn)
			var got string
			ast.Inspect(fd.Body, func(n ast.Node) bool {
				switch t := n.(type) {
				case *ast.AssignStmt:
					if len(t.Lhs) == 1 && exprString(t.Lhs[0]) == lhs {
						got = exprString(t.Rhs[0])
					}
				case *ast.KeyValueExpr:
					if exprString(t.Key) == lhs {
						got = exprString(t.Value)
					}
				}
				return true
			})
			if got == "" {
				die("%s.%s: no assignment to %s", recv, fn, lhs)
			}
			return got
		}
		exits = append(exits, [2]string{"core.drandProxy.Get", find("internal/core", "drandProxy", "Get", "resp.Randomness")})
		exits = append(exits, [2]string{"core.proxyStream.Send", find("internal/core", "proxyStream", "Send", "Randomness")})
		var xs []string
		for _, e := range exits {
			xs = append(xs, "("+leanStr(e[0])+", "+leanStr(e[1])+")")
		}
		l.pf("/-- the places where a response gets its randomness field -/\ndef randomnessExits : List (String × String) := [\n  %s]\n", strings.Join(xs, ",\n  "))
	}
	emit := func(name, doc string, steps []string) {
		l.pf("/-- %s -/\ndef %s : List Step := [\n  %s]\n", doc, name, strings.Join(steps, ",\n  "))
	}
	emit("processPartialSteps", "internal/chain/beacon: `Handler.ProcessPartialBeacon`",
		skeleton(findFunc("internal/chain/beacon", "Handler", "ProcessPartialBeacon").Body.List, "ProcessPartialBeacon"))
	emit("broadcastNextPartialSteps", "internal/chain/beacon: `Handler.broadcastNextPartial`",
		skeleton(findFunc("internal/chain/beacon", "Handler", "broadcastNextPartial").Body.List, "broadcastNextPartial"))
	emit("tryAppendSteps", "internal/chain/beacon: `chainStore.tryAppend`",
		skeleton(findFunc("internal/chain/beacon", "chainStore", "tryAppend").Body.List, "tryAppend"))
	{
		fd := findFunc("internal/chain/beacon", "chainStore", "runAggregator")
		for _, cc := range loopCases(fd, "runAggregator") {
			switch ct := commText(cc); {
			case ct == "<-c.ctx.Done()":
			case ct == "lastBeacon=<-c.beaconStoredAgg":
				emit("aggregatorStoredSteps", "runAggregator: case lastBeacon = <-c.beaconStoredAgg", skeleton(cc.Body, "runAggregator"))
			case ct == "partial:=<-c.newPartials":
				emit("aggregatorPartialSteps", "runAggregator: case partial := <-c.newPartials", skeleton(cc.Body, "runAggregator"))
			default:
				die("runAggregator: unexpected select case %q", ct)
			}
		}
		// declarations before the loop
		var pre []ast.Stmt
		for _, st := range fd.Body.List {
			if _, ok := st.(*ast.ForStmt); ok {
				break
			}
			if _, ok := st.(*ast.SelectStmt); ok {
				continue
			}
			pre = append(pre, st)
		}
		emit("aggregatorInitSteps", "runAggregator: declarations before the loop", skeleton(pre, "runAggregator"))
	}
	{
		fd := findFunc("internal/chain/beacon", "SyncManager", "tryNode")
		for _, cc := range loopCases(fd, "tryNode") {
			switch ct := commText(cc); {
			case ct == "<-cnode.Done()":
			case ct == "beaconPacket,ok:=<-beaconCh":
				emit("tryNodePacketSteps", "SyncManager.tryNode: case beaconPacket, ok := <-beaconCh", skeleton(cc.Body, "tryNode"))
			default:
				die("tryNode: unexpected select case %q", ct)
			}
		}
	}
	emit("callbackPutSteps", "internal/chain/beacon: `callbackStore.Put`",
		skeleton(findFunc("internal/chain/beacon", "callbackStore", "Put").Body.List, "callbackStore.Put"))
	emit("publicRandSteps", "internal/core: `BeaconProcess.PublicRand`",
		skeleton(findFunc("internal/core", "BeaconProcess", "PublicRand").Body.List, "PublicRand"))
	emit("bootstrapSteps", "internal/core: `BeaconProcess.storeCurrentFromPeerNetwork` (memdb start-up)",
		skeleton(findFunc("internal/core", "BeaconProcess", "storeCurrentFromPeerNetwork").Body.List, "storeCurrentFromPeerNetwork"))
	l.pf("end Gen.BeaconNode\n")
}
