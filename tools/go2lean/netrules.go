package main

// genNetRules (C05): the round arithmetic and the guards of the beacon protocol loop, translated to Lean
// functions over Nat that the network model (Drand/Net/Protocol.lean) USES directly:
//
//	broadcastNextPartial   which round is signed at a tick / after a catch-up sleep
//	Handler.run            tick: gap test that launches RunSync(current.round);
//	                       AppendedBeaconNoSync: test that launches the catch-up goroutine
//	                       (which must Sleep(CatchupPeriod) and then broadcastNextPartial on the appended beacon)
//	Handler.Catchup        RunSync up to the next round
//	ProcessPartialBeacon   future / past filters
//	runAggregator          cache window, threshold test, flush-before-append order
//	tryAppend, shouldSync  appendability and the sync trigger
//	SyncManager.Run/tryNode  "request already filled" and "reached upTo"
//
// Only comparisons / + / - / && / || over a fixed table of Go operands are understood; anything else dies.

import (
	"go/ast"
	"go/token"
	"sort"
	"strings"
)

// nrExpr translates a Go integer / boolean expression to Lean; vars maps canonical Go operand text to Lean names.
func nrExpr(e ast.Expr, vars map[string]string, where string) string {
	if v, ok := vars[exprString(e)]; ok {
		return v
	}
	switch t := e.(type) {
	case *ast.ParenExpr:
		return "(" + nrExpr(t.X, vars, where) + ")"
	case *ast.BasicLit:
		if t.Kind == token.INT {
			return t.Value
		}
	case *ast.CallExpr: // conversions such as uint64(x)
		if id, ok := t.Fun.(*ast.Ident); ok && len(t.Args) == 1 {
			switch id.Name {
			case "uint64", "int64", "int", "uint32":
				return nrExpr(t.Args[0], vars, where)
			}
		}
	case *ast.BinaryExpr:
		x := nrExpr(t.X, vars, where)
		y := nrExpr(t.Y, vars, where)
		switch t.Op {
		case token.ADD:
			return x + " + " + y
		case token.SUB:
			return x + " - " + y
		case token.LSS:
			return "decide (" + x + " < " + y + ")"
		case token.LEQ:
			return "decide (" + x + " ≤ " + y + ")"
		case token.GTR:
			return "decide (" + y + " < " + x + ")"
		case token.GEQ:
			return "decide (" + y + " ≤ " + x + ")"
		case token.EQL:
			return "decide (" + x + " = " + y + ")"
		case token.NEQ:
			return "decide (" + x + " ≠ " + y + ")"
		case token.LAND:
			return "(" + x + " && " + y + ")"
		case token.LOR:
			return "(" + x + " || " + y + ")"
		}
	}
	die("%s: expression outside the understood shape: %s", where, exprString(e))
	return ""
}

// nrFindIf returns the first `if` statement (pre-order) below root that satisfies pred.
func nrFindIf(root ast.Node, pred func(*ast.IfStmt) bool) *ast.IfStmt {
	var out *ast.IfStmt
	ast.Inspect(root, func(n ast.Node) bool {
		if out != nil {
			return false
		}
		if is, ok := n.(*ast.IfStmt); ok && pred(is) {
			out = is
			return false
		}
		return true
	})
	return out
}

// nrCalls lists the canonical text of every call expression below root (in source order).
func nrCalls(root ast.Node) []string {
	var out []string
	ast.Inspect(root, func(n ast.Node) bool {
		if c, ok := n.(*ast.CallExpr); ok {
			out = append(out, exprString(c))
		}
		return true
	})
	return out
}

func nrHasCall(root ast.Node, prefix string) bool {
	for _, c := range nrCalls(root) {
		if strings.HasPrefix(c, prefix) {
			return true
		}
	}
	return false
}

// nrAssignRHS finds `name := rhs` or `name = rhs` (single assignment) directly in the statement list.
func nrAssignRHS(list []ast.Stmt, name string, tok token.Token, where string) ast.Expr {
	for _, s := range list {
		if as, ok := s.(*ast.AssignStmt); ok && as.Tok == tok && len(as.Lhs) == 1 && len(as.Rhs) == 1 && exprString(as.Lhs[0]) == name {
			return as.Rhs[0]
		}
	}
	die("%s: no `%s %s …` statement", where, name, tok)
	return nil
}

// nrCommCase returns the body of the select case whose communication text contains marker.
func nrCommCase(root ast.Node, marker, where string) *ast.CommClause {
	var out *ast.CommClause
	ast.Inspect(root, func(n ast.Node) bool {
		cc, ok := n.(*ast.CommClause)
		if !ok || cc.Comm == nil || out != nil {
			return true
		}
		txt := ""
		switch c := cc.Comm.(type) {
		case *ast.AssignStmt:
			txt = stmtString(c)
		case *ast.ExprStmt:
			txt = exprString(c.X)
		}
		if strings.Contains(txt, marker) {
			out = cc
			return false
		}
		return true
	})
	if out == nil {
		die("%s: select case on %s not found", where, marker)
	}
	return out
}

func genNetRules() {
	dir := "internal/chain/beacon"
	l := newLean("NetRules", "Gen.Consts")
	l.pf("namespace Gen\n")
	emit := func(doc, name, params, typ, body string) {
		l.pf("/-- %s -/\ndef %s %s : %s := %s\n", doc, name, params, typ, body)
	}

	// --- broadcastNextPartial: round := upon.Round + 1; if current.round == upon.Round { …; round = current.round }
	{
		fd := findFunc(dir, "Handler", "broadcastNextPartial")
		vars := map[string]string{"upon.Round": "uponRound", "current.round": "currentRound"}
		def := nrAssignRHS(fd.Body.List, "round", token.DEFINE, "broadcastNextPartial")
		is := nrFindIf(fd.Body, func(i *ast.IfStmt) bool {
			for _, s := range i.Body.List {
				if as, ok := s.(*ast.AssignStmt); ok && as.Tok == token.ASSIGN && len(as.Lhs) == 1 && exprString(as.Lhs[0]) == "round" {
					return true
				}
			}
			return false
		})
		if is == nil || is.Else != nil || is.Init != nil {
			die("broadcastNextPartial: the re-broadcast branch `if … { round = … }` was not found")
		}
		alt := nrAssignRHS(is.Body.List, "round", token.ASSIGN, "broadcastNextPartial re-broadcast branch")
		emit("Handler.broadcastNextPartial: the round that is signed", "bnpRound", "(currentRound uponRound : Nat)", "Nat",
			"if "+nrExpr(is.Cond, vars, "broadcastNextPartial")+" then "+nrExpr(alt, vars, "broadcastNextPartial")+" else "+nrExpr(def, vars, "broadcastNextPartial"))
		// the packet must carry that round and go to the own aggregator and to every other member
		calls := nrCalls(fd.Body)
		want := []string{"h.chain.NewValidPartial(ctx,h.addr,packet)", "h.client.PartialBeacon(ctx,&i,packet)"}
		for _, w := range want {
			ok := false
			for _, c := range calls {
				if c == w {
					ok = true
				}
			}
			if !ok {
				die("broadcastNextPartial: call %s not found", w)
			}
		}
		pk := ""
		ast.Inspect(fd.Body, func(n ast.Node) bool {
			cl, ok := n.(*ast.CompositeLit)
			if !ok || exprString(cl.Type) != "proto.PartialBeaconPacket" {
				return true
			}
			for _, el := range cl.Elts {
				if kv, ok := el.(*ast.KeyValueExpr); ok && exprString(kv.Key) == "Round" {
					pk = exprString(kv.Value)
				}
			}
			return true
		})
		if pk != "round" {
			die("broadcastNextPartial: packet Round is %q, expected the local `round`", pk)
		}
	}

	// --- Handler.run
	{
		fd := findFunc(dir, "Handler", "run")
		tick := nrCommCase(fd.Body, "chanTick", "Handler.run")
		vars := map[string]string{"lastBeacon.Round": "lastRound", "current.round": "currentRound", "b.Round": "bRound"}
		// the tick case must call broadcastNextPartial(ctx, current, lastBeacon) before the gap test
		if !nrHasCall(tick, "h.broadcastNextPartial(ctx,current,lastBeacon)") {
			die("Handler.run: tick case does not call h.broadcastNextPartial(ctx, current, lastBeacon)")
		}
		gap := nrFindIf(tick, func(i *ast.IfStmt) bool { return nrHasCall(i.Body, "h.chain.RunSync(") })
		if gap == nil {
			die("Handler.run: tick case has no `if <gap> { … h.chain.RunSync(…) }`")
		}
		if !nrHasCall(gap.Body, "h.chain.RunSync(ctx,current.round,nil)") {
			die("Handler.run: the gap branch does not RunSync up to current.round with the group's peers")
		}
		emit("Handler.run, tick: a gap between the stored head and the ticked round launches RunSync(current.round)", "gapSync",
			"(lastRound currentRound : Nat)", "Bool", nrExpr(gap.Cond, vars, "Handler.run gap"))
		app := nrCommCase(fd.Body, "AppendedBeaconNoSync", "Handler.run")
		cu := nrFindIf(app, func(i *ast.IfStmt) bool {
			for _, s := range i.Body.List {
				if _, ok := s.(*ast.GoStmt); ok {
					return true
				}
			}
			return false
		})
		if cu == nil {
			die("Handler.run: AppendedBeaconNoSync case launches no goroutine")
		}
		var gs *ast.GoStmt
		for _, s := range cu.Body.List {
			if g, ok := s.(*ast.GoStmt); ok {
				gs = g
			}
		}
		fl, ok := gs.Call.Fun.(*ast.FuncLit)
		if !ok || len(gs.Call.Args) != 2 || exprString(gs.Call.Args[0]) != "current" || exprString(gs.Call.Args[1]) != "*b" {
			die("Handler.run: catch-up goroutine is not `go func(c, latest){…}(current, *b)`")
		}
		// body: Sleep(CatchupPeriod); ctx.Done check; broadcastNextPartial(ctx, c, &latest), in this order
		seq := []string{}
		for _, c := range nrCalls(fl.Body) {
			if c == "h.conf.Clock.Sleep(h.conf.Group.CatchupPeriod)" || c == "h.broadcastNextPartial(ctx,c,&latest)" {
				seq = append(seq, c)
			}
		}
		if strings.Join(seq, ";") != "h.conf.Clock.Sleep(h.conf.Group.CatchupPeriod);h.broadcastNextPartial(ctx,c,&latest)" {
			die("Handler.run: catch-up goroutine is not Sleep(CatchupPeriod) then broadcastNextPartial(ctx, c, &latest): %v", seq)
		}
		for _, s := range fl.Body.List { // no early return other than the ctx.Done select
			if _, ok := s.(*ast.ReturnStmt); ok {
				die("Handler.run: catch-up goroutine returns unconditionally")
			}
		}
		emit("Handler.run, AppendedBeaconNoSync: an appended beacon behind the ticked round launches the catch-up goroutine "+
			"(Sleep(CatchupPeriod), then broadcastNextPartial on top of that beacon)", "catchupLaunch",
			"(bRound currentRound : Nat)", "Bool", nrExpr(cu.Cond, vars, "Handler.run catch-up"))
	}

	// --- Handler.Catchup: nRound, tTime := NextRound(now…); go h.run(tTime); h.chain.RunSync(ctx, nRound, nil)
	{
		fd := findFunc(dir, "Handler", "Catchup")
		okN, okS, okR := false, false, false
		for _, s := range fd.Body.List {
			txt := stmtString(s)
			if strings.HasPrefix(txt, "nRound,tTime:=common.NextRound(h.conf.Clock.Now().Unix(),") {
				okN = true
			}
			if txt == "go h.run(tTime)" {
				okR = true
			}
			if txt == "h.chain.RunSync(ctx,nRound,nil)" {
				okS = true
			}
		}
		if !okN || !okS || !okR {
			die("Handler.Catchup: expected nRound,tTime := NextRound(now…); go h.run(tTime); h.chain.RunSync(ctx, nRound, nil)")
		}
		emit("Handler.Catchup: a restarted node runs from the next round and syncs up to it (offset of the sync target from the clock round)",
			"catchupSyncAhead", "", "Nat", "1")
	}

	// --- ProcessPartialBeacon: future and past filters
	{
		fd := findFunc(dir, "Handler", "ProcessPartialBeacon")
		vars := map[string]string{"pRound": "pRound", "nextRound": "nextRound", "latest.GetRound()": "latest"}
		cur := nrAssignRHS(fd.Body.List, "currentRound", token.DEFINE, "ProcessPartialBeacon")
		if exprString(cur) != "nextRound-1" {
			die("ProcessPartialBeacon: currentRound is %s, expected nextRound-1", exprString(cur))
		}
		fut := nrFindIf(fd.Body, func(i *ast.IfStmt) bool { return strings.Contains(exprString(i.Cond), "nextRound") })
		if fut == nil || !nrReturnsError(fut.Body) {
			die("ProcessPartialBeacon: future filter not found")
		}
		emit("ProcessPartialBeacon: partial rejected as being from the future", "ppbFuture", "(pRound nextRound : Nat)", "Bool",
			nrExpr(fut.Cond, vars, "ProcessPartialBeacon future"))
		past := nrFindIf(fd.Body, func(i *ast.IfStmt) bool { return i.Init != nil && strings.Contains(stmtString(i.Init), "h.chain.Last(ctx)") })
		if past == nil {
			die("ProcessPartialBeacon: past filter not found")
		}
		be, ok := past.Cond.(*ast.BinaryExpr)
		if !ok || be.Op != token.LAND || exprString(be.X) != "err==nil" {
			die("ProcessPartialBeacon: past filter is not `err == nil && …`")
		}
		emit("ProcessPartialBeacon: partial ignored because that round is already stored", "ppbPast", "(pRound latest : Nat)", "Bool",
			nrExpr(be.Y, vars, "ProcessPartialBeacon past"))
	}

	// --- runAggregator
	{
		fd := findFunc(dir, "chainStore", "runAggregator")
		vars := map[string]string{"pRound": "pRound", "lastBeacon.Round": "lastRound", "partialCacheStoreLimit": "partialCacheStoreLimit",
			"isNotInPast": "", "isNotTooFar": "", "roundCache.Len()": "len", "thr": "thr"}
		pc := nrCommCase(fd.Body, "c.newPartials", "runAggregator")
		a := nrAssignRHS(pc.Body, "isNotInPast", token.DEFINE, "runAggregator")
		b := nrAssignRHS(pc.Body, "isNotTooFar", token.DEFINE, "runAggregator")
		c := nrAssignRHS(pc.Body, "shouldStore", token.DEFINE, "runAggregator")
		if exprString(c) != "isNotInPast&&isNotTooFar" {
			die("runAggregator: shouldStore is %s", exprString(c))
		}
		delete(vars, "isNotInPast")
		delete(vars, "isNotTooFar")
		emit("runAggregator: the partial is kept (round above the last stored beacon and within the cache window)", "aggInWindow",
			"(pRound lastRound : Nat)", "Bool", "("+nrExpr(a, vars, "runAggregator")+" && "+nrExpr(b, vars, "runAggregator")+")")
		notStore := nrFindIf(pc, func(i *ast.IfStmt) bool { return exprString(i.Cond) == "!shouldStore" })
		if notStore == nil || !nrEndsWithBreak(notStore.Body) {
			die("runAggregator: `if !shouldStore { … break }` not found")
		}
		few := nrFindIf(pc, func(i *ast.IfStmt) bool { return strings.HasPrefix(exprString(i.Cond), "roundCache.Len()") })
		if few == nil || !nrEndsWithBreak(few.Body) {
			die("runAggregator: threshold test `if roundCache.Len() … { … break }` not found")
		}
		emit("runAggregator: not enough partials yet", "aggNotEnough", "(len thr : Nat)", "Bool", nrExpr(few.Cond, vars, "runAggregator threshold"))
		thr := nrAssignRHS(pc.Body, "thr", token.DEFINE, "runAggregator")
		if exprString(thr) != "c.crypto.GetGroup().Threshold" {
			die("runAggregator: thr is %s", exprString(thr))
		}
		// order: Append, threshold test, Recover, VerifyRecovered, FlushRounds(partial round), tryAppend, shouldSync → SendSyncRequest(newBeacon.Round)
		order := []string{"cache.Append(partial.p)", "c.crypto.ThresholdScheme.Recover(", "c.crypto.ThresholdScheme.VerifyRecovered(",
			"cache.FlushRounds(partial.p.GetRound())", "c.tryAppend(ctx,lastBeacon,newBeacon)", "c.shouldSync(lastBeacon,newBeacon)",
			"c.syncm.SendSyncRequest(ctx,newBeacon.Round,peers)"}
		pos := 0
		for _, cl := range nrCalls(pc) {
			if pos < len(order) && strings.HasPrefix(cl, order[pos]) {
				pos++
			}
		}
		if pos != len(order) {
			die("runAggregator: expected call order broken at %q", order[pos])
		}
		l.pf("/-- runAggregator: call order inside the partial case (checked by the extractor) -/\ndef aggOrder : List String := %s\n", leanStrList(order))
	}

	// --- tryAppend / shouldSync
	{
		fd := findFunc(dir, "chainStore", "tryAppend")
		vars := map[string]string{"last.Round": "lastRound", "newB.Round": "newRound"}
		ref := nrFindIf(fd.Body, func(i *ast.IfStmt) bool { return strings.Contains(exprString(i.Cond), "newB.Round") })
		if ref == nil || len(ref.Body.List) == 0 || stmtString(ref.Body.List[len(ref.Body.List)-1]) != "return false" {
			die("tryAppend: round pre-check `if last.Round+1 != newB.Round { return false }` not found")
		}
		emit("chainStore.tryAppend: refused without touching the store", "tryAppendRefuse", "(lastRound newRound : Nat)", "Bool",
			nrExpr(ref.Cond, vars, "tryAppend"))
		// both success paths notify the catch-up channel
		cnt := 0
		ast.Inspect(fd.Body, func(n ast.Node) bool {
			if ss, ok := n.(*ast.SendStmt); ok && exprString(ss.Chan) == "c.catchupBeacons" && exprString(ss.Value) == "newB" {
				cnt++
			}
			return true
		})
		if cnt != 2 {
			die("tryAppend: expected the appended beacon to be offered to c.catchupBeacons on both success paths, found %d", cnt)
		}
		sd := findFunc(dir, "chainStore", "shouldSync")
		if len(sd.Body.List) != 1 {
			die("shouldSync: expected a single return")
		}
		rs, ok := sd.Body.List[0].(*ast.ReturnStmt)
		if !ok || len(rs.Results) != 1 {
			die("shouldSync: expected a single return")
		}
		emit("chainStore.shouldSync", "shouldSync", "(lastRound newRound : Nat)", "Bool",
			nrExpr(rs.Results[0], map[string]string{"newB.GetRound()": "newRound", "last.GetRound()": "lastRound"}, "shouldSync"))
	}

	// --- SyncManager.Run admission and tryNode completion
	{
		fd := findFunc(dir, "SyncManager", "Run")
		vars := map[string]string{"request.upTo": "upTo", "last.Round": "lastRound"}
		filled := nrFindIf(fd.Body, func(i *ast.IfStmt) bool { return strings.HasPrefix(exprString(i.Cond), "request.upTo>0&&") })
		if filled == nil || !nrEndsWithContinue(filled.Body) {
			die("SyncManager.Run: `if request.upTo > 0 && last.Round >= request.upTo { … continue }` not found")
		}
		emit("SyncManager.Run: request dropped because the store already holds the target", "syncFilled", "(upTo lastRound : Nat)", "Bool",
			nrExpr(filled.Cond, vars, "SyncManager.Run"))
		restart := nrFindIf(fd.Body, func(i *ast.IfStmt) bool { return strings.Contains(exprString(i.Cond), "s.clock.Now().After(upperBound)") })
		if restart == nil || exprString(restart.Cond) != "ctx.Err()!=nil||s.clock.Now().After(upperBound)" || !nrHasCall(restart.Body, "s.Sync(ctx,request)") {
			die("SyncManager.Run: restart rule `if ctx.Err() != nil || now.After(upperBound) { … s.Sync(ctx, request) }` not found")
		}
		ub := ""
		ast.Inspect(fd.Body, func(n ast.Node) bool {
			if as, ok := n.(*ast.AssignStmt); ok && len(as.Lhs) == 1 && exprString(as.Lhs[0]) == "upperBound" {
				ub = exprString(as.Rhs[0])
			}
			return true
		})
		if ub != "lastRoundTime.Add(s.period*time.Duration(s.factor))" {
			die("SyncManager.Run: upperBound is %s", ub)
		}
		td := findFunc(dir, "SyncManager", "tryNode")
		done := nrFindIf(td.Body, func(i *ast.IfStmt) bool { return exprString(i.Cond) == "last.Round==upTo" })
		if done == nil {
			die("SyncManager.tryNode: completion test `if last.Round == upTo` not found")
		}
		from := nrFindIf(td.Body, func(i *ast.IfStmt) bool { return exprString(i.Cond) == "from==0" })
		if from == nil || len(from.Body.List) != 1 || stmtString(from.Body.List[0]) != "from=last.Round+1" {
			die("SyncManager.tryNode: `if from == 0 { from = last.Round + 1 }` not found")
		}
		l.pf("/-- SyncManager.tryNode: a plain sync asks for last+1 onwards and is complete when the stored head equals upTo (checked by the extractor) -/\ndef syncFromNext : Bool := true\n")
	}
	// facts listed for the tie theorem
	names := []string{"bnpRound", "gapSync", "catchupLaunch", "catchupSyncAhead", "ppbFuture", "ppbPast", "aggInWindow", "aggNotEnough", "tryAppendRefuse", "shouldSync", "syncFilled"}
	sort.Strings(names)
	l.pf("def netRuleNames : List String := %s\n", leanStrList(names))
	l.pf("end Gen\n")
}

func nrReturnsError(b *ast.BlockStmt) bool {
	if len(b.List) == 0 {
		return false
	}
	rs, ok := b.List[len(b.List)-1].(*ast.ReturnStmt)
	return ok && len(rs.Results) == 2 && exprString(rs.Results[0]) == "nil"
}

func nrEndsWithBreak(b *ast.BlockStmt) bool {
	if len(b.List) == 0 {
		return false
	}
	bs, ok := b.List[len(b.List)-1].(*ast.BranchStmt)
	return ok && bs.Tok == token.BREAK
}

func nrEndsWithContinue(b *ast.BlockStmt) bool {
	if len(b.List) == 0 {
		return false
	}
	bs, ok := b.List[len(b.List)-1].(*ast.BranchStmt)
	return ok && bs.Tok == token.CONTINUE
}
