package main

import "go/ast"

// genEcho: does echoBroadcast.passToApplication hand bundles to the application with plain channel sends
// (blocking) or inside `select { case ch <- x: default: }` (non-blocking)? Mixed shapes are fatal.
func genEcho() {
	fd := findFunc("internal/dkg", "echoBroadcast", "passToApplication")
	plain, guarded := 0, 0
	var walk func(n ast.Node, inSelectWithDefault bool)
	walk = func(n ast.Node, inSel bool) {
		switch t := n.(type) {
		case nil:
			return
		case *ast.SelectStmt:
			hasDefault := false
			for _, c := range t.Body.List {
				if cc := c.(*ast.CommClause); cc.Comm == nil {
					hasDefault = true
				}
			}
			for _, c := range t.Body.List {
				cc := c.(*ast.CommClause)
				if _, ok := cc.Comm.(*ast.SendStmt); ok {
					if hasDefault {
						guarded++
					} else {
						plain++
					}
				}
				for _, s := range cc.Body {
					walk(s, inSel)
				}
			}
			return
		case *ast.SendStmt:
			plain++
			return
		}
		ast.Inspect(n, func(m ast.Node) bool {
			if m == n || m == nil {
				return true
			}
			switch m.(type) {
			case *ast.SelectStmt, *ast.SendStmt:
				walk(m, inSel)
				return false
			}
			return true
		})
	}
	walk(fd.Body, false)
	if plain+guarded == 0 {
		die("passToApplication: no channel send found")
	}
	if plain > 0 && guarded > 0 {
		die("passToApplication: mixes blocking (%d) and non-blocking (%d) sends", plain, guarded)
	}
	l := newLean("Echo")
	l.pf("namespace Gen\n/-- internal/dkg: echoBroadcast.passToApplication sends to the application channels inside `select … default` -/\n")
	l.pf("def echoPassNonBlocking : Bool := %v\n/-- number of application-channel sends in passToApplication -/\ndef echoPassSends : Nat := %d\nend Gen\n", guarded > 0, plain+guarded)
}
