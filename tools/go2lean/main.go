// go2lean: a deliberately small fact extractor / translator from /repo's Go sources to Lean 4.
// It understands only the shapes listed in DESIGN.md §2.3 and fails loudly (exit 2, naming the
// function) on anything else. Output is deterministic text under <out>/Gen/*.lean.
package main

import (
	"fmt"
	"go/ast"
	"go/constant"
	"go/parser"
	"go/token"
	"os"
	"path/filepath"
	"sort"
	"strings"
)

var repo string
var fset = token.NewFileSet()
var pkgCache = map[string][]*ast.File{}

func die(format string, a ...any) {
	fmt.Fprintf(os.Stderr, "go2lean: "+format+"\n", a...)
	os.Exit(2)
}

// load parses every non-test .go file of a package directory (relative to the repo root).
func load(dir string) []*ast.File {
	if fs, ok := pkgCache[dir]; ok {
		return fs
	}
	ents, err := os.ReadDir(filepath.Join(repo, dir))
	if err != nil {
		die("cannot read %s: %v", dir, err)
	}
	var out []*ast.File
	names := []string{}
	for _, e := range ents {
		n := e.Name()
		if strings.HasSuffix(n, ".go") && !strings.HasSuffix(n, "_test.go") && !strings.HasPrefix(n, "zz_verif") {
			names = append(names, n)
		}
	}
	sort.Strings(names)
	for _, n := range names {
		f, err := parser.ParseFile(fset, filepath.Join(repo, dir, n), nil, parser.ParseComments)
		if err != nil {
			die("parse %s/%s: %v", dir, n, err)
		}
		out = append(out, f)
	}
	pkgCache[dir] = out
	return out
}

// findFunc returns the declaration of func (recv) name in dir; recv "" for plain functions.
// recv is matched against the receiver's base type name.
func findFunc(dir, recv, name string) *ast.FuncDecl {
	for _, f := range load(dir) {
		for _, d := range f.Decls {
			fd, ok := d.(*ast.FuncDecl)
			if !ok || fd.Name.Name != name {
				continue
			}
			if recv == "" && fd.Recv == nil {
				return fd
			}
			if recv != "" && fd.Recv != nil && len(fd.Recv.List) == 1 && baseTypeName(fd.Recv.List[0].Type) == recv {
				return fd
			}
		}
	}
	die("function %s.%s not found in %s", recv, name, dir)
	return nil
}

func baseTypeName(e ast.Expr) string {
	switch t := e.(type) {
	case *ast.StarExpr:
		return baseTypeName(t.X)
	case *ast.Ident:
		return t.Name
	case *ast.IndexExpr:
		return baseTypeName(t.X)
	case *ast.SelectorExpr:
		return t.Sel.Name
	}
	return ""
}

// evalInt evaluates a constant integer expression made of literals, + - * << >> | and
// conversions like uint64(3) / int64(1 << x); identifiers are resolved in consts of dir.
func evalInt(dir string, e ast.Expr, where string) constant.Value {
	switch t := e.(type) {
	case *ast.BasicLit:
		if t.Kind != token.INT {
			die("%s: non-integer literal %s", where, t.Value)
		}
		return constant.MakeFromLiteral(t.Value, token.INT, 0)
	case *ast.ParenExpr:
		return evalInt(dir, t.X, where)
	case *ast.BinaryExpr:
		x := evalInt(dir, t.X, where)
		y := evalInt(dir, t.Y, where)
		switch t.Op {
		case token.SHL, token.SHR:
			s, ok := constant.Uint64Val(y)
			if !ok {
				die("%s: bad shift", where)
			}
			return constant.Shift(x, t.Op, uint(s))
		case token.ADD, token.SUB, token.MUL, token.OR, token.AND:
			return constant.BinaryOp(x, t.Op, y)
		}
		die("%s: unsupported operator %s", where, t.Op)
	case *ast.CallExpr: // conversion
		if id, ok := t.Fun.(*ast.Ident); ok && len(t.Args) == 1 {
			switch id.Name {
			case "uint64", "int64", "int", "uint32", "uint", "int32":
				return evalInt(dir, t.Args[0], where)
			}
		}
		die("%s: unsupported call in constant expression", where)
	case *ast.Ident:
		return constInt(dir, t.Name)
	case *ast.SelectorExpr:
		if x, ok := t.X.(*ast.Ident); ok && x.Name == "math" {
			switch t.Sel.Name {
			case "MaxInt64":
				return constant.MakeInt64(1<<63 - 1)
			case "MaxUint64":
				return constant.MakeUint64(1<<64 - 1)
			}
		}
		die("%s: unsupported selector %s", where, exprString(e))
	}
	die("%s: unsupported constant expression %T", where, e)
	return nil
}

// constInt finds `const name = …` or `var name = …` at package level in dir.
func constInt(dir, name string) constant.Value {
	for _, f := range load(dir) {
		for _, d := range f.Decls {
			gd, ok := d.(*ast.GenDecl)
			if !ok || (gd.Tok != token.CONST && gd.Tok != token.VAR) {
				continue
			}
			for _, s := range gd.Specs {
				vs := s.(*ast.ValueSpec)
				for i, n := range vs.Names {
					if n.Name == name {
						if i >= len(vs.Values) {
							die("const %s in %s has no value", name, dir)
						}
						return evalInt(dir, vs.Values[i], dir+"."+name)
					}
				}
			}
		}
	}
	die("constant %s not found in %s", name, dir)
	return nil
}

// localInt finds `name := <int literal expr>` inside a function body.
func localInt(dir string, fd *ast.FuncDecl, name string) constant.Value {
	var out constant.Value
	ast.Inspect(fd.Body, func(n ast.Node) bool {
		as, ok := n.(*ast.AssignStmt)
		if !ok || as.Tok != token.DEFINE || len(as.Lhs) != 1 || len(as.Rhs) != 1 {
			return true
		}
		if id, ok := as.Lhs[0].(*ast.Ident); ok && id.Name == name {
			out = evalInt(dir, as.Rhs[0], fd.Name.Name+"."+name)
		}
		return true
	})
	if out == nil {
		die("local %s not found in %s", name, fd.Name.Name)
	}
	return out
}

func exprString(e ast.Expr) string {
	var sb strings.Builder
	writeExpr(&sb, e)
	return sb.String()
}

// writeExpr prints a canonical compact rendering of an expression (used for guard facts).
func writeExpr(sb *strings.Builder, e ast.Expr) {
	switch t := e.(type) {
	case nil:
		sb.WriteString("<nil>")
	case *ast.Ident:
		sb.WriteString(t.Name)
	case *ast.BasicLit:
		sb.WriteString(t.Value)
	case *ast.SelectorExpr:
		writeExpr(sb, t.X)
		sb.WriteString(".")
		sb.WriteString(t.Sel.Name)
	case *ast.CallExpr:
		writeExpr(sb, t.Fun)
		sb.WriteString("(")
		for i, a := range t.Args {
			if i > 0 {
				sb.WriteString(",")
			}
			writeExpr(sb, a)
		}
		sb.WriteString(")")
	case *ast.BinaryExpr:
		writeExpr(sb, t.X)
		sb.WriteString(t.Op.String())
		writeExpr(sb, t.Y)
	case *ast.UnaryExpr:
		sb.WriteString(t.Op.String())
		writeExpr(sb, t.X)
	case *ast.ParenExpr:
		sb.WriteString("(")
		writeExpr(sb, t.X)
		sb.WriteString(")")
	case *ast.StarExpr:
		sb.WriteString("*")
		writeExpr(sb, t.X)
	case *ast.IndexExpr:
		writeExpr(sb, t.X)
		sb.WriteString("[")
		writeExpr(sb, t.Index)
		sb.WriteString("]")
	case *ast.SliceExpr:
		writeExpr(sb, t.X)
		sb.WriteString("[")
		if t.Low != nil {
			writeExpr(sb, t.Low)
		}
		sb.WriteString(":")
		if t.High != nil {
			writeExpr(sb, t.High)
		}
		sb.WriteString("]")
	case *ast.CompositeLit:
		writeExpr(sb, t.Type)
		sb.WriteString("{")
		for i, a := range t.Elts {
			if i > 0 {
				sb.WriteString(",")
			}
			writeExpr(sb, a)
		}
		sb.WriteString("}")
	case *ast.KeyValueExpr:
		writeExpr(sb, t.Key)
		sb.WriteString(":")
		writeExpr(sb, t.Value)
	case *ast.ArrayType:
		sb.WriteString("[]")
		writeExpr(sb, t.Elt)
	case *ast.FuncLit:
		sb.WriteString("func{…}")
	case *ast.TypeAssertExpr:
		writeExpr(sb, t.X)
		sb.WriteString(".(")
		writeExpr(sb, t.Type)
		sb.WriteString(")")
	case *ast.MapType:
		sb.WriteString("map[")
		writeExpr(sb, t.Key)
		sb.WriteString("]")
		writeExpr(sb, t.Value)
	case *ast.ChanType:
		sb.WriteString("chan ")
		writeExpr(sb, t.Value)
	default:
		sb.WriteString(fmt.Sprintf("<%T>", e))
	}
}

type leanFile struct {
	name string
	sb   strings.Builder
}

func (l *leanFile) pf(format string, a ...any) { fmt.Fprintf(&l.sb, format, a...) }

var outFiles []*leanFile

func newLean(name string, imports ...string) *leanFile {
	l := &leanFile{name: name}
	l.pf("-- GENERATED by /verif/tools/go2lean from /repo — do not edit; regenerated on every check run.\n")
	for _, i := range imports {
		l.pf("import %s\n", i)
	}
	outFiles = append(outFiles, l)
	return l
}

func leanStr(s string) string {
	return "\"" + strings.ReplaceAll(strings.ReplaceAll(s, "\\", "\\\\"), "\"", "\\\"") + "\""
}

func leanStrList(xs []string) string {
	q := make([]string, len(xs))
	for i, x := range xs {
		q[i] = leanStr(x)
	}
	return "[" + strings.Join(q, ", ") + "]"
}

func main() {
	if len(os.Args) == 4 && os.Args[1] == "-golden" {
		repo = os.Args[2]
		writeGolden(os.Args[3])
		return
	}
	if len(os.Args) != 3 {
		die("usage: go2lean [-golden] <repo> <lean project dir>")
	}
	repo = os.Args[1]
	out := os.Args[2]
	genConsts()
	genAll()
	if err := os.MkdirAll(filepath.Join(out, "Gen"), 0o755); err != nil {
		die("%v", err)
	}
	var root strings.Builder
	root.WriteString("-- GENERATED\n")
	for _, l := range outFiles {
		if err := os.WriteFile(filepath.Join(out, "Gen", l.name+".lean"), []byte(l.sb.String()), 0o644); err != nil {
			die("%v", err)
		}
		root.WriteString("import Gen." + l.name + "\n")
	}
	if err := os.WriteFile(filepath.Join(out, "Gen.lean"), []byte(root.String()), 0o644); err != nil {
		die("%v", err)
	}
}
