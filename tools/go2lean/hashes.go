package main

import (
	"go/ast"
	"go/token"
	"strings"
)

// structFieldType returns the declared type (as text) of field `field` of struct `typ` in dir.
func structFieldType(dir, typ, field string) string {
	for _, f := range load(dir) {
		for _, d := range f.Decls {
			gd, ok := d.(*ast.GenDecl)
			if !ok || gd.Tok != token.TYPE {
				continue
			}
			for _, s := range gd.Specs {
				ts := s.(*ast.TypeSpec)
				if ts.Name.Name != typ {
					continue
				}
				st, ok := ts.Type.(*ast.StructType)
				if !ok {
					die("%s.%s is not a struct", dir, typ)
				}
				for _, fl := range st.Fields.List {
					for _, n := range fl.Names {
						if n.Name == field {
							return exprString(fl.Type)
						}
					}
				}
			}
		}
	}
	die("field %s.%s not found in %s", typ, field, dir)
	return ""
}

func intWidth(t string) int {
	switch t {
	case "int64", "uint64":
		return 8
	case "uint32", "int32", "Index", "dkg.Index":
		return 4
	}
	return 0
}

// hashLayout translates the body of a `Hash()` method that only writes fields into a hash.Hash
// into an ordered list of Lean `Seg` terms. Anything it does not recognise is fatal.
func hashLayout(dir, recvType, fn string) (algo string, segs []string) {
	fd := findFunc(dir, recvType, fn)
	recv := fd.Recv.List[0].Names[0].Name
	where := recvType + "." + fn
	locals := map[string]string{} // local var -> description of bytes it holds
	var walk func(stmts []ast.Stmt, loopVar, loopOver string) []string
	fieldOf := func(e ast.Expr, loopVar string) (string, bool) {
		s := exprString(e)
		if strings.HasPrefix(s, recv+".") {
			return strings.TrimPrefix(s, recv+"."), true
		}
		if loopVar != "" && strings.HasPrefix(s, loopVar+".") {
			return "elem." + strings.TrimPrefix(s, loopVar+"."), true
		}
		if loopVar != "" && s == loopVar {
			return "elem", true
		}
		return s, false
	}
	walk = func(stmts []ast.Stmt, loopVar, loopOver string) []string {
		var out []string
		for _, st := range stmts {
			switch s := st.(type) {
			case *ast.AssignStmt:
				rhs := s.Rhs[0]
				call, isCall := rhs.(*ast.CallExpr)
				if !isCall {
					die("%s: unsupported assignment %s", where, exprString(rhs))
				}
				fun := exprString(call.Fun)
				switch {
				case fun == "hashFunc":
					algo = "blake2b256"
				case fun == "sha256.New":
					algo = "sha256"
				case strings.HasSuffix(fun, ".Scheme.IdentityHash"):
					algo = "schemeIdentityHash"
				case fun == "binary.Write":
					if exprString(call.Args[0]) != "h" {
						die("%s: binary.Write to %s", where, exprString(call.Args[0]))
					}
					end := exprString(call.Args[1])
					e := "le"
					if end == "binary.BigEndian" {
						e = "be"
					} else if end != "binary.LittleEndian" {
						die("%s: endianness %s", where, end)
					}
					arg := call.Args[2]
					w := 0
					name := ""
					if conv, ok := arg.(*ast.CallExpr); ok && len(conv.Args) == 1 && intWidth(exprString(conv.Fun)) > 0 {
						w = intWidth(exprString(conv.Fun))
						name, _ = fieldOf(conv.Args[0], loopVar)
					} else {
						n, ok := fieldOf(arg, loopVar)
						if !ok {
							die("%s: binary.Write of %s", where, exprString(arg))
						}
						name = n
						owner := recvType
						fld := n
						if strings.HasPrefix(n, "elem.") {
							owner = loopOver
							fld = strings.TrimPrefix(n, "elem.")
						}
						w = intWidth(structFieldType(dir, owner, fld))
					}
					if w == 0 {
						die("%s: cannot determine width of %s", where, exprString(arg))
					}
					out = append(out, ".int "+leanStr(e)+" "+itoa(w)+" "+leanStr(name))
				case fun == "h.Write":
					arg := call.Args[0]
					as := exprString(arg)
					if d, ok := locals[as]; ok {
						out = append(out, ".bytes "+leanStr(d))
					} else if c, ok := arg.(*ast.CallExpr); ok {
						cf := exprString(c.Fun)
						if cf == "[]byte" {
							n, _ := fieldOf(c.Args[0], loopVar)
							out = append(out, ".bytes "+leanStr(n))
						} else if strings.HasSuffix(cf, ".Hash") {
							n, _ := fieldOf(c.Fun.(*ast.SelectorExpr).X, loopVar)
							out = append(out, ".subhash "+leanStr(n))
						} else {
							die("%s: h.Write(%s)", where, as)
						}
					} else {
						n, ok := fieldOf(arg, loopVar)
						if !ok {
							die("%s: h.Write(%s)", where, as)
						}
						out = append(out, ".bytes "+leanStr(n))
					}
				case strings.HasSuffix(fun, ".MarshalTo"):
					if exprString(call.Args[0]) != "h" {
						die("%s: MarshalTo(%s)", where, exprString(call.Args[0]))
					}
					n, _ := fieldOf(call.Fun.(*ast.SelectorExpr).X, loopVar)
					out = append(out, ".bytes "+leanStr(n))
				case strings.HasSuffix(fun, ".MarshalBinary"):
					n, _ := fieldOf(call.Fun.(*ast.SelectorExpr).X, loopVar)
					locals[exprString(s.Lhs[0])] = n
				default:
					die("%s: unsupported call %s", where, fun)
				}
			case *ast.ExprStmt:
				call, ok := s.X.(*ast.CallExpr)
				if !ok {
					die("%s: unsupported statement", where)
				}
				if exprString(call.Fun) == "sort.Slice" {
					n, _ := fieldOf(call.Args[0], loopVar)
					fl := call.Args[1].(*ast.FuncLit)
					ret := fl.Body.List[0].(*ast.ReturnStmt).Results[0].(*ast.BinaryExpr)
					lx := exprString(ret.X)
					ly := exprString(ret.Y)
					// g.Nodes[i].Index < g.Nodes[j].Index
					key := lx[strings.LastIndex(lx, ".")+1:]
					if ret.Op != token.LSS || !strings.HasSuffix(ly, "."+key) || !strings.Contains(lx, "[i]") || !strings.Contains(ly, "[j]") {
						die("%s: unsupported sort comparator %s", where, exprString(ret))
					}
					out = append(out, ".sortBy "+leanStr(n)+" "+leanStr(key))
				} else {
					die("%s: unsupported call statement %s", where, exprString(call.Fun))
				}
			case *ast.RangeStmt:
				over, _ := fieldOf(s.X, loopVar)
				elemType := strings.TrimPrefix(strings.TrimPrefix(structFieldType(dir, recvType, over), "[]"), "*")
				inner := walk(s.Body.List, exprString(s.Value), elemType)
				out = append(out, ".forEach "+leanStr(over)+" ["+strings.Join(inner, ", ")+"]")
			case *ast.IfStmt:
				cond := exprString(s.Cond)
				switch {
				case cond == "err!=nil":
					// error logging only; must not write to the hash
					ast.Inspect(s.Body, func(n ast.Node) bool {
						if c, ok := n.(*ast.CallExpr); ok && (exprString(c.Fun) == "h.Write" || exprString(c.Fun) == "binary.Write") {
							die("%s: hash write inside error branch", where)
						}
						return true
					})
				case strings.HasPrefix(cond, "!common.IsDefaultBeaconID(") || strings.HasPrefix(cond, "!common2.IsDefaultBeaconID("):
					inner := walk(s.Body.List, loopVar, loopOver)
					arg := s.Cond.(*ast.UnaryExpr).X.(*ast.CallExpr).Args[0]
					n, _ := fieldOf(arg, loopVar)
					out = append(out, ".ifNotDefaultId "+leanStr(n)+" ["+strings.Join(inner, ", ")+"]")
				case strings.HasSuffix(cond, "!=0"):
					n, _ := fieldOf(s.Cond.(*ast.BinaryExpr).X, loopVar)
					inner := walk(s.Body.List, loopVar, loopOver)
					out = append(out, ".ifNonZero "+leanStr(n)+" ["+strings.Join(inner, ", ")+"]")
				case strings.HasSuffix(cond, "!=nil"):
					n, _ := fieldOf(s.Cond.(*ast.BinaryExpr).X, loopVar)
					inner := walk(s.Body.List, loopVar, loopOver)
					out = append(out, ".ifNotNil "+leanStr(n)+" ["+strings.Join(inner, ", ")+"]")
				default:
					die("%s: unsupported condition %s", where, cond)
				}
				if s.Else != nil {
					die("%s: else branch in hash function", where)
				}
			case *ast.ReturnStmt:
				if exprString(s.Results[0]) != "h.Sum(nil)" {
					die("%s: returns %s", where, exprString(s.Results[0]))
				}
			default:
				die("%s: unsupported statement %T", where, st)
			}
		}
		return out
	}
	segs = walk(fd.Body.List, "", "")
	if algo == "" {
		die("%s: hash algorithm not recognised", where)
	}
	return
}

func itoa(i int) string {
	return strings.TrimSpace(strings.Join([]string{string(rune('0' + i))}, ""))
}

func genHashes() {
	l := newLean("HashLayouts")
	l.pf(`namespace Gen
/-- one write into a hash, in source order -/
inductive Seg where
  | int (endian : String) (width : Nat) (field : String)
  | bytes (field : String)
  | subhash (field : String)
  | sortBy (list : String) (key : String)
  | forEach (list : String) (body : List Seg)
  | ifNotDefaultId (field : String) (body : List Seg)
  | ifNonZero (field : String) (body : List Seg)
  | ifNotNil (field : String) (body : List Seg)
  deriving Repr, BEq

`)
	emit := func(lean, dir, typ, fn string) {
		algo, segs := hashLayout(dir, typ, fn)
		l.pf("/-- %s: `%s.%s` -/\ndef %sAlgo : String := %s\ndef %s : List Seg := [\n  %s]\n", dir, typ, fn, lean, leanStr(algo), lean, strings.Join(segs, ",\n  "))
	}
	emit("infoHash", "common/chain", "Info", "Hash")
	emit("groupHash", "common/key", "Group", "Hash")
	emit("nodeHash", "common/key", "Node", "Hash")
	emit("distPublicHash", "common/key", "DistPublic", "Hash")
	emit("identityHash", "common/key", "Identity", "Hash")
	// IsDefaultBeaconID: beaconID == DefaultBeaconID || beaconID == ""
	{
		fd := findFunc("common", "", "IsDefaultBeaconID")
		ret := exprString(fd.Body.List[0].(*ast.ReturnStmt).Results[0])
		if ret != `beaconID==DefaultBeaconID||beaconID==""` {
			die("IsDefaultBeaconID: unexpected body %s", ret)
		}
		l.pf("/-- common.IsDefaultBeaconID(id) = (id == DefaultBeaconID || id == \"\") -/\ndef defaultBeaconID : String := %s\n", constStr("common", "DefaultBeaconID"))
	}
	l.pf("end Gen\n")
}

// constStr returns the Lean literal for a package-level string constant.
func constStr(dir, name string) string {
	for _, f := range load(dir) {
		for _, d := range f.Decls {
			gd, ok := d.(*ast.GenDecl)
			if !ok || gd.Tok != token.CONST {
				continue
			}
			for _, s := range gd.Specs {
				vs := s.(*ast.ValueSpec)
				for i, n := range vs.Names {
					if n.Name == name {
						if bl, ok := vs.Values[i].(*ast.BasicLit); ok && bl.Kind == token.STRING {
							return bl.Value
						}
					}
				}
			}
		}
	}
	die("string constant %s not found in %s", name, dir)
	return ""
}
