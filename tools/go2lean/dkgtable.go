package main

import (
	"go/ast"
	"go/token"
	"strings"
)

func lowerFirst(s string) string { return strings.ToLower(s[:1]) + s[1:] }

// iotaEnum returns the names of the constants of the `const ( X T = iota; Y; … )` block of type typ.
func iotaEnum(dir, typ string) []string {
	for _, f := range load(dir) {
		for _, d := range f.Decls {
			gd, ok := d.(*ast.GenDecl)
			if !ok || gd.Tok != token.CONST || len(gd.Specs) == 0 {
				continue
			}
			first := gd.Specs[0].(*ast.ValueSpec)
			if first.Type == nil || exprString(first.Type) != typ || len(first.Values) != 1 || exprString(first.Values[0]) != "iota" {
				continue
			}
			var names []string
			for i, s := range gd.Specs {
				vs := s.(*ast.ValueSpec)
				if i > 0 && (vs.Type != nil || len(vs.Values) != 0) {
					die("%s: enum %s: constant %s breaks the iota sequence", dir, typ, vs.Names[0].Name)
				}
				for _, n := range vs.Names {
					names = append(names, n.Name)
				}
			}
			return names
		}
	}
	die("iota enum %s not found in %s", typ, dir)
	return nil
}

// orOfEquals parses `v == A || v == B || …` and returns [A, B, …].
func orOfEquals(e ast.Expr, v string, where string) []string {
	switch t := e.(type) {
	case *ast.BinaryExpr:
		if t.Op == token.LOR {
			return append(orOfEquals(t.X, v, where), orOfEquals(t.Y, v, where)...)
		}
		if t.Op == token.EQL && exprString(t.X) == v {
			return []string{exprString(t.Y)}
		}
	case *ast.ParenExpr:
		return orOfEquals(t.X, v, where)
	}
	die("%s: expected a disjunction of `%s == X`, got %s", where, v, exprString(e))
	return nil
}

func genDKGTable() {
	dir := "internal/dkg"
	l := newLean("DKGTable")
	l.pf("namespace Gen\n")
	names := iotaEnum(dir, "Status")
	l.pf("/-- internal/dkg: `Status` (iota order) -/\ninductive Status where\n")
	for _, n := range names {
		l.pf("  | %s\n", lowerFirst(n))
	}
	l.pf("  deriving DecidableEq, Repr, Inhabited\n\n")
	l.pf("def Status.all : List Status := [%s]\n", strings.Join(mapStr(names, func(s string) string { return "." + lowerFirst(s) }), ", "))
	l.pf("def Status.toNat : Status → Nat\n")
	for i, n := range names {
		l.pf("  | .%s => %d\n", lowerFirst(n), i)
	}
	l.pf("def Status.name : Status → String\n")
	for _, n := range names {
		l.pf("  | .%s => %s\n", lowerFirst(n), leanStr(n))
	}
	known := map[string]bool{}
	for _, n := range names {
		known[n] = true
	}
	// isValidStateChange(current, next): switch current { case X: return next == A || … } return false
	{
		fd := findFunc(dir, "", "isValidStateChange")
		if len(fd.Type.Params.List) != 1 || len(fd.Type.Params.List[0].Names) != 2 {
			die("isValidStateChange: unexpected parameters")
		}
		cur := fd.Type.Params.List[0].Names[0].Name
		nxt := fd.Type.Params.List[0].Names[1].Name
		if len(fd.Body.List) != 2 {
			die("isValidStateChange: expected `switch` + `return false`")
		}
		sw, ok := fd.Body.List[0].(*ast.SwitchStmt)
		if !ok || exprString(sw.Tag) != cur {
			die("isValidStateChange: expected switch on %s", cur)
		}
		if r, ok := fd.Body.List[1].(*ast.ReturnStmt); !ok || exprString(r.Results[0]) != "false" {
			die("isValidStateChange: expected trailing `return false`")
		}
		l.pf("/-- internal/dkg: `isValidStateChange` -/\ndef isValidStateChange : Status → Status → Bool\n")
		seen := map[string]bool{}
		for _, c := range sw.Body.List {
			cc := c.(*ast.CaseClause)
			if len(cc.List) != 1 || len(cc.Body) != 1 {
				die("isValidStateChange: unsupported case clause")
			}
			from := exprString(cc.List[0])
			ret, ok := cc.Body[0].(*ast.ReturnStmt)
			if !ok {
				die("isValidStateChange: case %s does not return", from)
			}
			tos := orOfEquals(ret.Results[0], nxt, "isValidStateChange case "+from)
			if !known[from] || seen[from] {
				die("isValidStateChange: bad or duplicate case %s", from)
			}
			seen[from] = true
			for _, t := range tos {
				if !known[t] {
					die("isValidStateChange: unknown status %s", t)
				}
			}
			l.pf("  | .%s, n => %s\n", lowerFirst(from), strings.Join(mapStr(tos, func(s string) string { return "n == ." + lowerFirst(s) }), " || "))
		}
		if len(seen) != len(names) {
			l.pf("  | _, _ => false\n")
		}
	}
	// isProposalPhase: switch d.State { case X: return true … default: return false }
	{
		fd := findFunc(dir, "", "isProposalPhase")
		var sw *ast.SwitchStmt
		for _, s := range fd.Body.List {
			if x, ok := s.(*ast.SwitchStmt); ok {
				sw = x
			}
		}
		if sw == nil {
			die("isProposalPhase: no switch")
		}
		var yes []string
		for _, c := range sw.Body.List {
			cc := c.(*ast.CaseClause)
			ret := cc.Body[0].(*ast.ReturnStmt)
			v := exprString(ret.Results[0])
			if cc.List == nil {
				if v != "false" {
					die("isProposalPhase: default returns %s", v)
				}
				continue
			}
			if v != "true" {
				die("isProposalPhase: case returns %s", v)
			}
			for _, e := range cc.List {
				yes = append(yes, exprString(e))
			}
		}
		l.pf("/-- internal/dkg: `isProposalPhase` -/\ndef proposalPhase : List Status := [%s]\n", strings.Join(mapStr(yes, func(s string) string { return "." + lowerFirst(s) }), ", "))
	}
	// terminalStates
	{
		var vals []string
		for _, f := range load(dir) {
			for _, d := range f.Decls {
				gd, ok := d.(*ast.GenDecl)
				if !ok || gd.Tok != token.VAR {
					continue
				}
				for _, s := range gd.Specs {
					vs := s.(*ast.ValueSpec)
					if vs.Names[0].Name == "terminalStates" {
						cl := vs.Values[0].(*ast.CompositeLit)
						for _, e := range cl.Elts {
							vals = append(vals, exprString(e))
						}
					}
				}
			}
		}
		if len(vals) == 0 {
			die("terminalStates not found")
		}
		l.pf("/-- internal/dkg: `terminalStates` -/\ndef terminalStates : List Status := [%s]\n", strings.Join(mapStr(vals, func(s string) string { return "." + lowerFirst(s) }), ", "))
	}
	// the scheme ids known to crypto.SchemeFromName
	{
		fd := findFunc("crypto", "", "SchemeFromName")
		var ids []string
		ast.Inspect(fd.Body, func(n ast.Node) bool {
			cc, ok := n.(*ast.CaseClause)
			if !ok {
				return true
			}
			for _, e := range cc.List {
				ids = append(ids, constStr("crypto", exprString(e)))
			}
			return true
		})
		if len(ids) == 0 {
			die("SchemeFromName: no cases")
		}
		l.pf("/-- crypto: the names `SchemeFromName` accepts -/\ndef schemeIDs : List String := [%s]\n", strings.Join(ids, ", "))
		l.pf("def defaultSchemeID : String := %s\n", constStr("crypto", "DefaultSchemeID"))
	}
	l.pf("end Gen\n")
}

func mapStr(xs []string, f func(string) string) []string {
	out := make([]string, len(xs))
	for i, x := range xs {
		out[i] = f(x)
	}
	return out
}
