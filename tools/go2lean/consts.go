package main

import (
	"go/ast"
	"go/token"
)

// genConsts: package-level constants and a few literals buried in function bodies.
func genConsts() {
	l := newLean("Consts")
	l.pf("namespace Gen\n")
	c := func(lean, dir, name string) {
		l.pf("/-- %s: `%s` -/\ndef %s : Nat := %s\n", dir, name, lean, constInt(dir, name).ExactString())
	}
	c("timeBufferBits", "common", "timeBufferBits")
	// the `+ 2` in `math.MaxUint64 >> (int(periodBits) + 2)` inside TimeOfRound
	{
		fd := findFunc("common", "", "TimeOfRound")
		found := ""
		ast.Inspect(fd.Body, func(n ast.Node) bool {
			be, ok := n.(*ast.BinaryExpr)
			if !ok || be.Op != token.SHR {
				return true
			}
			if exprString(be.X) != "math.MaxUint64" {
				return true
			}
			p, ok := be.Y.(*ast.ParenExpr)
			if !ok {
				die("TimeOfRound: shift amount is not (int(periodBits) + k)")
			}
			add, ok := p.X.(*ast.BinaryExpr)
			if !ok || add.Op != token.ADD || exprString(add.X) != "int(periodBits)" {
				die("TimeOfRound: shift amount is not (int(periodBits) + k): %s", exprString(p.X))
			}
			found = evalInt("common", add.Y, "TimeOfRound.shift").ExactString()
			return false
		})
		if found == "" {
			die("TimeOfRound: round-limit shift not found")
		}
		l.pf("/-- common: the k in `math.MaxUint64 >> (int(periodBits) + k)` of TimeOfRound -/\ndef timeOfRoundShiftExtra : Nat := %s\n", found)
	}
	c("maxPartialsPerNode", "internal/chain/beacon", "MaxPartialsPerNode")
	c("callbackWorkerQueue", "internal/chain/beacon", "CallbackWorkerQueue")
	c("partialCacheStoreLimit", "internal/chain/beacon", "partialCacheStoreLimit")
	c("syncExpiryFactor", "internal/chain/beacon", "syncExpiryFactor")
	c("syncQueueRequest", "internal/chain/beacon", "syncQueueRequest")
	c("tickerChanBacklog", "internal/chain/beacon", "tickerChanBacklog")
	c("rwFilePermission", "internal/fs", "rwFilePermission")
	c("dkgBoltStoreOpenPerm", "internal/dkg", "BoltStoreOpenPerm")
	c("chainBoltStoreOpenPerm", "internal/chain/boltdb", "BoltStoreOpenPerm")
	{
		fd := findFunc("internal/dkg", "Process", "startDKGExecution")
		l.pf("/-- internal/dkg: `roundsUntilTransition` in startDKGExecution -/\ndef roundsUntilTransition : Nat := %s\n",
			localInt("internal/dkg", fd, "roundsUntilTransition").ExactString())
	}
	l.pf("end Gen\n")
}
