package main

import (
	"go/ast"
	"go/token"
	"strings"
)

// genCallback: facts about callbackStore (store.go) and SyncChain (sync_manager.go) used by C11/C12.
//   - is the dispatch inside callbackStore.Put a plain channel send (blocking) or a select with default?
//   - does Put hold the read lock around the dispatch loop, and does the base Put come first?
//   - do AddCallback/RemoveCallback hold the write lock for their whole body; is the close signal a plain send?
//   - the store/cursor calls of SyncChain in source order, and its top-level guards.
func genCallback() {
	const dir = "internal/chain/beacon"
	l := newLean("Callback")
	l.pf("namespace Gen\n")
	b := func(name, doc string, v bool) {
		s := "false"
		if v {
			s = "true"
		}
		l.pf("/-- %s -/\ndef %s : Bool := %s\n", doc, name, s)
	}

	put := findFunc(dir, "callbackStore", "Put")
	var stmts []ast.Stmt
	for _, s := range put.Body.List {
		txt := stmtString(s)
		if strings.Contains(txt, "tracer.NewSpan") || txt == "defer span.End()" {
			continue
		}
		stmts = append(stmts, s)
	}
	if len(stmts) != 3 {
		die("callbackStore.Put: expected <base put guard>; if b.Round != 0 {…}; return nil — got %d statements", len(stmts))
	}
	// 1. base put guard
	g, ok := stmts[0].(*ast.IfStmt)
	if !ok || g.Init == nil || stmtString(g.Init) != "err:=c.Store.Put(ctx,b)" || exprString(g.Cond) != "err!=nil" ||
		len(g.Body.List) != 1 || stmtString(g.Body.List[0]) != "return err" {
		die("callbackStore.Put: first statement is not `if err := c.Store.Put(ctx, b); err != nil { return err }`")
	}
	b("callbackPutBaseFirst", "callbackStore.Put: the base Put comes first and its error returns before any dispatch", true)
	// 2. dispatch block
	d, ok := stmts[1].(*ast.IfStmt)
	if !ok || exprString(d.Cond) != "b.Round!=0" || d.Else != nil {
		die("callbackStore.Put: second statement is not `if b.Round != 0 {…}`")
	}
	var rlock, runlock, wlock, wunlock bool
	var loop *ast.RangeStmt
	for _, s := range d.Body.List {
		switch t := s.(type) {
		case *ast.RangeStmt:
			if loop != nil {
				die("callbackStore.Put: more than one range loop")
			}
			if !(rlock && runlock) && !(wlock && wunlock) {
				die("callbackStore.Put: the dispatch loop is preceded neither by c.RLock(); defer c.RUnlock() nor by c.Lock(); defer c.Unlock()")
			}
			loop = t
		default:
			switch stmtString(s) {
			case "c.RLock()":
				rlock = true
			case "defer c.RUnlock()":
				runlock = true
			case "c.Lock()":
				wlock = true
			case "defer c.Unlock()":
				wunlock = true
			default:
				if !strings.HasPrefix(stmtString(s), "span.AddEvent(") {
					die("callbackStore.Put: unrecognised statement in the dispatch block: %s", stmtString(s))
				}
			}
		}
	}
	if loop == nil || exprString(loop.X) != "c.callbacks" || exprString(loop.Key) != "id" || exprString(loop.Value) != "cb" {
		die("callbackStore.Put: no `for id, cb := range c.callbacks` loop")
	}
	if (rlock || runlock) && (wlock || wunlock) {
		die("callbackStore.Put: both kinds of lock calls in the dispatch block")
	}
	// The loop body. Exactly two shapes are known:
	//   as it is   j, ok := c.newJob[id]; if !ok { continue }; j <- cbPair{…}                              (under the READ lock)
	//   repaired   j, ok := c.newJob[id]; if !ok { continue }; job := cbPair{…};
	//              if !c.workers[id].stream { j <- job; continue }                                          (a callback of the node itself: plain send)
	//              select { case j <- job: default: [log]; c.stopWorker(id, true); delete(c.callbacks, id) }  (under the WRITE lock)
	// In the second shape the default branch must END the consumer (deregister it, close its channel, close notice) —
	// a default branch that merely goes on to the next callback would silently skip a beacon for that consumer (C11).
	body := loop.Body.List
	if len(body) < 3 || stmtString(body[0]) != "j,ok:=c.newJob[id]" {
		die("callbackStore.Put: the dispatch loop does not start with `j, ok := c.newJob[id]`")
	}
	if is, ok := body[1].(*ast.IfStmt); !ok || exprString(is.Cond) != "!ok" || is.Else != nil || len(is.Body.List) != 1 || stmtStringDeep(is.Body.List[0]) != "continue" {
		die("callbackStore.Put: second statement of the dispatch loop is not `if !ok { continue }`")
	}
	isJobLit := func(e ast.Expr) bool {
		x := exprString(e)
		return x == "cbPair{cb:cb,b:b}" || x == "cbPair{b:b,cb:cb}"
	}
	repaired := false
	switch {
	case len(body) == 3:
		ss, ok := body[2].(*ast.SendStmt)
		if !ok {
			if _, isSel := body[2].(*ast.SelectStmt); isSel {
				die("callbackStore.Put: the dispatch is a bare select: neither the plain send of the code as it is nor the repaired shape (a default branch that only skips the callback loses a beacon for that consumer)")
			}
			die("callbackStore.Put: unrecognised dispatch statement %T", body[2])
		}
		if exprString(ss.Chan) != "j" || !isJobLit(ss.Value) {
			die("callbackStore.Put: unexpected send statement %s", stmtStringDeep(ss))
		}
		if !rlock {
			die("callbackStore.Put: plain-send dispatch under the write lock")
		}
	case len(body) == 5:
		as, ok := body[2].(*ast.AssignStmt)
		if !ok || len(as.Lhs) != 1 || exprString(as.Lhs[0]) != "job" || as.Tok != token.DEFINE || len(as.Rhs) != 1 || !isJobLit(as.Rhs[0]) {
			die("callbackStore.Put: expected `job := cbPair{cb: cb, b: b}`, got %s", stmtString(body[2]))
		}
		if got := stmtStringDeep(body[3]); got != "if !c.workers[id].stream{j<-job;continue;}" {
			die("callbackStore.Put: expected `if !c.workers[id].stream { j <- job; continue }`, got %s", got)
		}
		sel, ok := body[4].(*ast.SelectStmt)
		if !ok || len(sel.Body.List) != 2 {
			die("callbackStore.Put: expected a select with a send and a default branch")
		}
		var sendC, defC *ast.CommClause
		for _, cc := range sel.Body.List {
			c := cc.(*ast.CommClause)
			if c.Comm == nil {
				defC = c
			} else {
				sendC = c
			}
		}
		if sendC == nil || defC == nil {
			die("callbackStore.Put: select without a send or without a default branch")
		}
		if ss, ok := sendC.Comm.(*ast.SendStmt); !ok || exprString(ss.Chan) != "j" || exprString(ss.Value) != "job" || len(sendC.Body) != 0 {
			die("callbackStore.Put: the send branch of the select is not `case j <- job:` with an empty body")
		}
		var eff []string
		for _, s := range defC.Body {
			if t := stmtStringDeep(s); !strings.HasPrefix(t, "c.l.") {
				eff = append(eff, t)
			}
		}
		if len(eff) != 2 || eff[0] != "c.stopWorker(id,true)" || eff[1] != "delete(c.callbacks,id)" {
			die("callbackStore.Put: the default branch of the dispatch must end the consumer — c.stopWorker(id, true); delete(c.callbacks, id) — found %v (a branch that only skips the callback silently loses a beacon for that consumer)", eff)
		}
		if !wlock {
			die("callbackStore.Put: a dispatch that ends a consumer must hold the WRITE lock (it deletes map entries and closes a channel; under the read lock a concurrent Put could still reach the consumer after the beacon it missed)")
		}
		repaired = true
	default:
		die("callbackStore.Put: unrecognised dispatch loop (%d statements)", len(body))
	}
	b("callbackPutHoldsReadLock", "callbackStore.Put: c.RLock(); defer c.RUnlock() precede the dispatch loop (the read lock is held during every send)", rlock && runlock)
	b("callbackPutHoldsWriteLock", "callbackStore.Put: c.Lock(); defer c.Unlock() precede the dispatch loop (dispatches are serialised; the loop may change the callback table)", wlock && wunlock)
	b("callbackPutDispatchBlocking", "callbackStore.Put: the dispatch to a stream consumer is a plain `j <- cbPair{…}` (true) rather than a select with a default branch (false)", !repaired)
	b("callbackOverflowEndsConsumer", "callbackStore.Put: the default branch of the dispatch ends the consumer whose queue is full — c.stopWorker(id, true); delete(c.callbacks, id) — it never just skips it", repaired)
	b("callbackInternalDispatchBlocking", "callbackStore.Put: a callback that was not registered with AddStreamCallback (every callback, in the code as it is) gets a plain send", true)
	if rs, ok := stmts[2].(*ast.ReturnStmt); !ok || len(rs.Results) != 1 || exprString(rs.Results[0]) != "nil" {
		die("callbackStore.Put: last statement is not `return nil`")
	}

	// AddCallback / AddStreamCallback / RemoveCallback and the close notice
	ownRemover := false
	addFn := "AddCallback"
	if repaired {
		addFn = "addCallback"
		fd := findFunc(dir, "callbackStore", "AddCallback")
		if len(fd.Body.List) != 1 || stmtString(fd.Body.List[0]) != "c.addCallback(id,fn,false)" {
			die("callbackStore.AddCallback: expected the single statement c.addCallback(id, fn, false)")
		}
		// AddStreamCallback: either just the registration, or the registration plus a remover for exactly that registration:
		//   jobChan := c.addCallback(id, fn, true)
		//   return func() { c.Lock(); defer c.Unlock(); if c.newJob[id] == jobChan { delete(c.callbacks, id); c.stopWorker(id, false) } }
		fd = findFunc(dir, "callbackStore", "AddStreamCallback")
		switch {
		case len(fd.Body.List) == 1 && stmtString(fd.Body.List[0]) == "c.addCallback(id,fn,true)":
		case len(fd.Body.List) == 2 && stmtString(fd.Body.List[0]) == "jobChan:=c.addCallback(id,fn,true)":
			rs, ok := fd.Body.List[1].(*ast.ReturnStmt)
			if !ok || len(rs.Results) != 1 {
				die("callbackStore.AddStreamCallback: second statement is not `return func() {…}`")
			}
			fl, ok := rs.Results[0].(*ast.FuncLit)
			if !ok {
				die("callbackStore.AddStreamCallback: does not return a function literal")
			}
			var got []string
			for _, s := range fl.Body.List {
				got = append(got, stmtStringDeep(s))
			}
			want := []string{"c.Lock()", "defer c.Unlock()", "if c.newJob[id]==jobChan{delete(c.callbacks,id);c.stopWorker(id,false);}"}
			if strings.Join(got, " | ") != strings.Join(want, " | ") {
				die("callbackStore.AddStreamCallback: the returned remover is %v, expected %v", got, want)
			}
			add := findFunc(dir, "callbackStore", "addCallback")
			if last, ok := add.Body.List[len(add.Body.List)-1].(*ast.ReturnStmt); !ok || len(last.Results) != 1 || exprString(last.Results[0]) != "c.newJob[id]" {
				die("callbackStore.addCallback: does not end with `return c.newJob[id]`")
			}
			ownRemover = true
		default:
			die("callbackStore.AddStreamCallback: unrecognised body")
		}
	}
	b("callbackAddLocked", "callbackStore.AddCallback (and AddStreamCallback) begin with Lock(); defer Unlock()", holdsMutexForWholeBody(dir, "callbackStore", addFn))
	b("callbackRemoveLocked", "callbackStore.RemoveCallback begins with Lock(); defer Unlock()", holdsMutexForWholeBody(dir, "callbackStore", "RemoveCallback"))
	// the close signal in AddCallback
	{
		add := findFunc(dir, "callbackStore", addFn)
		plain, sel, stop := 0, 0, 0
		ast.Inspect(add.Body, func(n ast.Node) bool {
			switch t := n.(type) {
			case *ast.SelectStmt:
				sel++
				return false
			case *ast.SendStmt:
				if exprString(t.Chan) == "jobChan" {
					plain++
				}
			case *ast.CallExpr:
				if exprString(t) == "c.stopWorker(id,true)" {
					stop++
				}
			}
			return true
		})
		if plain+sel+stop != 1 || sel != 0 {
			die("callbackStore.%s: expected exactly one close signal (a plain send to the replaced channel, or c.stopWorker(id, true)), found %d plain / %d select / %d stopWorker", addFn, plain, sel, stop)
		}
		if (stop == 1) != repaired {
			die("callbackStore.%s: the close signal and the dispatch belong to different variants", addFn)
		}
		b("callbackAddCloseSendBlocking", "callbackStore.AddCallback: the close signal to the replaced channel is a plain send (under the write lock)", plain == 1)
	}
	// repaired variant: the close notice travels outside the job queue
	outOfBand := false
	if repaired {
		sw := findFunc(dir, "callbackStore", "stopWorker")
		var got []string
		for _, s := range sw.Body.List {
			got = append(got, stmtStringDeep(s))
		}
		want := []string{"if notify{c.workers[id].closed=c.callbacks[id];}", "close(c.newJob[id])", "delete(c.newJob,id)", "delete(c.workers,id)"}
		if strings.Join(got, " | ") != strings.Join(want, " | ") {
			die("callbackStore.stopWorker: expected %v, got %v", want, got)
		}
		// the worker: after the closed channel is drained, the notice (if any) is passed on, then the worker ends
		rw := findFunc(dir, "callbackStore", "runWorker")
		found := false
		ast.Inspect(rw.Body, func(n ast.Node) bool {
			if is, ok := n.(*ast.IfStmt); ok && exprString(is.Cond) == "!ok" {
				if stmtStringDeep(is) != "if !ok{if w.closed!=nil{w.closed(nil,true);};return ;}" {
					die("callbackStore.runWorker: the closed-channel branch is %s", stmtStringDeep(is))
				}
				found = true
			}
			return true
		})
		if !found {
			die("callbackStore.runWorker: no `if !ok {…}` branch")
		}
		rm := findFunc(dir, "callbackStore", "RemoveCallback")
		n := 0
		ast.Inspect(rm.Body, func(x ast.Node) bool {
			if c, ok := x.(*ast.CallExpr); ok && exprString(c) == "c.stopWorker(id,false)" {
				n++
			}
			return true
		})
		if n != 1 {
			die("callbackStore.RemoveCallback: expected one c.stopWorker(id, false)")
		}
		outOfBand = true
	}
	b("callbackStreamRemover", "callbackStore.AddStreamCallback returns a function that removes the registration it made and no other (it compares the job channel registered under the id with its own)", ownRemover)
	b("callbackCloseOutOfBand", "callbackStore: a close notice is not a job in the queue: stopWorker records it, closes the channel, and the worker passes it on after draining what is queued (no send, nothing to wait for)", outOfBand)
	// the channel capacity expression
	{
		add := findFunc(dir, "callbackStore", addFn)
		found := ""
		ast.Inspect(add.Body, func(n ast.Node) bool {
			c, ok := n.(*ast.CallExpr)
			if ok && exprString(c.Fun) == "make" && len(c.Args) == 2 && exprString(c.Args[0]) == "chan cbPair" {
				found = exprString(c.Args[1])
			}
			return true
		})
		if found == "" {
			die("callbackStore.AddCallback: make(chan cbPair, …) not found")
		}
		l.pf("/-- callbackStore.AddCallback: capacity expression of the job channel -/\ndef callbackChanCap : String := %s\n", leanStr(found))
	}

	// SyncChain: store / cursor calls in source order, top-level guards
	sc := findFunc(dir, "", "SyncChain")
	var calls []string
	registersStream := false
	ast.Inspect(sc.Body, func(n ast.Node) bool {
		c, ok := n.(*ast.CallExpr)
		if !ok {
			return true
		}
		sel, ok := c.Fun.(*ast.SelectorExpr)
		if !ok {
			return true
		}
		x, ok := sel.X.(*ast.Ident)
		if !ok {
			return true
		}
		if x.Name == "store" && sel.Sel.Name == "AddStreamCallback" {
			registersStream = true
		}
		if x.Name == "store" || (x.Name == "c" && (sel.Sel.Name == "Seek" || sel.Sel.Name == "Next" || sel.Sel.Name == "First" || sel.Sel.Name == "Last")) {
			calls = append(calls, exprString(c))
		}
		return true
	})
	if len(calls) == 0 {
		die("SyncChain: no store calls found")
	}
	// how SyncChain takes its callback away: store.RemoveCallback(id) — whatever is registered under the id at that time — or the
	// remover AddStreamCallback returned (`remove := store.AddStreamCallback(…)`; `defer remove()`), never a mixture
	byID, byRemover, assigned, deferred := 0, 0, false, false
	ast.Inspect(sc.Body, func(n ast.Node) bool {
		switch t := n.(type) {
		case *ast.CallExpr:
			switch exprString(t.Fun) {
			case "store.RemoveCallback":
				byID++
			case "remove":
				byRemover++
			}
		case *ast.AssignStmt:
			if len(t.Lhs) == 1 && exprString(t.Lhs[0]) == "remove" && len(t.Rhs) == 1 {
				if c, ok := t.Rhs[0].(*ast.CallExpr); ok && exprString(c.Fun) == "store.AddStreamCallback" {
					assigned = true
				}
			}
		case *ast.DeferStmt:
			if exprString(t.Call) == "remove()" {
				deferred = true
			}
		}
		return true
	})
	ownOnly := false
	switch {
	case byID == 2 && byRemover == 0 && !assigned:
	case byID == 0 && byRemover == 1 && assigned && deferred && ownRemover:
		ownOnly = true
	default:
		die("SyncChain: unrecognised way of deregistering its callback (%d RemoveCallback(id), %d remove(), remover assigned %v, deferred %v, store returns a remover %v)", byID, byRemover, assigned, deferred, ownRemover)
	}
	b("syncChainRemovesOwnOnly", "SyncChain deregisters with the remover of its own registration (deferred: on every way out), not with RemoveCallback(id)", ownOnly)
	if registersStream != repaired {
		die("SyncChain registers its callback with %v but callbackStore.Put is %v", map[bool]string{true: "AddStreamCallback", false: "AddCallback"}[registersStream], map[bool]string{true: "repaired", false: "as it is"}[repaired])
	}
	b("syncChainRegistersStream", "SyncChain registers its callback with store.AddStreamCallback (a consumer Put never waits for)", registersStream)
	l.pf("/-- SyncChain: calls on the store and on the cursor, in source order -/\ndef syncChainCalls : List String := %s\n", leanStrList(calls))
	var guards []string
	for _, s := range sc.Body.List {
		if is, ok := s.(*ast.IfStmt); ok {
			guards = append(guards, exprString(is.Cond))
		}
	}
	l.pf("/-- SyncChain: conditions of its top-level if statements, in source order -/\ndef syncChainGuards : List String := %s\n", leanStrList(guards))
	// the scan loop header: for ; bb != nil; bb, err = c.Next(ctx)
	{
		found := ""
		ast.Inspect(sc.Body, func(n ast.Node) bool {
			f, ok := n.(*ast.ForStmt)
			if ok && f.Cond != nil && f.Post != nil {
				found = exprString(f.Cond) + ";" + stmtString(f.Post)
			}
			return true
		})
		if found == "" {
			die("SyncChain: scan loop not found")
		}
		l.pf("/-- SyncChain: condition and post statement of the scan loop -/\ndef syncChainScanLoop : String := %s\n", leanStr(found))
	}
	_ = token.NoPos
	l.pf("end Gen\n")
}
