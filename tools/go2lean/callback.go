package main

import (
	"go/ast"
	"go/token"
	"strings"
)

// genCallback: facts about callbackStore (store.go) and SyncChain (sync_manager.go) used by C11/C12.
//   - is the dispatch inside callbackStore.Put a plain channel send (blocking) or a select with default?
//   - does Put hold the read lock around the dispatch loop, and does the base Put come first?
//   - do AddCallback/RemoveCallback hold the write lock for their whole body; is the close signal a plain send?
//   - the store/cursor calls of SyncChain in source order, and its top-level guards.
func genCallback() {
	const dir = "internal/chain/beacon"
	l := newLean("Callback")
	l.pf("namespace Gen\n")
	b := func(name, doc string, v bool) {
		s := "false"
		if v {
			s = "true"
		}
		l.pf("/-- %s -/\ndef %s : Bool := %s\n", doc, name, s)
	}

	put := findFunc(dir, "callbackStore", "Put")
	var stmts []ast.Stmt
	for _, s := range put.Body.List {
		txt := stmtString(s)
		if strings.Contains(txt, "tracer.NewSpan") || txt == "defer span.End()" {
			continue
		}
		stmts = append(stmts, s)
	}
	if len(stmts) != 3 {
		die("callbackStore.Put: expected <base put guard>; if b.Round != 0 {…}; return nil — got %d statements", len(stmts))
	}
	// 1. base put guard
	g, ok := stmts[0].(*ast.IfStmt)
	if !ok || g.Init == nil || stmtString(g.Init) != "err:=c.Store.Put(ctx,b)" || exprString(g.Cond) != "err!=nil" ||
		len(g.Body.List) != 1 || stmtString(g.Body.List[0]) != "return err" {
		die("callbackStore.Put: first statement is not `if err := c.Store.Put(ctx, b); err != nil { return err }`")
	}
	b("callbackPutBaseFirst", "callbackStore.Put: the base Put comes first and its error returns before any dispatch", true)
	// 2. dispatch block
	d, ok := stmts[1].(*ast.IfStmt)
	if !ok || exprString(d.Cond) != "b.Round!=0" || d.Else != nil {
		die("callbackStore.Put: second statement is not `if b.Round != 0 {…}`")
	}
	var rlock, runlock bool
	var loop *ast.RangeStmt
	for _, s := range d.Body.List {
		switch t := s.(type) {
		case *ast.RangeStmt:
			if loop != nil {
				die("callbackStore.Put: more than one range loop")
			}
			if !rlock || !runlock {
				die("callbackStore.Put: the dispatch loop is not preceded by c.RLock(); defer c.RUnlock()")
			}
			loop = t
		default:
			switch stmtString(s) {
			case "c.RLock()":
				rlock = true
			case "defer c.RUnlock()":
				runlock = true
			default:
				if !strings.HasPrefix(stmtString(s), "span.AddEvent(") {
					die("callbackStore.Put: unrecognised statement in the dispatch block: %s", stmtString(s))
				}
			}
		}
	}
	if loop == nil || exprString(loop.X) != "c.callbacks" {
		die("callbackStore.Put: no `for id, cb := range c.callbacks` loop")
	}
	b("callbackPutHoldsReadLock", "callbackStore.Put: c.RLock(); defer c.RUnlock() precede the dispatch loop (the read lock is held during every send)", true)
	// loop body: j, ok := c.newJob[id]; if !ok { continue }; then the send
	blocking := -1
	for _, s := range loop.Body.List {
		switch t := s.(type) {
		case *ast.SendStmt:
			if exprString(t.Chan) != "j" || blocking != -1 {
				die("callbackStore.Put: unexpected send statement")
			}
			blocking = 1
		case *ast.SelectStmt:
			hasSend, hasDefault := false, false
			for _, cc := range t.Body.List {
				c := cc.(*ast.CommClause)
				if c.Comm == nil {
					hasDefault = true
				} else if ss, ok := c.Comm.(*ast.SendStmt); ok && exprString(ss.Chan) == "j" {
					hasSend = true
				}
			}
			if !hasSend || blocking != -1 {
				die("callbackStore.Put: select without a send to the job channel")
			}
			if hasDefault {
				blocking = 0
			} else {
				blocking = 1
			}
		case *ast.AssignStmt:
			if stmtString(s) != "j,ok:=c.newJob[id]" {
				die("callbackStore.Put: unrecognised assignment in the dispatch loop: %s", stmtString(s))
			}
		case *ast.IfStmt:
			if exprString(t.Cond) != "!ok" {
				die("callbackStore.Put: unrecognised if in the dispatch loop: %s", exprString(t.Cond))
			}
		default:
			die("callbackStore.Put: unrecognised statement in the dispatch loop: %T", s)
		}
	}
	if blocking == -1 {
		die("callbackStore.Put: no send to the job channel found")
	}
	b("callbackPutDispatchBlocking", "callbackStore.Put: the dispatch is a plain `j <- cbPair{…}` (true) rather than a select with a default branch (false)", blocking == 1)
	if rs, ok := stmts[2].(*ast.ReturnStmt); !ok || len(rs.Results) != 1 || exprString(rs.Results[0]) != "nil" {
		die("callbackStore.Put: last statement is not `return nil`")
	}

	b("callbackAddLocked", "callbackStore.AddCallback begins with Lock(); defer Unlock()", holdsMutexForWholeBody(dir, "callbackStore", "AddCallback"))
	b("callbackRemoveLocked", "callbackStore.RemoveCallback begins with Lock(); defer Unlock()", holdsMutexForWholeBody(dir, "callbackStore", "RemoveCallback"))
	// the close signal in AddCallback
	{
		add := findFunc(dir, "callbackStore", "AddCallback")
		plain, sel := 0, 0
		ast.Inspect(add.Body, func(n ast.Node) bool {
			switch t := n.(type) {
			case *ast.SelectStmt:
				sel++
				return false
			case *ast.SendStmt:
				if exprString(t.Chan) == "jobChan" {
					plain++
				}
			}
			return true
		})
		if plain+sel != 1 {
			die("callbackStore.AddCallback: expected exactly one close-signal send, found %d plain / %d select", plain, sel)
		}
		b("callbackAddCloseSendBlocking", "callbackStore.AddCallback: the close signal to the replaced channel is a plain send (under the write lock)", plain == 1)
	}
	// the channel capacity expression
	{
		add := findFunc(dir, "callbackStore", "AddCallback")
		found := ""
		ast.Inspect(add.Body, func(n ast.Node) bool {
			c, ok := n.(*ast.CallExpr)
			if ok && exprString(c.Fun) == "make" && len(c.Args) == 2 && exprString(c.Args[0]) == "chan cbPair" {
				found = exprString(c.Args[1])
			}
			return true
		})
		if found == "" {
			die("callbackStore.AddCallback: make(chan cbPair, …) not found")
		}
		l.pf("/-- callbackStore.AddCallback: capacity expression of the job channel -/\ndef callbackChanCap : String := %s\n", leanStr(found))
	}

	// SyncChain: store / cursor calls in source order, top-level guards
	sc := findFunc(dir, "", "SyncChain")
	var calls []string
	ast.Inspect(sc.Body, func(n ast.Node) bool {
		c, ok := n.(*ast.CallExpr)
		if !ok {
			return true
		}
		sel, ok := c.Fun.(*ast.SelectorExpr)
		if !ok {
			return true
		}
		x, ok := sel.X.(*ast.Ident)
		if !ok {
			return true
		}
		if x.Name == "store" || (x.Name == "c" && (sel.Sel.Name == "Seek" || sel.Sel.Name == "Next" || sel.Sel.Name == "First" || sel.Sel.Name == "Last")) {
			calls = append(calls, exprString(c))
		}
		return true
	})
	if len(calls) == 0 {
		die("SyncChain: no store calls found")
	}
	l.pf("/-- SyncChain: calls on the store and on the cursor, in source order -/\ndef syncChainCalls : List String := %s\n", leanStrList(calls))
	var guards []string
	for _, s := range sc.Body.List {
		if is, ok := s.(*ast.IfStmt); ok {
			guards = append(guards, exprString(is.Cond))
		}
	}
	l.pf("/-- SyncChain: conditions of its top-level if statements, in source order -/\ndef syncChainGuards : List String := %s\n", leanStrList(guards))
	// the scan loop header: for ; bb != nil; bb, err = c.Next(ctx)
	{
		found := ""
		ast.Inspect(sc.Body, func(n ast.Node) bool {
			f, ok := n.(*ast.ForStmt)
			if ok && f.Cond != nil && f.Post != nil {
				found = exprString(f.Cond) + ";" + stmtString(f.Post)
			}
			return true
		})
		if found == "" {
			die("SyncChain: scan loop not found")
		}
		l.pf("/-- SyncChain: condition and post statement of the scan loop -/\ndef syncChainScanLoop : String := %s\n", leanStr(found))
	}
	_ = token.NoPos
	l.pf("end Gen\n")
}
