package main

import (
	"go/ast"
	"go/token"
	"strings"
)

// genRouting (C19): the beacon-id helpers of common/beacon.go translated to Lean definitions, and a normalised
// statement script of every function that reads or writes the daemon's routing tables. The scripts are compared with
// golden copies by rfl theorems (tie_script_*): any change of these functions is a visible diff of Gen/Routing.lean.
func genRouting() {
	l := newLean("Routing")
	l.pf("namespace Gen.Routing\n")
	l.pf("/-- common.DefaultBeaconID -/\ndef defaultBeaconID : String := %s\n", constStr("common", "DefaultBeaconID"))
	l.pf("/-- common.DefaultChainHash -/\ndef defaultChainHash : String := %s\n", constStr("common", "DefaultChainHash"))
	// pure helpers: if-chains of returns over string equality
	boolFn(l, "common", "IsDefaultBeaconID", "isDefaultBeaconID", "Bool")
	boolFn(l, "common", "CompareBeaconIDs", "compareBeaconIDs", "Bool")
	boolFn(l, "common", "GetCanonicalBeaconID", "getCanonicalBeaconID", "String")

	script := func(name, dir, recv, fn string) {
		fd := findFunc(dir, recv, fn)
		l.pf("/-- %s: (%s) %s -/\ndef script_%s : List String := [\n", dir, recv, fn, name)
		lines := stmtScript(fd.Body.List, fn)
		for i, s := range lines {
			sep := ","
			if i == len(lines)-1 {
				sep = ""
			}
			l.pf("  %s%s\n", leanStr(s), sep)
		}
		l.pf("]\n")
	}
	core := "internal/core"
	script("readBeaconID", core, "DrandDaemon", "readBeaconID")
	script("getBeaconProcessByID", core, "DrandDaemon", "getBeaconProcessByID")
	script("getBeaconProcessFromRequest", core, "DrandDaemon", "getBeaconProcessFromRequest")
	script("InstantiateBeaconProcess", core, "DrandDaemon", "InstantiateBeaconProcess")
	script("AddBeaconHandler", core, "DrandDaemon", "AddBeaconHandler")
	script("RemoveBeaconHandler", core, "DrandDaemon", "RemoveBeaconHandler")
	script("RemoveBeaconProcess", core, "DrandDaemon", "RemoveBeaconProcess")
	script("LoadBeaconFromStore", core, "DrandDaemon", "LoadBeaconFromStore")
	script("LoadBeaconFromDisk", core, "DrandDaemon", "LoadBeaconFromDisk")
	script("LoadBeaconsFromDisk", core, "DrandDaemon", "LoadBeaconsFromDisk")
	script("LoadBeacon", core, "DrandDaemon", "LoadBeacon")
	script("Shutdown", core, "DrandDaemon", "Shutdown")
	script("storeDKGOutput", core, "BeaconProcess", "storeDKGOutput")
	// the dkgCallback closure inside NewDrandDaemon
	{
		fd := findFunc(core, "", "NewDrandDaemon")
		var lit *ast.FuncLit
		ast.Inspect(fd.Body, func(n ast.Node) bool {
			as, ok := n.(*ast.AssignStmt)
			if !ok || len(as.Lhs) != 1 || len(as.Rhs) != 1 || exprString(as.Lhs[0]) != "c.dkgCallback" {
				return true
			}
			fl, ok := as.Rhs[0].(*ast.FuncLit)
			if !ok {
				die("NewDrandDaemon: c.dkgCallback is not assigned a function literal")
			}
			lit = fl
			return false
		})
		if lit == nil {
			die("NewDrandDaemon: assignment to c.dkgCallback not found")
		}
		lines := stmtScript(lit.Body.List, "dkgCallback")
		l.pf("/-- internal/core: the c.dkgCallback closure of NewDrandDaemon -/\ndef script_dkgCallback : List String := %s\n", leanStrList(lines))
	}
	// every public / control service method of the daemon must resolve its process through the two helpers
	{
		var names, bad []string
		for _, file := range []string{"drand_daemon_public.go", "drand_daemon_control.go"} {
			for _, f := range load(core) {
				if !strings.HasSuffix(fset.Position(f.Pos()).Filename, "/"+file) {
					continue
				}
				for _, d := range f.Decls {
					fd, ok := d.(*ast.FuncDecl)
					if !ok || fd.Recv == nil || baseTypeName(fd.Recv.List[0].Type) != "DrandDaemon" || !fd.Name.IsExported() {
						continue
					}
					usesBP := false
					viaHelper := false
					ast.Inspect(fd.Body, func(n ast.Node) bool {
						switch t := n.(type) {
						case *ast.CallExpr:
							s := exprString(t.Fun)
							if s == "dd.getBeaconProcessFromRequest" || s == "dd.getBeaconProcessByID" {
								viaHelper = true
							}
							if strings.HasPrefix(s, "bp.") {
								usesBP = true
							}
						case *ast.IndexExpr:
							if exprString(t.X) == "dd.beaconProcesses" {
								usesBP = true
								if fd.Name.Name != "KeypairFor" {
									bad = append(bad, fd.Name.Name)
								}
							}
						}
						return true
					})
					if usesBP {
						names = append(names, fd.Name.Name)
						if !viaHelper && fd.Name.Name != "Stop" && fd.Name.Name != "KeypairFor" {
							bad = append(bad, fd.Name.Name)
						}
					}
				}
			}
		}
		l.pf("/-- service methods of DrandDaemon (public + control) that hand the request to a BeaconProcess -/\ndef serviceMethods : List String := %s\n", leanStrList(names))
		l.pf("/-- those among them that reach a process without getBeaconProcessFromRequest / getBeaconProcessByID -/\ndef serviceMethodsBypassingRouting : List String := %s\n", leanStrList(bad))
	}
	h := "handler/http"
	script("http_RegisterNewBeaconHandler", h, "DrandHandler", "RegisterNewBeaconHandler")
	script("http_RemoveBeaconHandler", h, "DrandHandler", "RemoveBeaconHandler")
	script("http_RegisterDefaultBeaconHandler", h, "DrandHandler", "RegisterDefaultBeaconHandler")
	script("http_getBeaconHandler", h, "DrandHandler", "getBeaconHandler")
	script("http_readChainHash", h, "", "readChainHash")
	l.pf("end Gen.Routing\n")
}

// boolFn translates `func f(a, b string) T { [if cond { return e }]* return e }` where conditions and results are
// built from parameters, string literals, the package constants, ==, !=, &&, ||, ! and calls of the other helpers.
func boolFn(l *leanFile, dir, name, lean, ret string) {
	fd := findFunc(dir, "", name)
	var params []string
	for _, p := range fd.Type.Params.List {
		if exprString(p.Type) != "string" {
			die("%s: parameter of type %s", name, exprString(p.Type))
		}
		for _, n := range p.Names {
			params = append(params, n.Name)
		}
	}
	isParam := func(s string) bool {
		for _, p := range params {
			if p == s {
				return true
			}
		}
		return false
	}
	var tr func(e ast.Expr) string
	tr = func(e ast.Expr) string {
		switch t := e.(type) {
		case *ast.Ident:
			switch {
			case isParam(t.Name):
				return t.Name
			case t.Name == "DefaultBeaconID":
				return "defaultBeaconID"
			case t.Name == "true" || t.Name == "false":
				return t.Name
			}
			die("%s: unknown identifier %s", name, t.Name)
		case *ast.BasicLit:
			if t.Kind != token.STRING {
				die("%s: literal %s", name, t.Value)
			}
			return t.Value
		case *ast.ParenExpr:
			return "(" + tr(t.X) + ")"
		case *ast.UnaryExpr:
			if t.Op == token.NOT {
				return "(!" + tr(t.X) + ")"
			}
		case *ast.BinaryExpr:
			op := map[token.Token]string{token.EQL: "==", token.NEQ: "!=", token.LAND: "&&", token.LOR: "||"}[t.Op]
			if op == "" {
				die("%s: operator %s", name, t.Op)
			}
			return "(" + tr(t.X) + " " + op + " " + tr(t.Y) + ")"
		case *ast.CallExpr:
			fn := exprString(t.Fun)
			m := map[string]string{"IsDefaultBeaconID": "isDefaultBeaconID"}[fn]
			if m == "" {
				die("%s: call of %s", name, fn)
			}
			args := []string{m}
			for _, a := range t.Args {
				args = append(args, tr(a))
			}
			return "(" + strings.Join(args, " ") + ")"
		}
		die("%s: unsupported expression %s", name, exprString(e))
		return ""
	}
	body := ""
	closing := ""
	stmts := fd.Body.List
	for i, s := range stmts {
		switch t := s.(type) {
		case *ast.IfStmt:
			if t.Init != nil || t.Else != nil || len(t.Body.List) != 1 {
				die("%s: unsupported if shape", name)
			}
			r, ok := t.Body.List[0].(*ast.ReturnStmt)
			if !ok || len(r.Results) != 1 {
				die("%s: if body is not a single return", name)
			}
			body += "if " + tr(t.Cond) + " then " + tr(r.Results[0]) + " else "
		case *ast.ReturnStmt:
			if i != len(stmts)-1 || len(t.Results) != 1 {
				die("%s: return in unexpected position", name)
			}
			body += tr(t.Results[0])
		default:
			die("%s: unsupported statement %T", name, s)
		}
	}
	l.pf("/-- %s.%s -/\ndef %s %s: %s := %s%s\n", dir, name, lean, func() string {
		s := ""
		for _, p := range params {
			s += "(" + p + " : String) "
		}
		return s
	}(), ret, body, closing)
}

var scriptNoise = []string{"tracer.", "span.", "dd.log.", "bp.log.", "h.log.", "metrics.", "drandDaemon.log."}

func isNoise(s string) bool {
	for _, p := range scriptNoise {
		if strings.HasPrefix(s, p) {
			return true
		}
	}
	return false
}

// stmtScript renders a statement list in a canonical compact form, dropping tracing / logging / metrics statements.
// Statement kinds outside the list below are fatal.
func stmtScript(stmts []ast.Stmt, where string) []string {
	var out []string
	var walk func(stmts []ast.Stmt, ind string)
	simple := func(s ast.Stmt) (string, bool) {
		switch t := s.(type) {
		case nil:
			return "", true
		case *ast.ExprStmt:
			r := exprString(t.X)
			return r, !isNoise(r)
		case *ast.AssignStmt:
			var lhs, rhs []string
			for _, e := range t.Lhs {
				lhs = append(lhs, exprString(e))
			}
			for _, e := range t.Rhs {
				rhs = append(rhs, exprString(e))
			}
			keep := true
			if len(rhs) == 1 && isNoise(rhs[0]) {
				keep = false
			}
			return strings.Join(lhs, ",") + t.Tok.String() + strings.Join(rhs, ","), keep
		case *ast.IncDecStmt:
			return exprString(t.X) + t.Tok.String(), true
		case *ast.SendStmt:
			return exprString(t.Chan) + "<-" + exprString(t.Value), true
		}
		die("%s: unsupported simple statement %T", where, s)
		return "", false
	}
	walk = func(stmts []ast.Stmt, ind string) {
		for _, s := range stmts {
			switch t := s.(type) {
			case *ast.ExprStmt, *ast.AssignStmt, *ast.IncDecStmt, *ast.SendStmt:
				if r, keep := simple(s); keep {
					out = append(out, ind+r)
				}
			case *ast.DeclStmt:
				gd, ok := t.Decl.(*ast.GenDecl)
				if !ok || gd.Tok != token.VAR {
					die("%s: unsupported declaration", where)
				}
				for _, sp := range gd.Specs {
					vs := sp.(*ast.ValueSpec)
					var ns, vals []string
					for _, n := range vs.Names {
						ns = append(ns, n.Name)
					}
					for _, v := range vs.Values {
						vals = append(vals, exprString(v))
					}
					out = append(out, ind+"var "+strings.Join(ns, ",")+" "+exprString(vs.Type)+"="+strings.Join(vals, ","))
				}
			case *ast.ReturnStmt:
				var rs []string
				for _, e := range t.Results {
					rs = append(rs, exprString(e))
				}
				out = append(out, ind+"return "+strings.Join(rs, ","))
			case *ast.DeferStmt:
				if r := exprString(t.Call); !isNoise(r) {
					out = append(out, ind+"defer "+r)
				}
			case *ast.GoStmt:
				if r := exprString(t.Call); !isNoise(r) {
					out = append(out, ind+"go "+r)
				}
			case *ast.IfStmt:
				head := "if "
				if t.Init != nil {
					r, _ := simple(t.Init)
					head += r + "; "
				}
				out = append(out, ind+head+exprString(t.Cond)+" {")
				walk(t.Body.List, ind+" ")
				for t.Else != nil {
					switch e := t.Else.(type) {
					case *ast.BlockStmt:
						out = append(out, ind+"} else {")
						walk(e.List, ind+" ")
						t = &ast.IfStmt{}
					case *ast.IfStmt:
						head := "} else if "
						if e.Init != nil {
							r, _ := simple(e.Init)
							head += r + "; "
						}
						out = append(out, ind+head+exprString(e.Cond)+" {")
						walk(e.Body.List, ind+" ")
						t = e
					default:
						die("%s: unsupported else", where)
					}
				}
				out = append(out, ind+"}")
			case *ast.RangeStmt:
				out = append(out, ind+"for "+exprString(t.Key)+","+exprString(t.Value)+" := range "+exprString(t.X)+" {")
				walk(t.Body.List, ind+" ")
				out = append(out, ind+"}")
			case *ast.BlockStmt:
				walk(t.List, ind)
			case *ast.BranchStmt:
				out = append(out, ind+t.Tok.String())
			case *ast.EmptyStmt:
			default:
				die("%s: unsupported statement %T", where, s)
			}
		}
	}
	walk(stmts, "")
	return out
}
