package main

import (
	"go/ast"
	"go/token"
	"strings"
)

// genSync: facts about the client side of chain sync (C10).
//   - tryNodeGuards: the guards and effects of the receive arm of tryNode's loop, in source order
//   - the store wrappers newChainStore and StartFollowChain put under their SyncManager
//   - whether StartFollowChain's errChan is a made channel, whether Sync skips the node's own address,
//     whether ReSync retries on ErrFailedAll
func genSync() {
	l := newLean("Sync")
	l.pf("namespace Gen\n")

	// ---- tryNode
	fd := findFunc("internal/chain/beacon", "SyncManager", "tryNode")
	var arm *ast.CommClause
	ast.Inspect(fd.Body, func(n ast.Node) bool {
		cc, ok := n.(*ast.CommClause)
		if !ok || cc.Comm == nil {
			return true
		}
		if strings.Contains(stmtString(cc.Comm), "<-beaconCh") {
			if arm != nil {
				die("tryNode: two receive arms on beaconCh")
			}
			arm = cc
		}
		return true
	})
	if arm == nil {
		die("tryNode: no `case … := <-beaconCh` arm found")
	}
	var guards, roundChecks []string
	returnsFalse := func(b *ast.BlockStmt) bool {
		found := false
		ast.Inspect(b, func(n ast.Node) bool {
			if r, ok := n.(*ast.ReturnStmt); ok && len(r.Results) == 1 && exprString(r.Results[0]) == "false" {
				found = true
			}
			return true
		})
		return found
	}
	hasReturn := func(b *ast.BlockStmt) bool {
		found := false
		ast.Inspect(b, func(n ast.Node) bool {
			if _, ok := n.(*ast.ReturnStmt); ok {
				found = true
			}
			return true
		})
		return found
	}
	var putBranch func(b *ast.BlockStmt, which string)
	putBranch = func(b *ast.BlockStmt, which string) {
		// expects: if err := s.<which>.Put(cnode, beacon); err != nil { … return … }
		seen := false
		for _, st := range b.List {
			is, ok := st.(*ast.IfStmt)
			if !ok || is.Init == nil {
				continue
			}
			if !strings.Contains(stmtString(is.Init), "s."+which+".Put(") {
				continue
			}
			if exprString(is.Cond) != "err!=nil" || !returnsFalse(is.Body) {
				die("tryNode: the error of %s.Put does not lead to `return false`", which)
			}
			seen = true
			guards = append(guards, which+".Put")
			for _, inner := range is.Body.List {
				ii, ok := inner.(*ast.IfStmt)
				if !ok {
					continue
				}
				if strings.Contains(exprString(ii.Cond), "ErrBeaconAlreadyStored") {
					ret := ""
					ast.Inspect(ii.Body, func(n ast.Node) bool {
						if r, ok := n.(*ast.ReturnStmt); ok && len(r.Results) == 1 {
							ret = exprString(r.Results[0])
						}
						return true
					})
					guards = append(guards, "already:"+ret)
				}
			}
		}
		if !seen {
			die("tryNode: no `if err := s.%s.Put(…); err != nil` in the %s branch", which, which)
		}
	}
	for _, st := range arm.Body {
		is, ok := st.(*ast.IfStmt)
		if !ok {
			continue
		}
		cond := exprString(is.Cond)
		init := ""
		if is.Init != nil {
			init = stmtString(is.Init)
		}
		switch {
		case cond == "!ok":
			if !returnsFalse(is.Body) {
				die("tryNode: closed channel does not lead to `return false`")
			}
			guards = append(guards, "closed")
		case strings.Contains(cond, "metadata.BeaconID!=s.info.ID"):
			if cond != "metadata!=nil&&metadata.BeaconID!=s.info.ID" || !returnsFalse(is.Body) {
				die("tryNode: unrecognised beacon id check %q", cond)
			}
			guards = append(guards, "beaconID")
		case strings.Contains(init, "VerifyBeacon("):
			if init != "err:=s.scheme.VerifyBeacon(beacon,s.info.PublicKey)" || cond != "err!=nil" || !returnsFalse(is.Body) {
				die("tryNode: unrecognised verification guard %q; %q", init, cond)
			}
			guards = append(guards, "VerifyBeacon")
		case cond == "isResync" && !strings.Contains(blockString(is.Body), ".Put("):
			// an `if isResync { <round test> } else if <round test> { … }` that only ends the attempt
			collectRoundChecks(is, &roundChecks, guards)
		case cond == "isResync":
			putBranch(is.Body, "insecureStore")
			eb, ok := is.Else.(*ast.BlockStmt)
			if !ok {
				die("tryNode: `if isResync` without a plain else branch")
			}
			putBranch(eb, "store")
		case cond == "last.Round==upTo":
			guards = append(guards, "target")
		case strings.Contains(cond, "beacon.Round") && hasReturn(is.Body):
			for _, g := range guards {
				if strings.HasSuffix(g, ".Put") {
					die("tryNode: a round check (%s) after the beacon was already stored", cond)
				}
			}
			roundChecks = append(roundChecks, cond)
		case hasReturn(is.Body):
			guards = append(guards, "other:"+cond)
		}
	}
	l.pf("/-- internal/chain/beacon: guards and effects of the receive arm of `tryNode`, in source order -/\n")
	l.pf("def tryNodeGuards : List String := %s\n", leanStrList(guards))
	l.pf("/-- conditions on `beacon.Round` that end the attempt before the beacon is stored (none in the as-is code) -/\n")
	l.pf("def tryNodeRoundChecks : List String := %s\n", leanStrList(roundChecks))

	// ---- store wrappers under the sync manager
	wrappers := func(fd *ast.FuncDecl) (calls []string, store, bolt string) {
		ast.Inspect(fd.Body, func(n ast.Node) bool {
			switch t := n.(type) {
			case *ast.CallExpr:
				name := exprString(t.Fun)
				if i := strings.LastIndex(name, "."); i >= 0 {
					name = name[i+1:]
				}
				switch name {
				case "createDBStore", "newDiscrepancyStore", "NewSchemeStore", "newAppendStore", "NewAppendStore", "NewCallbackStore":
					calls = append(calls, name)
				}
			case *ast.CompositeLit:
				if strings.HasSuffix(exprString(t.Type), "SyncConfig") {
					for _, e := range t.Elts {
						kv, ok := e.(*ast.KeyValueExpr)
						if !ok {
							continue
						}
						switch exprString(kv.Key) {
						case "Store":
							store = exprString(kv.Value)
						case "BoltdbStore":
							bolt = exprString(kv.Value)
						}
					}
				}
			}
			return true
		})
		if store == "" || bolt == "" {
			die("%s: no SyncConfig{Store:, BoltdbStore:} literal found", fd.Name.Name)
		}
		return
	}
	c1, s1, b1 := wrappers(findFunc("internal/chain/beacon", "", "newChainStore"))
	l.pf("/-- internal/chain/beacon: store constructors called by `newChainStore`, in source order -/\ndef chainStoreStack : List String := %s\n", leanStrList(c1))
	l.pf("/-- the (Store, BoltdbStore) handed to its SyncManager -/\ndef chainStoreSyncStores : String × String := (%s, %s)\n", leanStr(s1), leanStr(b1))
	ff := findFunc("internal/core", "BeaconProcess", "StartFollowChain")
	c2, s2, b2 := wrappers(ff)
	l.pf("/-- internal/core: store constructors called by `StartFollowChain`, in source order -/\ndef followStack : List String := %s\n", leanStrList(c2))
	l.pf("def followSyncStores : String × String := (%s, %s)\n", leanStr(s2), leanStr(b2))

	// ---- errChan of StartFollowChain
	made := ""
	ast.Inspect(ff.Body, func(n ast.Node) bool {
		switch t := n.(type) {
		case *ast.DeclStmt:
			gd, ok := t.Decl.(*ast.GenDecl)
			if !ok || gd.Tok != token.VAR {
				return true
			}
			for _, sp := range gd.Specs {
				vs := sp.(*ast.ValueSpec)
				for i, nm := range vs.Names {
					if nm.Name != "errChan" {
						continue
					}
					if len(vs.Values) == 0 {
						made = "false"
					} else if strings.HasPrefix(exprString(vs.Values[i]), "make(chan ") {
						made = "true"
					} else {
						die("StartFollowChain: unrecognised initialiser of errChan: %s", exprString(vs.Values[i]))
					}
				}
			}
		case *ast.AssignStmt:
			if t.Tok == token.DEFINE && len(t.Lhs) == 1 && exprString(t.Lhs[0]) == "errChan" {
				if strings.HasPrefix(exprString(t.Rhs[0]), "make(chan ") {
					made = "true"
				} else {
					die("StartFollowChain: unrecognised initialiser of errChan: %s", exprString(t.Rhs[0]))
				}
			}
		}
		return true
	})
	if made == "" {
		die("StartFollowChain: declaration of errChan not found")
	}
	l.pf("/-- internal/core: `errChan` of StartFollowChain is created with make (false: `var errChan chan error`, a nil channel) -/\ndef followErrChanMade : Bool := %s\n", made)

	// ---- Sync skips the own address; ReSync retries once on ErrFailedAll
	skips := "false"
	ast.Inspect(findFunc("internal/chain/beacon", "SyncManager", "Sync").Body, func(n ast.Node) bool {
		is, ok := n.(*ast.IfStmt)
		if !ok {
			return true
		}
		if exprString(is.Cond) == "request.nodes[n].Address()==s.nodeAddr" {
			for _, st := range is.Body.List {
				if b, ok := st.(*ast.BranchStmt); ok && b.Tok == token.CONTINUE {
					skips = "true"
				}
			}
		}
		return true
	})
	l.pf("/-- internal/chain/beacon: `Sync` skips a peer whose address is the node's own -/\ndef syncSkipsSelf : Bool := %s\n", skips)
	retries := "false"
	ast.Inspect(findFunc("internal/chain/beacon", "SyncManager", "ReSync").Body, func(n ast.Node) bool {
		is, ok := n.(*ast.IfStmt)
		if !ok {
			return true
		}
		if exprString(is.Cond) == "errors.Is(err,ErrFailedAll)" {
			for _, st := range is.Body.List {
				if strings.HasPrefix(stmtString(st), "err=s.Sync(") {
					retries = "true"
				}
			}
		}
		return true
	})
	l.pf("/-- internal/chain/beacon: `ReSync` calls `Sync` again when the first call returned ErrFailedAll -/\ndef reSyncRetries : Bool := %s\n", retries)
	l.pf("end Gen\n")
}

// blockString renders the conditions, inits and expression statements of a block (enough to look for calls in it).
func blockString(b *ast.BlockStmt) string {
	var sb strings.Builder
	ast.Inspect(b, func(n ast.Node) bool {
		switch t := n.(type) {
		case *ast.IfStmt:
			if t.Init != nil {
				sb.WriteString(stmtString(t.Init) + ";")
			}
			sb.WriteString(exprString(t.Cond) + ";")
		case *ast.ExprStmt:
			sb.WriteString(exprString(t.X) + ";")
		case *ast.AssignStmt:
			sb.WriteString(stmtString(t) + ";")
		}
		return true
	})
	return sb.String()
}

// collectRoundChecks walks an if / else-if chain that stores nothing: every condition on beacon.Round whose body returns
// false is a round check; anything else in such a chain is not a recognised shape.
func collectRoundChecks(is *ast.IfStmt, out *[]string, guards []string) {
	for _, g := range guards {
		if strings.HasSuffix(g, ".Put") {
			die("tryNode: a round check after the beacon was already stored")
		}
	}
	var walk func(st ast.Stmt, prefix string)
	walk = func(st ast.Stmt, prefix string) {
		switch t := st.(type) {
		case *ast.IfStmt:
			cond := exprString(t.Cond)
			if strings.Contains(cond, "beacon.Round") {
				ret := false
				ast.Inspect(t.Body, func(n ast.Node) bool {
					if r, ok := n.(*ast.ReturnStmt); ok && len(r.Results) == 1 && exprString(r.Results[0]) == "false" {
						ret = true
					}
					return true
				})
				if !ret {
					die("tryNode: round test %q does not end the attempt with `return false`", cond)
				}
				*out = append(*out, prefix+cond)
			} else {
				for _, inner := range t.Body.List {
					walk(inner, prefix+cond+"&&")
				}
			}
			if t.Else != nil {
				walk(t.Else, prefix+"!("+cond+")&&")
			}
		case *ast.BlockStmt:
			for _, inner := range t.List {
				walk(inner, prefix)
			}
		}
	}
	walk(is, "")
}
