package main

// C14 nil-dereference facts for the peer-facing handlers: for each listed function and each of its
// request parameters, the pointer paths the body dereferences by direct field access
// (`packet.Dkg.Metadata.BeaconID` needs packet, packet.Dkg and packet.Dkg.Metadata non-nil) and whether
// an earlier `if <path> == nil { …return }` guard protects that dereference. Generated getters
// (`GetX()`, nil-safe in protobuf-go) do not dereference. Purely syntactic; position = source order.

import (
	"go/ast"
	"go/token"
	"sort"
	"strings"
)

type derefTarget struct {
	dir, recv, fn string
	params        []string
}

var derefTargets = []derefTarget{
	{"internal/dkg", "Process", "Packet", []string{"packet"}},
	{"internal/dkg", "Process", "applyPacketToState", []string{"packet"}},
	{"internal/dkg", "Process", "BroadcastDKG", []string{"packet"}},
	{"internal/dkg", "Process", "broadcastDKG", []string{"packet"}},
	{"internal/dkg", "Process", "DKGStatus", []string{"request"}},
	{"internal/dkg", "Process", "Command", []string{"command"}},
	{"internal/dkg", "Process", "verifyMessage", []string{"packet", "proposal"}},
	{"internal/dkg", "DBState", "Apply", []string{"packet"}},
	{"internal/dkg", "DBState", "Proposed", []string{"terms", "metadata"}},
	{"internal/dkg", "DBState", "Aborted", []string{"metadata"}},
	{"internal/dkg", "DBState", "Executing", []string{"metadata"}},
	{"internal/dkg", "DBState", "ReceivedAcceptance", []string{"them", "metadata"}},
	{"internal/dkg", "DBState", "ReceivedRejection", []string{"them", "metadata"}},
	{"internal/dkg", "echoBroadcast", "BroadcastDKG", []string{"p"}},
	{"internal/dkg", "", "protoToDKGPacket", []string{"d"}},
	{"internal/dkg", "", "protoToDeal", []string{"d"}},
	{"internal/dkg", "", "protoToResp", []string{"r"}},
	{"internal/dkg", "", "protoToJustif", []string{"j"}},
	{"internal/core", "DrandDaemon", "DKGStatus", []string{"request"}},
	{"internal/core", "DrandDaemon", "Command", []string{"command"}},
	{"internal/core", "DrandDaemon", "Packet", []string{"packet"}},
	{"internal/core", "DrandDaemon", "BroadcastDKG", []string{"packet"}},
	{"internal/core", "DrandDaemon", "PartialBeacon", []string{"in"}},
	{"internal/core", "DrandDaemon", "PublicRand", []string{"in"}},
	{"internal/core", "DrandDaemon", "PublicRandStream", []string{"in"}},
	{"internal/core", "DrandDaemon", "ChainInfo", []string{"in"}},
	{"internal/core", "DrandDaemon", "SyncChain", []string{"in"}},
	{"internal/core", "DrandDaemon", "GetIdentity", []string{"in"}},
	{"internal/core", "DrandDaemon", "RemoteStatus", []string{"request"}},
	{"internal/core", "DrandDaemon", "readBeaconID", []string{"metadata"}},
	{"internal/core", "BeaconProcess", "PartialBeacon", []string{"in"}},
	{"internal/core", "BeaconProcess", "PublicRand", []string{"in"}},
	{"internal/core", "BeaconProcess", "PublicRandStream", []string{"req"}},
	{"internal/core", "BeaconProcess", "SyncChain", []string{"req"}},
	{"internal/chain/beacon", "Handler", "ProcessPartialBeacon", []string{"p"}},
	{"internal/chain/beacon", "", "SyncChain", []string{"req"}},
	{"internal/chain/beacon", "", "beaconIDToSync", []string{"req"}},
}

type pathSeg struct {
	name   string
	getter bool
}

// normPath turns `root.A.GetB().C` into (root, [A, B(getter), C]); ok=false if the expression is not such a chain.
// trailing non-getter method calls (`.AsTime()`, `.String()`) make the chain "opaque" from that point: dropped.
func normPath(e ast.Expr) (root string, segs []pathSeg, ok bool) {
	switch t := e.(type) {
	case *ast.Ident:
		return t.Name, nil, true
	case *ast.ParenExpr:
		return normPath(t.X)
	case *ast.SelectorExpr:
		r, s, ok := normPath(t.X)
		if !ok {
			return "", nil, false
		}
		return r, append(s, pathSeg{t.Sel.Name, false}), true
	case *ast.CallExpr:
		sel, isSel := t.Fun.(*ast.SelectorExpr)
		if !isSel {
			return "", nil, false
		}
		r, s, ok := normPath(sel.X)
		if !ok {
			return "", nil, false
		}
		if strings.HasPrefix(sel.Sel.Name, "Get") && len(t.Args) == 0 && len(sel.Sel.Name) > 3 {
			return r, append(s, pathSeg{sel.Sel.Name[3:], true}), true
		}
		return "", nil, false // a non-getter call result is not tracked
	}
	return "", nil, false
}

func pathString(root string, segs []pathSeg) string {
	s := root
	for _, g := range segs {
		s += "." + g.name
	}
	return s
}

type derefFact struct {
	path    string
	pos     token.Pos
	guarded bool
}

func derefFacts(t derefTarget) []derefFact {
	fd := findFunc(t.dir, t.recv, t.fn)
	roots := map[string]string{} // identifier -> path prefix it stands for
	have := map[string]bool{}
	if fd.Type.Params != nil {
		for _, f := range fd.Type.Params.List {
			for _, n := range f.Names {
				have[n.Name] = true
			}
		}
	}
	for _, p := range t.params {
		if !have[p] {
			die("deref facts: %s.%s has no parameter %s", t.recv, t.fn, p)
		}
		roots[p] = p
	}
	nonNil := map[string]bool{} // paths known non-nil by construction (type-switch aliases)
	// aliases: switch x := <path>.(type)
	ast.Inspect(fd.Body, func(n ast.Node) bool {
		ts, ok := n.(*ast.TypeSwitchStmt)
		if !ok {
			return true
		}
		as, ok := ts.Assign.(*ast.AssignStmt)
		if !ok || len(as.Lhs) != 1 || len(as.Rhs) != 1 {
			return true
		}
		ta, ok := as.Rhs[0].(*ast.TypeAssertExpr)
		if !ok {
			return true
		}
		r, segs, ok := normPath(ta.X)
		if !ok {
			return true
		}
		if pre, isRoot := roots[r]; isRoot {
			full := pathString(pre, segs)
			roots[as.Lhs[0].(*ast.Ident).Name] = full
			nonNil[full] = true
		}
		return true
	})
	type guard struct {
		path string
		pos  token.Pos
	}
	var guards []guard
	// guards: if (A == nil || B == nil …) { … terminating }  => A, B non-nil after the if
	var collectNil func(e ast.Expr, out *[]ast.Expr)
	collectNil = func(e ast.Expr, out *[]ast.Expr) {
		switch b := e.(type) {
		case *ast.ParenExpr:
			collectNil(b.X, out)
		case *ast.BinaryExpr:
			if b.Op == token.LOR {
				collectNil(b.X, out)
				collectNil(b.Y, out)
			} else if b.Op == token.EQL {
				if id, ok := b.Y.(*ast.Ident); ok && id.Name == "nil" {
					*out = append(*out, b.X)
				}
			}
		}
	}
	terminates := func(b *ast.BlockStmt) bool {
		if len(b.List) == 0 {
			return false
		}
		switch l := b.List[len(b.List)-1].(type) {
		case *ast.ReturnStmt:
			return true
		case *ast.ExprStmt:
			if c, ok := l.X.(*ast.CallExpr); ok {
				if id, ok := c.Fun.(*ast.Ident); ok && id.Name == "panic" {
					return true
				}
			}
		}
		return false
	}
	ast.Inspect(fd.Body, func(n ast.Node) bool {
		is, ok := n.(*ast.IfStmt)
		if !ok {
			return true
		}
		var nils []ast.Expr
		collectNil(is.Cond, &nils)
		for _, e := range nils {
			r, segs, ok := normPath(e)
			if !ok {
				continue
			}
			pre, isRoot := roots[r]
			if !isRoot {
				continue
			}
			if terminates(is.Body) {
				// the path itself, and every prefix reachable from it through getters only
				guards = append(guards, guard{pathString(pre, segs), is.End()})
				for i := len(segs) - 1; i >= 0 && segs[i].getter; i-- {
					guards = append(guards, guard{pathString(pre, segs[:i]), is.End()})
				}
			} else {
				// `if x == nil { x = &T{} }`: x is non-nil afterwards as well
				if len(is.Body.List) == 1 {
					if as, ok := is.Body.List[0].(*ast.AssignStmt); ok && len(as.Lhs) == 1 && exprString(as.Lhs[0]) == exprString(e) {
						guards = append(guards, guard{pathString(pre, segs), is.End()})
					}
				}
			}
		}
		return true
	})
	// dereferences: every maximal selector/call chain rooted at a tracked identifier
	var facts []derefFact
	seen := map[string]bool{}
	add := func(path string, pos token.Pos) {
		if nonNil[path] {
			return
		}
		g := false
		for _, gd := range guards {
			if gd.path == path && gd.pos <= pos {
				g = true
			}
		}
		k := path
		if g {
			k += "/g"
		}
		if seen[k] {
			return
		}
		seen[k] = true
		facts = append(facts, derefFact{path, pos, g})
	}
	var visit func(n ast.Node) bool
	visit = func(n ast.Node) bool {
		var e ast.Expr
		switch t := n.(type) {
		case *ast.SelectorExpr:
			e = t
		case *ast.CallExpr:
			if _, ok := t.Fun.(*ast.SelectorExpr); ok {
				e = t
			} else {
				return true
			}
		default:
			return true
		}
		// a method call whose receiver is a tracked chain: strip the method, the receiver chain is what is evaluated
		var chain ast.Expr = e
		stripped := false
		if c, ok := e.(*ast.CallExpr); ok {
			sel := c.Fun.(*ast.SelectorExpr)
			if _, _, ok := normPath(e); !ok { // not a getter chain: a plain method call x.y.M(args)
				chain = sel.X
				stripped = true
				for _, a := range c.Args {
					ast.Inspect(a, visit)
				}
			}
		}
		r, segs, ok := normPath(chain)
		if !ok {
			return true
		}
		pre, isRoot := roots[r]
		if !isRoot {
			return true
		}
		// value before each direct (non-getter) field access must be non-nil
		for i, s := range segs {
			if !s.getter {
				add(pathString(pre, segs[:i]), n.Pos())
			}
		}
		if stripped {
			// calling a non-getter method on the chain value: pointer-receiver methods of generated
			// messages tolerate nil only when they are getters; record the receiver as dereferenced
			// unless the method is one of the nil-tolerant well-known ones
			m := e.(*ast.CallExpr).Fun.(*ast.SelectorExpr).Sel.Name
			switch m {
			case "AsTime", "String", "ProtoReflect", "Reset":
			default:
				add(pathString(pre, segs), n.Pos())
			}
		}
		return false
	}
	ast.Inspect(fd.Body, visit)
	sort.SliceStable(facts, func(i, j int) bool { return facts[i].pos < facts[j].pos })
	return facts
}

func genDerefs() {
	l := newLean("NilDerefs")
	l.pf("namespace Gen\n")
	l.pf("/-- (function, pointer path dereferenced by direct field access, guarded by an earlier `== nil` return) in source order -/\ndef nilDerefs : List (String × String × Bool) := [\n")
	var rows []string
	for _, t := range derefTargets {
		name := t.fn
		if t.recv != "" {
			name = t.recv + "." + t.fn
		}
		name = t.dir[strings.LastIndex(t.dir, "/")+1:] + "." + name
		for _, f := range derefFacts(t) {
			g := "false"
			if f.guarded {
				g = "true"
			}
			rows = append(rows, "  ("+leanStr(name)+", "+leanStr(f.path)+", "+g+")")
		}
	}
	l.pf("%s\n]\n", strings.Join(rows, ",\n"))
	l.pf("end Gen\n")
}
