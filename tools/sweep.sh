#!/bin/sh
# usage: tools/sweep.sh <tier> <seed> [<seed> ...]   — runs every check on the tree this script lives in (a snapshot or /verif),
# evidence to .build/evidence_sweep, one summary line per check in .build/sweep_<tier>.log. A search aid, not a registered check.
D=$(cd "$(dirname "$0")/.." && pwd)
cd "$D"
export GOFLAGS=-mod=mod GOPROXY=off
tier=$1; shift
mkdir -p .build
if [ ! -x .build/go2lean ] || [ ! -d lean/.lake ]; then
  (cd tools/go2lean && go build -o "$D/.build/go2lean" .) && ./.build/go2lean /repo "$D/lean" && (cd lean && lake build Gen Drand vdriver DrandProofs) >/dev/null 2>&1
fi
for seed in "$@"; do
  for p in ${SWEEP_PROPS:-C01 C02 C03 C04 C05 C06 C07 C08 C09 C10 C11 C12 C13 C14 C15 C16 C17 C18 C19 C20}; do
    t0=$(date +%s)
    out=$(VERIF_SEED=$seed VERIF_EVIDENCE_DIR="$D/.build/evidence_sweep" ./check $p --tier $tier 2>&1)
    rc=$?
    t1=$(date +%s)
    v=$(printf '%s\n' "$out" | grep -c '^VIOLATION')
    echo "seed=$seed $p tier=$tier rc=$rc violations=$v wall=$((t1-t0))s" | tee -a .build/sweep_$tier.log
    if [ $rc -ne 0 ]; then printf '%s\n' "$out" | grep -v '^KNOWN-FINDING' | tail -5 | tee -a .build/sweep_$tier.log; cp .build/replay/${p}_${tier}_${seed}_0.json .build/sweep_fail_${p}_${tier}_${seed}.json 2>/dev/null; fi
  done
done
