#!/bin/sh
# Build the overlay harness of THIS checkout into <out> (default .build/verifh). Usage: tools/build_harness.sh [out]
cd "$(dirname "$0")/.." && python3 - "$@" <<'P'
import sys, os
sys.path.insert(0, os.getcwd())
from vlib import core
out = core.build_harness()
if len(sys.argv) > 1:
    import shutil; shutil.copy(out, sys.argv[1]); out = sys.argv[1]
print(out)
P
