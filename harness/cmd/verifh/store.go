//go:build verif

package main

import (
	"bufio"
	"bytes"
	"context"
	"errors"
	"fmt"
	"os"
	"path"
	"runtime/debug"
	"strconv"
	"strings"
	"sync"
	"time"

	bolt "go.etcd.io/bbolt"

	"github.com/drand/drand/v2/common"
	"github.com/drand/drand/v2/internal/chain"
	"github.com/drand/drand/v2/internal/chain/boltdb"
	chainerrors "github.com/drand/drand/v2/internal/chain/errors"
	"github.com/drand/drand/v2/internal/chain/memdb"
)

func init() { engines["store"] = storeEngine }

// openStore opens a real back-end: bolt (untrimmed), trimmed, trimmedprev, mem<cap>.
func openStore(backend string) (chain.Store, context.Context, func()) {
	ctx := context.Background()
	switch {
	case backend == "bolt":
		dir := tmpDir()
		s, err := boltdb.NewBoltStore(boltdb.IsATest(ctx), quietLogger(), dir)
		if err != nil {
			panic(err)
		}
		return s, ctx, func() { s.Close(); os.RemoveAll(dir) }
	case backend == "trimmed" || backend == "trimmedprev":
		dir := tmpDir()
		if backend == "trimmedprev" {
			ctx = chain.SetPreviousRequiredOnContext(ctx)
		}
		s, err := boltdb.NewBoltStore(ctx, quietLogger(), dir)
		if err != nil {
			panic(err)
		}
		return s, ctx, func() { s.Close(); os.RemoveAll(dir) }
	case strings.HasPrefix(backend, "mem"):
		c, _ := strconv.Atoi(backend[3:])
		return memdb.NewStore(c), ctx, func() {}
	}
	panic("unknown backend " + backend)
}

func parseBeacon(r, s, p string) *common.Beacon {
	round, err := strconv.ParseUint(r, 10, 64)
	if err != nil {
		panic(err)
	}
	return &common.Beacon{Round: round, Signature: unhx(s), PreviousSig: unhx(p)}
}

func cursorToken(ctx context.Context, st chain.Store, c chain.Cursor, t string, allowMut bool) string {
	switch {
	case t == "first":
		return showRead(c.First(ctx))
	case t == "next":
		return showRead(c.Next(ctx))
	case t == "last":
		return showRead(c.Last(ctx))
	case strings.HasPrefix(t, "seek:"):
		r, _ := strconv.ParseUint(t[5:], 10, 64)
		return showRead(c.Seek(ctx, r))
	case allowMut && strings.HasPrefix(t, "put:"):
		f := strings.Split(t, ":")
		if err := st.Put(ctx, parseBeacon(f[1], f[2], f[3])); err != nil {
			return "err:" + err.Error()
		}
		return "ok"
	case allowMut && strings.HasPrefix(t, "del:"):
		r, _ := strconv.ParseUint(t[4:], 10, 64)
		if err := st.Del(ctx, r); err != nil {
			return "err:" + err.Error()
		}
		return "ok"
	}
	return "bad-op"
}

// storeErr maps the errors of the back-ends to the small enum of the line protocol.
func storeErr(err error) string {
	switch {
	case errors.Is(err, context.Canceled):
		return "cancelled"
	case errors.Is(err, bolt.ErrDatabaseNotOpen):
		return "err:closed"
	}
	return "err:" + strings.ReplaceAll(err.Error(), "\n", " ")
}

func showRead(b *common.Beacon, err error) string {
	if err != nil && !errors.Is(err, chainerrors.ErrNoBeaconStored) {
		return storeErr(err)
	}
	return showBeacon(b, err)
}

func errOrOk(err error) string {
	if err != nil {
		return storeErr(err)
	}
	return "ok"
}

// heldValue is a beacon some caller of the store still uses: the pointer the read returned, and a private copy of what
// it looked like at that moment.
type heldValue struct {
	live *common.Beacon
	snap common.Beacon
}

func cloneBeacon(b *common.Beacon) common.Beacon {
	return common.Beacon{Round: b.Round, Signature: append([]byte{}, b.Signature...), PreviousSig: append([]byte{}, b.PreviousSig...)}
}

// signalCtx tells when the callee looked at the context for the first time (for a bolt Put: its entry check).
type signalCtx struct {
	context.Context
	once    sync.Once
	entered chan struct{}
}

func (s *signalCtx) Done() <-chan struct{} {
	ch := s.Context.Done()
	s.once.Do(func() { close(s.entered) })
	return ch
}

// holdWriter blocks the next writer of the base store: bbolt's single write transaction (bolt), the store's write lock
// (memdb). The returned function lets it go.
func holdWriter(base chain.Store) (func(), error) {
	if m, ok := base.(*memdb.Store); ok {
		return memdb.VerifLockWrite(m), nil
	}
	rel, err := boltdb.VerifBeginWrite(base)
	if err != nil {
		return nil, err
	}
	return func() { _ = rel() }, nil
}

// putUnderCancel runs put(ctx) with a context that is cancelled `before` the call, `during` the wait for the store's
// writer (the Put is queued behind another writer, its context goes away, then the other writer finishes), or `after`
// the Put returned.
func putUnderCancel(when string, parent context.Context, base chain.Store, put func(ctx context.Context) error) (error, string) {
	cctx, cancel := context.WithCancel(parent)
	defer cancel()
	switch when {
	case "before":
		cancel()
		return put(cctx), ""
	case "after":
		err := put(cctx)
		cancel()
		return err, ""
	case "during":
		release, err := holdWriter(base)
		if err != nil {
			return err, ""
		}
		sctx := &signalCtx{Context: cctx, entered: make(chan struct{})}
		done := make(chan error, 1)
		go func() { done <- put(sctx) }()
		// the Put went past its entry check (memdb never looks at the context: a short wait instead) …
		select {
		case <-sctx.entered:
		case err := <-done:
			release()
			return err, "early"
		case <-time.After(20 * time.Millisecond):
		}
		// … and is now queued on the writer
		select {
		case err := <-done:
			release()
			return err, "early"
		case <-time.After(3 * time.Millisecond):
		}
		cancel()
		release()
		select {
		case err := <-done:
			return err, ""
		case <-time.After(60 * time.Second):
			return errors.New("verif: Put did not return after the writer was released"), "hang"
		}
	}
	return errors.New("verif: unknown cancellation point " + when), ""
}

func storeEngine(args []string, in *bufio.Scanner, out *bufio.Writer) {
	backend := args[0]
	st, ctx, closer := openStore(backend)
	defer func() { closer() }()
	isMem := strings.HasPrefix(backend, "mem")
	slots := map[string]*heldValue{}
	dead, cancelNow := context.WithCancel(ctx)
	cancelNow()

	var run func(ctx context.Context, f []string) string
	readReq := func(ctx context.Context, f []string) (b *common.Beacon, res string, ok bool) {
		switch {
		case len(f) == 2 && f[0] == "get":
			r, _ := strconv.ParseUint(f[1], 10, 64)
			b, err := st.Get(ctx, r)
			if err != nil {
				return nil, showRead(b, err), true
			}
			return b, showRead(b, err), true
		case len(f) == 1 && f[0] == "last":
			b, err := st.Last(ctx)
			if err != nil {
				return nil, showRead(b, err), true
			}
			return b, showRead(b, err), true
		case len(f) >= 2 && f[0] == "cur":
			var outs []string
			var lastB *common.Beacon
			called := false
			err := st.Cursor(ctx, func(ctx context.Context, c chain.Cursor) error {
				called = true
				for _, t := range f[1:] {
					var b *common.Beacon
					var err error
					switch {
					case t == "first":
						b, err = c.First(ctx)
					case t == "next":
						b, err = c.Next(ctx)
					case t == "last":
						b, err = c.Last(ctx)
					case strings.HasPrefix(t, "seek:"):
						r, _ := strconv.ParseUint(t[5:], 10, 64)
						b, err = c.Seek(ctx, r)
					default:
						outs = append(outs, "bad-op")
						lastB = nil
						continue
					}
					outs = append(outs, showRead(b, err))
					lastB = nil
					if err == nil {
						lastB = b
					}
				}
				return nil
			})
			if !called && err != nil {
				return nil, storeErr(err), true
			}
			return lastB, strings.Join(outs, "|"), true
		}
		return nil, "bad-op", false
	}
	run = func(ctx context.Context, f []string) string {
		switch f[0] {
		case "put":
			return errOrOk(st.Put(ctx, parseBeacon(f[1], f[2], f[3])))
		case "get":
			r, _ := strconv.ParseUint(f[1], 10, 64)
			return showRead(st.Get(ctx, r))
		case "last":
			return showRead(st.Last(ctx))
		case "del":
			r, _ := strconv.ParseUint(f[1], 10, 64)
			return errOrOk(st.Del(ctx, r))
		case "len":
			n, err := st.Len(ctx)
			if err != nil {
				return storeErr(err)
			}
			return fmt.Sprint(n)
		case "cur":
			var outs []string
			called := false
			cctx, cancelSession := context.WithCancel(ctx)
			defer cancelSession()
			err := st.Cursor(cctx, func(ctx context.Context, c chain.Cursor) error {
				called = true
				for _, t := range f[1:] {
					if t == "cancel" { // the context of the session goes away while the cursor is open
						cancelSession()
						outs = append(outs, "ok")
						continue
					}
					outs = append(outs, cursorToken(ctx, st, c, t, isMem))
				}
				return nil
			})
			if !called && err != nil {
				return storeErr(err)
			}
			return strings.Join(outs, "|")
		case "hold": // hold <slot> get r | last | cur <read-only moves…>: a caller keeps the value the read returned
			if len(f) < 3 {
				return "bad-op"
			}
			b, res, ok := readReq(ctx, f[2:])
			if !ok {
				return "bad-op"
			}
			if b == nil {
				slots[f[1]] = nil
			} else {
				slots[f[1]] = &heldValue{live: b, snap: cloneBeacon(b)}
			}
			return res
		case "cmp": // cmp <slot>: is the value the caller holds still what the read returned?
			h := slots[f[1]]
			if h == nil {
				return "empty"
			}
			old := debug.SetPanicOnFault(true) // a slice into an unmapped bbolt page: a panic, not a crash of the harness
			defer debug.SetPanicOnFault(old)
			now := cloneBeacon(h.live)
			if now.Round == h.snap.Round && bytes.Equal(now.Signature, h.snap.Signature) && bytes.Equal(now.PreviousSig, h.snap.PreviousSig) {
				return "same " + showBeacon(&h.snap, nil)
			}
			return fmt.Sprintf("changed was=%s now=%s", strings.ReplaceAll(showBeacon(&h.snap, nil), " ", ":"), strings.ReplaceAll(showBeacon(&now, nil), " ", ":"))
		case "cx": // cx <op…>: the op is called with a context that is already cancelled
			if len(f) < 2 {
				return "bad-op"
			}
			switch f[1] {
			case "hold", "cx", "qput", "cmp", "reset", "close":
				return "bad-op"
			}
			return run(dead, f[1:])
		case "qput": // qput <before|during|after> r sig prev: Put under a context cancelled at that point; then is it readable?
			b := parseBeacon(f[2], f[3], f[4])
			err, note := putUnderCancel(f[1], ctx, st, func(c context.Context) error { return st.Put(c, b) })
			if note == "hang" {
				return "hang"
			}
			r, _ := strconv.ParseUint(f[2], 10, 64)
			return fmt.Sprintf("%s get=%s", errOrOk(err), showRead(st.Get(ctx, r)))
		case "saveto": // SaveTo into a file, opened as a store of the same format and read back record by record
			var buf bytes.Buffer
			if err := st.SaveTo(ctx, &buf); err != nil {
				if strings.Contains(err.Error(), "not implemented") {
					return "unsupported"
				}
				return storeErr(err)
			}
			dir := tmpDir()
			defer os.RemoveAll(dir)
			if err := os.WriteFile(path.Join(dir, boltdb.BoltFileName), buf.Bytes(), 0o600); err != nil {
				return "err:" + err.Error()
			}
			octx := context.Background()
			if backend == "bolt" {
				octx = boltdb.IsATest(octx)
			}
			cp, err := boltdb.NewBoltStore(octx, quietLogger(), dir)
			if err != nil {
				return storeErr(err)
			}
			defer cp.Close()
			if boltdb.VerifIsTrimmed(cp) != (backend != "bolt") {
				return "err:the copy opened in the other format"
			}
			var outs []string
			err = cp.Cursor(octx, func(ctx context.Context, c chain.Cursor) error {
				for b, err := c.First(ctx); err == nil; b, err = c.Next(ctx) {
					outs = append(outs, showBeacon(b, nil))
				}
				return nil
			})
			if err != nil {
				return storeErr(err)
			}
			n, _ := cp.Len(octx)
			body := "-"
			if len(outs) > 0 {
				body = strings.Join(outs, "|")
			}
			return fmt.Sprintf("n=%d %s", n, body)
		case "close":
			if err := st.Close(); err != nil {
				return storeErr(err)
			}
			return "ok"
		case "reset":
			slots = map[string]*heldValue{}
			closer()
			st, ctx, closer = openStore(backend)
			dead, cancelNow = context.WithCancel(ctx)
			cancelNow()
			return "ok"
		}
		return "bad-op"
	}
	for in.Scan() {
		f := fields(in.Text())
		if len(f) == 0 {
			continue
		}
		res := safely(func() string { return run(ctx, f) })
		fmt.Fprintln(out, res)
	}
}
