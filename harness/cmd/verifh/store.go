//go:build verif

package main

import (
	"bufio"
	"context"
	"fmt"
	"os"
	"strconv"
	"strings"

	"github.com/drand/drand/v2/common"
	"github.com/drand/drand/v2/internal/chain"
	"github.com/drand/drand/v2/internal/chain/boltdb"
	"github.com/drand/drand/v2/internal/chain/memdb"
)

func init() { engines["store"] = storeEngine }

// openStore opens a real back-end: bolt (untrimmed), trimmed, trimmedprev, mem<cap>.
func openStore(backend string) (chain.Store, context.Context, func()) {
	ctx := context.Background()
	switch {
	case backend == "bolt":
		dir := tmpDir()
		s, err := boltdb.NewBoltStore(boltdb.IsATest(ctx), quietLogger(), dir)
		if err != nil {
			panic(err)
		}
		return s, ctx, func() { s.Close(); os.RemoveAll(dir) }
	case backend == "trimmed" || backend == "trimmedprev":
		dir := tmpDir()
		if backend == "trimmedprev" {
			ctx = chain.SetPreviousRequiredOnContext(ctx)
		}
		s, err := boltdb.NewBoltStore(ctx, quietLogger(), dir)
		if err != nil {
			panic(err)
		}
		return s, ctx, func() { s.Close(); os.RemoveAll(dir) }
	case strings.HasPrefix(backend, "mem"):
		c, _ := strconv.Atoi(backend[3:])
		return memdb.NewStore(c), ctx, func() {}
	}
	panic("unknown backend " + backend)
}

func parseBeacon(r, s, p string) *common.Beacon {
	round, err := strconv.ParseUint(r, 10, 64)
	if err != nil {
		panic(err)
	}
	return &common.Beacon{Round: round, Signature: unhx(s), PreviousSig: unhx(p)}
}

func cursorToken(ctx context.Context, st chain.Store, c chain.Cursor, t string, allowMut bool) string {
	switch {
	case t == "first":
		return showBeacon(c.First(ctx))
	case t == "next":
		return showBeacon(c.Next(ctx))
	case t == "last":
		return showBeacon(c.Last(ctx))
	case strings.HasPrefix(t, "seek:"):
		r, _ := strconv.ParseUint(t[5:], 10, 64)
		return showBeacon(c.Seek(ctx, r))
	case allowMut && strings.HasPrefix(t, "put:"):
		f := strings.Split(t, ":")
		if err := st.Put(ctx, parseBeacon(f[1], f[2], f[3])); err != nil {
			return "err:" + err.Error()
		}
		return "ok"
	case allowMut && strings.HasPrefix(t, "del:"):
		r, _ := strconv.ParseUint(t[4:], 10, 64)
		if err := st.Del(ctx, r); err != nil {
			return "err:" + err.Error()
		}
		return "ok"
	}
	return "bad-op"
}

func storeEngine(args []string, in *bufio.Scanner, out *bufio.Writer) {
	backend := args[0]
	st, ctx, closer := openStore(backend)
	defer func() { closer() }()
	isMem := strings.HasPrefix(backend, "mem")
	for in.Scan() {
		f := fields(in.Text())
		if len(f) == 0 {
			continue
		}
		res := safely(func() string {
			switch f[0] {
			case "put":
				if err := st.Put(ctx, parseBeacon(f[1], f[2], f[3])); err != nil {
					return "err:" + err.Error()
				}
				return "ok"
			case "get":
				r, _ := strconv.ParseUint(f[1], 10, 64)
				return showBeacon(st.Get(ctx, r))
			case "last":
				return showBeacon(st.Last(ctx))
			case "del":
				r, _ := strconv.ParseUint(f[1], 10, 64)
				if err := st.Del(ctx, r); err != nil {
					return "err:" + err.Error()
				}
				return "ok"
			case "len":
				n, err := st.Len(ctx)
				if err != nil {
					return "err:" + err.Error()
				}
				return fmt.Sprint(n)
			case "cur":
				var outs []string
				_ = st.Cursor(ctx, func(ctx context.Context, c chain.Cursor) error {
					for _, t := range f[1:] {
						outs = append(outs, cursorToken(ctx, st, c, t, isMem))
					}
					return nil
				})
				return strings.Join(outs, "|")
			case "reset":
				closer()
				st, ctx, closer = openStore(backend)
				return "ok"
			}
			return "bad-op"
		})
		fmt.Fprintln(out, res)
	}
}
