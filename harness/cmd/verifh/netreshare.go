//go:build verif

package main

// Engine "net", second part (C03, C05, C07): what the beacon nodes do AROUND A RESHARING, and groups whose share
// indices are not contiguous. No DKG is run: a resharing is made directly with kyber polynomials — the same
// secret, a fresh polynomial of degree newThr-1, shares for the new indices (what a completed resharing hands to
// core's onDKGCompleted) — and the harness then makes, per node and when the script says so, exactly the calls
// internal/core/drand_beacon.go makes:
//
//	remainer   transitionToNext: storeDKGOutput (group + share files: a later restart loads the NEW ones), then
//	           Handler.TransitionNewGroup(newShare, newGroup)
//	joiner     joinNetwork: storeDKGOutput, StartBeacon(catchup = true): NewHandler(new group, new share) + Catchup
//	           (`announce <i> transition`: Handler.Transition(prevGroup) instead, the documented joiner entry point
//	           that core does not use)
//	leaver     leaveNetwork: Handler.StopAt(transition time - 1) (the handler stops itself on its own fake clock);
//	           `announce <i> core` calls the REAL core.onDKGCompleted (export shim), which takes the leaveNetwork path, with bp.group = the group the node runs
//
//	ops:  reshare <newThr> <i:idx,i:idx,…> <k>   new epoch: the listed sim nodes with their NEW share indices (gaps
//	                                allowed), transition at the start of round current+k. Nothing is called on any
//	                                node. Result: snapshot + ` tr=<transition round> epoch=<id>`
//	      announce <i> [transition] node i learns the outcome of the last resharing now (see above; its role follows
//	                                from the member lists). A node that is never announced keeps running as it was:
//	                                a leaver that is not announced keeps signing with its old share
//	      failput <i> <err|cancel>  the next Put that reaches node i's base store fails once: `err` returns an error
//	                                without touching the store, `cancel` issues it under a cancelled context
//	      inject <to> <epoch> <idx> [round]   a partial for <round> (default: head of <to> + 1) on top of <to>'s head (explicit round:
//	                                on top of round-1 as stored by any node, so that it meets the honest partials of that round in the cache),
//	                                signed with the share of index <idx> of the polynomial of <epoch> (any index: the
//	                                polynomial is the harness's), handed to <to>'s ProcessPartialBeacon.
//	                                Result: snapshot + ` inj=<ok|refused:<why>> hb=<head before> ha=<head after>`
//	      plog                      every partial handed to a ProcessPartialBeacon since the last plog:
//	                                <from>><to>:<round>:<idx>:<epochs whose polynomial verifies it>:<ok|refused>:<head of to before>:<after>
//	snapshot (all ops): … ` ep=<per node: epoch of the vault's group, - if none>`

import (
	"context"
	"errors"
	"fmt"
	"sort"
	"strconv"
	"strings"
	"sync"
	"time"

	"github.com/drand/drand/v2/common"
	"github.com/drand/drand/v2/common/key"
	"github.com/drand/drand/v2/internal/chain"
	"github.com/drand/drand/v2/internal/chain/beacon"
	"github.com/drand/drand/v2/internal/core"
	pb "github.com/drand/drand/v2/protobuf/drand"
	"github.com/drand/kyber"
	"github.com/drand/kyber/share"
	"github.com/drand/kyber/share/dkg"
	"github.com/drand/kyber/util/random"
)

type simEpoch struct {
	id      int
	pri     *share.PriPoly
	pub     *share.PubPoly
	thr     int
	group   *key.Group
	members map[int]int        // sim node -> share index
	shares  map[int]*key.Share // sim node -> share
	tRound  uint64             // transition round (0: the first group)
	tTime   int64
}

// newEpoch: polynomial of degree thr-1 with the given constant term, one share per member at its index.
func (s *netSim) newEpoch(secret kyber.Scalar, thr int, members map[int]int, tRound uint64, prev *key.Group) *simEpoch {
	pri := share.NewPriPoly(s.sch.KeyGroup, thr, secret, random.New())
	pub := pri.Commit(s.sch.KeyGroup.Point().Base())
	_, commits := pub.Info()
	ep := &simEpoch{id: len(s.epochs), pri: pri, pub: pub, thr: thr, members: members, shares: map[int]*key.Share{}, tRound: tRound}
	var order []int
	for i := range members {
		order = append(order, i)
	}
	// the node list is ordered by share index, as the DKG output is
	sort.Slice(order, func(a, b int) bool { return members[order[a]] < members[order[b]] })
	var knodes []*key.Node
	for _, i := range order {
		knodes = append(knodes, &key.Node{Index: uint32(members[i]), Identity: s.nodes[i].pair.Public})
		ep.shares[i] = &key.Share{DistKeyShare: dkg.DistKeyShare{Share: pri.Eval(members[i]), Commits: commits}, Scheme: s.sch}
	}
	if tRound > 0 {
		ep.tTime = common.TimeOfRound(s.period, s.genesis, tRound)
	} else {
		ep.tTime = s.genesis // as the first DKG sets it (startDKGExecution: epoch 1 -> genesis time)
	}
	g := key.LoadGroup(knodes, s.genesis, &key.DistPublic{Coefficients: commits}, s.period, ep.tTime, s.sch, "default")
	g.Threshold = thr
	g.CatchupPeriod = s.catchup
	if prev != nil {
		g.GenesisSeed = prev.GenesisSeed
	} else {
		g.GenesisSeed = []byte("verif-net-seed-0123456789abcdef0")
	}
	ep.group = g
	s.epochs = append(s.epochs, ep)
	return ep
}

func (s *netSim) lastEpoch() *simEpoch { return s.epochs[len(s.epochs)-1] }

// epochField: which epoch's group each running handler's vault holds.
func (s *netSim) epochField() string {
	var out []string
	for i := range s.nodes {
		h := s.handlerOf(i)
		v := "-"
		if h != nil {
			g := h.VerifVault().GetGroup()
			for _, ep := range s.epochs {
				if ep.group == g {
					v = strconv.Itoa(ep.id)
				}
			}
		}
		out = append(out, v)
	}
	return " ep=" + strings.Join(out, ",")
}

// ---- error-injecting base store ----

type failStore struct {
	chain.Store
	mu   sync.Mutex
	mode string // "", "err", "cancel"
	hits int
}

var errInjected = errors.New("sim: injected store failure")

func (f *failStore) Put(ctx context.Context, b *common.Beacon) error {
	f.mu.Lock()
	mode := f.mode
	if mode != "" && b.Round > 0 {
		f.mode = ""
		f.hits++
	} else {
		mode = ""
	}
	f.mu.Unlock()
	switch mode {
	case "err":
		return errInjected
	case "cancel":
		cctx, cancel := context.WithCancel(ctx)
		cancel()
		return f.Store.Put(cctx, b)
	}
	return f.Store.Put(ctx, b)
}

// ---- log of every partial handed to a ProcessPartialBeacon ----

type plogEntry struct {
	from, to int
	p        *pb.PartialBeaconPacket
	ok       bool
	hb, ha   uint64
	why      string
}

func refusal(err error) string {
	if err == nil {
		return "ok"
	}
	m := err.Error()
	switch {
	case strings.Contains(m, "not in the group file"):
		return "refused:not-member"
	case strings.Contains(m, "invalid round"):
		return "refused:future"
	case strings.Contains(m, "invalid own index"):
		return "refused:own"
	case strings.Contains(m, "invalid index"), strings.Contains(m, "invalid partial signature length"):
		return "refused:index"
	case strings.Contains(m, "invalid signature"), strings.Contains(m, "bls:"):
		return "refused:invalid-sig"
	}
	return "refused:other"
}

func (s *netSim) logPartial(from, to int, h *beacon.Handler, in *pb.PartialBeaconPacket, err error) {
	ha, _ := s.readHeadOK(h)
	e := &plogEntry{from: from, to: to, p: in, ok: err == nil, ha: ha, why: refusal(err)}
	s.mu.Lock()
	s.plog = append(s.plog, e)
	s.mu.Unlock()
}

func (s *netSim) validUnder(p *pb.PartialBeaconPacket) string {
	msg := s.sch.DigestBeacon(&common.Beacon{Round: p.GetRound(), PreviousSig: p.GetPreviousSignature()})
	var out []string
	for _, ep := range s.epochs {
		if s.sch.ThresholdScheme.VerifyPartial(ep.pub, msg, p.GetPartialSig()) == nil {
			out = append(out, strconv.Itoa(ep.id))
		}
	}
	if len(out) == 0 {
		return "-"
	}
	return strings.Join(out, "+")
}

func (s *netSim) plogLine() string {
	s.mu.Lock()
	l := s.plog
	s.plog = nil
	s.mu.Unlock()
	parts := []string{"plog"}
	for _, e := range l {
		idx, err := s.sch.ThresholdScheme.IndexOf(e.p.GetPartialSig())
		if err != nil {
			idx = -1
		}
		parts = append(parts, fmt.Sprintf("%d>%d:%d:%d:%s:%s:%d", e.from, e.to, e.p.GetRound(), idx, s.validUnder(e.p), e.why, e.ha))
	}
	return strings.Join(parts, " ")
}

// ---- the ops ----

func (s *netSim) reshareOp(f []string, t0 time.Time) string {
	switch f[0] {
	case "plog":
		return s.plogLine()
	case "reshare":
		if len(f) < 4 {
			return "bad-op"
		}
		thr, err1 := strconv.Atoi(f[1])
		k, err2 := strconv.Atoi(f[3])
		if err1 != nil || err2 != nil || thr < 1 || k < 1 {
			return "bad-op"
		}
		members := map[int]int{}
		seen := map[int]bool{}
		for _, m := range strings.Split(f[2], ",") {
			ab := strings.Split(m, ":")
			if len(ab) != 2 {
				return "bad-op"
			}
			i, e1 := strconv.Atoi(ab[0])
			x, e2 := strconv.Atoi(ab[1])
			if e1 != nil || e2 != nil || i < 0 || i >= s.n || x < 0 || seen[x] {
				return "bad-op"
			}
			if _, dup := members[i]; dup {
				return "bad-op"
			}
			members[i], seen[x] = x, true
		}
		if thr > len(members) {
			return "bad-op"
		}
		old := s.lastEpoch()
		ep := s.newEpoch(old.pri.Secret(), thr, members, s.curRound()+uint64(k), old.group)
		return s.snapshot(t0, false) + fmt.Sprintf(" tr=%d epoch=%d", ep.tRound, ep.id)
	case "announce":
		if len(f) < 2 || len(s.epochs) < 2 {
			return "bad-op"
		}
		i, err := strconv.Atoi(f[1])
		if err != nil || i < 0 || i >= s.n {
			return "bad-op"
		}
		ep := s.lastEpoch()
		old := s.epochs[len(s.epochs)-2]
		nd := s.nodes[i]
		if ep.tTime < nd.clk.Now().Unix() {
			// core's validateGroupTransition refuses an outcome whose transition time has passed
			return s.snapshot(t0, false) + " role=refused:past"
		}
		_, isOld := old.members[i]
		_, isNew := ep.members[i]
		role := ""
		switch {
		case isOld && isNew:
			role = "remain"
			if nd.cfg == ep.id {
				return "bad-op"
			}
			nd.cfg = ep.id // storeDKGOutput: the group and share files are the new ones from now on
			if h := s.handlerOf(i); h != nil {
				h.TransitionNewGroup(context.Background(), ep.shares[i], ep.group)
			}
		case isOld && len(f) > 2 && f[2] == "core":
			// the REAL core.onDKGCompleted -> leaveNetwork: bp.group is the group the node is running (the previous epoch's)
			role = "leave:core"
			if h := s.handlerOf(i); h != nil {
				done := make(chan struct{})
				go func() {
					defer close(done)
					_, _ = core.VerifOnDKGCompleted(s.logger, nd.clk, nd.pair, old.group, ep.group, h)
					if h.IsStopped() {
						s.mu.Lock()
						if nd.h == h {
							nd.up = false
						}
						s.mu.Unlock()
						s.cancelStreams(func(st *simStream) bool { return st.from == i || st.to == i })
					}
				}()
				select {
				case <-done: // returned at once: nothing sleeps on the node's clock
					role = "leave:core:returned"
				case <-time.After(10 * s.quiet):
				}
			}
		case isOld:
			role = "leave"
			if h := s.handlerOf(i); h != nil {
				go func() {
					// leaveNetwork: StopAt blocks on the node's clock until the second before the transition
					if err := h.StopAt(context.Background(), ep.tTime-1); err == nil {
						s.mu.Lock()
						if nd.h == h {
							nd.up = false
						}
						s.mu.Unlock()
						s.cancelStreams(func(st *simStream) bool { return st.from == i || st.to == i })
					}
				}()
				ctx, cancel := context.WithTimeout(context.Background(), s.maxWait)
				_ = nd.clk.BlockUntilContext(ctx, 1)
				cancel()
			}
		case isNew:
			role = "join"
			if nd.up || nd.cfg == ep.id {
				return "bad-op"
			}
			nd.cfg = ep.id
			nd.joinTr = len(f) > 2 && f[2] == "transition"
			s.startHandler(i, true)
		default:
			return "bad-op"
		}
		to := s.settle(nil)
		return s.snapshot(t0, to) + " role=" + role
	case "failput":
		if len(f) != 3 || (f[2] != "err" && f[2] != "cancel") {
			return "bad-op"
		}
		i, err := strconv.Atoi(f[1])
		if err != nil || i < 0 || i >= s.n || s.nodes[i].fs == nil {
			return "bad-op"
		}
		fs := s.nodes[i].fs
		fs.mu.Lock()
		fs.mode = f[2]
		fs.mu.Unlock()
		return s.snapshot(t0, false)
	case "inject":
		if len(f) < 4 {
			return "bad-op"
		}
		to, e1 := strconv.Atoi(f[1])
		e, e2 := strconv.Atoi(f[2])
		idx, e3 := strconv.Atoi(f[3])
		if e1 != nil || e2 != nil || e3 != nil || to < 0 || to >= s.n || e < 0 || e >= len(s.epochs) || idx < 0 {
			return "bad-op"
		}
		h := s.handlerOf(to)
		if h == nil {
			return "bad-op"
		}
		last, err := h.Store().Last(context.Background())
		if err != nil {
			return "bad-op"
		}
		round := last.Round + 1
		prev := last.Signature
		if len(f) > 4 {
			r, err := strconv.ParseUint(f[4], 10, 64)
			if err != nil {
				return "bad-op"
			}
			round = r
			// an explicit round: the previous signature a signer that stores round-1 would put into the packet (the round
			// cache is keyed by (round, previous signature) for every scheme): taken from any node that stores round-1,
			// the receiver's head signature otherwise
			if r >= 1 {
				for j := range s.nodes {
					var st chain.Store
					if hj := s.handlerOf(j); hj != nil {
						st = hj.Store()
					} else if s.nodes[j].mem != nil {
						st = s.nodes[j].mem
					}
					if st == nil {
						continue
					}
					if b, err := st.Get(context.Background(), r-1); err == nil && b != nil {
						prev = b.Signature
						break
					}
				}
			}
		}
		msg := s.sch.DigestBeacon(&common.Beacon{Round: round, PreviousSig: prev})
		ep := s.epochs[e]
		sig, err := s.sch.ThresholdScheme.Sign(ep.pri.Eval(idx), msg)
		if err != nil {
			panic(err)
		}
		// the claimed sender: the member of that epoch holding the index, else any other node
		from := -1
		for i, x := range ep.members {
			if x == idx && i != to {
				from = i
			}
		}
		if from < 0 {
			from = (to + 1) % s.n
		}
		pkt := &pb.PartialBeaconPacket{Round: round, PreviousSignature: prev, PartialSig: sig,
			Metadata: &pb.Metadata{BeaconID: "default"}}
		c := &memClient{sim: s, from: from}
		hb := last.Round
		derr := c.deliver(context.Background(), to, pkt)
		tout := s.settle(nil)
		ha, _ := s.readHeadOK(h)
		return s.snapshot(t0, tout) + fmt.Sprintf(" inj=%s round=%d hb=%d ha=%d", refusal(derr), round, hb, ha)
	}
	return "bad-op"
}
