//go:build verif

package main

// Engine "net" (C05): k REAL beacon.Handlers in one process, wired by an in-memory net.ProtocolClient with a
// scripted fault layer (partition, per-link cut = drop, slow link = delay, stop, restart = new Handler on the same
// store + Catchup). Every node has its own clockwork.FakeClock; the harness advances all of them in lock-step
// by one CatchupPeriod per `step` (k steps = one period). After every op the engine waits (bounded, polling)
// for the goroutines to settle and prints the vector of stored heads and the up/partition state.
//
//	net <maxwait-ms> <quiet-ms>
//	ops:  init <n> <thr> <scheme> <k> <bolt|mem> [idx=i0,i1,…] [spare=m]
//	                                the n members get the listed share indices (gaps allowed; default 0..n-1); m more
//	                                nodes exist (keys, addresses, stores) but run nothing until a reshare makes them join
//	      step [e=h0,h1,…]          advance every clock by one CatchupPeriod (e= expected heads: only a wait hint)
//	      stop <i> | restart <i> [e=…] | part <g0> … <g(n-1)> | link <i> <j> <ok|cut|slow>
//	      dump                      per node: stored rounds, gap-freeness, validity, digest of every signature
//	      reshare / announce / failput / inject / plog: see netreshare.go (C03, C05, C07)
//	result line of every op but dump:  r=<round> h=<heads> up=<0/1…> g=<groups> lk=<non-ok links> ms=<wall> to=<0|1>

import (
	"bufio"
	"context"
	"crypto/sha256"
	"encoding/hex"
	"errors"
	"fmt"
	gonet "net"
	"os"
	"path/filepath"
	"strconv"
	"strings"
	"sync"
	"sync/atomic"
	"time"

	clock "github.com/jonboulle/clockwork"
	"google.golang.org/grpc"
	"google.golang.org/grpc/peer"
	"google.golang.org/protobuf/proto"

	"github.com/drand/drand/v2/common"
	dchain "github.com/drand/drand/v2/common/chain"
	"github.com/drand/drand/v2/common/key"
	"github.com/drand/drand/v2/common/log"
	"github.com/drand/drand/v2/crypto"
	"github.com/drand/drand/v2/internal/chain"
	"github.com/drand/drand/v2/internal/chain/beacon"
	"github.com/drand/drand/v2/internal/chain/boltdb"
	"github.com/drand/drand/v2/internal/chain/memdb"
	"github.com/drand/drand/v2/internal/net"
	pb "github.com/drand/drand/v2/protobuf/drand"
	"github.com/drand/kyber/util/random"
)

func init() { engines["net"] = netEngine }

const (
	linkOK   = 0
	linkCut  = 1
	linkSlow = 2

	slowLinkDelay = 25 * time.Millisecond
)

type simNode struct {
	idx     int
	addr    string
	clk     *clock.FakeClock
	h       *beacon.Handler
	dir     string
	mem     chain.Store // memdb survives a restart only inside the process
	up      bool
	head    uint64 // last head read (kept while the node is down)
	started int    // number of handlers created for this node
	pair    *key.Pair
	cfg     int        // epoch of the group / share a new Handler of this node is built with (-1: none yet)
	fs      *failStore // error-injecting wrapper around the base store of the running handler
	joinTr  bool       // joiner started with Handler.Transition instead of Catchup
}

type simStream struct {
	from, to int // beacons flow from -> to
	cancel   context.CancelFunc
}

type netSim struct {
	mu       sync.Mutex
	n, thr   int
	k        int
	sch      *crypto.Scheme
	group    *key.Group // the first group (its public key and chain info are the chain's for ever)
	epochs   []*simEpoch
	plog     []*plogEntry
	nodes    []*simNode
	byAddr   map[string]int
	period   time.Duration
	catchup  time.Duration
	genesis  int64
	backend  string
	link     [][]int
	grp      []int
	streams  map[*simStream]bool
	inflight int64
	activity int64
	logger   log.Logger
	maxWait  time.Duration
	quiet    time.Duration
	steps    int
	lagged   bool
	root     string
}

type simAddr string

func (a simAddr) Network() string { return "sim" }
func (a simAddr) String() string  { return string(a) }

var _ gonet.Addr = simAddr("")

// memClient is the in-memory net.ProtocolClient of node `from`.
type memClient struct {
	sim  *netSim
	from int
}

// reach: the effective state of the directed link from -> to: cut across partition groups, else what `link` set.
func (s *netSim) reach(from, to int) int {
	s.mu.Lock()
	defer s.mu.Unlock()
	if s.grp[from] != s.grp[to] {
		return linkCut
	}
	return s.link[from][to]
}

func (s *netSim) handlerOf(i int) *beacon.Handler {
	s.mu.Lock()
	defer s.mu.Unlock()
	if !s.nodes[i].up {
		return nil
	}
	return s.nodes[i].h
}

func (c *memClient) peerCtx(ctx context.Context) context.Context {
	return peer.NewContext(ctx, &peer.Peer{Addr: simAddr(c.sim.nodes[c.from].addr)})
}

func (c *memClient) deliver(ctx context.Context, to int, in *pb.PartialBeaconPacket) error {
	h := c.sim.handlerOf(to)
	if h == nil {
		return errors.New("sim: peer is down")
	}
	atomic.AddInt64(&c.sim.inflight, 1)
	defer atomic.AddInt64(&c.sim.inflight, -1)
	defer atomic.AddInt64(&c.sim.activity, 1)
	_, err := h.ProcessPartialBeacon(c.peerCtx(ctx), proto.Clone(in).(*pb.PartialBeaconPacket))
	c.sim.logPartial(c.from, to, h, in, err)
	return err
}

func (c *memClient) PartialBeacon(ctx context.Context, p net.Peer, in *pb.PartialBeaconPacket, _ ...net.CallOption) error {
	to, ok := c.sim.byAddr[p.Address()]
	if !ok {
		return errors.New("sim: unknown peer")
	}
	atomic.AddInt64(&c.sim.activity, 1)
	switch c.sim.reach(c.from, to) {
	case linkCut:
		return errors.New("sim: link cut")
	case linkSlow:
		// a slow link: the packet arrives, late (real time, well inside the settle wait)
		atomic.AddInt64(&c.sim.inflight, 1)
		time.Sleep(slowLinkDelay)
		atomic.AddInt64(&c.sim.inflight, -1)
	}
	return c.deliver(ctx, to, in)
}

type memStream struct {
	ctx context.Context
	ch  chan *pb.BeaconPacket
	sim *netSim
	st  *simStream
}

func (m *memStream) Context() context.Context { return m.ctx }
func (m *memStream) Send(b *pb.BeaconPacket) error {
	if m.sim.reach(m.st.from, m.st.to) == linkCut || m.sim.reach(m.st.to, m.st.from) == linkCut {
		return errors.New("sim: link cut")
	}
	select {
	case m.ch <- b:
		atomic.AddInt64(&m.sim.activity, 1)
		return nil
	case <-m.ctx.Done():
		return m.ctx.Err()
	}
}

func (c *memClient) SyncChain(ctx context.Context, p net.Peer, in *pb.SyncRequest, _ ...net.CallOption) (chan *pb.BeaconPacket, error) {
	to, ok := c.sim.byAddr[p.Address()]
	if !ok {
		return nil, errors.New("sim: unknown peer")
	}
	atomic.AddInt64(&c.sim.activity, 1)
	// a stream needs both directions (request there, beacons back)
	if c.sim.reach(c.from, to) == linkCut || c.sim.reach(to, c.from) == linkCut {
		return nil, errors.New("sim: link cut")
	}
	h := c.sim.handlerOf(to)
	if h == nil {
		return nil, errors.New("sim: peer is down")
	}
	resp := make(chan *pb.BeaconPacket, net.MaxSyncBuffer)
	sctx, cancel := context.WithCancel(c.peerCtx(ctx))
	st := &simStream{from: to, to: c.from, cancel: cancel}
	c.sim.mu.Lock()
	c.sim.streams[st] = true
	c.sim.mu.Unlock()
	ms := &memStream{ctx: sctx, ch: resp, sim: c.sim, st: st}
	go func() {
		defer func() {
			_ = recover() // a store closed under a running stream must not kill the harness
			cancel()
			c.sim.mu.Lock()
			delete(c.sim.streams, st)
			c.sim.mu.Unlock()
			close(resp)
			atomic.AddInt64(&c.sim.activity, 1)
		}()
		_ = beacon.SyncChain(c.sim.logger, h.Store(), in, ms)
	}()
	return resp, nil
}

func (c *memClient) GetIdentity(context.Context, net.Peer, *pb.IdentityRequest, ...net.CallOption) (*pb.IdentityResponse, error) {
	return nil, errors.New("sim: not served")
}
func (c *memClient) Status(context.Context, net.Peer, *pb.StatusRequest, ...grpc.CallOption) (*pb.StatusResponse, error) {
	return nil, errors.New("sim: not served")
}
func (c *memClient) Check(context.Context, net.Peer) error { return nil }

func (s *netSim) cancelStreams(pred func(st *simStream) bool) {
	s.mu.Lock()
	var all []*simStream
	for st := range s.streams {
		all = append(all, st)
	}
	s.mu.Unlock()
	// pred may take s.mu itself (reach)
	for _, st := range all {
		if pred(st) {
			st.cancel()
		}
	}
}

func netLogger() log.Logger {
	if os.Getenv("VERIF_NET_DEBUG") != "" {
		return log.New(os.Stderr, log.DebugLevel, false)
	}
	return quietLogger()
}

func newNetSim(n, thr int, scheme string, k int, backend string, maxWait, quiet time.Duration, idx []int, spare int) *netSim {
	sch := mustScheme(scheme)
	s := &netSim{n: n + spare, thr: thr, k: k, sch: sch, backend: backend, byAddr: map[string]int{}, streams: map[*simStream]bool{},
		logger: netLogger(), maxWait: maxWait, quiet: quiet}
	s.catchup = time.Second
	s.period = time.Duration(k) * s.catchup
	s.root = tmpDir()
	if idx == nil {
		for i := 0; i < n; i++ {
			idx = append(idx, i)
		}
	}
	t0 := time.Unix(1700000000, 0)
	s.genesis = t0.Add(s.catchup).Unix()
	for i := 0; i < s.n; i++ {
		addr := fmt.Sprintf("203.0.113.%d:4%03d", i+1, i)
		kp, err := key.NewKeyPair(addr, sch)
		if err != nil {
			panic(err)
		}
		s.byAddr[addr] = i
		nd := &simNode{idx: i, addr: addr, clk: clock.NewFakeClockAt(t0), pair: kp, cfg: -1}
		if backend == "bolt" {
			nd.dir = filepath.Join(s.root, fmt.Sprintf("multibeacon-%d", i), "default", "db")
			if err := os.MkdirAll(nd.dir, 0o755); err != nil {
				panic(err)
			}
		}
		s.nodes = append(s.nodes, nd)
	}
	// the group: one polynomial of degree thr-1, member i holds the share of index idx[i] (as node_test.go's
	// dkgShares / BatchIdentities, which use 0..n-1)
	secret := sch.KeyGroup.Scalar().Pick(random.New())
	members := map[int]int{}
	for i := 0; i < n; i++ {
		members[i] = idx[i]
	}
	ep := s.newEpoch(secret, thr, members, 0, nil)
	s.group = ep.group
	s.link = make([][]int, s.n)
	s.grp = make([]int, s.n)
	for i := range s.link {
		s.link[i] = make([]int, s.n)
	}
	s.warmUp()
	for i := 0; i < n; i++ {
		s.nodes[i].cfg = 0
		s.startHandler(i, false)
	}
	return s
}

// warmUp runs one sign/verify/recover cycle so that lazily built tables of the pairing library do not count as
// protocol time in the first round.
func (s *netSim) warmUp() {
	msg := []byte("verif warm-up")
	pubPoly := s.group.PublicKey.PubPoly(s.sch)
	var sigs [][]byte
	e0 := s.epochs[0]
	for i := 0; i < len(e0.members); i++ {
		sg, err := s.sch.ThresholdScheme.Sign(e0.shares[i].PrivateShare(), msg)
		if err != nil {
			panic(err)
		}
		if err := s.sch.ThresholdScheme.VerifyPartial(pubPoly, msg, sg); err != nil {
			panic(err)
		}
		sigs = append(sigs, sg)
	}
	full, err := s.sch.ThresholdScheme.Recover(pubPoly, msg, sigs[:s.thr], s.thr, len(e0.members))
	if err != nil {
		panic(err)
	}
	if err := s.sch.ThresholdScheme.VerifyRecovered(pubPoly.Commit(), msg, full); err != nil {
		panic(err)
	}
}

func (s *netSim) storeCtx() context.Context {
	ctx := context.Background()
	if s.sch.Name == crypto.DefaultSchemeID {
		ctx = chain.SetPreviousRequiredOnContext(ctx)
	}
	return ctx
}

func (s *netSim) openStore(nd *simNode) chain.Store {
	if s.backend == "bolt" {
		st, err := boltdb.NewBoltStore(s.storeCtx(), s.logger, nd.dir)
		if err != nil {
			panic(err)
		}
		return st
	}
	if nd.mem == nil {
		nd.mem = memdb.NewStore(4000)
	}
	return nd.mem
}

// startHandler builds a fresh Handler for node i on its store; catchup=false: Start (before genesis),
// catchup=true: Catchup (the restart path).
func (s *netSim) startHandler(i int, catchup bool) {
	nd := s.nodes[i]
	nd.fs = &failStore{Store: s.openStore(nd)}
	if nd.started > 0 {
		nd.clk = clock.NewFakeClockAt(nd.clk.Now()) // the old handler's sleepers stay with the old clock
	}
	ep := s.epochs[nd.cfg]
	conf := &beacon.Config{Public: ep.group.Find(nd.pair.Public), Share: ep.shares[i], Group: ep.group, Clock: nd.clk}
	h, err := beacon.NewHandler(s.storeCtx(), &memClient{sim: s, from: i}, nd.fs, conf, s.logger.Named(fmt.Sprintf("n%d", i)), common.GetAppVersion())
	if err != nil {
		panic(err)
	}
	want := 1
	if catchup && nd.joinTr {
		// a joiner as Handler.Transition documents it: follow the previous group's chain, run from the transition time
		nd.joinTr = false
		s.mu.Lock()
		nd.h, nd.up = h, true
		s.mu.Unlock()
		if err := h.Transition(context.Background(), s.epochs[nd.cfg-1].group); err != nil {
			panic(err)
		}
	} else if catchup {
		s.mu.Lock()
		nd.h, nd.up = h, true
		s.mu.Unlock()
		h.Catchup(context.Background())
	} else {
		if err := h.Start(context.Background()); err != nil {
			panic(err)
		}
		s.mu.Lock()
		nd.h, nd.up = h, true
		s.mu.Unlock()
		want = 2 // ticker + SyncManager.Run both sleep until genesis
	}
	nd.started++
	ctx, cancel := context.WithTimeout(context.Background(), s.maxWait)
	defer cancel()
	if err := nd.clk.BlockUntilContext(ctx, want); err != nil {
		panic(fmt.Sprintf("node %d: timers not armed: %v", i, err))
	}
	for j := 0; j < 2000 && !h.IsRunning(); j++ {
		time.Sleep(time.Millisecond)
	}
}

func (s *netSim) stopNode(i int) {
	nd := s.nodes[i]
	s.mu.Lock()
	h := nd.h
	wasUp := nd.up
	nd.up = false
	s.mu.Unlock()
	if !wasUp {
		return
	}
	if r, ok := s.readHeadOK(h); ok && r >= nd.head {
		nd.head = r
	}
	s.cancelStreams(func(st *simStream) bool { return st.from == i || st.to == i })
	h.Stop(context.Background())
	time.Sleep(5 * time.Millisecond)
}

func (s *netSim) readHead(h *beacon.Handler) uint64 {
	r, _ := s.readHeadOK(h)
	return r
}

func (s *netSim) readHeadOK(h *beacon.Handler) (r uint64, ok bool) {
	defer func() {
		if recover() != nil { // a store closed by StopAt under the read
			r, ok = 0, false
		}
	}()
	b, err := h.Store().Last(context.Background())
	if err != nil || b == nil {
		return 0, false
	}
	return b.Round, true
}

func (s *netSim) heads() []uint64 {
	out := make([]uint64, s.n)
	for i, nd := range s.nodes {
		if h := s.handlerOf(i); h != nil {
			// a leaver stops itself (StopAt): the store is closed then, the last head read stays
			if r, ok := s.readHeadOK(h); ok && r >= nd.head {
				nd.head = r
			}
		}
		out[i] = nd.head
	}
	return out
}

func (s *netSim) curRound() uint64 {
	return common.CurrentRound(s.nodes[0].clk.Now().Unix(), s.period, s.genesis)
}

// settle waits (bounded) until the up nodes reached `expect` (a hint, may be nil) and then until nothing has
// moved for the quiet window.
func (s *netSim) settle(expect []uint64) (timedOut bool) {
	wait := s.maxWait
	if s.lagged {
		// the implementation already missed a hint in this script: do not spend the full budget on every later step
		wait = 8 * s.quiet
	}
	deadline := time.Now().Add(wait)
	if expect != nil {
		for {
			hs := s.heads()
			ok := true
			for i := range hs {
				if s.nodes[i].up && hs[i] < expect[i] {
					ok = false
				}
			}
			if ok {
				break
			}
			if time.Now().After(deadline) {
				timedOut = true
				s.lagged = true
				break
			}
			time.Sleep(2 * time.Millisecond)
		}
	}
	sig := func() string { return fmt.Sprint(s.heads(), atomic.LoadInt64(&s.activity), atomic.LoadInt64(&s.inflight)) }
	backlog := func() int {
		b := 0
		for i := range s.nodes {
			b += beacon.VerifBacklog(s.handlerOf(i))
		}
		return b
	}
	last := sig()
	lastChange := time.Now()
	hard := time.Now().Add(s.maxWait)
	for {
		time.Sleep(3 * time.Millisecond)
		cur := sig()
		if cur != last || atomic.LoadInt64(&s.inflight) != 0 || backlog() != 0 {
			last, lastChange = cur, time.Now()
		}
		if time.Since(lastChange) >= s.quiet {
			return timedOut
		}
		if time.Now().After(hard) {
			return true
		}
	}
}

func (s *netSim) snapshot(t0 time.Time, to bool) string {
	hs := s.heads()
	var h, up, g, lk []string
	for i := range hs {
		h = append(h, strconv.FormatUint(hs[i], 10))
		if s.nodes[i].up {
			up = append(up, "1")
		} else {
			up = append(up, "0")
		}
		g = append(g, strconv.Itoa(s.grp[i]))
	}
	s.mu.Lock()
	for i := range s.link {
		for j := range s.link[i] {
			if i != j && s.link[i][j] != linkOK && s.grp[i] == s.grp[j] {
				lk = append(lk, fmt.Sprintf("%d>%d:%d", i, j, s.link[i][j]))
			}
		}
	}
	s.mu.Unlock()
	l := "-"
	if len(lk) > 0 {
		l = strings.Join(lk, ",")
	}
	tf := 0
	if to {
		tf = 1
	}
	return fmt.Sprintf("r=%d h=%s up=%s g=%s lk=%s ms=%d to=%d%s", s.curRound(), strings.Join(h, ","), strings.Join(up, ","),
		strings.Join(g, ","), l, time.Since(t0).Milliseconds(), tf, s.epochField())
}

func parseExpect(f []string, n int) []uint64 {
	for _, x := range f {
		if strings.HasPrefix(x, "e=") {
			parts := strings.Split(x[2:], ",")
			if len(parts) != n {
				return nil
			}
			out := make([]uint64, n)
			for i, p := range parts {
				v, err := strconv.ParseUint(p, 10, 64)
				if err != nil {
					return nil
				}
				out[i] = v
			}
			return out
		}
	}
	return nil
}

func (s *netSim) dump() string {
	var parts []string
	pubk := s.group.PublicKey.Key()
	for i, nd := range s.nodes {
		var st chain.Store
		closeAfter := false
		if h := s.handlerOf(i); h != nil {
			st = h.Store()
		} else if nd.started == 0 {
			parts = append(parts, fmt.Sprintf("n%d:last=0:cnt=0:gapfree=true:valid=true:linked=true:sigs=", i))
			continue
		} else if s.backend == "bolt" {
			st = s.openStore(nd)
			closeAfter = true
		} else {
			st = nd.mem
		}
		var rounds []uint64
		valid := true
		linked := true
		hsh := sha256.New()
		var digs []string
		var prevSig []byte
		err := st.Cursor(s.storeCtx(), func(ctx context.Context, c chain.Cursor) error {
			for b, err := c.First(ctx); err == nil && b != nil; b, err = c.Next(ctx) {
				rounds = append(rounds, b.Round)
				if b.Round > 0 {
					if s.sch.VerifyBeacon(b, pubk) != nil {
						valid = false
					}
					if s.sch.Name == crypto.DefaultSchemeID && string(b.PreviousSig) != string(prevSig) {
						linked = false
					}
				}
				prevSig = b.Signature
				d := sha256.Sum256(b.Signature)
				digs = append(digs, hex.EncodeToString(d[:3]))
				hsh.Write(b.Signature)
			}
			return nil
		})
		if closeAfter {
			st.Close()
		}
		if err != nil {
			parts = append(parts, fmt.Sprintf("n%d:err:%v", i, err))
			continue
		}
		gapfree := true
		for j, r := range rounds {
			if r != uint64(j) {
				gapfree = false
			}
		}
		last := uint64(0)
		if len(rounds) > 0 {
			last = rounds[len(rounds)-1]
		}
		// the chain hash the node serves (its vault's chain info) and the one of the group it holds now
		ch := "-"
		if h := s.handlerOf(i); h != nil {
			v := h.VerifVault()
			ch = v.GetInfo().HashString()[:12] + "/" + dchain.NewChainInfo(v.GetGroup()).HashString()[:12]
		}
		parts = append(parts, fmt.Sprintf("n%d:last=%d:cnt=%d:gapfree=%v:valid=%v:linked=%v:ch=%s:sigs=%s", i, last, len(rounds), gapfree, valid, linked, ch, strings.Join(digs, ".")))
	}
	return "dump " + strings.Join(parts, " ") + " ch0=" + dchain.NewChainInfo(s.group).HashString()[:12]
}

func (s *netSim) close() {
	for i := range s.nodes {
		s.stopNode(i)
	}
	os.RemoveAll(s.root)
}

func netEngine(args []string, in *bufio.Scanner, out *bufio.Writer) {
	maxWait, quiet := 4000, 60
	if len(args) > 0 {
		maxWait, _ = strconv.Atoi(args[0])
	}
	if len(args) > 1 {
		quiet, _ = strconv.Atoi(args[1])
	}
	var s *netSim
	defer func() {
		if s != nil {
			s.close()
		}
	}()
	for in.Scan() {
		f := fields(in.Text())
		if len(f) == 0 {
			continue
		}
		res := safely(func() string {
			t0 := time.Now()
			if f[0] == "init" {
				if s != nil {
					s.close()
				}
				n, _ := strconv.Atoi(f[1])
				thr, _ := strconv.Atoi(f[2])
				k, _ := strconv.Atoi(f[4])
				var idx []int
				spare := 0
				for _, x := range f[6:] {
					if strings.HasPrefix(x, "idx=") {
						for _, p := range strings.Split(x[4:], ",") {
							v, err := strconv.Atoi(p)
							if err != nil || v < 0 {
								return "bad-op"
							}
							idx = append(idx, v)
						}
						if len(idx) != n {
							return "bad-op"
						}
					}
					if strings.HasPrefix(x, "spare=") {
						spare, _ = strconv.Atoi(x[6:])
					}
				}
				s = newNetSim(n, thr, f[3], k, f[5], time.Duration(maxWait)*time.Millisecond, time.Duration(quiet)*time.Millisecond, idx, spare)
				return s.snapshot(t0, false)
			}
			if s == nil {
				return "bad-op"
			}
			switch f[0] {
			case "step":
				for _, nd := range s.nodes {
					nd.clk.Advance(s.catchup)
				}
				s.steps++
				to := s.settle(parseExpect(f, s.n))
				return s.snapshot(t0, to)
			case "stop":
				i, _ := strconv.Atoi(f[1])
				s.stopNode(i)
				to := s.settle(nil)
				return s.snapshot(t0, to)
			case "restart":
				i, _ := strconv.Atoi(f[1])
				if s.nodes[i].up || s.nodes[i].cfg < 0 {
					return "bad-op"
				}
				s.startHandler(i, true)
				to := s.settle(parseExpect(f, s.n))
				return s.snapshot(t0, to)
			case "part":
				if len(f) != s.n+1 {
					return "bad-op"
				}
				s.mu.Lock()
				for i := 0; i < s.n; i++ {
					s.grp[i], _ = strconv.Atoi(f[1+i])
				}
				s.mu.Unlock()
				s.cancelStreams(func(st *simStream) bool { return s.reach(st.from, st.to) == linkCut || s.reach(st.to, st.from) == linkCut })
				to := s.settle(nil)
				return s.snapshot(t0, to)
			case "link":
				i, _ := strconv.Atoi(f[1])
				j, _ := strconv.Atoi(f[2])
				v, okv := map[string]int{"ok": linkOK, "cut": linkCut, "slow": linkSlow}[f[3]]
				if !okv {
					return "bad-op"
				}
				s.mu.Lock()
				s.link[i][j] = v // the partition groups are applied on top of this (reach)
				s.mu.Unlock()
				s.cancelStreams(func(st *simStream) bool { return s.reach(st.from, st.to) == linkCut || s.reach(st.to, st.from) == linkCut })
				to := s.settle(nil)
				return s.snapshot(t0, to)
			case "dump":
				return s.dump()
			case "reshare", "announce", "failput", "inject", "plog":
				return s.reshareOp(f, t0)
			}
			return "bad-op"
		})
		fmt.Fprintln(out, res)
		out.Flush()
	}
}
