//go:build verif

package main

import (
	"bufio"
	"bytes"
	"context"
	"encoding/hex"
	"errors"
	"fmt"
	"os"
	"regexp"
	"strconv"
	"strings"
	"sync"
	"time"

	"github.com/BurntSushi/toml"
	"google.golang.org/protobuf/types/known/timestamppb"

	"github.com/drand/drand/v2/common/key"
	"github.com/drand/drand/v2/crypto"
	"github.com/drand/drand/v2/internal/dkg"
	"github.com/drand/drand/v2/internal/net"
	"github.com/drand/drand/v2/internal/util"
	pdkg "github.com/drand/drand/v2/protobuf/dkg"
	"github.com/drand/kyber"
	"github.com/drand/kyber/share"
	kdkg "github.com/drand/kyber/share/dkg"
	"github.com/drand/kyber/util/random"
)

func init() { engines["dkgsm"] = dkgsmEngine }

type dkgPart struct {
	p    *pdkg.Participant
	pair *key.Pair // nil when the harness does not hold the private key
	ok   bool
	kok  bool
}

type nopDKGClient struct{}

func (nopDKGClient) Packet(context.Context, net.Peer, *pdkg.GossipPacket, ...net.CallOption) (*pdkg.EmptyDKGResponse, error) {
	return &pdkg.EmptyDKGResponse{}, nil
}
func (nopDKGClient) BroadcastDKG(context.Context, net.Peer, *pdkg.DKGPacket, ...net.CallOption) (*pdkg.EmptyDKGResponse, error) {
	return &pdkg.EmptyDKGResponse{}, nil
}

// dkgGatedStore is the process's store with a gate behind GetCurrent: when armed, the read has been done and, before the
// value is handed back to the caller, `hook` runs (once). Every state written is logged in order.
type dkgGatedStore struct {
	dkg.Store
	mu    sync.Mutex
	armed bool
	hook  func()
	saves []string
}

func (g *dkgGatedStore) GetCurrent(beaconID string) (*dkg.DBState, error) {
	st, err := g.Store.GetCurrent(beaconID)
	g.mu.Lock()
	run := g.armed
	g.armed = false
	h := g.hook
	g.mu.Unlock()
	if run && h != nil {
		h()
	}
	return st, err
}

func (g *dkgGatedStore) SaveCurrent(beaconID string, st *dkg.DBState) error {
	err := g.Store.SaveCurrent(beaconID, st)
	if err == nil {
		g.mu.Lock()
		g.saves = append(g.saves, st.State.String())
		g.mu.Unlock()
	}
	return err
}

func (g *dkgGatedStore) SaveFinished(beaconID string, st *dkg.DBState) error {
	err := g.Store.SaveFinished(beaconID, st)
	if err == nil {
		g.mu.Lock()
		g.saves = append(g.saves, st.State.String())
		g.mu.Unlock()
	}
	return err
}

type fixedIdentity struct{ pair *key.Pair }

func (f fixedIdentity) KeypairFor(string) (*key.Pair, error) { return f.pair, nil }

var dkgSentinels = []struct {
	e error
	n string
}{
	{dkg.ErrTimeoutReached, "ErrTimeoutReached"}, {dkg.ErrInvalidBeaconID, "ErrInvalidBeaconID"},
	{dkg.ErrInvalidScheme, "ErrInvalidScheme"}, {dkg.ErrGenesisTimeNotEqual, "ErrGenesisTimeNotEqual"},
	{dkg.ErrNoGenesisSeedForFirstEpoch, "ErrNoGenesisSeedForFirstEpoch"},
	{dkg.ErrGenesisTimeNotConsistentWithProposal, "ErrGenesisTimeNotConsistentWithProposal"},
	{dkg.ErrGenesisSeedCannotChange, "ErrGenesisSeedCannotChange"}, {dkg.ErrSchemeCannotChange, "ErrSchemeCannotChange"},
	{dkg.ErrBeaconPeriodCannotChange, "ErrBeaconPeriodCannotChange"}, {dkg.ErrSelfMissingFromProposal, "ErrSelfMissingFromProposal"},
	{dkg.ErrCannotJoinIfNotInJoining, "ErrCannotJoinIfNotInJoining"},
	{dkg.ErrJoiningAfterFirstEpochNeedsGroupFile, "ErrJoiningAfterFirstEpochNeedsGroupFile"},
	{dkg.ErrInvalidEpoch, "ErrInvalidEpoch"}, {dkg.ErrLeaderCantJoinAfterFirstEpoch, "ErrLeaderCantJoinAfterFirstEpoch"},
	{dkg.ErrLeaderNotRemaining, "ErrLeaderNotRemaining"}, {dkg.ErrLeaderNotJoining, "ErrLeaderNotJoining"},
	{dkg.ErrOnlyJoinersAllowedForFirstEpoch, "ErrOnlyJoinersAllowedForFirstEpoch"}, {dkg.ErrNoNodesRemaining, "ErrNoNodesRemaining"},
	{dkg.ErrMissingNodesInProposal, "ErrMissingNodesInProposal"}, {dkg.ErrCannotProposeAsNonLeader, "ErrCannotProposeAsNonLeader"},
	{dkg.ErrThresholdHigherThanNodeCount, "ErrThresholdHigherThanNodeCount"}, {dkg.ErrNodeCountTooLow, "ErrNodeCountTooLow"},
	{dkg.ErrThresholdTooLow, "ErrThresholdTooLow"},
	{dkg.ErrRemainingAndLeavingNodesMustExistInCurrentEpoch, "ErrRemainingAndLeavingNodesMustExistInCurrentEpoch"},
	{dkg.ErrCannotAcceptProposalWhereLeaving, "ErrCannotAcceptProposalWhereLeaving"},
	{dkg.ErrCannotAcceptProposalWhereJoining, "ErrCannotAcceptProposalWhereJoining"},
	{dkg.ErrCannotRejectProposalWhereLeaving, "ErrCannotRejectProposalWhereLeaving"},
	{dkg.ErrCannotRejectProposalWhereJoining, "ErrCannotRejectProposalWhereJoining"},
	{dkg.ErrCannotLeaveIfNotALeaver, "ErrCannotLeaveIfNotALeaver"}, {dkg.ErrOnlyLeaderCanTriggerExecute, "ErrOnlyLeaderCanTriggerExecute"},
	{dkg.ErrOnlyLeaderCanRemoteAbort, "ErrOnlyLeaderCanRemoteAbort"},
	{dkg.ErrCannotExecuteIfNotJoinerOrRemainer, "ErrCannotExecuteIfNotJoinerOrRemainer"},
	{dkg.ErrUnknownAcceptor, "ErrUnknownAcceptor"}, {dkg.ErrDuplicateAcceptance, "ErrDuplicateAcceptance"},
	{dkg.ErrInvalidAcceptor, "ErrInvalidAcceptor"}, {dkg.ErrInvalidRejector, "ErrInvalidRejector"},
	{dkg.ErrUnknownRejector, "ErrUnknownRejector"}, {dkg.ErrDuplicateRejection, "ErrDuplicateRejection"},
	{dkg.ErrFinalGroupCannotBeEmpty, "ErrFinalGroupCannotBeEmpty"}, {dkg.ErrKeyShareCannotBeEmpty, "ErrKeyShareCannotBeEmpty"},
	{dkg.ErrReceivedAcceptance, "ErrReceivedAcceptance"}, {dkg.ErrReceivedRejection, "ErrReceivedRejection"},
}

var reTransition = regexp.MustCompile(`invalid transition attempt from (\w+) to (\w+)`)

func classifyDKGErr(err error, isExecute bool) string {
	if err == nil {
		return "ok"
	}
	m := err.Error()
	if strings.Contains(m, "invalid packet signature from") {
		if strings.Contains(m, "no such participant") {
			return "err:no-such-participant"
		}
		return "err:bad-signature"
	}
	if strings.Contains(m, "gossip recipients was empty") {
		return "saved-then-err:gossip-empty"
	}
	if strings.Contains(m, "cannot create a broadcaster with no participants") {
		return "saved-then-err:setup"
	}
	if errors.Is(err, key.ErrInvalidKeyScheme) {
		if isExecute {
			return "saved-then-err:setup"
		}
		return "err:ErrInvalidKeyScheme"
	}
	for _, s := range dkgSentinels {
		if errors.Is(err, s.e) {
			return "err:" + s.n
		}
	}
	if mm := reTransition.FindStringSubmatch(m); mm != nil {
		return "err:InvalidStateChange:" + mm[1] + "->" + mm[2]
	}
	if strings.Contains(m, "packet signature is too short") {
		return "err:sig-too-short"
	}
	if strings.Contains(m, "group file required to join") {
		return "err:group-file-required"
	}
	return "err:other:" + strings.ReplaceAll(m, "\n", " ")
}

type dkgsm struct {
	parts  map[int]*dkgPart
	proc   *dkg.Process
	gate   *dkgGatedStore
	dir    string
	bid    string
	me     int
	sch    *crypto.Scheme
	now    int64
	sigCtr int
}

func (s *dkgsm) idxOf(p *pdkg.Participant) string {
	if p == nil {
		return "nil"
	}
	best := -1
	for i, q := range s.parts {
		if util.EqualParticipant(q.p, p) && (best == -1 || i < best) {
			best = i
		}
	}
	if best < 0 {
		return "?"
	}
	return strconv.Itoa(best)
}

func (s *dkgsm) showParts(l []*pdkg.Participant) string {
	var o []string
	for _, p := range l {
		o = append(o, s.idxOf(p))
	}
	return "[" + strings.Join(o, ",") + "]"
}

func (s *dkgsm) showState(d *dkg.DBState) string {
	if d == nil {
		return "nil"
	}
	fg := "nil"
	if d.FinalGroup != nil {
		fg = strconv.FormatInt(d.FinalGroup.TransitionTime, 10)
	}
	sh := 0
	if d.KeyShare != nil {
		sh = 1
	}
	return fmt.Sprintf("e=%d s=%s t=%d to=%d sch=%s g=%d seed=%s c=%d p=%d L=%s R=%s J=%s V=%s A=%s X=%s fg=%s sh=%d",
		d.Epoch, d.State.String(), d.Threshold, d.Timeout.Unix(), d.SchemeID, d.GenesisTime.Unix(), hx(d.GenesisSeed),
		int64(d.CatchupPeriod.Seconds()), int64(d.BeaconPeriod.Seconds()), s.idxOf(d.Leader), s.showParts(d.Remaining),
		s.showParts(d.Joining), s.showParts(d.Leaving), s.showParts(d.Acceptors), s.showParts(d.Rejectors), fg, sh)
}

func (s *dkgsm) reply(class string) string {
	cur, fin, err := s.proc.VerifStates(s.bid)
	if err != nil {
		return class + " | store-error:" + err.Error()
	}
	c := "nil"
	// GetCurrent fabricates a fresh state when the bucket is empty: show that as nil like the model's Option
	if !(cur.State == dkg.Fresh && cur.Epoch == 0 && cur.Leader == nil) {
		c = s.showState(cur)
	}
	return class + " | " + c + " | " + s.showState(fin)
}

func (s *dkgsm) idxs(tok string) []*pdkg.Participant {
	if tok == "-" {
		return nil
	}
	var out []*pdkg.Participant
	for _, t := range strings.Split(tok, ",") {
		i, err := strconv.Atoi(t)
		if err != nil || s.parts[i] == nil {
			panic("bad participant index " + t)
		}
		out = append(out, s.parts[i].p)
	}
	return out
}

func (s *dkgsm) terms(tok string) *pdkg.ProposalTerms {
	f := strings.Split(tok, ":")
	if len(f) != 14 || f[0] != "T" {
		panic("bad terms " + tok)
	}
	u := func(x string) uint32 { v, _ := strconv.ParseUint(x, 10, 32); return uint32(v) }
	i64 := func(x string) int64 { v, _ := strconv.ParseInt(x, 10, 64); return v }
	ld, _ := strconv.Atoi(f[10])
	return &pdkg.ProposalTerms{
		BeaconID: f[1], Epoch: u(f[2]), Threshold: u(f[3]), Timeout: timestamppb.New(time.Unix(i64(f[4]), 0)),
		SchemeID: f[5], GenesisTime: timestamppb.New(time.Unix(i64(f[6]), 0)), GenesisSeed: unhx(f[7]),
		CatchupPeriodSeconds: u(f[8]), BeaconPeriodSeconds: u(f[9]), Leader: s.parts[ld].p,
		Joining: s.idxs(f[11]), Remaining: s.idxs(f[12]), Leaving: s.idxs(f[13]),
	}
}

func (s *dkgsm) packet(tok string) *pdkg.GossipPacket {
	f := strings.SplitN(tok, "/", 2)
	switch f[0] {
	case "proposal":
		return &pdkg.GossipPacket{Packet: &pdkg.GossipPacket_Proposal{Proposal: s.terms(f[1])}}
	case "accept":
		i, _ := strconv.Atoi(f[1])
		return &pdkg.GossipPacket{Packet: &pdkg.GossipPacket_Accept{Accept: &pdkg.AcceptProposal{Acceptor: s.parts[i].p}}}
	case "reject":
		i, _ := strconv.Atoi(f[1])
		return &pdkg.GossipPacket{Packet: &pdkg.GossipPacket_Reject{Reject: &pdkg.RejectProposal{Rejector: s.parts[i].p}}}
	case "execute":
		t, _ := strconv.ParseInt(f[1], 10, 64)
		return &pdkg.GossipPacket{Packet: &pdkg.GossipPacket_Execute{Execute: &pdkg.StartExecution{Time: timestamppb.New(time.Unix(t, 0))}}}
	case "abort":
		return &pdkg.GossipPacket{Packet: &pdkg.GossipPacket_Abort{Abort: &pdkg.AbortDKG{Reason: f[1]}}}
	}
	panic("bad packet " + tok)
}

// group builds a well-formed key.Group / key.Share for G:<tag>:<genesis>:<seed>:<nodes>
func (s *dkgsm) group(tok string) (*key.Group, *key.Share) {
	if tok == "-" {
		return nil, nil
	}
	f := strings.Split(tok, ":")
	tag, _ := strconv.ParseInt(f[1], 10, 64)
	gen, _ := strconv.ParseInt(f[2], 10, 64)
	var nodes []*key.Node
	for i, p := range s.idxs(f[4]) {
		pt := s.sch.KeyGroup.Point()
		if err := pt.UnmarshalBinary(p.Key); err != nil {
			panic("group with undecodable key")
		}
		nodes = append(nodes, &key.Node{Index: uint32(i), Identity: &key.Identity{Key: pt, Addr: p.Address, Signature: p.Signature, Scheme: s.sch}})
	}
	thr := key.MinimumT(len(nodes))
	coeffs := make([]kyber.Point, thr)
	for i := range coeffs {
		coeffs[i] = s.sch.KeyGroup.Point().Pick(random.New())
	}
	g := &key.Group{Threshold: thr, Period: 30 * time.Second, CatchupPeriod: time.Second, Scheme: s.sch, ID: s.bid,
		Nodes: nodes, GenesisTime: gen, GenesisSeed: unhx(f[3]), TransitionTime: tag, PublicKey: &key.DistPublic{Coefficients: coeffs}}
	sh := &key.Share{Scheme: s.sch, DistKeyShare: kdkg.DistKeyShare{Commits: coeffs,
		Share: &share.PriShare{I: 0, V: s.sch.KeyGroup.Scalar().Pick(random.New())}}}
	return g, sh
}

func (s *dkgsm) buildCmd(f []string) (*pdkg.DKGCommand, bool) {
	md := &pdkg.CommandMetadata{BeaconID: s.bid}
	u := func(x string) uint32 { v, _ := strconv.ParseUint(x, 10, 32); return uint32(v) }
	i64 := func(x string) int64 { v, _ := strconv.ParseInt(x, 10, 64); return v }
	switch f[1] {
	case "initial":
		o := strings.Split(f[2], ":")
		return &pdkg.DKGCommand{Metadata: md, Command: &pdkg.DKGCommand_Initial{Initial: &pdkg.FirstProposalOptions{
			Threshold: u(o[1]), Timeout: timestamppb.New(time.Unix(i64(o[2]), 0)), GenesisTime: timestamppb.New(time.Unix(i64(o[3]), 0)),
			Scheme: o[4], CatchupPeriodSeconds: u(o[5]), PeriodSeconds: u(o[6]), Joining: s.idxs(o[7])}}}, false
	case "resharing":
		o := strings.Split(f[2], ":")
		return &pdkg.DKGCommand{Metadata: md, Command: &pdkg.DKGCommand_Resharing{Resharing: &pdkg.ProposalOptions{
			Threshold: u(o[1]), Timeout: timestamppb.New(time.Unix(i64(o[2]), 0)), CatchupPeriodSeconds: u(o[3]),
			Joining: s.idxs(o[4]), Remaining: s.idxs(o[5]), Leaving: s.idxs(o[6])}}}, false
	case "join":
		jo := &pdkg.JoinOptions{}
		if g, _ := s.group(f[2]); g != nil {
			var buf bytes.Buffer
			if err := toml.NewEncoder(&buf).Encode(g.TOML()); err != nil {
				panic(err)
			}
			jo.GroupFile = buf.Bytes()
		}
		return &pdkg.DKGCommand{Metadata: md, Command: &pdkg.DKGCommand_Join{Join: jo}}, false
	case "accept":
		return &pdkg.DKGCommand{Metadata: md, Command: &pdkg.DKGCommand_Accept{Accept: &pdkg.AcceptOptions{}}}, false
	case "reject":
		return &pdkg.DKGCommand{Metadata: md, Command: &pdkg.DKGCommand_Reject{Reject: &pdkg.RejectOptions{}}}, false
	case "execute":
		return &pdkg.DKGCommand{Metadata: md, Command: &pdkg.DKGCommand_Execute{Execute: &pdkg.ExecutionOptions{}}}, true
	case "abort":
		return &pdkg.DKGCommand{Metadata: md, Command: &pdkg.DKGCommand_Abort{Abort: &pdkg.AbortOptions{}}}, false
	}
	return nil, false
}

// buildPkt makes the packet of a `pkt` line and signs it the way an honest sender holding <signedTerms> does: over
// messageForSigning(beacon id, packet, termsFromState(state holding those terms)). f[4] (the signature id) is filled in.
func (s *dkgsm) buildPkt(f []string) (*pdkg.GossipPacket, bool) {
	sent := s.packet(f[1])
	sender, _ := strconv.Atoi(f[3])
	keyIdx, _ := strconv.Atoi(f[5])
	signedPkt := s.packet(f[7])
	signedTerms := s.terms(f[8])
	msg := dkg.VerifMessageForSigning(f[6], signedPkt, dkg.VerifTermsAsSigned(signedTerms))
	kp := s.parts[keyIdx].pair
	sig, err := kp.Scheme().AuthScheme.Sign(kp.Key, msg)
	if err != nil {
		panic(err)
	}
	sigid := f[4]
	if sigid == "?" {
		sigid = hex.EncodeToString(sig)
	} else if strings.HasPrefix(sigid, "short") {
		sig = []byte{1, 2, 3}
		sigid = hex.EncodeToString(sig)
	}
	f[4] = sigid
	sent.Metadata = &pdkg.GossipMetadata{BeaconID: f[2], Address: s.parts[sender].p.Address, Signature: sig}
	_, isExec := sent.Packet.(*pdkg.GossipPacket_Execute)
	return sent, isExec
}

var reRel = regexp.MustCompile(`@([+-]\d+)`)

func dkgsmEngine(_ []string, in *bufio.Scanner, out *bufio.Writer) {
	s := &dkgsm{parts: map[int]*dkgPart{}, now: time.Now().Unix()}
	cleanup := func() {
		if s.proc != nil {
			s.proc.Close()
			s.proc = nil
		}
		if s.dir != "" {
			os.RemoveAll(s.dir)
			s.dir = ""
		}
	}
	defer cleanup()
	ctx := context.Background()
	for in.Scan() {
		line := reRel.ReplaceAllStringFunc(in.Text(), func(m string) string {
			d, _ := strconv.ParseInt(m[1:], 10, 64)
			return strconv.FormatInt(s.now+d, 10)
		})
		f := fields(line)
		if len(f) == 0 {
			continue
		}
		mop := line
		res := safely(func() (r string) {
			// a Go panic inside the process under test is an outcome of its own; the stores are still readable
			defer func() {
				if e := recover(); e != nil && s.proc != nil {
					r = s.reply("err:panic")
				} else if e != nil {
					panic(e)
				}
			}()
			switch f[0] {
			case "now":
				s.now = time.Now().Unix()
				mop = fmt.Sprintf("now %d", s.now)
				return "ok"
			case "mkpart": // mkpart <i> <port> <scheme> <good|badsig|badkey|clone:<j>>
				i, _ := strconv.Atoi(f[1])
				sch := mustScheme(f[3])
				addr := "127.0.0.1:" + f[2]
				kind := f[4]
				if strings.HasPrefix(kind, "clone:") {
					j, _ := strconv.Atoi(kind[6:])
					addr = s.parts[j].p.Address
				}
				if strings.HasPrefix(kind, "embed:") { // embed:<j>:<role>:<k>: j's address and key; signature = j's signature followed by
					// the framing messageForSigning writes before participant k in list <role>, and k's signature
					e := strings.Split(kind, ":")
					j, _ := strconv.Atoi(e[1])
					k, _ := strconv.Atoi(e[3])
					pj, pk := s.parts[j], s.parts[k]
					sig := append([]byte{}, pj.p.Signature...)
					sig = append(sig, []byte("\n"+e[2]+":"+pk.p.Address+"\nSig:")...)
					sig = append(sig, pk.p.Signature...)
					p := &pdkg.Participant{Address: pj.p.Address, Key: append([]byte{}, pj.p.Key...), Signature: sig}
					s.parts[i] = &dkgPart{p: p, pair: pj.pair, ok: false, kok: true}
					mop = fmt.Sprintf("P %d %s %s %s %d %d %s", i, p.Address, hx(p.Key), hx(p.Signature), 0, 1, f[3])
					return "ok"
				}
				if strings.HasPrefix(kind, "keyswap:") { // address and self-signature of j, somebody else's key
					j, _ := strconv.Atoi(kind[8:])
					addr = s.parts[j].p.Address
				}
				pair, err := key.NewKeyPair(addr, sch)
				if err != nil {
					panic(err)
				}
				p, _ := util.PublicKeyAsParticipant(pair.Public)
				part := &dkgPart{p: p, pair: pair, ok: true, kok: true}
				if strings.HasPrefix(kind, "keyswap:") {
					j, _ := strconv.Atoi(kind[8:])
					p.Signature = append([]byte{}, s.parts[j].p.Signature...)
					part.ok = false
				}
				switch kind {
				case "badsig":
					p.Signature = append([]byte{}, p.Signature...)
					p.Signature[len(p.Signature)-1] ^= 1
					part.ok = false
				case "badkey":
					p.Key = []byte{1, 2, 3}
					part.ok, part.kok = false, false
				}
				s.parts[i] = part
				b2i := map[bool]int{false: 0, true: 1}
				mop = fmt.Sprintf("P %d %s %s %s %d %d %s", i, p.Address, hx(p.Key), hx(p.Signature), b2i[part.ok], b2i[part.kok], f[3])
				return "ok"
			case "reset": // reset <beaconID> <me> <scheme>
				cleanup()
				s.bid = f[1]
				s.me, _ = strconv.Atoi(f[2])
				s.sch = mustScheme(f[3])
				s.dir = tmpDir()
				st, err := dkg.NewDKGStore(s.dir)
				if err != nil {
					panic(err)
				}
				s.gate = &dkgGatedStore{Store: st}
				s.proc = dkg.NewDKGProcess(s.gate, fixedIdentity{s.parts[s.me].pair}, util.NewFanOutChan[dkg.SharingOutput](), nopDKGClient{}, nil,
					dkg.Config{Timeout: time.Hour, TimeBetweenDKGPhases: time.Hour, KickoffGracePeriod: 1000 * time.Hour}, quietLogger())
				mop = fmt.Sprintf("reset %s %d", s.bid, s.me)
				return "ok"
			case "cmd":
				c, isExec := s.buildCmd(f)
				if c == nil {
					return "bad-op"
				}
				_, err := s.proc.Command(ctx, c)
				return s.reply(classifyDKGErr(err, isExec))
			case "pkt": // pkt <sent> <metaBeaconID> <senderIdx> <sigid|?> <keyIdx> <signedBeaconID> <signedPkt> <signedTerms>
				sent, isExec := s.buildPkt(f)
				mop = strings.Join(f, " ")
				_, err := s.proc.Packet(ctx, sent)
				return s.reply(classifyDKGErr(err, isExec))
			case "gate": // gate <cmd …> | <pkt …>: the packet is served while the command sits between its read of the stored state and what follows
				cut := -1
				for k, t := range f {
					if t == "|" {
						cut = k
					}
				}
				if cut < 2 || f[1] != "cmd" || cut+1 >= len(f) || f[cut+1] != "pkt" {
					return "bad-op"
				}
				cf, pf := append([]string{}, f[1:cut]...), append([]string{}, f[cut+1:]...)
				c, cExec := s.buildCmd(cf)
				if c == nil {
					return "bad-op"
				}
				sent, pExec := s.buildPkt(pf)
				var pktErr error
				pktDone := make(chan struct{})
				inWindow := false
				s.gate.mu.Lock()
				s.gate.saves = nil
				s.gate.armed = true
				s.gate.hook = func() {
					go func() {
						defer close(pktDone)
						defer func() {
							if e := recover(); e != nil {
								pktErr = fmt.Errorf("panic: %v", e)
							}
						}()
						_, pktErr = s.proc.Packet(ctx, sent)
					}()
					select {
					case <-pktDone:
						inWindow = true // the packet was served although the command had already read the state
					case <-time.After(250 * time.Millisecond):
					}
				}
				s.gate.mu.Unlock()
				_, cmdErr := s.proc.Command(ctx, c)
				s.gate.mu.Lock()
				untouched := s.gate.armed
				s.gate.armed = false
				s.gate.mu.Unlock()
				if untouched { // the command never read the state: serve the packet now
					func() {
						defer close(pktDone)
						_, pktErr = s.proc.Packet(ctx, sent)
					}()
				}
				select {
				case <-pktDone:
				case <-time.After(10 * time.Second):
					return "err:other:gated packet never returned"
				}
				cc, pc := classifyDKGErr(cmdErr, cExec), classifyDKGErr(pktErr, pExec)
				if pktErr != nil && strings.HasPrefix(pktErr.Error(), "panic:") {
					pc = "err:panic"
				}
				s.gate.mu.Lock()
				saves := strings.Join(s.gate.saves, ",")
				s.gate.mu.Unlock()
				if saves == "" {
					saves = "-"
				}
				cm, pm := strings.Join(cf, " "), strings.Join(pf, " ")
				if inWindow {
					mop = "seq " + pm + " ;; " + cm
					return s.reply(pc + " ;; " + cc + " ;; saves=" + saves)
				}
				mop = "seq " + cm + " ;; " + pm
				return s.reply(cc + " ;; " + pc + " ;; saves=" + saves)
			case "replay": // resend the previous packet unchanged is expressed by python as the same pkt line with the same sigid
				return "bad-op"
			case "complete":
				g, sh := s.group(f[1])
				if f[2] != "1" {
					sh = nil
				}
				return s.reply(classifyDKGErr(s.proc.VerifComplete(s.bid, g, sh), false))
			case "fail":
				return s.reply(classifyDKGErr(s.proc.VerifFail(s.bid), false))
			case "dump":
				return s.reply("ok")
			}
			return "bad-op"
		})
		fmt.Fprintf(out, "M\t%s\t%s\n", mop, res)
		out.Flush()
	}
}
