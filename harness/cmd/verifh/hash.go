//go:build verif

package main

import (
	"bufio"
	"bytes"
	"encoding/json"
	"fmt"
	"strconv"
	"strings"
	"time"

	"github.com/BurntSushi/toml"
	"google.golang.org/protobuf/proto"

	"github.com/drand/drand/v2/common"
	"github.com/drand/drand/v2/common/chain"
	"github.com/drand/drand/v2/common/key"
	"github.com/drand/drand/v2/crypto"
	pdrand "github.com/drand/drand/v2/protobuf/drand"
	"github.com/drand/kyber"
	"github.com/drand/kyber/util/random"
)

func init() { engines["hash"] = hashEngine }

func mustScheme(name string) *crypto.Scheme {
	s, err := crypto.SchemeFromName(name)
	if err != nil {
		panic(err)
	}
	return s
}

func pointBytes(p kyber.Point) []byte {
	b, err := p.MarshalBinary()
	if err != nil {
		panic(err)
	}
	return b
}

func copyGroup(g *key.Group) *key.Group {
	c := *g
	c.Nodes = make([]*key.Node, len(g.Nodes))
	for i, n := range g.Nodes {
		id := *n.Identity
		c.Nodes[i] = &key.Node{Identity: &id, Index: n.Index}
	}
	if g.GenesisSeed != nil {
		c.GenesisSeed = append([]byte{}, g.GenesisSeed...)
	}
	if g.PublicKey != nil {
		c.PublicKey = &key.DistPublic{Coefficients: append([]kyber.Point{}, g.PublicKey.Coefficients...)}
	}
	return &c
}

func genGroup(r *rng, sch *crypto.Scheme, n int) *key.Group {
	nodes := make([]*key.Node, n)
	used := map[uint32]bool{}
	for i := 0; i < n; i++ {
		p, err := key.NewKeyPair(fmt.Sprintf("127.0.0.1:%d", 8000+i), sch)
		if err != nil {
			panic(err)
		}
		idx := uint32(i)
		if r.below(3) == 0 { // sparse indices as after resharing
			for {
				idx = uint32(r.below(40))
				if !used[idx] {
					break
				}
			}
		}
		for used[idx] {
			idx++
		}
		used[idx] = true
		nodes[i] = &key.Node{Identity: p.Public, Index: idx}
	}
	// list order is arbitrary
	for i := n - 1; i > 0; i-- {
		j := r.below(i + 1)
		nodes[i], nodes[j] = nodes[j], nodes[i]
	}
	thr := key.MinimumT(n) + r.below(n-key.MinimumT(n)+1)
	g := &key.Group{
		Threshold:     thr,
		Period:        time.Duration(1+r.below(120)) * time.Second,
		CatchupPeriod: time.Duration(r.below(10)) * time.Second,
		Scheme:        sch,
		Nodes:         nodes,
		GenesisTime:   int64(1500000000 + r.below(400000000)),
	}
	switch r.below(4) {
	case 0:
		g.ID = ""
	case 1:
		g.ID = "default"
	default:
		g.ID = "chain-" + strconv.Itoa(r.below(1000))
	}
	if r.below(2) == 0 {
		g.TransitionTime = g.GenesisTime + int64(r.below(100000))
	}
	if r.below(5) != 0 {
		coeffs := make([]kyber.Point, thr)
		for i := range coeffs {
			coeffs[i] = sch.KeyGroup.Point().Pick(random.New())
		}
		g.PublicKey = &key.DistPublic{Coefficients: coeffs}
	}
	if r.below(4) != 0 {
		g.GenesisSeed = r.bytes(32)
	}
	return g
}

func groupOp(g *key.Group) string {
	coeffs := "nil"
	if g.PublicKey != nil {
		var cs []string
		for _, c := range g.PublicKey.Coefficients {
			cs = append(cs, hx(pointBytes(c)))
		}
		coeffs = strings.Join(cs, ",")
		if len(cs) == 0 {
			coeffs = "-"
		}
	}
	var ns []string
	for _, n := range g.Nodes {
		ns = append(ns, fmt.Sprintf("%d:%s", n.Index, hx(pointBytes(n.Key))))
	}
	nodes := strings.Join(ns, ",")
	if len(ns) == 0 {
		nodes = "-"
	}
	return fmt.Sprintf("group %d %d %d %s %s %s", uint32(g.Threshold), g.GenesisTime, g.TransitionTime, hx([]byte(g.ID)), coeffs, nodes)
}

func chainOp(i *chain.Info) string {
	return fmt.Sprintf("chain %d %d %s %s %s", uint32(i.Period.Seconds()), i.GenesisTime, hx(pointBytes(i.PublicKey)), hx(i.GenesisSeed), hx([]byte(i.ID)))
}

func tomlRoundTripGroup(g *key.Group) (*key.Group, error) {
	var buf bytes.Buffer
	if err := toml.NewEncoder(&buf).Encode(g.TOML()); err != nil {
		return nil, err
	}
	gt := &key.GroupTOML{}
	if _, err := toml.Decode(buf.String(), gt); err != nil {
		return nil, err
	}
	out := new(key.Group)
	if err := out.FromTOML(gt); err != nil {
		return nil, err
	}
	return out, nil
}

func protoRoundTripGroup(g *key.Group) (*key.Group, error) {
	pb := g.ToProto(common.GetAppVersion())
	raw, err := proto.Marshal(pb)
	if err != nil {
		return nil, err
	}
	back := new(pdrand.GroupPacket)
	if err := proto.Unmarshal(raw, back); err != nil {
		return nil, err
	}
	return key.GroupFromProto(back, nil)
}

// hash <seed> <cases-per-scheme>: generator mode, nothing is read from stdin.
func hashEngine(args []string, _ *bufio.Scanner, out *bufio.Writer) {
	seed, _ := strconv.ParseUint(args[0], 10, 64)
	count, _ := strconv.Atoi(args[1])
	r := &rng{s: seed}
	emit := func(kind, cs, label, val string) { fmt.Fprintf(out, "%s\t%s\t%s\t%s\n", kind, cs, label, val) }
	for si, schName := range crypto.ListSchemes() {
		sch := mustScheme(schName)
		for c := 0; c < count; c++ {
			cs := fmt.Sprintf("%s/%d", schName, c)
			n := 1 + r.below(6)
			if c == 0 {
				n = 1 + si // make sure sizes 1..5 all occur
			}
			g := genGroup(r, sch, n)
			func() {
				defer func() {
					if e := recover(); e != nil {
						emit("PANIC", cs, "hash-engine", strings.ReplaceAll(fmt.Sprint(e), "\n", " "))
					}
				}()
				// ---------- group hash ----------
				base := hx(copyGroup(g).Hash())
				emit("M", cs+"/group", groupOp(g), "blake2b256:"+base)
				sh := copyGroup(g)
				for i := len(sh.Nodes) - 1; i > 0; i-- {
					j := r.below(i + 1)
					sh.Nodes[i], sh.Nodes[j] = sh.Nodes[j], sh.Nodes[i]
				}
				emit("EQ", cs+"/group", "nodes-permuted", hx(sh.Hash()))
				if t, err := tomlRoundTripGroup(copyGroup(g)); err != nil {
					emit("ERR", cs+"/group", "toml", err.Error())
				} else {
					emit("EQ", cs+"/group", "toml-roundtrip", hx(t.Hash()))
				}
				if t, err := protoRoundTripGroup(copyGroup(g)); err != nil {
					emit("ERR", cs+"/group", "proto", err.Error())
				} else {
					emit("EQ", cs+"/group", "proto-roundtrip", hx(t.Hash()))
				}
				alt := copyGroup(g)
				if common.IsDefaultBeaconID(g.ID) {
					if g.ID == "" {
						alt.ID = "default"
					} else {
						alt.ID = ""
					}
					emit("EQ", cs+"/group", "id-default-vs-empty", hx(alt.Hash()))
				}
				pert := func(label string, f func(x *key.Group)) {
					x := copyGroup(g)
					f(x)
					emit("NE", cs+"/group", label, hx(x.Hash()))
					emit("M", cs+"/group/"+label, groupOp(x), "blake2b256:"+hx(copyGroup(x).Hash()))
				}
				other, _ := key.NewKeyPair("127.0.0.1:9999", sch)
				pert("member-key", func(x *key.Group) { x.Nodes[r.below(len(x.Nodes))].Identity.Key = other.Public.Key })
				pert("member-index", func(x *key.Group) { x.Nodes[r.below(len(x.Nodes))].Index = 1000 + uint32(r.below(1000)) })
				pert("threshold", func(x *key.Group) { x.Threshold++ })
				pert("genesis-time", func(x *key.Group) { x.GenesisTime++ })
				pert("transition-time", func(x *key.Group) {
					if x.TransitionTime == 0 {
						x.TransitionTime = x.GenesisTime + 5
					} else if r.below(2) == 0 {
						x.TransitionTime = 0
					} else {
						x.TransitionTime++
					}
				})
				pert("beacon-id", func(x *key.Group) { x.ID = x.ID + "x" })
				pert("public-key", func(x *key.Group) {
					if x.PublicKey == nil {
						x.PublicKey = &key.DistPublic{Coefficients: []kyber.Point{sch.KeyGroup.Point().Pick(random.New())}}
					} else if r.below(3) == 0 {
						x.PublicKey = nil
					} else {
						i := r.below(len(x.PublicKey.Coefficients))
						x.PublicKey.Coefficients[i] = sch.KeyGroup.Point().Pick(random.New())
					}
				})
				// ---------- chain hash ----------
				if g.PublicKey == nil {
					return
				}
				info := chain.NewChainInfo(copyGroup(g))
				cbase := hx(info.Hash())
				emit("M", cs+"/chain", chainOp(info), "sha256:"+cbase)
				// encoding paths
				if t, err := tomlRoundTripGroup(copyGroup(g)); err == nil {
					emit("EQ", cs+"/chain", "group-file-path", hx(chain.NewChainInfo(t).Hash()))
				} else {
					emit("ERR", cs+"/chain", "toml", err.Error())
				}
				if t, err := protoRoundTripGroup(copyGroup(g)); err == nil {
					emit("EQ", cs+"/chain", "group-proto-path", hx(chain.NewChainInfo(t).Hash()))
				} else {
					emit("ERR", cs+"/chain", "group-proto", err.Error())
				}
				{
					raw, _ := proto.Marshal(info.ToProto(nil))
					back := new(pdrand.ChainInfoPacket)
					_ = proto.Unmarshal(raw, back)
					if t, err := chain.InfoFromProto(back); err == nil {
						emit("EQ", cs+"/chain", "info-proto-path", hx(t.Hash()))
						emit("EQ", cs+"/chain", "info-proto-embedded-hash", hx(back.Hash))
					} else {
						emit("ERR", cs+"/chain", "info-proto", err.Error())
					}
				}
				{
					raw, err := json.Marshal(info)
					if err != nil {
						emit("ERR", cs+"/chain", "json-marshal", err.Error())
					} else {
						t := new(chain.Info)
						if err := json.Unmarshal(raw, t); err == nil {
							emit("EQ", cs+"/chain", "info-json-path", hx(t.Hash()))
						} else {
							emit("ERR", cs+"/chain", "info-json", err.Error())
						}
						// embedded hash that does not match the fields must be rejected
						var m map[string]any
						_ = json.Unmarshal(raw, &m)
						for _, fld := range []string{"period", "genesis_time", "genesis_seed", "beacon_id", "chain_hash", "public_key"} {
							mm := map[string]any{}
							for k, v := range m {
								mm[k] = v
							}
							switch fld {
							case "period":
								mm[fld] = m[fld].(float64) + 1
							case "genesis_time":
								mm[fld] = m[fld].(float64) + 1
							case "genesis_seed":
								s := m[fld].(string)
								mm[fld] = flipHex(s)
							case "beacon_id":
								mm[fld] = m[fld].(string) + "y"
							case "chain_hash":
								mm[fld] = flipHex(m[fld].(string))
							case "public_key":
								mm[fld] = hx(pointBytes(sch.KeyGroup.Point().Pick(random.New())))
							}
							raw2, _ := json.Marshal(mm)
							t2 := new(chain.Info)
							if err := json.Unmarshal(raw2, t2); err != nil {
								emit("REJ", cs+"/chain", "json-tampered-"+fld, "rejected")
							} else {
								emit("REJ", cs+"/chain", "json-tampered-"+fld, "accepted")
							}
						}
					}
				}
				// the legacy (v1) JSON layout — schemeID / groupHash / metadata.beaconID — goes through the same decoder:
				// same hash, and an embedded chain_hash that does not match the fields must be rejected there too
				{
					legacy := map[string]any{
						"public_key":   hx(pointBytes(info.PublicKey)),
						"period":       uint64(info.Period.Seconds()),
						"genesis_time": info.GenesisTime,
						"schemeID":     info.Scheme,
						"groupHash":    hx(info.GenesisSeed),
						"metadata":     map[string]any{"beaconID": info.ID},
						"chain_hash":   info.HashString(),
					}
					if info.ID == "" {
						delete(legacy, "metadata")
					}
					raw, _ := json.Marshal(legacy)
					t := new(chain.Info)
					if err := json.Unmarshal(raw, t); err == nil {
						emit("EQ", cs+"/chain", "info-json-legacy-path", hx(t.Hash()))
					} else {
						emit("ERR", cs+"/chain", "info-json-legacy", err.Error())
					}
					for _, fld := range []string{"period", "genesis_time", "groupHash", "chain_hash", "public_key"} {
						mm := map[string]any{}
						for k, v := range legacy {
							mm[k] = v
						}
						switch fld {
						case "period":
							mm[fld] = uint64(info.Period.Seconds()) + 1
						case "genesis_time":
							mm[fld] = info.GenesisTime + 1
						case "groupHash", "chain_hash":
							mm[fld] = flipHex(mm[fld].(string))
						case "public_key":
							mm[fld] = hx(pointBytes(sch.KeyGroup.Point().Pick(random.New())))
						}
						raw2, _ := json.Marshal(mm)
						if err := json.Unmarshal(raw2, new(chain.Info)); err != nil {
							emit("REJ", cs+"/chain", "json-legacy-tampered-"+fld, "rejected")
						} else {
							emit("REJ", cs+"/chain", "json-legacy-tampered-"+fld, "accepted")
						}
					}
				}
				if common.IsDefaultBeaconID(g.ID) {
					emit("EQ", cs+"/chain", "id-default-vs-empty", hx(chain.NewChainInfo(alt).Hash()))
				}
				// membership changes must not change the chain hash (seed is pinned)
				if g.GenesisSeed != nil {
					for _, lbl := range []string{"member-key", "member-index", "threshold", "transition-time"} {
						x := copyGroup(g)
						switch lbl {
						case "member-key":
							x.Nodes[0].Identity.Key = other.Public.Key
						case "member-index":
							x.Nodes[0].Index += 77
						case "threshold":
							x.Threshold++
						case "transition-time":
							x.TransitionTime += 9
						}
						emit("EQ", cs+"/chain", "membership-"+lbl, hx(chain.NewChainInfo(x).Hash()))
					}
				}
				cpert := func(label string, f func(x *chain.Info)) {
					x := *info
					x.GenesisSeed = append([]byte{}, info.GenesisSeed...)
					f(&x)
					emit("NE", cs+"/chain", label, hx(x.Hash()))
					emit("M", cs+"/chain/"+label, chainOp(&x), "sha256:"+hx(x.Hash()))
				}
				cpert("period", func(x *chain.Info) { x.Period += time.Second })
				cpert("genesis-time", func(x *chain.Info) { x.GenesisTime-- })
				cpert("public-key", func(x *chain.Info) { x.PublicKey = sch.KeyGroup.Point().Pick(random.New()) })
				cpert("genesis-seed", func(x *chain.Info) { x.GenesisSeed[r.below(len(x.GenesisSeed))] ^= 1 << uint(r.below(8)) })
				cpert("beacon-id", func(x *chain.Info) { x.ID += "z" })
			}()
		}
	}
}

func flipHex(s string) string {
	if len(s) == 0 {
		return "00"
	}
	b := []byte(s)
	if b[0] == '0' {
		b[0] = '1'
	} else {
		b[0] = '0'
	}
	return string(b)
}
