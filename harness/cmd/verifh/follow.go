//go:build verif

package main

// Engine "follow" (C10): the real StartFollowChain of a real DrandDaemon, driven through its control port, against
// scripted gRPC peers on loopback (ChainInfo + SyncChain). One op = one fresh daemon.
//
//	follow <chained 0|1> <upTo> <wait ms> <name=script1/script2/…>…
//	→ <done|timeout|err:…> calls=<name@from,…> store=<round:sig,…>
//
// script k of a peer answers its k-th SyncChain call (the last one repeats). `timeout`: the follow request was still
// open after <wait ms>; the harness then cancels it (as an operator would) and reads the store.

import (
	"bufio"
	"context"
	"encoding/hex"
	"errors"
	"fmt"
	gnet "net"
	"os"
	"strconv"
	"strings"
	"sync"
	"time"

	"google.golang.org/grpc"

	public "github.com/drand/drand/v2/common/chain"
	"github.com/drand/drand/v2/common/key"
	"github.com/drand/drand/v2/internal/chain"
	"github.com/drand/drand/v2/internal/chain/boltdb"
	"github.com/drand/drand/v2/internal/core"
	"github.com/drand/drand/v2/internal/net"
	"github.com/drand/drand/v2/protobuf/drand"
)

func init() { engines["follow"] = followEngine }

type scriptedServer struct {
	drand.UnimplementedProtocolServer
	drand.UnimplementedPublicServer
	name    string
	scripts []string
	t       *truth
	info    *public.Info
	rec     *callRec
	n       int
}

type callRec struct {
	mu    sync.Mutex
	calls []string
}

func (s *scriptedServer) ChainInfo(context.Context, *drand.ChainInfoRequest) (*drand.ChainInfoPacket, error) {
	return s.info.ToProto(nil), nil
}

func (s *scriptedServer) SyncChain(req *drand.SyncRequest, stream drand.Protocol_SyncChainServer) error {
	s.rec.mu.Lock()
	k := s.n
	s.n++
	s.rec.calls = append(s.rec.calls, fmt.Sprintf("%s@%d", s.name, req.GetFromRound()))
	s.rec.mu.Unlock()
	script := "close"
	if len(s.scripts) > 0 {
		if k < len(s.scripts) {
			script = s.scripts[k]
		} else {
			script = s.scripts[len(s.scripts)-1]
		}
	}
	if script == "err" {
		return errors.New("verif: scripted refusal")
	}
	for _, it := range s.t.resolveScript(script, req.GetFromRound()) {
		switch {
		case it.close:
			return nil
		case it.stall:
			<-stream.Context().Done()
			return stream.Context().Err()
		default:
			if err := stream.Send(it.pkt); err != nil {
				return err
			}
		}
	}
	return nil
}

func freePort() string {
	l, err := gnet.Listen("tcp", "127.0.0.1:0")
	if err != nil {
		panic(err)
	}
	defer l.Close()
	return strconv.Itoa(l.Addr().(*gnet.TCPAddr).Port)
}

func runFollow(chained bool, upTo uint64, wait time.Duration, peerToks []string) string {
	key0 := fmt.Sprintf("%v/%d", chained, 34)
	t := truthCache[key0]
	if t == nil {
		t = newTruth(chained, 34)
		truthCache[key0] = t
	}
	info := &public.Info{PublicKey: t.pub, ID: syncBeaconID, Period: time.Second, Scheme: t.sch.Name,
		GenesisTime: time.Now().Unix() - 1_000_000, GenesisSeed: t.seed}
	rec := &callRec{}
	var servers []*grpc.Server
	var addrs []string
	defer func() {
		for _, s := range servers {
			s.Stop()
		}
	}()
	names, scripts := parsePeers(peerToks)
	for _, nm := range names {
		lis, err := gnet.Listen("tcp", "127.0.0.1:0")
		if err != nil {
			return "err:listen " + err.Error()
		}
		gs := grpc.NewServer()
		srv := &scriptedServer{name: nm, scripts: scripts[nm], t: t, info: info, rec: rec}
		drand.RegisterProtocolServer(gs, srv)
		drand.RegisterPublicServer(gs, srv)
		go gs.Serve(lis)
		servers = append(servers, gs)
		addrs = append(addrs, lis.Addr().String())
	}

	dir := tmpDir()
	defer os.RemoveAll(dir)
	privAddr := "127.0.0.1:" + freePort()
	ctrl := freePort()
	ks := key.NewFileStore(dir, syncBeaconID)
	pair, err := key.NewKeyPair(privAddr, t.sch)
	if err != nil {
		return "err:keypair " + err.Error()
	}
	if err := ks.SaveKeyPair(pair); err != nil {
		return "err:savekey " + err.Error()
	}
	lg := quietLogger()
	conf := core.NewConfig(lg, core.WithConfigFolder(dir), core.WithPrivateListenAddress(privAddr),
		core.WithControlPort(ctrl), core.WithDBStorageEngine(chain.BoltDB))
	ctx := context.Background()
	dd, err := core.NewDrandDaemon(ctx, conf)
	if err != nil {
		return "err:daemon " + err.Error()
	}
	stopped := false
	stop := func() {
		if !stopped {
			stopped = true
			dd.Stop(ctx)
			select {
			case <-dd.WaitExit():
			case <-time.After(8 * time.Second):
			}
		}
	}
	defer stop()
	if _, err := dd.InstantiateBeaconProcess(ctx, syncBeaconID, ks); err != nil {
		return "err:beaconprocess " + err.Error()
	}
	cc, err := net.NewControlClient(lg, ctrl)
	if err != nil {
		return "err:control " + err.Error()
	}
	fctx, cancel := context.WithCancel(ctx)
	defer cancel()
	outCh, errCh, err := cc.StartFollowChain(fctx, hex.EncodeToString(info.Hash()), addrs, upTo, syncBeaconID)
	if err != nil {
		return "err:follow " + err.Error()
	}
	res := ""
	timer := time.After(wait)
loop:
	for {
		select {
		case _, ok := <-outCh:
			if !ok {
				outCh = nil
			}
		case e := <-errCh:
			if e == nil || strings.Contains(e.Error(), "EOF") {
				res = "done"
			} else {
				res = "err:" + strings.ReplaceAll(e.Error(), " ", "_")
			}
			break loop
		case <-timer:
			res = "timeout"
			cancel()
			break loop
		}
	}
	// the follower's store is closed when StartFollowChain returns; give it a moment, then stop the daemon and read the file
	time.Sleep(150 * time.Millisecond)
	stop()
	rec.mu.Lock()
	calls := "-"
	if len(rec.calls) > 0 {
		calls = strings.Join(rec.calls, ",")
	}
	rec.mu.Unlock()
	store := "-"
	st, err := boltdb.NewBoltStore(ctx, lg, conf.DBFolder(syncBeaconID))
	if err == nil {
		var xs []string
		for r := uint64(0); r <= 40; r++ {
			b, err := st.Get(ctx, r)
			if err != nil {
				continue
			}
			xs = append(xs, fmt.Sprintf("%d:%s", b.Round, t.sym(b.Signature)))
		}
		st.Close()
		if len(xs) > 0 {
			store = strings.Join(xs, ",")
		}
	} else {
		store = "err"
	}
	return fmt.Sprintf("%s calls=%s store=%s", res, calls, store)
}

func followEngine(args []string, in *bufio.Scanner, out *bufio.Writer) {
	for in.Scan() {
		f := fields(in.Text())
		if len(f) == 0 {
			continue
		}
		res := safely(func() string {
			if f[0] != "follow" || len(f) < 5 {
				return "bad-op"
			}
			ms, _ := strconv.Atoi(f[3])
			return runFollow(f[1] == "1", parseU(f[2]), time.Duration(ms)*time.Millisecond, f[4:])
		})
		fmt.Fprintln(out, res)
		out.Flush()
	}
}
