//go:build verif

// verifh: the implementation side of the correspondence check. Overlaid into
// /repo/internal/verifh at build time (go build -overlay); /repo is not touched.
// Usage: verifh <engine> [args…]; reads one op per line on stdin, writes one result line per op.
package main

import (
	"bufio"
	"fmt"
	"os"
	"strings"
)

type engine func(args []string, in *bufio.Scanner, out *bufio.Writer)

var engines = map[string]engine{}

func main() {
	if len(os.Args) < 2 {
		fmt.Fprintln(os.Stderr, "usage: verifh <engine> [args]")
		os.Exit(2)
	}
	e, ok := engines[os.Args[1]]
	if !ok {
		fmt.Fprintln(os.Stderr, "unknown engine", os.Args[1])
		os.Exit(2)
	}
	in := bufio.NewScanner(os.Stdin)
	in.Buffer(make([]byte, 1<<20), 1<<26)
	// library code prints to os.Stdout (e.g. key.Save); keep the protocol stream clean
	realOut := os.Stdout
	if dn, err := os.OpenFile(os.DevNull, os.O_WRONLY, 0); err == nil {
		os.Stdout = dn
	}
	out := bufio.NewWriterSize(realOut, 1<<16)
	defer out.Flush()
	e(os.Args[2:], in, out)
}

// safely runs f and maps a panic to the outcome "panic".
func safely(f func() string) (res string) {
	defer func() {
		if r := recover(); r != nil {
			res = "panic:" + strings.ReplaceAll(fmt.Sprint(r), "\n", " ")
		}
	}()
	return f()
}

func fields(line string) []string { return strings.Fields(line) }

// splitmix64, same as vlib/core.py Rng
type rng struct{ s uint64 }

func (r *rng) next() uint64 {
	r.s += 0x9E3779B97F4A7C15
	z := r.s
	z = (z ^ (z >> 30)) * 0xBF58476D1CE4E5B9
	z = (z ^ (z >> 27)) * 0x94D049BB133111EB
	return z ^ (z >> 31)
}
func (r *rng) below(n int) int {
	if n <= 0 {
		return 0
	}
	return int(r.next() % uint64(n))
}
func (r *rng) bytes(n int) []byte {
	b := make([]byte, n)
	for i := range b {
		b[i] = byte(r.next())
	}
	return b
}
