//go:build verif

// verifh: the implementation side of the correspondence check. Overlaid into
// /repo/internal/verifh at build time (go build -overlay); /repo is not touched.
// Usage: verifh <engine> [args…]; reads one op per line on stdin, writes one result line per op.
package main

import (
	"bufio"
	"fmt"
	"os"
	"strings"
)

type engine func(args []string, in *bufio.Scanner, out *bufio.Writer)

var engines = map[string]engine{}

func main() {
	if len(os.Args) < 2 {
		fmt.Fprintln(os.Stderr, "usage: verifh <engine> [args]")
		os.Exit(2)
	}
	e, ok := engines[os.Args[1]]
	if !ok {
		fmt.Fprintln(os.Stderr, "unknown engine", os.Args[1])
		os.Exit(2)
	}
	in := bufio.NewScanner(os.Stdin)
	in.Buffer(make([]byte, 1<<20), 1<<26)
	out := bufio.NewWriterSize(os.Stdout, 1<<16)
	defer out.Flush()
	e(os.Args[2:], in, out)
}

// safely runs f and maps a panic to the outcome "panic".
func safely(f func() string) (res string) {
	defer func() {
		if r := recover(); r != nil {
			res = "panic:" + strings.ReplaceAll(fmt.Sprint(r), "\n", " ")
		}
	}()
	return f()
}

func fields(line string) []string { return strings.Fields(line) }
