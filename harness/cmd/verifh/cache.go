//go:build verif

package main

import (
	"bufio"
	"encoding/binary"
	"fmt"
	"sort"
	"strconv"
	"strings"

	"github.com/drand/drand/v2/crypto"
	"github.com/drand/drand/v2/internal/chain/beacon"
	"github.com/drand/drand/v2/protobuf/drand"
)

func init() { engines["cache"] = cacheEngine }

func natKey(n int) string { return fmt.Sprintf("%010d", n) }

// decode a roundID string (be64 round ‖ prev) back into "round:prevhex"
func showRoundID(id string) string {
	b := []byte(id)
	if len(b) < 8 {
		return "?"
	}
	return fmt.Sprintf("%d:%s", binary.BigEndian.Uint64(b[:8]), hx(b[8:]))
}

// ops: append <round> <prev> <psig> | flush <round> | len <round> <prev> | dump | sizes | reset
func cacheEngine(_ []string, in *bufio.Scanner, out *bufio.Writer) {
	sch := mustScheme(crypto.DefaultSchemeID)
	c := beacon.VerifNewPartialCache(quietLogger(), sch)
	known := map[string]bool{} // every (round, prev) ever appended, to enumerate round caches for dump
	for in.Scan() {
		f := fields(in.Text())
		if len(f) == 0 {
			continue
		}
		res := safely(func() string {
			switch f[0] {
			case "append":
				r, _ := strconv.ParseUint(f[1], 10, 64)
				p := &drand.PartialBeaconPacket{Round: r, PreviousSignature: unhx(f[2]), PartialSig: unhx(f[3])}
				known[beacon.VerifRoundID(r, unhx(f[2]))] = true
				err := c.Append(p)
				if err == nil {
					return "ok"
				}
				if strings.Contains(err.Error(), "evicted round missing") {
					return "err-evicted"
				}
				return "err-index"
			case "flush":
				r, _ := strconv.ParseUint(f[1], 10, 64)
				c.FlushRounds(r)
				return "ok"
			case "len":
				r, _ := strconv.ParseUint(f[1], 10, 64)
				return strconv.Itoa(c.RoundLen(r, unhx(f[2])))
			case "dump":
				var rs []string
				for id := range known {
					b := []byte(id)
					round := binary.BigEndian.Uint64(b[:8])
					prev := b[8:]
					if c.RoundLen(round, prev) < 0 {
						continue
					}
					var idxs []string
					for _, i := range c.RoundIndices(round, prev) {
						// the first bytes after the index prefix: which partial of that signer is cached (first / newest)
						sg := c.RoundSig(round, prev, i)
						tag := sg
						if len(tag) > 2 {
							tag = tag[2:]
						}
						if len(tag) > 4 {
							tag = tag[:4]
						}
						idxs = append(idxs, natKey(i)+"/"+hx(tag))
					}
					sort.Strings(idxs)
					rs = append(rs, natKey(int(round))+":"+hx(prev)+"="+strings.Join(idxs, ","))
				}
				sort.Strings(rs)
				if len(rs) != c.NumRounds() {
					return fmt.Sprintf("dump-mismatch %d %d", len(rs), c.NumRounds())
				}
				var rc []string
				for idx, l := range c.Rcvd() {
					var ids []string
					for _, id := range l {
						ids = append(ids, showRoundID(id))
					}
					rc = append(rc, natKey(idx)+"="+strings.Join(ids, ","))
				}
				sort.Strings(rc)
				return "R[" + strings.Join(rs, " ") + "] C[" + strings.Join(rc, " ") + "]"
			case "sizes":
				mx := 0
				for _, l := range c.Rcvd() {
					if len(l) > mx {
						mx = len(l)
					}
				}
				return fmt.Sprintf("%d %d", c.NumRounds(), mx)
			case "reset":
				c = beacon.VerifNewPartialCache(quietLogger(), sch)
				known = map[string]bool{}
				return "ok"
			}
			return "bad-op"
		})
		fmt.Fprintln(out, res)
	}
}
